package ros

// Demonstrations of the C18 findings F2, F3, F10 (see /verif/DESIGN.md section 4). Place in go/ros and run
//   go test -vet=off -count=1 -run TestVerifC18 .
// On the pinned tree each sub-test fails; on the repaired tree they pass.

import (
	"bytes"
	"context"
	"database/sql"
	"database/sql/driver"
	"encoding/binary"
	"errors"
	"io"
	"os"
	"os/exec"
	"strings"
	"testing"

	"github.com/foxglove/mcap/go/mcap"
)

func bagRecord(header []byte, data []byte) []byte {
	b := &bytes.Buffer{}
	_ = binary.Write(b, binary.LittleEndian, uint32(len(header)))
	b.Write(header)
	_ = binary.Write(b, binary.LittleEndian, uint32(len(data)))
	b.Write(data)
	return b.Bytes()
}

func hfield(kv string) []byte {
	b := &bytes.Buffer{}
	_ = binary.Write(b, binary.LittleEndian, uint32(len(kv)))
	b.WriteString(kv)
	return b.Bytes()
}

func convert(bag []byte) (err error) {
	return Bag2MCAP(io.Discard, bytes.NewReader(bag), &mcap.WriterOptions{})
}

func expectError(t *testing.T, name string, bag []byte) {
	t.Run(name, func(t *testing.T) {
		defer func() {
			if r := recover(); r != nil {
				t.Fatalf("panicked: %v", r)
			}
		}()
		if err := convert(bag); err == nil {
			t.Fatal("expected an error")
		} else {
			t.Logf("error (as it should be): %v", err)
		}
	})
}

type failAfter struct{ n int }

func (f *failAfter) Write(p []byte) (int, error) {
	if f.n < len(p) {
		return 0, errors.New("disk full")
	}
	f.n -= len(p)
	return len(p), nil
}

// --- a database/sql driver whose result set fails after the first row
type fdrv struct{}
type fconn struct{}
type frows struct {
	cols []string
	n    int
}

func (fdrv) Open(string) (driver.Conn, error) { return fconn{}, nil }
func (fconn) Prepare(string) (driver.Stmt, error) { return nil, errors.New("unsupported") }
func (fconn) Close() error                          { return nil }
func (fconn) Begin() (driver.Tx, error)             { return nil, errors.New("unsupported") }
func (fconn) QueryContext(_ context.Context, q string, _ []driver.NamedValue) (driver.Rows, error) {
	switch {
	case strings.Contains(q, "pragma_table_info"):
		return &frows{cols: []string{"c"}, n: -1}, nil
	case strings.Contains(q, "from topics"):
		return &frows{cols: []string{"id", "name", "type", "serialization_format"}}, nil
	}
	return &frows{cols: []string{"a", "b", "c"}}, nil
}
func (r *frows) Columns() []string { return r.cols }
func (r *frows) Close() error      { return nil }
func (r *frows) Next(dest []driver.Value) error {
	if r.n == -1 { // the count(*) row
		r.n = 1
		dest[0] = int64(0)
		return nil
	}
	if len(r.cols) == 1 {
		return io.EOF
	}
	return errors.New("database disk image is malformed")
}

func TestVerifC18(t *testing.T) {
	// F2: non-bag input must produce an error, not exit the process
	t.Run("F2-not-a-bag-exits-process", func(t *testing.T) {
		if os.Getenv("VERIF_C18_CHILD") == "1" {
			err := convert([]byte("this is not a bag at all....."))
			if err != nil {
				os.Exit(0)
			}
			os.Exit(3)
		}
		cmd := exec.Command(os.Args[0], "-test.run", "TestVerifC18/F2-not-a-bag-exits-process")
		cmd.Env = append(os.Environ(), "VERIF_C18_CHILD=1")
		out, err := cmd.CombinedOutput()
		if err != nil {
			t.Fatalf("child process terminated abnormally (%v): %s", err, out)
		}
	})
	magic := []byte("#ROSBAG V2.0\n")
	bag := func(recs ...[]byte) []byte {
		out := append([]byte{}, magic...)
		for _, r := range recs {
			out = append(out, r...)
		}
		return out
	}
	// F3: hostile header / field lengths and short values
	expectError(t, "F3-empty-op", bag(bagRecord(hfield("op="), nil)))
	expectError(t, "F3-field-length-exceeds-header", bag(bagRecord(append([]byte{0xff, 0xff, 0, 0}, []byte("op=\x03")...), nil)))
	expectError(t, "F3-short-conn", bag(bagRecord(append(hfield("op=\x07"), append(hfield("conn=\x01"), hfield("topic=/a")...)...), hfield("type=x"))))
	expectError(t, "F3-short-time", bag(bagRecord(append(hfield("op=\x02"), append(hfield("conn=\x01\x00\x00\x00"), hfield("time=\x01")...)...), []byte{1})))
	expectError(t, "F3-header-length-wrap", append(append([]byte{}, magic...), 0x00, 0x00, 0x00, 0x80, 1, 2, 3))
	t.Run("F3-connection-data-field-length", func(t *testing.T) {
		defer func() {
			if r := recover(); r != nil {
				t.Fatalf("panicked: %v", r)
			}
		}()
		_, err := headerToMap([]byte{0x40, 0, 0, 0, 'a', '=', 'b'})
		if err == nil {
			t.Fatal("expected an error")
		}
	})
	// F10a: a destination that fails while Close writes the summary
	t.Run("F10-close-error-dropped", func(t *testing.T) {
		conn := bagRecord(append(hfield("op=\x07"), append(hfield("conn=\x01\x00\x00\x00"), hfield("topic=/a")...)...),
			append(hfield("type=std_msgs/String"), append(hfield("md5sum=abc"), hfield("message_definition=string data")...)...))
		msg := bagRecord(append(hfield("op=\x02"), append(hfield("conn=\x01\x00\x00\x00"), hfield("time=\x01\x00\x00\x00\x02\x00\x00\x00")...)...), []byte("hello"))
		input := bag(conn, msg)
		full := &bytes.Buffer{}
		if err := Bag2MCAP(full, bytes.NewReader(input), &mcap.WriterOptions{}); err != nil {
			t.Fatal(err)
		}
		// accept everything except the last 40 bytes (footer + magic are written by Close)
		err := Bag2MCAP(&failAfter{n: full.Len() - 40}, bytes.NewReader(input), &mcap.WriterOptions{})
		if err == nil {
			t.Fatalf("destination failed during Close but the conversion returned nil (file would be %d bytes short)", 40)
		}
	})
	// F10b: a database that fails while iterating
	t.Run("F10-rows-err-dropped", func(t *testing.T) {
		sql.Register("verif-failing", fdrv{})
		db, err := sql.Open("verif-failing", "")
		if err != nil {
			t.Fatal(err)
		}
		err = DB3ToMCAP(io.Discard, db, &mcap.WriterOptions{}, nil)
		if err == nil {
			t.Fatal("database failed while listing topics, but the conversion returned nil")
		}
		t.Logf("error (as it should be): %v", err)
	})
}
