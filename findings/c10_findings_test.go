package mcap

// Demonstrations of the C10 findings F1a..F1h (see /verif/DESIGN.md section 4). Place in go/mcap and run
//   go test -vet=off -count=1 -run TestVerifC10 .
// On the pinned tree each sub-test fails (panic recovered and reported); on the repaired tree they pass.

import (
	"bytes"
	"encoding/binary"
	"errors"
	"io"
	"runtime"
	"testing"
)

func noPanic(t *testing.T, name string, f func() error) {
	t.Helper()
	t.Run(name, func(t *testing.T) {
		defer func() {
			if r := recover(); r != nil {
				t.Fatalf("panicked: %v", r)
			}
		}()
		err := f()
		if err == nil {
			t.Fatalf("expected an error for hostile input, got nil")
		}
		t.Logf("error (as it should be): %v", err)
	})
}

func chunkRecord(start, end, usize uint64, crc uint32, compression []byte, compLenField uint32, recordsLenField uint64, records []byte) []byte {
	body := &bytes.Buffer{}
	w := func(v any) { _ = binary.Write(body, binary.LittleEndian, v) }
	w(start)
	w(end)
	w(usize)
	w(crc)
	w(compLenField)
	body.Write(compression)
	w(recordsLenField)
	body.Write(records)
	out := &bytes.Buffer{}
	out.WriteByte(byte(OpChunk))
	_ = binary.Write(out, binary.LittleEndian, uint64(body.Len()))
	out.Write(body.Bytes())
	return out.Bytes()
}

func lexAll(data []byte, opts *LexerOptions) error {
	l, err := NewLexer(bytes.NewReader(data), opts)
	if err != nil {
		return err
	}
	for {
		_, _, err := l.Next(nil)
		if err != nil {
			if errors.Is(err, io.EOF) {
				return nil
			}
			return err
		}
	}
}

func validIndexedFile(t *testing.T) []byte {
	buf := &bytes.Buffer{}
	w, err := NewWriter(buf, &WriterOptions{Chunked: true, ChunkSize: 64, Compression: CompressionNone, IncludeCRC: true})
	if err != nil {
		t.Fatal(err)
	}
	must := func(err error) {
		if err != nil {
			t.Fatal(err)
		}
	}
	must(w.WriteHeader(&Header{}))
	must(w.WriteSchema(&Schema{ID: 1, Name: "s", Encoding: "e", Data: []byte("x")}))
	must(w.WriteChannel(&Channel{ID: 1, SchemaID: 1, Topic: "/t", MessageEncoding: "m"}))
	for i := 0; i < 4; i++ {
		must(w.WriteMessage(&Message{ChannelID: 1, LogTime: uint64(10 + i), Data: make([]byte, 40)}))
	}
	must(w.WriteMetadata(&Metadata{Name: "md", Metadata: map[string]string{"a": "b"}}))
	must(w.Close())
	return buf.Bytes()
}

func readIndexed(data []byte, opts ...ReadOpt) error {
	r, err := NewReader(bytes.NewReader(data))
	if err != nil {
		return err
	}
	it, err := r.Messages(opts...)
	if err != nil {
		return err
	}
	for {
		_, _, _, err := it.NextInto(nil)
		if err != nil {
			if errors.Is(err, io.EOF) {
				return nil
			}
			return err
		}
	}
}

// patchU64 overwrites the first occurrence of old (as little-endian u64) after position from.
func patchU64(data []byte, from int, old, new uint64) []byte {
	o := make([]byte, 8)
	binary.LittleEndian.PutUint64(o, old)
	i := bytes.Index(data[from:], o)
	if i < 0 {
		panic("pattern not found")
	}
	out := append([]byte{}, data...)
	binary.LittleEndian.PutUint64(out[from+i:], new)
	return out
}

func TestVerifC10(t *testing.T) {
	hdr := append(append([]byte{}, Magic...), []byte{byte(OpHeader), 8, 0, 0, 0, 0, 0, 0, 0, 0, 0, 0, 0, 0, 0, 0, 0}...)

	// F1a: compression string longer than the 32-byte scratch buffer
	long := bytes.Repeat([]byte("z"), 100)
	noPanic(t, "F1a-long-compression-string", func() error {
		return lexAll(append(append([]byte{}, hdr...), chunkRecord(0, 0, 0, 0, long, 100, 0, nil)...), &LexerOptions{})
	})
	// F1b: uncompressed size >= 2^63 wraps when doubled
	noPanic(t, "F1b-uncompressed-size-wrap", func() error {
		return lexAll(append(append([]byte{}, hdr...), chunkRecord(0, 0, 1<<63+8, 0, nil, 0, 4, []byte{1, 2, 3, 4})...), &LexerOptions{ValidateChunkCRCs: true})
	})
	// F1c: ParseChunk with a records length larger than the record
	noPanic(t, "F1c-parsechunk-records-length", func() error {
		rec := chunkRecord(0, 0, 4, 0, nil, 0, 1000, []byte{1, 2, 3, 4})
		_, err := ParseChunk(rec[9:])
		return err
	})

	file := validIndexedFile(t)
	r, err := NewReader(bytes.NewReader(file))
	if err != nil {
		t.Fatal(err)
	}
	info, err := r.Info()
	if err != nil {
		t.Fatal(err)
	}
	ci := info.ChunkIndexes[0]
	summaryStart := int(info.Footer.SummaryStart)
	// F1d: hostile ChunkLength in a chunk index (too small for the record header / absurdly large)
	noPanic(t, "F1d-chunk-length-small", func() error {
		return readIndexed(patchU64(file, summaryStart, ci.ChunkLength, 5), InOrder(LogTimeOrder))
	})
	noPanic(t, "F1d-chunk-length-huge", func() error {
		return readIndexed(patchU64(file, summaryStart, ci.ChunkLength, 1<<62), InOrder(LogTimeOrder))
	})
	// F1e: hostile uncompressed size in the chunk header, read through the index
	noPanic(t, "F1e-chunk-uncompressed-size", func() error {
		return readIndexed(patchU64(file, int(ci.ChunkStartOffset), ci.UncompressedSize, 1<<62), InOrder(LogTimeOrder))
	})
	// F1f: metadata index pointing at a record that declares an absurd length
	noPanic(t, "F1f-readrecord-length", func() error {
		mi := info.MetadataIndexes[0]
		bad := append([]byte{}, file...)
		binary.LittleEndian.PutUint64(bad[mi.Offset+1:], 1<<62)
		return readIndexed(bad, WithMetadataCallback(func(*Metadata) error { return nil }))
	})
	// F1g: attachment name length 2^32-1: more than the documented 2 GiB ceiling is requested
	t.Run("F1g-prefixed-string-ceiling", func(t *testing.T) {
		var before, after runtime.MemStats
		runtime.ReadMemStats(&before)
		rec := &bytes.Buffer{}
		_ = binary.Write(rec, binary.LittleEndian, uint64(1))
		_ = binary.Write(rec, binary.LittleEndian, uint64(2))
		_ = binary.Write(rec, binary.LittleEndian, uint32(0xFFFFFFFF))
		_, err := parseAttachmentReader(rec, false)
		runtime.ReadMemStats(&after)
		if err == nil {
			t.Fatal("expected error")
		}
		if d := after.TotalAlloc - before.TotalAlloc; d > 1<<31 {
			t.Fatalf("allocated %d bytes (> 2 GiB ceiling) because a length field said so", d)
		}
	})
	// F1h: ChannelCounts on an Info without statistics / with a channel missing from the summary
	t.Run("F1h-channel-counts-nil", func(t *testing.T) {
		defer func() {
			if r := recover(); r != nil {
				t.Fatalf("panicked: %v", r)
			}
		}()
		_ = (&Info{}).ChannelCounts()
		_ = (&Info{Statistics: &Statistics{ChannelMessageCounts: map[uint16]uint64{7: 1}}, Channels: map[uint16]*Channel{}}).ChannelCounts()
	})
}
