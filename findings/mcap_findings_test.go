package mcap

// Demonstrations of findings F4 (C08), F5 (C02), F6-F8 (C04), F9 (C12), F13 (C10); see /verif/DESIGN.md section 4.
// Place in go/mcap and run:  go test -vet=off -count=1 -run TestVerifFindings .
// Each sub-test fails on the pinned tree and passes on the repaired tree.

import (
	"bytes"
	"encoding/binary"
	"errors"
	"io"
	"math"
	"testing"
	"time"
)

func vfWrite(t *testing.T, opts *WriterOptions, body func(w *Writer)) []byte {
	t.Helper()
	buf := &bytes.Buffer{}
	w, err := NewWriter(buf, opts)
	if err != nil {
		t.Fatal(err)
	}
	if err := w.WriteHeader(&Header{}); err != nil {
		t.Fatal(err)
	}
	if err := w.WriteSchema(&Schema{ID: 1, Name: "s", Encoding: "e"}); err != nil {
		t.Fatal(err)
	}
	if err := w.WriteChannel(&Channel{ID: 1, SchemaID: 1, Topic: "/a", MessageEncoding: "m"}); err != nil {
		t.Fatal(err)
	}
	body(w)
	if err := w.Close(); err != nil {
		t.Fatal(err)
	}
	return buf.Bytes()
}

func vfRead(t *testing.T, data []byte, opts ...ReadOpt) ([]uint64, error) {
	t.Helper()
	r, err := NewReader(bytes.NewReader(data))
	if err != nil {
		return nil, err
	}
	it, err := r.Messages(opts...)
	if err != nil {
		return nil, err
	}
	var out []uint64
	for {
		_, _, m, err := it.NextInto(nil)
		if errors.Is(err, io.EOF) {
			return out, nil
		}
		if err != nil {
			return out, err
		}
		out = append(out, m.LogTime)
	}
}

func TestVerifFindings(t *testing.T) {
	msg := func(w *Writer, ts uint64) {
		if err := w.WriteMessage(&Message{ChannelID: 1, LogTime: ts, Data: make([]byte, 64)}); err != nil {
			t.Fatal(err)
		}
	}
	t.Run("F4-statistics-start-time", func(t *testing.T) {
		// (a) a trailing chunk that holds only a channel record must not reset the start time to 0
		var stats *Statistics
		vfWrite(t, &WriterOptions{Chunked: true, ChunkSize: 16}, func(w *Writer) {
			msg(w, 10)
			msg(w, 20)
			if err := w.WriteChannel(&Channel{ID: 2, SchemaID: 1, Topic: "/b", MessageEncoding: "m"}); err != nil {
				t.Fatal(err)
			}
			stats = w.Statistics
		})
		if stats.MessageStartTime != 10 {
			t.Errorf("message-less trailing chunk: MessageStartTime = %d, want 10", stats.MessageStartTime)
		}
		// (b) a message at log time 0 in an earlier chunk must stay the earliest
		vfWrite(t, &WriterOptions{Chunked: true, ChunkSize: 16}, func(w *Writer) {
			msg(w, 0)
			msg(w, 5)
			msg(w, 10)
			stats = w.Statistics
		})
		if stats.MessageStartTime != 0 {
			t.Errorf("log time 0 in the first chunk: MessageStartTime = %d, want 0", stats.MessageStartTime)
		}
	})
	t.Run("F5-index-without-channel-records", func(t *testing.T) {
		data := vfWrite(t, &WriterOptions{Chunked: true, ChunkSize: 16, SkipRepeatedChannelInfos: true, SkipMessageIndexing: true}, func(w *Writer) {
			msg(w, 1)
			msg(w, 2)
			msg(w, 3)
		})
		scan, err := vfRead(t, data, UsingIndex(false))
		if err != nil {
			t.Fatal(err)
		}
		idx, err := vfRead(t, data)
		if err != nil {
			t.Logf("index-based read failed with an error (acceptable): %v", err)
			return
		}
		if len(idx) != len(scan) {
			t.Errorf("index-based read silently returned %d messages, the sequential scan returns %d", len(idx), len(scan))
		}
	})
	t.Run("F6-unrestricted-read-omits-max-timestamp", func(t *testing.T) {
		for _, chunked := range []bool{false, true} {
			data := vfWrite(t, &WriterOptions{Chunked: chunked, ChunkSize: 16}, func(w *Writer) {
				msg(w, 5)
				msg(w, math.MaxUint64)
			})
			for _, useIndex := range []bool{false, true} {
				got, err := vfRead(t, data, UsingIndex(useIndex))
				if err != nil {
					t.Fatal(err)
				}
				if len(got) != 2 {
					t.Errorf("chunked=%v index=%v: unrestricted read returned %v, want both messages (incl. log time 2^64-1)", chunked, useIndex, got)
				}
			}
		}
	})
	t.Run("F7-F8-deprecated-window-options", func(t *testing.T) {
		data := vfWrite(t, &WriterOptions{Chunked: true, ChunkSize: 16}, func(w *Writer) {
			for ts := uint64(1); ts <= 6; ts++ {
				msg(w, ts)
			}
		})
		want, err := vfRead(t, data, AfterNanos(2), BeforeNanos(5))
		if err != nil || len(want) != 3 {
			t.Fatalf("reference window: %v %v", want, err)
		}
		for name, opts := range map[string][]ReadOpt{
			"After,Before": {After(2), Before(5)},
			"Before,After": {Before(5), After(2)},
		} {
			got, err := vfRead(t, data, opts...)
			if err != nil {
				t.Errorf("%s: %v", name, err)
			} else if len(got) != len(want) {
				t.Errorf("%s: returned %v, the nanosecond options return %v", name, got, want)
			}
		}
		if got, err := vfRead(t, data, Before(4)); err != nil || len(got) != 3 {
			t.Errorf("Before(4) alone: got %v err %v, want the 3 messages below 4", got, err)
		}
		if got, err := vfRead(t, data, After(4)); err != nil || len(got) != 3 {
			t.Errorf("After(4) alone: got %v err %v, want the 3 messages from 4", got, err)
		}
	})
	t.Run("F9-summary-group-order", func(t *testing.T) {
		// move the chunk index group in front of the channel group (legal: groups may come in any order)
		data := vfWrite(t, &WriterOptions{Chunked: true, ChunkSize: 16, SkipSummaryOffsets: true}, func(w *Writer) {
			msg(w, 1)
			msg(w, 2)
		})
		r, err := NewReader(bytes.NewReader(data))
		if err != nil {
			t.Fatal(err)
		}
		info, err := r.Info()
		if err != nil {
			t.Fatal(err)
		}
		start := int(info.Footer.SummaryStart)
		end := len(data) - 8 - 9 - 20
		type rec struct {
			op   byte
			data []byte
		}
		var recs []rec
		for off := start; off < end; {
			n := int(binary.LittleEndian.Uint64(data[off+1:]))
			recs = append(recs, rec{data[off], data[off : off+9+n]})
			off += 9 + n
		}
		permuted := append([]byte{}, data[:start]...)
		for _, rc := range recs {
			if OpCode(rc.op) == OpChunkIndex {
				permuted = append(permuted, rc.data...)
			}
		}
		for _, rc := range recs {
			if OpCode(rc.op) != OpChunkIndex {
				permuted = append(permuted, rc.data...)
			}
		}
		permuted = append(permuted, data[end:]...)
		// summary crc: zero it (means "not available")
		copy(permuted[len(permuted)-8-4:], []byte{0, 0, 0, 0})
		want, err := vfRead(t, data, InOrder(LogTimeOrder))
		if err != nil {
			t.Fatal(err)
		}
		got, err := vfRead(t, permuted, InOrder(LogTimeOrder))
		if err != nil || len(got) != len(want) {
			t.Errorf("same content, chunk indexes before channels: got %v err %v; canonical order gives %v", got, err, want)
		}
	})
	t.Run("F13-attachment-length-loops-forever", func(t *testing.T) {
		in := append(append([]byte{}, Magic...), byte(OpAttachment))
		in = binary.LittleEndian.AppendUint64(in, math.MaxUint64-8)
		done := make(chan error, 1)
		go func() {
			l, err := NewLexer(bytes.NewReader(in), &LexerOptions{})
			if err != nil {
				done <- err
				return
			}
			for i := 0; i < 1000; i++ {
				if _, _, err := l.Next(nil); err != nil {
					done <- err
					return
				}
			}
			done <- errors.New("no progress after 1000 tokens")
		}()
		select {
		case err := <-done:
			if err == nil || err.Error() == "no progress after 1000 tokens" {
				t.Errorf("lexer does not terminate on a 17-byte input: %v", err)
			}
		case <-time.After(3 * time.Second):
			t.Errorf("lexer loops forever on a 17-byte input (attachment length 2^64-9, seekable source)")
		}
	})
}

// F14 (C10): the index-based reader trusted the chunk header's uncompressed size over what was actually
// decompressed. A zstd chunk that declares more than it decodes to, loaded into a re-used slot, was scanned past
// the decoded bytes into stale data of the previous chunk and NextInto then sliced beyond the buffer length (panic);
// an uncompressed chunk declaring more than its records left a stale tail that was read as records.
// (Found by an independent seeding sub-agent while probing the pristine tree; at first suppressed by name in C10.a.)
func TestVerifFindingF14(t *testing.T) {
	for _, compression := range []CompressionFormat{CompressionZSTD, CompressionNone} {
		t.Run("F14-declared-size-exceeds-decoded-"+string(compression), func(t *testing.T) {
			defer func() {
				if r := recover(); r != nil {
					t.Fatalf("panicked: %v", r)
				}
			}()
			file := &bytes.Buffer{}
			w, _ := NewWriter(file, &WriterOptions{Chunked: true, ChunkSize: 1 << 20, Compression: compression})
			_ = w.WriteHeader(&Header{})
			_ = w.WriteSchema(&Schema{ID: 1})
			_ = w.WriteChannel(&Channel{ID: 1, SchemaID: 1})
			data := bytes.Repeat([]byte{7}, 17)
			for i := 0; i < 9; i++ {
				_ = w.WriteMessage(&Message{ChannelID: 1, LogTime: uint64(i), Data: data})
			}
			_ = w.flushActiveChunk()
			for i := 0; i < 2; i++ {
				_ = w.WriteMessage(&Message{ChannelID: 1, LogTime: uint64(100 + i), Data: data})
			}
			_ = w.Close()
			b := file.Bytes()
			r, _ := NewReader(bytes.NewReader(b))
			info, err := r.Info()
			if err != nil || len(info.ChunkIndexes) != 2 {
				t.Fatal(err)
			}
			c1, c2 := info.ChunkIndexes[0], info.ChunkIndexes[1]
			// second chunk claims the (larger) uncompressed size of the first
			binary.LittleEndian.PutUint64(b[c2.ChunkStartOffset+9+16:], c1.UncompressedSize)
			got, err := vfRead(t, b, UsingIndex(true))
			if err == nil {
				t.Fatalf("a chunk whose declared uncompressed size (%d) exceeds what it holds (%d) was read without error: %d messages %v (stale bytes of the previous chunk read as records)",
					c1.UncompressedSize, c2.UncompressedSize, len(got), got)
			}
			t.Logf("error (as it should be): %v", err)
		})
	}
}

// F15 (C02): Info() before Messages() on a file without a usable index silently returned no messages.
func TestVerifFindingF15(t *testing.T) {
	buf := &bytes.Buffer{}
	w, err := NewWriter(buf, &WriterOptions{Chunked: false})
	if err != nil {
		t.Fatal(err)
	}
	_ = w.WriteHeader(&Header{})
	_ = w.WriteSchema(&Schema{ID: 1, Name: "s", Encoding: "e"})
	_ = w.WriteChannel(&Channel{ID: 1, SchemaID: 1, Topic: "/a", MessageEncoding: "x"})
	for i := 0; i < 5; i++ {
		if err := w.WriteMessage(&Message{ChannelID: 1, LogTime: uint64(i), Data: []byte{1}}); err != nil {
			t.Fatal(err)
		}
	}
	if err := w.Close(); err != nil {
		t.Fatal(err)
	}
	count := func(callInfo bool) int {
		r, err := NewReader(bytes.NewReader(buf.Bytes()))
		if err != nil {
			t.Fatal(err)
		}
		if callInfo {
			if _, err := r.Info(); err != nil {
				t.Fatal(err)
			}
		}
		it, err := r.Messages()
		if err != nil {
			t.Fatal(err)
		}
		n := 0
		for {
			_, _, _, err := it.Next(nil)
			if errors.Is(err, io.EOF) {
				return n
			}
			if err != nil {
				t.Fatalf("after %d messages: %v", n, err)
			}
			n++
		}
	}
	if a, b := count(false), count(true); a != 5 || b != 5 {
		t.Fatalf("messages without a prior Info(): %d, after Info(): %d; want 5 and 5", a, b)
	}
}

// F16 (C07): with chunk validation on, a damaged lz4 frame ended the read with an error that is io.EOF.
func TestVerifFindingF16(t *testing.T) {
	buf := &bytes.Buffer{}
	w, err := NewWriter(buf, &WriterOptions{Chunked: true, ChunkSize: 64, Compression: CompressionLZ4, IncludeCRC: true})
	if err != nil {
		t.Fatal(err)
	}
	_ = w.WriteHeader(&Header{})
	_ = w.WriteSchema(&Schema{ID: 1, Name: "s", Encoding: "e"})
	_ = w.WriteChannel(&Channel{ID: 1, SchemaID: 1, Topic: "/a", MessageEncoding: "x"})
	for i := 0; i < 20; i++ {
		if err := w.WriteMessage(&Message{ChannelID: 1, LogTime: uint64(i), Data: bytes.Repeat([]byte{byte(i)}, 20)}); err != nil {
			t.Fatal(err)
		}
	}
	if err := w.Close(); err != nil {
		t.Fatal(err)
	}
	orig := buf.Bytes()
	idx := bytes.Index(orig, []byte{0x04, 0x22, 0x4d, 0x18}) // lz4 frame magic of the first chunk
	if idx < 0 {
		t.Fatal("no lz4 frame found")
	}
	for byteOff := 0; byteOff < 8; byteOff++ {
		for bit := 0; bit < 8; bit++ {
			data := append([]byte{}, orig...)
			data[idx+byteOff] ^= 1 << bit
			lex, err := NewLexer(bytes.NewReader(data), &LexerOptions{ValidateChunkCRCs: true})
			if err != nil {
				t.Fatal(err)
			}
			msgs := 0
			for {
				tok, _, err := lex.Next(nil)
				if err != nil {
					if errors.Is(err, io.EOF) && msgs < 20 {
						t.Errorf("flip of bit %d of byte %d of the first chunk's payload: the read ends with an error that is io.EOF (%v) after %d of 20 messages", bit, byteOff, err, msgs)
					}
					break
				}
				if tok == TokenMessage {
					msgs++
				}
			}
		}
	}
}

// F17 (C08): Info listed none of the chunks of a file whose summary repeats no channel records.
func TestVerifFindingF17(t *testing.T) {
	buf := &bytes.Buffer{}
	w, err := NewWriter(buf, &WriterOptions{Chunked: true, ChunkSize: 1, SkipRepeatedChannelInfos: true})
	if err != nil {
		t.Fatal(err)
	}
	_ = w.WriteHeader(&Header{})
	_ = w.WriteSchema(&Schema{ID: 1, Name: "s"})
	_ = w.WriteChannel(&Channel{ID: 1, SchemaID: 1, Topic: "a"})
	for i := 0; i < 5; i++ {
		if err := w.WriteMessage(&Message{ChannelID: 1, LogTime: uint64(i), Data: []byte("x")}); err != nil {
			t.Fatal(err)
		}
	}
	if err := w.Close(); err != nil {
		t.Fatal(err)
	}
	r, err := NewReader(bytes.NewReader(buf.Bytes()))
	if err != nil {
		t.Fatal(err)
	}
	info, err := r.Info()
	if err != nil {
		t.Fatal(err)
	}
	if uint32(len(info.ChunkIndexes)) != info.Statistics.ChunkCount {
		t.Fatalf("Info lists %d chunk indexes, the file has %d chunks", len(info.ChunkIndexes), info.Statistics.ChunkCount)
	}
}
