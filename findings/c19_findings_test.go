package ros1msg

// Demonstrations of the C19 findings F11, F12 (see /verif/DESIGN.md section 4). Place in go/ros/ros1msg and run
//   go test -vet=off -count=1 -run TestVerifC19 .
// F11 is a stack overflow (fatal, cannot be recovered), so it runs in a child process.

import (
	"os"
	"os/exec"
	"testing"
)

func TestVerifC19(t *testing.T) {
	t.Run("F12-brackets-in-the-wrong-order", func(t *testing.T) {
		defer func() {
			if r := recover(); r != nil {
				t.Fatalf("panicked: %v", r)
			}
		}()
		_, err := ParseMessageDefinition("pkg", []byte("int32]a[ x\n"))
		t.Logf("returned err=%v", err)
	})
	t.Run("F11-self-referential-type", func(t *testing.T) {
		def := "Node next\n================================================================================\nMSG: pkg/Node\nNode next\n"
		if os.Getenv("VERIF_C19_CHILD") == "1" {
			_, err := ParseMessageDefinition("pkg", []byte(def))
			if err != nil {
				os.Exit(0)
			}
			os.Exit(3)
		}
		cmd := exec.Command(os.Args[0], "-test.run", "TestVerifC19/F11-self-referential-type")
		cmd.Env = append(os.Environ(), "VERIF_C19_CHILD=1")
		out, err := cmd.CombinedOutput()
		if err != nil {
			if len(out) > 300 {
				out = out[:300]
			}
			t.Fatalf("child process crashed (%v): %s", err, out)
		}
	})
}
