package main

import (
	"strings"

	"golang.org/x/tools/go/ssa"
)

// C02.m: the Reader's lexer is shared by every iterator the Reader builds, and its emitChunks switch decides whether
// chunk records are expanded (sequential scan) or handed out whole (index-based path). The iterator that Messages
// returns must therefore be the last thing that set that switch: between the construction of the returned iterator and
// the return, no call may set the switch to the other value (Info() builds an index-based iterator internally).

// modeSetters: repo functions that (transitively) store the constant `val` into Lexer.emitChunks.
func modeSetters(p *Program, val string) map[*ssa.Function]bool {
	out := map[*ssa.Function]bool{}
	fns := p.repoFunctions(pkgMcap)
	for _, fn := range fns {
		for _, st := range fieldStores(fn, "Lexer", "emitChunks") {
			if c, ok := st.Val.(*ssa.Const); ok && c.Value != nil && c.Value.String() == val {
				out[fn] = true
			}
		}
	}
	for changed := true; changed; {
		changed = false
		for _, fn := range fns {
			if out[fn] {
				continue
			}
			for _, ci := range callsIn(fn, func(ssa.CallInstruction) bool { return true }) {
				if g := ci.Common().StaticCallee(); g != nil && out[g] {
					out[fn] = true
					changed = true
					break
				}
			}
		}
	}
	return out
}

func checkLexerMode(p *Program, r *Result) {
	fn := p.lookupFunc(pkgMcap, "Reader.Messages")
	if fn == nil {
		r.undecided("C02.m", "mcap.Reader.Messages", "anchor", "", "not found")
		return
	}
	setT, setF := modeSetters(p, "true"), modeSetters(p, "false")
	if len(setT) == 0 && len(setF) == 0 {
		r.note("C02.m", funcName(fn), "lexer chunk mode", p.pos(fn.Pos()), "no function stores a constant into Lexer.emitChunks: not judged")
		return
	}
	// origin calls of a returned iterator value
	var origins func(v ssa.Value, seen map[ssa.Value]bool) []*ssa.Call
	origins = func(v ssa.Value, seen map[ssa.Value]bool) []*ssa.Call {
		if v == nil || seen[v] {
			return nil
		}
		seen[v] = true
		switch x := v.(type) {
		case *ssa.MakeInterface:
			return origins(x.X, seen)
		case *ssa.ChangeInterface:
			return origins(x.X, seen)
		case *ssa.Phi:
			var out []*ssa.Call
			for _, e := range x.Edges {
				out = append(out, origins(e, seen)...)
			}
			return out
		case *ssa.Call:
			return []*ssa.Call{x}
		}
		return nil
	}
	n := 0
	for _, in := range instrsOf(fn) {
		ret, ok := in.(*ssa.Return)
		if !ok || len(ret.Results) == 0 || isNilConst(ret.Results[0]) {
			continue
		}
		for _, c := range origins(ret.Results[0], map[ssa.Value]bool{}) {
			tname := shortType(c.Type())
			var hostile map[*ssa.Function]bool
			kind := ""
			switch {
			case strings.Contains(tname, "unindexedMessageIterator"):
				hostile, kind = setT, "sequential"
			case strings.Contains(tname, "indexedMessageIterator"):
				hostile, kind = setF, "index-based"
			default:
				continue
			}
			n++
			construct := "lexer chunk mode when the " + kind + " iterator is returned"
			bad := ""
			for _, k := range callsIn(fn, func(k ssa.CallInstruction) bool {
				g := k.Common().StaticCallee()
				return g != nil && hostile[g] && k != ssa.CallInstruction(c)
			}) {
				after := k.Block() == c.Block() && blockIndexOf(k) > blockIndexOf(c) || k.Block() != c.Block() && reachableFromSuccs(c.Block())[k.Block()]
				before := k.Block() == ret.Block() && blockIndexOf(k) < blockIndexOf(ret) || k.Block() != ret.Block() && reachableFromSuccs(k.Block())[ret.Block()]
				if after && before {
					bad = calleeRepoName(k) + " at " + p.pos(k.Pos())
				}
			}
			if bad == "" {
				r.held("C02.m", funcName(fn), construct, p.pos(ret.Pos()), "nothing between its construction and the return switches the shared lexer to the other mode")
			} else {
				r.violated("C02.m", funcName(fn), construct, p.pos(ret.Pos()),
					"after the "+kind+" iterator was built, "+bad+" switches the shared lexer's emitChunks to the other mode; the returned iterator then sees whole chunk tokens (or expanded records) it does not handle and silently returns fewer messages")
			}
		}
	}
	if n == 0 {
		r.note("C02.m", funcName(fn), "lexer chunk mode", p.pos(fn.Pos()), "no returned iterator traced to a constructor call: not judged")
	}
}
