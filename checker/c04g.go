package main

import (
	"golang.org/x/tools/go/ssa"
)

// C04.g: ReadOptions.Finalize runs after the caller's options were applied, so it cannot tell "never set" from
// "explicitly set to this value". The only thing it may therefore write into a window field is the value of the
// deprecated companion field (Start -> StartNanos, End -> EndNanos); a constant written there replaces a window the
// caller expressed (e.g. BeforeNanos(0), the empty window [0,0)) by a different one.
func checkFinalizeStores(p *Program, r *Result) {
	fn := p.lookupFunc(pkgMcap, "ReadOptions.Finalize")
	if fn == nil {
		r.undecided("C04.g", "mcap.ReadOptions.Finalize", "anchor", "", "not found")
		return
	}
	companion := map[string]string{"StartNanos": "Start", "EndNanos": "End"}
	n := 0
	seen := map[string]int{}
	for _, f := range append([]*ssa.Function{fn}, fn.AnonFuncs...) {
		for _, in := range instrsOf(f) {
			st, ok := in.(*ssa.Store)
			if !ok {
				continue
			}
			tn, field, _, ok := fieldRef(st.Addr)
			if !ok || tn != "ReadOptions" || companion[field] == "" {
				continue
			}
			n++
			construct := "store to ReadOptions." + field
			seen[construct]++
			if k := seen[construct]; k > 1 {
				construct += "#" + itoa(k-1)
			}
			v := stripConv(st.Val)
			switch {
			case loadOfField(v, "ReadOptions", companion[field]):
				r.held("C04.g", funcName(fn), construct, p.pos(st.Pos()), "copies the deprecated companion field "+companion[field])
			case isConst(v):
				r.violated("C04.g", funcName(fn), construct, p.pos(st.Pos()),
					"Finalize overwrites the window bound with the constant "+valueLabel(v)+"; it runs after the caller's options, so a bound the caller set explicitly to the tested value "+
						"(e.g. BeforeNanos(0): the empty window [0,0)) is replaced by a different window")
			default:
				r.note("C04.g", funcName(fn), construct, p.pos(st.Pos()), "stores "+valueLabel(v)+" (neither the companion field nor a constant): not judged")
			}
		}
	}
	if n == 0 {
		r.held("C04.g", funcName(fn), "stores to window fields", p.pos(fn.Pos()), "Finalize writes no window field")
	}
}

func isConst(v ssa.Value) bool {
	_, ok := v.(*ssa.Const)
	return ok
}
