package main

import (
	"go/token"
	"go/types"

	"golang.org/x/tools/go/ssa"
)

// C06.p: the small wrappers that the ordering rules (C06.a-c) treat as primitives do what their names say. No Go test
// looks at the data-section or summary CRC of a written file, so a Checksum() that always answers 0, a ResetCRC() that
// resets nothing, or a constructor that never installs the CRC writer passes the suite while every emitted CRC is wrong
// (or silently absent although IncludeCRC was requested).
//
//   - crcWriter: one method returns the running CRC (the field its Write feeds), one resets it;
//   - writeSizer.Checksum returns that method's result whenever a CRC writer is installed (0 only when there is none);
//   - writeSizer.ResetCRC calls the resetting method whenever a CRC writer is installed;
//   - newWriteSizer installs a CRC writer over the destination when asked to calculate CRCs, and NewWriter asks
//     according to WriterOptions.IncludeCRC (likewise for the chunk writer's computeCRC switch).
func checkCRCPrimitives(p *Program, r *Result, rule string) {
	// second architecture: the writeSizer keeps the running CRC itself (a field its Write feeds, behind a switch that
	// the constructor sets from its calculate-CRC argument) instead of delegating to a crcWriter
	if own := accumulatorFactsOpt(p, "writeSizer", false); own != nil {
		checkOwnCRCAccumulator(p, r, rule, own)
		return
	}
	af := accumulatorFactsOpt(p, "crcWriter", false)
	if af == nil {
		r.undecided(rule, "mcap.crcWriter", "running CRC", "", "crcWriter.Write does not feed a CRC field in a recognised way")
		return
	}
	var readM, resetM []*ssa.Function
	for m, am := range af.methods {
		if am.reads[af.crcField] && !am.resets[af.crcField] {
			readM = append(readM, m)
		}
		if am.resets[af.crcField] {
			resetM = append(resetM, m)
		}
	}
	isRead := func(ci ssa.CallInstruction) bool {
		g := ci.Common().StaticCallee()
		for _, m := range readM {
			if g == m {
				return true
			}
		}
		return false
	}
	isReset := func(ci ssa.CallInstruction) bool {
		g := ci.Common().StaticCallee()
		for _, m := range resetM {
			if g == m {
				return true
			}
		}
		return false
	}
	if len(readM) == 0 {
		r.violated(rule, "mcap.crcWriter", "a method returns the running CRC", "", "no method of crcWriter returns the CRC accumulated by Write")
	} else {
		r.held(rule, "mcap.crcWriter", "a method returns the running CRC", p.pos(readM[0].Pos()), funcName(readM[0]))
	}
	if len(resetM) == 0 {
		r.violated(rule, "mcap.crcWriter", "a method resets the running CRC", "", "no method of crcWriter resets the CRC accumulated by Write; the summary CRC would cover the data section too")
	} else {
		r.held(rule, "mcap.crcWriter", "a method resets the running CRC", p.pos(resetM[0].Pos()), funcName(resetM[0]))
	}
	// the field of writeSizer that holds the CRC writer
	isCRCField := func(v ssa.Value) bool {
		u, ok := v.(*ssa.UnOp)
		if !ok || u.Op != token.MUL {
			return false
		}
		tn, _, _, ok := fieldRef(u.X)
		if !ok || tn != "writeSizer" {
			return false
		}
		nt, _ := structOf(u.Type())
		return nt != nil && nt.Obj().Name() == "crcWriter"
	}
	// successor of b on which the CRC writer is known to be installed (nil if b does not test it)
	nonNilSide := func(b *ssa.BasicBlock) *ssa.BasicBlock {
		iff, ok := b.Instrs[len(b.Instrs)-1].(*ssa.If)
		if !ok {
			return nil
		}
		c, ok := iff.Cond.(*ssa.BinOp)
		if !ok || !(isCRCField(c.X) && isNilConst(c.Y) || isCRCField(c.Y) && isNilConst(c.X)) {
			return nil
		}
		if c.Op == token.NEQ {
			return b.Succs[0]
		}
		if c.Op == token.EQL {
			return b.Succs[1]
		}
		return nil
	}
	// ---- Checksum
	if fn := p.lookupFunc(pkgMcap, "writeSizer.Checksum"); fn != nil {
		fname := funcName(fn)
		bad := ""
		delegated := false
		for _, in := range instrsOf(fn) {
			ret, ok := in.(*ssa.Return)
			if !ok || len(ret.Results) != 1 {
				continue
			}
			if c, ok := ret.Results[0].(*ssa.Call); ok && isRead(c) {
				delegated = true
				continue
			}
			// any other result is only acceptable where no CRC writer is installed
			reachableWithCRC := false
			for _, b := range fn.Blocks {
				if s := nonNilSide(b); s != nil && (s == ret.Block() || reachableBlocks(s)[ret.Block()]) {
					// reachable from the non-nil side: acceptable only if also dominated by ... no: it must not be reachable at all
					reachableWithCRC = true
				}
			}
			tested := false
			for _, b := range fn.Blocks {
				if nonNilSide(b) != nil && b.Dominates(ret.Block()) {
					tested = true
				}
			}
			if reachableWithCRC || !tested {
				bad = "a result other than the CRC writer's checksum (" + valueLabel(ret.Results[0]) + ") is returned while a CRC writer may be installed"
			}
		}
		switch {
		case !delegated:
			r.violated(rule, fname, "returns the running CRC of the destination", p.pos(fn.Pos()), "writeSizer.Checksum never returns the CRC writer's checksum: the data-section and summary CRCs of every file are constant")
		case bad != "":
			r.violated(rule, fname, "returns the running CRC of the destination", p.pos(fn.Pos()), bad)
		default:
			r.held(rule, fname, "returns the running CRC of the destination", p.pos(fn.Pos()), "the CRC writer's checksum whenever one is installed")
		}
	} else {
		r.undecided(rule, "mcap.writeSizer.Checksum", "anchor", "", "not found")
	}
	// ---- ResetCRC
	if fn := p.lookupFunc(pkgMcap, "writeSizer.ResetCRC"); fn != nil {
		fname := funcName(fn)
		ok := false
		direct := false
		for _, b := range fn.Blocks {
			if s := nonNilSide(b); s != nil {
				if allPathsHit(s, func(in ssa.Instruction) bool { ci, isC := in.(ssa.CallInstruction); return isC && isReset(ci) }) {
					ok = true
				}
			}
		}
		// unconditional form (the CRC writer is always present)
		if len(fn.Blocks) > 0 && allPathsHit(fn.Blocks[0], func(in ssa.Instruction) bool { ci, isC := in.(ssa.CallInstruction); return isC && isReset(ci) }) {
			direct = true
		}
		if ok || direct {
			r.held(rule, fname, "resets the running CRC of the destination", p.pos(fn.Pos()), "calls the CRC writer's reset whenever one is installed")
		} else {
			r.violated(rule, fname, "resets the running CRC of the destination", p.pos(fn.Pos()),
				"writeSizer.ResetCRC does not reset the CRC writer on every path on which one is installed; the summary CRC then also covers the data section")
		}
	} else {
		r.undecided(rule, "mcap.writeSizer.ResetCRC", "anchor", "", "not found")
	}
	// ---- constructor
	if fn := p.lookupFunc(pkgMcap, "newWriteSizer"); fn != nil {
		fname := funcName(fn)
		var flag, dest *ssa.Parameter
		for _, prm := range fn.Params {
			if b, ok := prm.Type().Underlying().(*types.Basic); ok && b.Kind() == types.Bool {
				flag = prm
			}
			if _, ok := prm.Type().Underlying().(*types.Interface); ok {
				dest = prm
			}
		}
		installed := func(b *ssa.BasicBlock) bool {
			// every return reachable from b returns a struct whose CRC-writer field was stored from a constructor call over dest
			good := true
			any := false
			for blk := range reachableBlocks(b) {
				ret, ok := blk.Instrs[len(blk.Instrs)-1].(*ssa.Return)
				if !ok || len(ret.Results) != 1 {
					continue
				}
				any = true
				al, ok := ret.Results[0].(*ssa.Alloc)
				if !ok {
					good = false
					continue
				}
				has := false
				for _, ref := range *al.Referrers() {
					fa, ok := ref.(*ssa.FieldAddr)
					if !ok {
						continue
					}
					nt, _ := structOf(fa.Type().Underlying().(*types.Pointer).Elem())
					if nt == nil || nt.Obj().Name() != "crcWriter" {
						continue
					}
					for _, r2 := range *fa.Referrers() {
						if st, ok := r2.(*ssa.Store); ok && st.Addr == ssa.Value(fa) {
							if c, ok := st.Val.(*ssa.Call); ok && len(c.Call.Args) > 0 && dest != nil && c.Call.Args[0] == ssa.Value(dest) {
								has = true
							}
						}
					}
				}
				if !has {
					good = false
				}
			}
			return any && good
		}
		verdict := false
		if flag != nil {
			for _, b := range fn.Blocks {
				iff, ok := b.Instrs[len(b.Instrs)-1].(*ssa.If)
				if !ok {
					continue
				}
				cond, side := iff.Cond, 0
				if u, ok := cond.(*ssa.UnOp); ok && u.Op == token.NOT {
					cond, side = u.X, 1
				}
				if cond == ssa.Value(flag) && installed(b.Succs[side]) {
					verdict = true
				}
			}
		}
		if verdict {
			r.held(rule, fname, "installs a CRC writer over the destination when asked", p.pos(fn.Pos()), "the calculate-CRC branch returns a writeSizer whose CRC writer wraps the destination")
		} else {
			r.violated(rule, fname, "installs a CRC writer over the destination when asked", p.pos(fn.Pos()),
				"newWriteSizer does not, on the branch where CRC calculation is requested, return a writeSizer holding a CRC writer over the destination; IncludeCRC is then ignored and the file's CRC fields are 0")
		}
		// NewWriter passes the option
		if nw := p.lookupFunc(pkgMcap, "NewWriter"); nw != nil && flag != nil {
			okOpt := false
			for _, ci := range callsIn(nw, func(ci ssa.CallInstruction) bool { return ci.Common().StaticCallee() == fn }) {
				for i, a := range ci.Common().Args {
					if i < len(fn.Params) && fn.Params[i] == flag && loadOfField(a, "WriterOptions", "IncludeCRC") {
						okOpt = true
					}
				}
			}
			if okOpt {
				r.held(rule, funcName(nw), "IncludeCRC selects CRC calculation for the file", p.pos(nw.Pos()), "WriterOptions.IncludeCRC is the constructor's calculate-CRC argument")
			} else {
				r.violated(rule, funcName(nw), "IncludeCRC selects CRC calculation for the file", p.pos(nw.Pos()), "the writeSizer is not constructed with WriterOptions.IncludeCRC as its calculate-CRC argument")
			}
		}
	}
	// chunk writer: the computeCRC switch comes from IncludeCRC
	if nc := p.lookupFunc(pkgMcap, "newCountingCRCWriter"); nc != nil {
		if nw := p.lookupFunc(pkgMcap, "NewWriter"); nw != nil {
			n, good := 0, 0
			for _, ci := range callsIn(nw, func(ci ssa.CallInstruction) bool { return ci.Common().StaticCallee() == nc }) {
				n++
				for _, a := range ci.Common().Args {
					if loadOfField(a, "WriterOptions", "IncludeCRC") {
						good++
					}
				}
			}
			if n > 0 && good == n {
				r.held(rule, funcName(nw), "IncludeCRC selects CRC calculation for chunks", p.pos(nw.Pos()), "every chunk writer is constructed with WriterOptions.IncludeCRC")
			} else if n > 0 {
				r.violated(rule, funcName(nw), "IncludeCRC selects CRC calculation for chunks", p.pos(nw.Pos()), "a chunk writer is constructed without WriterOptions.IncludeCRC as its compute-CRC argument")
			}
		}
	}
}

func checkOwnCRCAccumulator(p *Program, r *Result, rule string, af *accFacts) {
	var readOK, resetOK bool
	for m, am := range af.methods {
		switch m.Name() {
		case "Checksum":
			readOK = am.reads[af.crcField]
		case "ResetCRC":
			resetOK = am.resets[af.crcField]
		}
	}
	if fn := p.lookupFunc(pkgMcap, "writeSizer.Checksum"); fn != nil {
		if readOK {
			r.held(rule, funcName(fn), "returns the running CRC of the destination", p.pos(fn.Pos()), "returns the field that Write feeds")
		} else {
			r.violated(rule, funcName(fn), "returns the running CRC of the destination", p.pos(fn.Pos()), "writeSizer.Checksum does not return the CRC accumulated by Write: the data-section and summary CRCs of every file are wrong")
		}
	} else {
		r.undecided(rule, "mcap.writeSizer.Checksum", "anchor", "", "not found")
	}
	if fn := p.lookupFunc(pkgMcap, "writeSizer.ResetCRC"); fn != nil {
		if resetOK {
			r.held(rule, funcName(fn), "resets the running CRC of the destination", p.pos(fn.Pos()), "resets the field that Write feeds")
		} else {
			r.violated(rule, funcName(fn), "resets the running CRC of the destination", p.pos(fn.Pos()), "writeSizer.ResetCRC does not reset the CRC accumulated by Write; the summary CRC then also covers the data section")
		}
	} else {
		r.undecided(rule, "mcap.writeSizer.ResetCRC", "anchor", "", "not found")
	}
	// the switch: Write hashes on the true side of a boolean field that the constructor sets from its bool parameter
	wr := p.lookupFunc(pkgMcap, "writeSizer.Write")
	ctor := p.lookupFunc(pkgMcap, "newWriteSizer")
	flagField := ""
	if wr != nil {
		for _, in := range instrsOf(wr) {
			isHash := false
			switch x := in.(type) {
			case *ssa.Store:
				if _, f, _, ok := fieldRef(x.Addr); ok && f == af.crcField {
					isHash = true
				}
			case ssa.CallInstruction:
				if x.Common().IsInvoke() && x.Common().Method.Name() == "Write" && hasMethod(x.Common().Value.Type(), "Sum32") {
					isHash = true
				}
			}
			if !isHash {
				continue
			}
			for d := in.Block(); d != nil; d = d.Idom() {
				if len(d.Preds) != 1 {
					continue
				}
				pr := d.Preds[0]
				if iff, ok := pr.Instrs[len(pr.Instrs)-1].(*ssa.If); ok && pr.Succs[0] == d {
					if u, ok := iff.Cond.(*ssa.UnOp); ok && u.Op == token.MUL {
						if tn, f, _, ok := fieldRef(u.X); ok && tn == "writeSizer" {
							flagField = f
						}
					}
				}
			}
		}
	}
	okCtor := false
	if ctor != nil {
		var flag *ssa.Parameter
		for _, prm := range ctor.Params {
			if b, ok := prm.Type().Underlying().(*types.Basic); ok && b.Kind() == types.Bool {
				flag = prm
			}
		}
		if flagField == "" {
			// unconditional hashing: nothing to switch
			okCtor = wr != nil
		} else if flag != nil {
			for _, st := range fieldStores(ctor, "writeSizer", flagField) {
				if st.Val == ssa.Value(flag) {
					okCtor = true
				}
			}
		}
		if okCtor {
			r.held(rule, funcName(ctor), "installs a CRC writer over the destination when asked", p.pos(ctor.Pos()), "the calculate-CRC argument is the switch under which Write feeds the running CRC")
		} else {
			r.violated(rule, funcName(ctor), "installs a CRC writer over the destination when asked", p.pos(ctor.Pos()),
				"newWriteSizer does not store its calculate-CRC argument into the switch that Write tests before feeding the running CRC; IncludeCRC is then ignored")
		}
		if nw := p.lookupFunc(pkgMcap, "NewWriter"); nw != nil && flag != nil {
			okOpt := false
			for _, ci := range callsIn(nw, func(ci ssa.CallInstruction) bool { return ci.Common().StaticCallee() == ctor }) {
				for i, a := range ci.Common().Args {
					if i < len(ctor.Params) && ctor.Params[i] == flag && loadOfField(a, "WriterOptions", "IncludeCRC") {
						okOpt = true
					}
				}
			}
			if okOpt {
				r.held(rule, funcName(nw), "IncludeCRC selects CRC calculation for the file", p.pos(nw.Pos()), "WriterOptions.IncludeCRC is the constructor's calculate-CRC argument")
			} else {
				r.violated(rule, funcName(nw), "IncludeCRC selects CRC calculation for the file", p.pos(nw.Pos()), "the writeSizer is not constructed with WriterOptions.IncludeCRC as its calculate-CRC argument")
			}
		}
	}
	if nc := p.lookupFunc(pkgMcap, "newCountingCRCWriter"); nc != nil {
		if nw := p.lookupFunc(pkgMcap, "NewWriter"); nw != nil {
			n, good := 0, 0
			for _, ci := range callsIn(nw, func(ci ssa.CallInstruction) bool { return ci.Common().StaticCallee() == nc }) {
				n++
				for _, a := range ci.Common().Args {
					if loadOfField(a, "WriterOptions", "IncludeCRC") {
						good++
					}
				}
			}
			if n > 0 && good == n {
				r.held(rule, funcName(nw), "IncludeCRC selects CRC calculation for chunks", p.pos(nw.Pos()), "every chunk writer is constructed with WriterOptions.IncludeCRC")
			} else if n > 0 {
				r.violated(rule, funcName(nw), "IncludeCRC selects CRC calculation for chunks", p.pos(nw.Pos()), "a chunk writer is constructed without WriterOptions.IncludeCRC as its compute-CRC argument")
			}
		}
	}
}
