package main

import (
	"go/token"
	"strings"

	"golang.org/x/tools/go/ssa"
)

// C01.s: the Writer's scratch buffer (the []byte field that encoders fill and then hand to the sink) holds one record at a
// time. Between filling it and writing it out, no call may execute that fills the same buffer for another record: an
// encoder that flushes the pending chunk (which encodes the chunk header and the message indexes through the same
// buffer) after it has encoded its own record and before it has written it sends the clobbered bytes. Statically: in
// every Writer method, from each call that can (transitively) fill the scratch buffer, no write of the scratch buffer to a
// sink is reachable without passing a fill of this method first - unless no fill of this method can precede the call.
func checkScratchExclusive(p *Program, r *Result, rule string) {
	methods := methodsOf(p, pkgMcap, "Writer")
	isScratch := func(v ssa.Value) bool {
		for i := 0; i < 6 && v != nil; i++ {
			switch x := v.(type) {
			case *ssa.Slice:
				v = x.X
			case *ssa.UnOp:
				if x.Op == token.MUL {
					tn, f, _, ok := fieldRef(x.X)
					return ok && tn == "Writer" && f == "msg"
				}
				return false
			default:
				return false
			}
		}
		return false
	}
	// direct fills: put*/copy/binary.Put* with a destination inside the scratch buffer, element stores into it
	fillsIn := func(fn *ssa.Function) []ssa.Instruction {
		var out []ssa.Instruction
		for _, in := range instrsOf(fn) {
			switch x := in.(type) {
			case ssa.CallInstruction:
				c := x.Common()
				name := staticCalleeName(c)
				isPut := strings.HasPrefix(trimPkg(calleeRepoName(x)), "mcap.put") || strings.Contains(name, "littleEndian).Put") || strings.Contains(name, "littleEndian).Append")
				if b, ok := c.Value.(*ssa.Builtin); ok && b.Name() == "copy" {
					isPut = true
				}
				if isPut && len(c.Args) > 0 {
					dst := c.Args[0]
					if strings.Contains(name, "littleEndian)") && len(c.Args) > 1 {
						dst = c.Args[1]
					}
					if isScratch(dst) {
						out = append(out, in)
					}
				}
			case *ssa.Store:
				if ia, ok := x.Addr.(*ssa.IndexAddr); ok && isScratch(ia.X) {
					out = append(out, in)
				}
			}
		}
		return out
	}
	// functions that fill the scratch buffer, transitively through static calls of Writer methods
	clobbers := map[*ssa.Function]bool{}
	for _, m := range methods {
		if m.Blocks != nil && len(fillsIn(m)) > 0 {
			clobbers[m] = true
		}
	}
	for changed := true; changed; {
		changed = false
		for _, m := range methods {
			if m.Blocks == nil || clobbers[m] {
				continue
			}
			for _, ci := range callsIn(m, func(ssa.CallInstruction) bool { return true }) {
				if g := ci.Common().StaticCallee(); g != nil && clobbers[g] {
					clobbers[m] = true
					changed = true
				}
			}
		}
	}
	n := 0
	for _, m := range methods {
		if m.Blocks == nil {
			continue
		}
		fills := fillsIn(m)
		if len(fills) == 0 {
			continue
		}
		isFill := map[ssa.Instruction]bool{}
		for _, f := range fills {
			isFill[f] = true
		}
		// uses: the scratch buffer handed to a write
		isUse := func(in ssa.Instruction) bool {
			ci, ok := in.(ssa.CallInstruction)
			if !ok || isFill[in] {
				return false
			}
			c := ci.Common()
			isWrite := calleeRepoName(ci) == "mcap.Writer.writeRecord" || (c.IsInvoke() && c.Method.Name() == "Write") || strings.HasSuffix(calleeRepoName(ci), ".Write")
			if !isWrite {
				return false
			}
			for _, a := range c.Args {
				if isScratch(a) {
					return true
				}
			}
			return false
		}
		n++
		bad := ""
		for _, ci := range callsIn(m, func(ci ssa.CallInstruction) bool {
			g := ci.Common().StaticCallee()
			return g != nil && clobbers[g] && g != m
		}) {
			// some fill of this method can execute before the call
			preceded := false
			for _, f := range fills {
				if f.Block() == ci.Block() && blockIndexOf(f) < blockIndexOf(ci) || f.Block() != ci.Block() && reachableFromSuccs(f.Block())[ci.Block()] {
					preceded = true
				}
			}
			if !preceded {
				continue
			}
			// a use is reachable from the call without a fill of this method in between
			seen := map[*ssa.BasicBlock]bool{}
			var walk func(b *ssa.BasicBlock, from int) bool
			walk = func(b *ssa.BasicBlock, from int) bool {
				for i := from; i < len(b.Instrs); i++ {
					in := b.Instrs[i]
					if isFill[in] {
						return false
					}
					if isUse(in) {
						return true
					}
				}
				for _, s := range b.Succs {
					if !seen[s] {
						seen[s] = true
						if walk(s, 0) {
							return true
						}
					}
				}
				return false
			}
			if walk(ci.Block(), blockIndexOf(ci)+1) {
				bad = "the call of " + trimPkg(calleeRepoName(ci)) + " at " + p.pos(ci.Pos()) + " encodes another record through the Writer's scratch buffer after this method has started to encode its own record into it and before that record is written"
			}
		}
		construct := "scratch buffer holds this method's record until it is written"
		if bad == "" {
			r.held(rule, funcName(m), construct, p.pos(m.Pos()), "no call that fills the scratch buffer lies between this method's fill and its write")
		} else {
			r.violated(rule, funcName(m), construct, p.pos(m.Pos()), bad+"; the bytes that reach the file are a mixture of the two records (no error is reported, and the chunk CRC is computed over the clobbered bytes)")
		}
	}
	if n == 0 {
		r.undecided(rule, "mcap.Writer", "encoders", "", "no Writer method fills the scratch buffer: the rule's anchor (Writer.msg) moved")
	}
}
