package main

import (
	"go/ast"
	"go/token"
	"go/types"
	"sort"
	"strings"

	"golang.org/x/tools/go/ssa"
)

func init() { register("C04", true, checkC04) }

func atom(a, rel, b string) *bform { return &bform{op: "atom", a: a, rel: rel, b: b} }
func and(k ...*bform) *bform       { return &bform{op: "and", kids: k} }
func or(k ...*bform) *bform        { return &bform{op: "or", kids: k} }

// pathCondition: the condition under which `target` executes inside stmts (conjunction of enclosing if
// conditions and negations of preceding early exits). found=false if target is not inside.
func pathCondition(fc *formCtx, stmts []ast.Stmt, target ast.Node) (*bform, bool) {
	acc := []*bform{}
	contains := func(n ast.Node) bool {
		if n == nil {
			return false
		}
		f := false
		ast.Inspect(n, func(m ast.Node) bool {
			if m == target {
				f = true
			}
			return !f
		})
		return f
	}
	terminates := func(b *ast.BlockStmt) bool {
		if len(b.List) == 0 {
			return false
		}
		switch x := b.List[len(b.List)-1].(type) {
		case *ast.ReturnStmt:
			return true
		case *ast.BranchStmt:
			return x.Tok == token.CONTINUE || x.Tok == token.BREAK || x.Tok == token.GOTO
		}
		return false
	}
	for _, st := range stmts {
		if contains(st) {
			switch x := st.(type) {
			case *ast.IfStmt:
				if contains(x.Body) {
					inner, _ := pathCondition(fc, x.Body.List, target)
					return and(append(acc, fc.form(x.Cond), inner)...), true
				}
				if x.Else != nil && contains(x.Else) {
					var inner *bform
					if eb, ok := x.Else.(*ast.BlockStmt); ok {
						inner, _ = pathCondition(fc, eb.List, target)
					} else {
						inner, _ = pathCondition(fc, []ast.Stmt{x.Else}, target)
					}
					return and(append(acc, &bform{op: "not", kids: []*bform{fc.form(x.Cond)}}, inner)...), true
				}
			case *ast.BlockStmt:
				inner, _ := pathCondition(fc, x.List, target)
				return and(append(acc, inner)...), true
			case *ast.SwitchStmt:
				for _, cl := range x.Body.List {
					if cc, ok := cl.(*ast.CaseClause); ok && contains(cc) {
						inner, _ := pathCondition(fc, cc.Body, target)
						return and(append(acc, inner)...), true
					}
				}
			case *ast.LabeledStmt:
				inner, _ := pathCondition(fc, []ast.Stmt{x.Stmt}, target)
				return and(append(acc, inner)...), true
			case *ast.ForStmt:
				inner, _ := pathCondition(fc, x.Body.List, target)
				return and(append(acc, inner)...), true
			case *ast.RangeStmt:
				inner, _ := pathCondition(fc, x.Body.List, target)
				return and(append(acc, inner)...), true
			}
			return and(append(acc, &bform{op: "true"})...), true
		}
		if iff, ok := st.(*ast.IfStmt); ok && iff.Else == nil && terminates(iff.Body) {
			// early exits on errors and the like are assumed not taken; only conditions over record/window terms count
			if f := fc.form(iff.Cond); strings.Contains(f.String(), ".") && !strings.Contains(f.String(), "$err") {
				acc = append(acc, &bform{op: "not", kids: []*bform{f}})
			}
		}
	}
	return &bform{op: "true"}, false
}

// mentions reports whether the formula mentions all the given terms.
func (f *bform) mentions(terms ...string) bool {
	s := f.String()
	for _, t := range terms {
		if !strings.Contains(s, t) {
			return false
		}
	}
	return true
}

func methodDecl(g *goLayouts, typeName, method string) *ast.FuncDecl {
	for fn, fd := range g.decls {
		if fn.Name() != method || fd.Recv == nil {
			continue
		}
		sig := fn.Type().(*types.Signature)
		t := sig.Recv().Type()
		if pt, ok := t.(*types.Pointer); ok {
			t = pt.Elem()
		}
		if nt, ok := t.(*types.Named); ok && nt.Obj().Name() == typeName {
			return fd
		}
	}
	return nil
}

// findIfs returns the if statements in fd whose condition mentions all the given terms.
func findIfs(fc *formCtx, fd *ast.FuncDecl, terms ...string) []*ast.IfStmt {
	var out []*ast.IfStmt
	ast.Inspect(fd.Body, func(n ast.Node) bool {
		if iff, ok := n.(*ast.IfStmt); ok {
			if fc.form(iff.Cond).mentions(terms...) {
				out = append(out, iff)
			}
		}
		return true
	})
	return out
}

func checkC04(p *Program, r *Result) {
	r.Explanation = "Structural necessary conditions of 'topic and time selection returns exactly the matching messages': " +
		"(C04.a) in each iterator the condition under which a message is yielded is propositionally equivalent, over every ordering of the compared quantities, to start <= t && (t < end || end == 2^64-1) " +
		"— so the unrestricted default excludes no timestamp — and the two iterators agree; " +
		"(C04.b) the condition under which the summary pass keeps a chunk index is implied by exact overlap of [chunk start, chunk end] with the window (it may be weaker, never stronger); " +
		"(C04.d) every exported read option stores into a ReadOptions field that the iterator constructors actually read; " +
		"(C04.e) both iterators admit a channel iff no topics were given or its topic is in the set; (C04.f) the Reader's cached Info is never mutated by a later read; (C04.g) ReadOptions.Finalize, which runs after the caller's options and so cannot tell unset from explicitly set, writes nothing but the deprecated companion field into a window bound. " +
		"Predicates are taken from the typed AST, helper predicates are inlined, and formulas are compared by enumerating orderings of the compared terms (no code is run)."
	r.NotDecided = []string{"equality with the filtered full read on concrete files (run-time)"}
	r.rule("C04.a", "yield condition == start <= t && (t < end || end == MAX), same in both iterators", 2)
	r.rule("C04.b", "chunk pruning keeps every chunk whose time range overlaps the window", 1)
	r.rule("C04.d", "every read option reaches the iterator", 6)
	r.rule("C04.e", "topic filter is the same in both iterators", 2)
	r.rule("C04.f", "cached Info is read-only", 1)
	r.rule("C04.t", "the sequential path expands every chunk regardless of its time range", 1)
	checkChunkTimesUnused(p, r, "C04.t")
	r.rule("C04.n", "a chunk index without message indexes is never dropped by the topic filter", 0)
	checkKeepWithoutMessageIndexes(p, r, "C04.n")
	r.rule("C04.k", "an in-place filter of the chunk index list is stored back", 1)
	checkInPlaceFilterStoredBack(p, r, "C04.k")
	r.rule("C04.g", "Finalize only copies deprecated companions into window fields", 1)
	checkFinalizeStores(p, r)

	g := newGoLayouts(p, pkgMcap)
	fc := &formCtx{g: g, alias: selectionAliases(g)}
	t, start, end := "Message.LogTime", "it.start", "it.end"
	ref := and(atom(start, "<=", t), or(atom(t, "<", end), atom(end, "==", "MAX")))
	var yieldForms []string
	for _, site := range []struct{ typ, meth string }{{"unindexedMessageIterator", "NextInto"}, {"indexedMessageIterator", "loadChunk"}} {
		fd := methodDecl(g, site.typ, site.meth)
		fname := "mcap." + site.typ + "." + site.meth
		if fd == nil {
			r.undecided("C04.a", fname, "window predicate", "", "function not found")
			continue
		}
		// the record walk of the index-based iterator may live in an unexported helper method of loadChunk: judge the
		// method (of the same type) that appends to the queue
		if site.meth == "loadChunk" {
			appends := func(d *ast.FuncDecl) bool {
				found := false
				ast.Inspect(d.Body, func(n ast.Node) bool {
					if as, ok := n.(*ast.AssignStmt); ok && len(as.Lhs) == 1 && len(as.Rhs) == 1 && strings.HasSuffix(types.ExprString(as.Lhs[0]), "."+p.roles().qField) {
						if ce, ok := as.Rhs[0].(*ast.CallExpr); ok && g.isBuiltin(ce, "append") && !ce.Ellipsis.IsValid() {
							found = true
						}
					}
					return true
				})
				return found
			}
			if !appends(fd) {
				frontier := []*ast.FuncDecl{fd}
				seenD := map[*ast.FuncDecl]bool{fd: true}
				for depth := 0; depth < 3 && len(frontier) > 0; depth++ {
					var next []*ast.FuncDecl
					for _, d := range frontier {
						ast.Inspect(d.Body, func(n ast.Node) bool {
							if ce, ok := n.(*ast.CallExpr); ok {
								if fn := g.calleeOf(ce); fn != nil && !fn.Exported() {
									if hd := g.decls[fn]; hd != nil && hd.Body != nil && hd.Recv != nil && !seenD[hd] && recvTypeName(g, hd) == site.typ {
										seenD[hd] = true
										next = append(next, hd)
									}
								}
							}
							return true
						})
					}
					for _, hd := range next {
						if appends(hd) && !appends(fd) {
							fd = hd
							fname = "mcap." + site.typ + "." + hd.Name.Name
						}
					}
					frontier = next
				}
			}
		}
		// the statements that yield a message: the return of a non-nil message with a nil error (sequential), the append
		// to the message index queue (index-based); their path condition, restricted to the conjuncts that mention the
		// log time, is the window predicate - whatever mix of nested ifs and early-exit guards expresses it
		var targets []ast.Node
		ast.Inspect(fd.Body, func(n ast.Node) bool {
			switch x := n.(type) {
			case *ast.FuncLit:
				return false
			case *ast.ReturnStmt:
				if site.meth == "NextInto" && len(x.Results) == 4 && types.ExprString(x.Results[3]) == "nil" && types.ExprString(x.Results[2]) != "nil" {
					targets = append(targets, x)
				}
			case *ast.AssignStmt:
				if site.meth == "loadChunk" && len(x.Lhs) == 1 && len(x.Rhs) == 1 && strings.HasSuffix(types.ExprString(x.Lhs[0]), "."+p.roles().qField) {
					if ce, ok := x.Rhs[0].(*ast.CallExpr); ok && g.isBuiltin(ce, "append") && !ce.Ellipsis.IsValid() { // append(queue[:0], unread...) is the compaction, not a yield
						targets = append(targets, x)
					}
				}
			}
			return true
		})
		rootDecl := methodDecl(g, site.typ, site.meth)
		if len(targets) == 0 {
			if windowTestsInRegion(p, r, g, fc, rootDecl, fname, ref, t) {
				continue
			}
			r.undecided("C04.a", fname, "window predicate", p.pos(fd.Pos()), "no statement that yields a message found")
			continue
		}
		// a condition on the log time may skip the current record, never end the walk: messages inside a chunk (and
		// chunks inside a file) are not ordered by log time
		isTarget := map[ast.Node]bool{}
		for _, tg := range targets {
			isTarget[tg] = true
		}
		ast.Inspect(fd.Body, func(n ast.Node) bool {
			iff, ok := n.(*ast.IfStmt)
			if !ok || !fc.form(iff.Cond).mentions(t) {
				return true
			}
			for _, st := range iff.Body.List {
				ends := ""
				switch x := st.(type) {
				case *ast.BranchStmt:
					if x.Tok == token.BREAK {
						ends = "break"
					}
				case *ast.ReturnStmt:
					if !isTarget[x] && len(x.Results) > 0 {
						last := types.ExprString(x.Results[len(x.Results)-1])
						if last == "nil" || last == "io.EOF" {
							ends = "return " + last
						}
					}
				}
				if ends != "" {
					r.violated("C04.a", fname, "time condition ends the record walk", p.pos(st.Pos()),
						"a condition on the message log time ("+fc.form(iff.Cond).String()+") leaves the record walk with `"+ends+"` instead of skipping the one record; records are not sorted by log time, so later records inside the window are lost")
				}
			}
			return true
		})
		for _, tg := range targets {
			pc, _ := pathCondition(fc, fd.Body.List, tg)
			var kept []*bform
			var flat func(f *bform)
			flat = func(f *bform) {
				if f.op == "and" {
					for _, k := range f.kids {
						flat(k)
					}
					return
				}
				if f.mentions(t) {
					kept = append(kept, f)
				}
			}
			flat(pushNegations(pc, false))
			pos := p.pos(tg.Pos())
			if len(kept) == 0 {
				if windowTestsInRegion(p, r, g, fc, rootDecl, fname, ref, t) {
					continue
				}
				r.violated("C04.a", fname, "window predicate", pos, "no condition on the path to the yield relates the message log time to the window bounds; the time window is not applied")
				continue
			}
			y := and(kept...)
			yieldForms = append(yieldForms, y.String())
			if ce := counterexample(ref, y, nil); ce != "" {
				r.violated("C04.a", fname, "window predicate", pos, "a message inside the window [start,end) is not yielded when "+ce+"; predicate: "+y.String())
			} else if ce := counterexample(y, ref, nil); ce != "" {
				r.violated("C04.a", fname, "window predicate", pos, "a message outside the window is yielded when "+ce+"; predicate: "+y.String())
			} else {
				r.held("C04.a", fname, "window predicate", pos, y.String()+" == "+ref.String())
			}
		}
	}
	_ = yieldForms

	// ---- C04.b
	if fd := methodDecl(g, "indexedMessageIterator", "parseSummarySection"); fd != nil {
		fname := "mcap.indexedMessageIterator.parseSummarySection"
		s, e := "ChunkIndex.MessageStartTime", "ChunkIndex.MessageEndTime"
		overlap := and(or(atom(s, "<", end), atom(end, "==", "MAX")), atom(start, "<=", e))
		sane := and(atom(s, "<=", e), atom(start, "<=", end))
		// the statement(s) that append to it.chunkIndexes inside the TokenChunkIndex clause
		n := 0
		var keeps []*bform
		var keepPos token.Pos
		// the summary pass and the unexported methods of the iterator it calls (the token switch, or the arm's work, may
		// have been moved into one of them)
		hosts := []*ast.FuncDecl{fd}
		seenHost := map[*ast.FuncDecl]bool{fd: true}
		for i := 0; i < len(hosts) && i < 10; i++ {
			ast.Inspect(hosts[i].Body, func(nd ast.Node) bool {
				if ce, ok := nd.(*ast.CallExpr); ok {
					if fn := g.calleeOf(ce); fn != nil && !fn.Exported() {
						if hd := g.decls[fn]; hd != nil && hd.Body != nil && hd.Recv != nil && !seenHost[hd] && recvTypeName(g, hd) == "indexedMessageIterator" {
							seenHost[hd] = true
							hosts = append(hosts, hd)
						}
					}
				}
				return true
			})
		}
		isKeep := func(m ast.Node) *ast.AssignStmt {
			as, ok := m.(*ast.AssignStmt)
			if !ok || len(as.Lhs) != 1 || len(as.Rhs) != 1 {
				return nil
			}
			ce, ok := as.Rhs[0].(*ast.CallExpr)
			if !ok || !g.isBuiltin(ce, "append") || ce.Ellipsis.IsValid() || !strings.HasSuffix(types.ExprString(as.Lhs[0]), ".chunkIndexes") {
				return nil
			}
			return as
		}
		for _, host := range hosts {
			ast.Inspect(host.Body, func(nd ast.Node) bool {
				cc, ok := nd.(*ast.CaseClause)
				if !ok || len(cc.List) != 1 || !strings.HasSuffix(types.ExprString(cc.List[0]), "TokenChunkIndex") {
					return true
				}
				ast.Inspect(cc, func(m ast.Node) bool {
					if as := isKeep(m); as != nil {
						n++
						k, _ := pathCondition(fc, cc.Body, as)
						keeps = append(keeps, k)
						keepPos = as.Pos()
						return true
					}
					// the arm hands the record to a method that parses and keeps it
					if ce, ok := m.(*ast.CallExpr); ok {
						if fn := g.calleeOf(ce); fn != nil && !fn.Exported() {
							if hd := g.decls[fn]; hd != nil && hd.Body != nil && hd.Recv != nil && recvTypeName(g, hd) == "indexedMessageIterator" {
								ast.Inspect(hd.Body, func(q ast.Node) bool {
									if as := isKeep(q); as != nil {
										n++
										k, _ := pathCondition(fc, hd.Body.List, as)
										keeps = append(keeps, k)
										keepPos = as.Pos()
									}
									return true
								})
							}
						}
					}
					return true
				})
				return false
			})
		}
		if n > 0 {
			// a chunk is kept if any of the append sites is reached; conditions over anything but the chunk's
			// time range and the window (topic selection, presence of message indexes) are not constrained here
			k := or(keeps...).opaqueOutside(s, e, start, end)
			if cex := counterexampleQ(overlap, k, sane, true); cex != "" {
				r.violated("C04.b", fname, "chunk pruning condition", p.pos(keepPos), "a chunk whose time range overlaps the window is dropped when "+cex+"; keep condition: "+k.String())
			} else {
				r.held("C04.b", fname, "chunk pruning condition", p.pos(keepPos), "overlap => "+k.String())
			}
		}
		if n == 0 {
			r.undecided("C04.b", fname, "chunk pruning condition", p.pos(fd.Pos()), "no append to chunkIndexes found in the TokenChunkIndex clause")
		}
		// ---- C04.e (indexed side)
		checkTopicFilter(p, r, g, fc, fd, fname)
	}
	if fd := methodDecl(g, "unindexedMessageIterator", "NextInto"); fd != nil {
		checkTopicFilter(p, r, g, fc, fd, "mcap.unindexedMessageIterator.NextInto")
	}
	checkReadOptions(p, r)
	checkInfoReadOnly(p, r)
}

func checkTopicFilter(p *Program, r *Result, g *goLayouts, fc *formCtx, fd *ast.FuncDecl, fname string) {
	want := "(len(it.topics)==0 || {it.topics[Channel.Topic]})"
	found := false
	// the admission test may sit in an unexported helper (addChannel, ...)
	region := []*ast.FuncDecl{fd}
	seenD := map[*ast.FuncDecl]bool{fd: true}
	frontier := []*ast.FuncDecl{fd}
	for depth := 0; depth < 3 && len(frontier) > 0; depth++ {
		var next []*ast.FuncDecl
		for _, d := range frontier {
			ast.Inspect(d.Body, func(n ast.Node) bool {
				if ce, ok := n.(*ast.CallExpr); ok {
					if fn := g.calleeOf(ce); fn != nil && !fn.Exported() {
						if hd := g.decls[fn]; hd != nil && hd.Body != nil && !seenD[hd] {
							seenD[hd] = true
							next = append(next, hd)
							region = append(region, hd)
						}
					}
				}
				return true
			})
		}
		frontier = next
	}
	var body ast.Node = &ast.BlockStmt{}
	bl := body.(*ast.BlockStmt)
	for _, d := range region {
		bl.List = append(bl.List, d.Body)
	}
	ast.Inspect(body, func(n ast.Node) bool {
		iff, ok := n.(*ast.IfStmt)
		if !ok {
			return true
		}
		f := fc.form(iff.Cond)
		// an admission test looks a topic up in the selection; a bare `len(it.topics) > 0` (is anything selected at all?) is not one
		if !strings.Contains(f.String(), "it.topics[") {
			return true
		}
		found = true
		wantF := or(atom("len(it.topics)", "==", "0"), &bform{op: "opaque", text: "it.topics[Channel.Topic]"})
		notWant := &bform{op: "not", kids: []*bform{wantF}}
		same := func(a, b *bform) bool { return counterexample(a, b, nil) == "" && counterexample(b, a, nil) == "" }
		// the admission itself, or its negation in front of a skip
		if f.String() == want || same(f, wantF) || same(f, notWant) {
			r.held("C04.e", fname, "topic filter", p.pos(iff.Pos()), f.String())
		} else {
			r.violated("C04.e", fname, "topic filter", p.pos(iff.Pos()), "channel admission is "+f.String()+", expected "+want)
		}
		return true
	})
	if !found {
		r.violated("C04.e", fname, "topic filter", p.pos(fd.Pos()), "no condition on the requested topics; the topic restriction is not applied")
	}
}

// checkReadOptions: every exported constructor of a ReadOpt stores (directly or through other options it applies)
// into a ReadOptions field that the iterator constructors load.
func checkReadOptions(p *Program, r *Result) {
	effective := map[string]bool{}
	for _, name := range []string{"Reader.Messages", "Reader.unindexedIterator", "Reader.indexedMessageIterator"} {
		fn := p.lookupFunc(pkgMcap, name)
		if fn == nil {
			continue
		}
		// the constructors and the helpers they hand the options to (not ReadOptions' own methods: Finalize only
		// normalises)
		region := map[*ssa.Function]bool{fn: true}
		frontier := []*ssa.Function{fn}
		for depth := 0; depth < 2; depth++ {
			var next []*ssa.Function
			for _, f := range frontier {
				for _, ci := range callsIn(f, func(ssa.CallInstruction) bool { return true }) {
					g := ci.Common().StaticCallee()
					if g == nil || g.Blocks == nil || !p.isRepoFunc(g) || region[g] || (strings.HasPrefix(funcName(g), "mcap.ReadOptions.") && ast.IsExported(g.Name())) {
						continue
					}
					passes := false
					for _, a := range ci.Common().Args {
						if pt, ok := a.Type().Underlying().(*types.Pointer); ok {
							if nt, ok := pt.Elem().(*types.Named); ok && nt.Obj().Name() == "ReadOptions" {
								passes = true
							}
						}
					}
					if passes {
						region[g] = true
						next = append(next, g)
					}
				}
			}
			frontier = next
		}
		for f := range region {
			for _, in := range instrsOf(f) {
				if u, ok := in.(*ssa.UnOp); ok && u.Op == token.MUL {
					if tn, fl, _, ok := fieldRef(u.X); ok && tn == "ReadOptions" {
						effective[fl] = true
					}
				}
			}
		}
	}
	sp := p.SSAPkgs[pkgMcap]
	var names []string
	for name, m := range sp.Members {
		fn, ok := m.(*ssa.Function)
		if !ok || !ast.IsExported(name) || fn.Signature.Results().Len() != 1 {
			continue
		}
		if nt, ok := fn.Signature.Results().At(0).Type().(*types.Named); ok && nt.Obj().Name() == "ReadOpt" {
			names = append(names, name)
		}
	}
	sort.Strings(names)
	for _, name := range names {
		fn := sp.Members[name].(*ssa.Function)
		stored := map[string]bool{}
		seen := map[*ssa.Function]bool{}
		var walk func(f *ssa.Function, depth int)
		walk = func(f *ssa.Function, depth int) {
			if f == nil || seen[f] || depth > 4 || f.Blocks == nil {
				return
			}
			seen[f] = true
			for _, af := range f.AnonFuncs {
				walk(af, depth+1)
			}
			for _, in := range instrsOf(f) {
				switch x := in.(type) {
				case *ssa.Store:
					if tn, fld, _, ok := fieldRef(x.Addr); ok && tn == "ReadOptions" {
						stored[fld] = true
					}
				case ssa.CallInstruction:
					for _, cal := range p.callees(x) {
						if p.isRepoFunc(cal) {
							walk(cal, depth+1)
						}
					}
				}
			}
		}
		walk(fn, 0)
		var eff, dead []string
		for f := range stored {
			if effective[f] {
				eff = append(eff, f)
			} else {
				dead = append(dead, f)
			}
		}
		sort.Strings(eff)
		sort.Strings(dead)
		construct := "option reaches the iterator window"
		if len(eff) == 0 {
			r.violated("C04.d", "mcap."+name, construct, p.pos(fn.Pos()),
				"the option only stores into ReadOptions."+strings.Join(dead, ",")+", which Reader.Messages and the iterator constructors never read; the option has no effect")
		} else {
			r.held("C04.d", "mcap."+name, construct, p.pos(fn.Pos()), "stores "+strings.Join(eff, ",")+" (read by the iterator constructors)")
		}
	}
}

// checkInfoReadOnly: no append/store whose destination slice originates from a field of the cached Info.
func checkInfoReadOnly(p *Program, r *Result) { checkInfoReadOnlyAs(p, r, "C04.f") }

// checkInfoReadOnlyAs: no slice that belongs to the Reader's cached Info is modified in place - directly, or through an
// iterator field that was assigned from a field of Info (append/copy into it, sort or reverse of it).
func checkInfoReadOnlyAs(p *Program, r *Result, rule string) {
	oc := &originCtx{p: p}
	bad := 0
	fns := sortedFuncs(readerScope(p))
	// iterator fields that may hold a slice of the cached Info
	tainted := map[string]string{}
	for _, fn := range fns {
		if fn.Name() == "Info" {
			continue
		}
		for _, in := range instrsOf(fn) {
			st, ok := in.(*ssa.Store)
			if !ok {
				continue
			}
			tn, f, _, ok := fieldRef(st.Addr)
			if !ok || !strings.HasSuffix(tn, "MessageIterator") {
				continue
			}
			if _, isSlice := st.Val.Type().Underlying().(*types.Slice); !isSlice {
				continue
			}
			for _, o := range oc.origins(st.Val) {
				if strings.HasPrefix(o, "field:Info.") {
					tainted["field:"+tn+"."+f] = o + " (assigned in " + funcName(fn) + ")"
				}
			}
		}
	}
	isInfo := func(o string) (string, bool) {
		if strings.HasPrefix(o, "field:Info.") {
			return o, true
		}
		if via, ok := tainted[o]; ok {
			return o + ", which aliases " + via, true
		}
		return "", false
	}
	for _, fn := range fns {
		if fn.Name() == "Info" {
			continue
		}
		for _, in := range instrsOf(fn) {
			c, ok := in.(*ssa.Call)
			if !ok || len(c.Call.Args) == 0 {
				continue
			}
			what := ""
			if b, isB := c.Call.Value.(*ssa.Builtin); isB && (b.Name() == "append" || b.Name() == "copy") {
				what = b.Name() + " into"
			} else {
				n := staticCalleeName(c.Common())
				if f := c.Call.StaticCallee(); f != nil && f.Origin() != nil {
					n = staticCalleeName2(f.Origin())
				}
				if stableSorts[n] || unstableSorts[n] || n == "slices.Reverse" {
					what = trimPkg(n) + " of"
				}
			}
			if what == "" {
				continue
			}
			dst := c.Call.Args[0]
			if mi, ok := dst.(*ssa.MakeInterface); ok {
				dst = mi.X
			}
			for _, o := range oc.origins(dst) {
				if desc, yes := isInfo(o); yes {
					bad++
					r.violated(rule, funcName(fn), what+" "+o, p.pos(c.Pos()),
						"a slice taken from the Reader's cached Info is modified in place ("+desc+"); a later read on the same Reader, or another live iterator, sees a filtered or reordered chunk/attachment/metadata index list")
				}
			}
		}
	}
	if bad == 0 {
		r.held(rule, "mcap (reader side)", "no in-place update of cached Info slices", "", "no append/copy/sort whose destination originates from a field of Info or from an iterator field assigned from one")
	}
}

// selectionAliases: struct fields that carry the read's selection, whoever owns them: a field initialised or assigned
// from ReadOptions.StartNanos / EndNanos is the window's start / end; a map[string]bool field named after topics is the
// topic set. They are given the canonical terms it.start / it.end / it.topics, so that moving the selection into a
// filter struct (or renaming the fields) does not change the formulas.
func selectionAliases(g *goLayouts) map[*types.Var]string {
	out := map[*types.Var]string{}
	optField := func(e ast.Expr) string {
		e = stripParenConv(g, e)
		se, ok := e.(*ast.SelectorExpr)
		if !ok {
			return ""
		}
		sel, ok := g.info.Selections[se]
		if !ok || sel.Kind() != types.FieldVal {
			return ""
		}
		t := sel.Recv()
		if pt, ok := t.(*types.Pointer); ok {
			t = pt.Elem()
		}
		if nt, ok := t.(*types.Named); !ok || nt.Obj().Name() != "ReadOptions" {
			return ""
		}
		switch se.Sel.Name {
		case "StartNanos":
			return "it.start"
		case "EndNanos":
			return "it.end"
		}
		return ""
	}
	fieldVarOf := func(e ast.Expr) *types.Var {
		switch x := e.(type) {
		case *ast.Ident:
			v, _ := g.info.ObjectOf(x).(*types.Var)
			if v != nil && v.IsField() {
				return v
			}
		case *ast.SelectorExpr:
			if sel, ok := g.info.Selections[x]; ok && sel.Kind() == types.FieldVal {
				v, _ := sel.Obj().(*types.Var)
				return v
			}
		}
		return nil
	}
	for _, f := range g.p.Pkgs[g.pkg].Syntax {
		ast.Inspect(f, func(n ast.Node) bool {
			switch x := n.(type) {
			case *ast.KeyValueExpr:
				if a := optField(x.Value); a != "" {
					if fv := fieldVarOf(x.Key); fv != nil {
						out[fv] = a
					}
				}
			case *ast.AssignStmt:
				if len(x.Lhs) == len(x.Rhs) {
					for i := range x.Lhs {
						if a := optField(x.Rhs[i]); a != "" {
							if fv := fieldVarOf(x.Lhs[i]); fv != nil {
								out[fv] = a
							}
						}
					}
				}
			case *ast.Field:
				// topic sets: map[string]bool fields named *topic*
				for _, nm := range x.Names {
					if fv, ok := g.info.Defs[nm].(*types.Var); ok && fv.IsField() && strings.Contains(strings.ToLower(nm.Name), "topic") {
						if mt, ok := fv.Type().Underlying().(*types.Map); ok {
							if b, ok := mt.Elem().Underlying().(*types.Basic); ok && b.Kind() == types.Bool {
								out[fv] = "it.topics"
							}
						}
					}
				}
			}
			return true
		})
	}
	return out
}
