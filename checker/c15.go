package main

import (
	"go/token"
	"go/types"
	"strings"

	"golang.org/x/tools/go/ssa"
)

func init() { register("C15", true, checkC15) }

// sourceSpec: what counts as "reading/seeking the byte source" (directly or through a decompressor).
func sourceSpec() *effectSpec {
	return &effectSpec{
		name: "source",
		stdFuncs: map[string]bool{
			"io.ReadFull": true, "io.ReadAll": true, "io.ReadAtLeast": true, "io.CopyN": true, "io.Copy": true,
		},
		ifaceMeth: func(recv types.Type, m string) bool {
			switch m {
			case "Read":
				return hasMethod(recv, "Read")
			case "Seek":
				return hasMethod(recv, "Seek")
			case "Reset":
				return hasMethod(recv, "Read") // ResettableReader.Reset(io.Reader) error
			}
			return false
		},
		concrete: func(f *ssa.Function) bool {
			// decompressor / buffered-reader entry points outside the repo that consume the source
			s := f.String()
			for _, pre := range []string{
				"(*github.com/klauspost/compress/zstd.Decoder).", "github.com/klauspost/compress/zstd.NewReader",
				"(*github.com/pierrec/lz4/v4.Reader).Read", "(*bufio.Reader).Read", "(*bytes.Reader).Read", "(*os.File).Read", "(*os.File).Seek",
				"(*io.LimitedReader).Read",
			} {
				if strings.HasPrefix(s, pre) {
					return true
				}
			}
			return false
		},
		dynamicAll: true,
	}
}

func methodsOf(p *Program, pkgPath string, typeNames ...string) []*ssa.Function {
	var out []*ssa.Function
	sp := p.SSAPkgs[pkgPath]
	for _, tn := range typeNames {
		tm, ok := sp.Members[tn].(*ssa.Type)
		if !ok {
			continue
		}
		for _, t := range []types.Type{tm.Type(), types.NewPointer(tm.Type())} {
			ms := p.SSA.MethodSets.MethodSet(t)
			for i := 0; i < ms.Len(); i++ {
				if f := p.SSA.MethodValue(ms.At(i)); f != nil {
					out = append(out, f)
				}
			}
		}
	}
	return out
}

// readerEntryPoints: the public decode surface of go/mcap.
func readerEntryPoints(p *Program) []*ssa.Function {
	var roots []*ssa.Function
	sp := p.SSAPkgs[pkgMcap]
	for name, m := range sp.Members {
		f, ok := m.(*ssa.Function)
		if !ok {
			continue
		}
		if strings.HasPrefix(name, "Parse") || name == "NewLexer" || name == "NewReader" || name == "Range" || name == "readRecord" || name == "parseAttachmentReader" {
			roots = append(roots, f)
		}
	}
	roots = append(roots, methodsOf(p, pkgMcap, "Lexer", "Reader", "indexedMessageIterator", "unindexedMessageIterator", "AttachmentReader", "Message", "Info", "crcReader")...)
	return roots
}

func readerScope(p *Program) map[*ssa.Function]bool {
	reach := p.reachableFrom(readerEntryPoints(p)...)
	out := map[*ssa.Function]bool{}
	for f := range reach {
		if p.isRepoFunc(f) && p.funcPkgPath(f) == pkgMcap && f.Blocks != nil && f.Synthetic == "" {
			if f.TypeParams().Len() > 0 && len(f.TypeArgs()) == 0 {
				continue
			}
			out[f] = true
		}
	}
	return out
}

func checkC15(p *Program, r *Result) {
	r.Explanation = "Structural necessary conditions of 'reads do not depend on how bytes arrive; source errors are not EOF': " +
		"(C15.a) reader-side code of go/mcap touches the byte source only through full-read primitives (io.ReadFull/ReadAll/CopyN) or through transparent " +
		"Read wrappers that return the wrapped (n, err) unchanged, so short reads cannot change what is decoded; " +
		"(C15.b) every call that can reach a read/seek of the source (or a decompressor over it, or a user callback) has its error bound and consulted on every path; " +
		"a non-nil error is returned non-nil unless it was first classified with errors.Is(err, io.EOF|io.ErrUnexpectedEOF); an unclassified error is never turned into nil or io.EOF; " +
		"(C15.c) the byte count returned by a full read never becomes a record length or returned data. Decided on go/ssa CFGs with a VTA call graph."
	r.NotDecided = []string{
		"how the zstd/lz4 decoders surface errors of the underlying source (third-party, trusted)",
		"prefix property of the records returned before the error (run-time)",
	}
	r.rule("C15.a", "the source is read only through full-read primitives or transparent Read wrappers", 15)
	r.rule("C15.b", "source/seek/decompressor/callback errors are consulted on every path and never become success or clean EOF unless classified", 30)
	r.rule("C15.c", "the count returned by a full read is used for diagnostics only", 5)

	spec := sourceSpec()
	R := p.reachSet(spec)
	scope := p.scopeFn(spec, R)
	cfg := errFlowCfg{rule: "C15.b", inScope: scope, allowClassify: true, forbidEOF: true, passThrough: repositioningCall}
	fns := sortedFuncs(readerScope(p))
	for _, fn := range fns {
		r.Funcs[funcName(fn)] = true
		runErrFlow(p, r, fn, cfg)
		checkRawReads(p, r, fn)
		checkReadCounts(p, r, fn)
	}
	r.rule("C15.t", "a byte source is only asked whether it can seek, never what kind of object it is or how much it holds", 1)
	checkSourceTypeTests(p, r, "C15.t", fns)
}

// checkRawReads implements C15.a for one function.
func checkRawReads(p *Program, r *Result, fn *ssa.Function) { checkRawReadsAs(p, r, fn, "C15.a") }

func checkRawReadsAs(p *Program, r *Result, fn *ssa.Function, rule string) {
	fname := funcName(fn)
	for _, ci := range callsIn(fn, func(ssa.CallInstruction) bool { return true }) {
		c := ci.Common()
		pos := p.pos(ci.Pos())
		if calleeIs(ci, "io.ReadFull", "io.ReadAll", "io.CopyN", "io.ReadAtLeast") {
			r.held(rule, fname, "full read via "+trimPkg(staticCalleeName(c)), pos, "full-read primitive: loops until the buffer is filled or an error occurs")
			continue
		}
		isRead := false
		label := ""
		if c.IsInvoke() && c.Method.Name() == "Read" && hasMethod(c.Value.Type(), "Read") {
			isRead, label = true, "invoke "+shortType(c.Value.Type())+".Read"
		} else if f := c.StaticCallee(); f != nil && f.Name() == "Read" && f.Signature.Recv() != nil && !p.isRepoFunc(f) {
			sig := f.Signature
			if sig.Params().Len() == 1 && sig.Results().Len() == 2 {
				isRead, label = true, "call "+trimPkg(f.String())
			}
		}
		if !isRead {
			continue
		}
		if transparentReadWrapper(fn, ci) {
			r.held(rule, fname, "raw "+label+" in transparent wrapper", pos, "Read wrapper returns the wrapped (n, err) unchanged for its own buffer argument")
		} else {
			r.violated(rule, fname, "raw "+label, pos, "a single Read may return fewer bytes than requested; decoded content would depend on how the source delivers bytes")
		}
	}
}

// transparentReadWrapper: fn is a Read([]byte)(int,error) method, passes its own buffer parameter to the
// wrapped Read, and returns exactly that call's (n, err).
func transparentReadWrapper(fn *ssa.Function, ci ssa.CallInstruction) bool {
	if fn.Name() != "Read" || fn.Signature.Recv() == nil || fn.Signature.Params().Len() != 1 || fn.Signature.Results().Len() != 2 {
		return false
	}
	call, ok := ci.(*ssa.Call)
	if !ok {
		return false
	}
	args := call.Call.Args
	if len(args) == 0 || args[len(args)-1] != ssa.Value(fn.Params[len(fn.Params)-1]) {
		return false
	}
	// every return hands back the (n, err) pair of a wrapped Read that was given the wrapper's own buffer (this call
	// or a sibling call on another branch)
	isWrapped := func(v ssa.Value) bool {
		c, ok := v.(*ssa.Call)
		if !ok || !c.Call.IsInvoke() || c.Call.Method.Name() != "Read" {
			if !ok {
				return false
			}
			if f := c.Call.StaticCallee(); f == nil || f.Name() != "Read" {
				return false
			}
		}
		a := c.Call.Args
		return len(a) > 0 && a[len(a)-1] == ssa.Value(fn.Params[len(fn.Params)-1])
	}
	okRet := 0
	for _, in := range instrsOf(fn) {
		ret, ok := in.(*ssa.Return)
		if !ok {
			continue
		}
		e0, ok0 := ret.Results[0].(*ssa.Extract)
		e1, ok1 := ret.Results[1].(*ssa.Extract)
		if !ok0 || !ok1 || e0.Tuple != e1.Tuple || !isWrapped(e0.Tuple) || e0.Index != 0 || e1.Index != 1 {
			return false
		}
		okRet++
	}
	return okRet > 0
}

// checkReadCounts implements C15.c.
func checkReadCounts(p *Program, r *Result, fn *ssa.Function) {
	fname := funcName(fn)
	for _, ci := range callsIn(fn, func(ci ssa.CallInstruction) bool { return calleeIs(ci, "io.ReadFull", "io.ReadAtLeast") }) {
		call, ok := ci.(*ssa.Call)
		if !ok {
			continue
		}
		var n ssa.Value
		for _, ref := range *call.Referrers() {
			if ex, ok := ref.(*ssa.Extract); ok && ex.Index == 0 {
				n = ex
			}
		}
		pos := p.pos(ci.Pos())
		if n == nil {
			r.held("C15.c", fname, "count of "+trimPkg(staticCalleeName(ci.Common())), pos, "count discarded")
			continue
		}
		bad := ""
		seen := map[ssa.Value]bool{}
		depth := 0
		cur := fn
		var walk func(v ssa.Value)
		walk = func(v ssa.Value) {
			fn := cur
			if seen[v] || bad != "" {
				return
			}
			seen[v] = true
			refs := v.Referrers()
			if refs == nil {
				return
			}
			for _, ref := range *refs {
				switch x := ref.(type) {
				case *ssa.BinOp:
					switch x.Op {
					case token.ADD, token.SUB, token.MUL:
						walk(x)
					}
				case *ssa.Phi:
					walk(x)
				case *ssa.Convert:
					walk(x)
				case *ssa.ChangeType:
					walk(x)
				case *ssa.Slice:
					walk(x)
				case *ssa.MakeInterface:
					// formatted into a message: diagnostic
				case *ssa.Store:
					tn, f, _, ok := fieldRef(x.Addr)
					if ok && !strings.HasPrefix(strings.ToLower(tn), "err") {
						bad = "stored into " + tn + "." + f
					}
				case *ssa.Return:
					for i, rv := range x.Results {
						if rv == v && !isErrorType(fn.Signature.Results().At(i).Type()) {
							bad = "returned as result " + fn.Signature.Results().At(i).Type().String()
						}
					}
				case *ssa.MakeSlice:
					bad = "used as an allocation size"
				case *ssa.IndexAddr:
					if x.Index == v {
						bad = "used as an index"
					}
				case ssa.CallInstruction:
					if name := staticCalleeName(x.Common()); !strings.HasPrefix(name, "fmt.") && !strings.HasPrefix(name, "bytes.Equal") {
						if _, isSlice := v.(*ssa.Slice); !isSlice {
							// a repo helper: follow the count into the corresponding parameter
							if g := x.Common().StaticCallee(); g != nil && g.Blocks != nil && p.isRepoFunc(g) && depth < 3 {
								for i, a := range x.Common().Args {
									if a == v && i < len(g.Params) {
										depth++
										prev := cur
										cur = g
										walk(g.Params[i])
										cur = prev
										depth--
									}
								}
								if bad != "" && !strings.Contains(bad, " in ") {
									bad += " in " + funcName(g)
								}
							} else {
								bad = "passed to " + trimPkg(name)
							}
						}
					}
				}
			}
		}
		walk(n)
		if bad != "" {
			r.violated("C15.c", fname, "count of "+trimPkg(staticCalleeName(ci.Common())), pos, "the byte count of a full read is "+bad+"; it must only feed diagnostics")
		} else {
			r.held("C15.c", fname, "count of "+trimPkg(staticCalleeName(ci.Common())), pos, "count flows only to comparisons and error values")
		}
	}
}
