package main

import (
	"strings"

	"golang.org/x/tools/go/ssa"
)

// C07.e: with chunk validation on, a damaged chunk "stops with an error" - and io.EOF is not an error to the callers
// of a reader (Range, the iterators' documented protocol and every `errors.Is(err, io.EOF)` loop end quietly on it).
// The full read that stages the chunk reads a DECLARED number of bytes from the decoder; a decoder that runs dry first
// reports io.EOF (nothing read) or io.ErrUnexpectedEOF. If that error is returned as it is, or wrapped with %w, without
// the function ever asking errors.Is(err, io.EOF), a corrupted (lz4) frame ends the read with what looks like a clean
// end of file. Required: on every path from the staging read's failure to a return that carries the error (directly or
// through %w), a test errors.Is(·, io.EOF) has been evaluated.
func checkStagedReadEOF(p *Program, r *Result, rule string, lc *ssa.Function, sumCall *ssa.Call) {
	if lc == nil || sumCall == nil {
		return
	}
	hashed := checksumData(sumCall)
	n := 0
	for _, ci := range callsIn(lc, isExactFullRead) {
		call, ok := ci.(*ssa.Call)
		if !ok || !(sameSliceShape(call.Call.Args[1], hashed) || call.Call.Args[1] == hashed) {
			continue
		}
		e := errorValueOf(call)
		if e == nil {
			continue
		}
		n++
		A := aliasSet(lc, e)
		// blocks in which an errors.Is(alias, io.EOF) test has been evaluated on every path: blocks dominated by such a call
		var tests []ssa.Instruction
		for _, c2 := range callsIn(lc, func(c2 ssa.CallInstruction) bool { return calleeIs(c2, "errors.Is") }) {
			args := c2.Common().Args
			if len(args) == 2 && A[args[0]] && globalLoad(args[1]) == "io.EOF" {
				tests = append(tests, c2)
			}
		}
		construct := "end-of-input from the decoder while staging the chunk"
		bad := ""
		for _, in := range instrsOf(lc) {
			ret, ok := in.(*ssa.Return)
			if !ok || len(ret.Results) == 0 {
				continue
			}
			rv := ret.Results[len(ret.Results)-1]
			carries := A[rv]
			if !carries {
				if fc, ok := rv.(*ssa.Call); ok && calleeIs(fc, "fmt.Errorf") && wrapsAlias(rv, A) {
					if k, ok := fc.Call.Args[0].(*ssa.Const); ok && k.Value != nil && strings.Contains(k.Value.ExactString(), "%w") {
						carries = true
					}
				}
			}
			if !carries || !instrDominates(call, ret) {
				continue
			}
			tested := false
			for _, t := range tests {
				if !instrDominates(t, ret) {
					continue
				}
				// asking is not enough: where the answer is yes the error that is returned must be another one. Either
				// this return lies on the "no" side of the test, or the value it carries is a phi whose "yes" edge brings
				// something other than the read's own error
				tc, isCall := t.(*ssa.Call)
				if !isCall {
					continue
				}
				var yes, no *ssa.BasicBlock
				for _, ref := range *tc.Referrers() {
					cond := ssa.Value(tc)
					iff, ok := ref.(*ssa.If)
					if u, isNot := ref.(*ssa.UnOp); isNot {
						for _, r2 := range *u.Referrers() {
							if i2, ok2 := r2.(*ssa.If); ok2 {
								iff, ok = i2, true
								cond = u
							}
						}
					}
					if !ok {
						continue
					}
					if cond == ssa.Value(tc) {
						yes, no = iff.Block().Succs[0], iff.Block().Succs[1]
					} else {
						yes, no = iff.Block().Succs[1], iff.Block().Succs[0]
					}
				}
				if yes == nil {
					continue
				}
				if len(no.Preds) == 1 && no.Dominates(ret.Block()) && !reachableBlocks(yes)[ret.Block()] {
					tested = true
					continue
				}
				carried := rv
				if fc, ok := rv.(*ssa.Call); ok && calleeIs(fc, "fmt.Errorf") {
					// the wrapped operand: what is stored into the variadic argument slice, under its interface conversion
					for _, arg := range fc.Call.Args {
						sl, ok := arg.(*ssa.Slice)
						if !ok {
							continue
						}
						al, ok := sl.X.(*ssa.Alloc)
						if !ok {
							continue
						}
						for _, ref := range *al.Referrers() {
							ia, ok := ref.(*ssa.IndexAddr)
							if !ok {
								continue
							}
							for _, r2 := range *ia.Referrers() {
								st, ok := r2.(*ssa.Store)
								if !ok {
									continue
								}
								v := st.Val
								for {
									if ci, ok := v.(*ssa.ChangeInterface); ok {
										v = ci.X
										continue
									}
									if mi, ok := v.(*ssa.MakeInterface); ok {
										v = mi.X
										continue
									}
									break
								}
								if A[v] {
									carried = v
								}
							}
						}
					}
				}
				if phi, ok := carried.(*ssa.Phi); ok {
					replaced := false
					for i, ev := range phi.Edges {
						pr := phi.Block().Preds[i]
						if (pr == yes || yes.Dominates(pr)) && ev != ssa.Value(e) {
							replaced = true
						}
					}
					if replaced {
						tested = true
					}
				}
			}
			if !tested {
				bad = p.pos(ret.Pos())
			}
		}
		if bad == "" {
			r.held(rule, funcName(lc), construct, p.pos(call.Pos()), "io.EOF from the staging read is recognised before the error is returned")
		} else {
			r.violated(rule, funcName(lc), construct, bad,
				"the error of the read that stages the chunk's declared number of bytes is returned (wrapped with %w) without asking whether it is io.EOF; a decoder that runs dry on a damaged frame makes the read end with an error that errors.Is(err, io.EOF) - a clean end of file to every caller - and the rest of the file is lost silently")
		}
	}
	if n == 0 {
		r.note(rule, funcName(lc), "end-of-input while staging", "", "no full read into the hashed buffer found: not judged")
	}
}
