package main

import (
	"strings"

	"golang.org/x/tools/go/ssa"
)

// C07.e: with chunk validation on, a damaged chunk "stops with an error" - and io.EOF is not an error to the callers
// of a reader (Range, the iterators' documented protocol and every `errors.Is(err, io.EOF)` loop end quietly on it).
// The full read that stages the chunk reads a DECLARED number of bytes from the decoder; a decoder that runs dry first
// reports io.EOF (nothing read) or io.ErrUnexpectedEOF. If that error is returned as it is, or wrapped with %w, without
// the function ever asking errors.Is(err, io.EOF), a corrupted (lz4) frame ends the read with what looks like a clean
// end of file. Required: on every path from the staging read's failure to a return that carries the error (directly or
// through %w), a test errors.Is(·, io.EOF) has been evaluated.
func checkStagedReadEOF(p *Program, r *Result, rule string, lc *ssa.Function, sumCall *ssa.Call) {
	if lc == nil || sumCall == nil {
		return
	}
	hashed := checksumData(sumCall)
	n := 0
	for _, ci := range callsIn(lc, func(ci ssa.CallInstruction) bool { return calleeIs(ci, "io.ReadFull") }) {
		call, ok := ci.(*ssa.Call)
		if !ok || !(sameSliceShape(call.Call.Args[1], hashed) || call.Call.Args[1] == hashed) {
			continue
		}
		e := errorValueOf(call)
		if e == nil {
			continue
		}
		n++
		A := aliasSet(lc, e)
		// blocks in which an errors.Is(alias, io.EOF) test has been evaluated on every path: blocks dominated by such a call
		var tests []ssa.Instruction
		for _, c2 := range callsIn(lc, func(c2 ssa.CallInstruction) bool { return calleeIs(c2, "errors.Is") }) {
			args := c2.Common().Args
			if len(args) == 2 && A[args[0]] && globalLoad(args[1]) == "io.EOF" {
				tests = append(tests, c2)
			}
		}
		construct := "end-of-input from the decoder while staging the chunk"
		bad := ""
		for _, in := range instrsOf(lc) {
			ret, ok := in.(*ssa.Return)
			if !ok || len(ret.Results) == 0 {
				continue
			}
			rv := ret.Results[len(ret.Results)-1]
			carries := A[rv]
			if !carries {
				if fc, ok := rv.(*ssa.Call); ok && calleeIs(fc, "fmt.Errorf") && wrapsAlias(rv, A) {
					if k, ok := fc.Call.Args[0].(*ssa.Const); ok && k.Value != nil && strings.Contains(k.Value.ExactString(), "%w") {
						carries = true
					}
				}
			}
			if !carries || !instrDominates(call, ret) {
				continue
			}
			tested := false
			for _, t := range tests {
				if instrDominates(t, ret) {
					tested = true
				}
			}
			if !tested {
				bad = p.pos(ret.Pos())
			}
		}
		if bad == "" {
			r.held(rule, funcName(lc), construct, p.pos(call.Pos()), "io.EOF from the staging read is recognised before the error is returned")
		} else {
			r.violated(rule, funcName(lc), construct, bad,
				"the error of the read that stages the chunk's declared number of bytes is returned (wrapped with %w) without asking whether it is io.EOF; a decoder that runs dry on a damaged frame makes the read end with an error that errors.Is(err, io.EOF) - a clean end of file to every caller - and the rest of the file is lost silently")
		}
	}
	if n == 0 {
		r.note(rule, funcName(lc), "end-of-input while staging", "", "no full read into the hashed buffer found: not judged")
	}
}
