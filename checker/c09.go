package main

import (
	"go/token"
	"go/types"
	"strings"

	"golang.org/x/tools/go/ssa"
)

func init() { register("C09", true, checkC09) }

func checkC09(p *Program, r *Result) {
	r.Explanation = "Structural necessary conditions of 'a file cut short at any byte reads as a prefix of its records': " +
		"(C09.a) the writer is append-only: no writer-side function seeks, writes at an offset, truncates, or type-asserts the destination to a seekable/positional writer, so whatever the sink holds after a crash is a prefix of the final file; " +
		"(C09.b) Lexer.Next returns a record only on a path where a full read (io.ReadFull) of exactly the declared record length into the returned slice succeeded; likewise readRecord and the index-based chunk read; " +
		"(C09.c) read errors are replaced only after classification as io.EOF/io.ErrUnexpectedEOF, and then by io.EOF, a truncated-record error or leaving the chunk — never by a record (error-flow engine, shared with C15.b); " +
		"(C09.d) no input can crash the readers (bounded-input engine and abort-call rule, shared with C10)."
	r.NotDecided = []string{"that what is returned is a prefix through the zstd/lz4 streaming decoders (third-party)", "that every message of a completely written chunk is returned (run-time)"}
	r.rule("C09.a", "writer never repositions or rewrites the destination", 40)
	r.rule("C09.b", "a record is returned only after a successful full read of its declared length", 2)
	r.rule("C09.c", "source errors are classified before being replaced", 30)
	r.rule("C09.d", "truncated input cannot crash the readers", 12)

	// ---- a
	for _, fn := range sortedFuncs(writerScope(p)) {
		fname := funcName(fn)
		bad := false
		for _, in := range instrsOf(fn) {
			switch x := in.(type) {
			case *ssa.TypeAssert:
				if it, ok := x.AssertedType.Underlying().(*types.Interface); ok {
					for _, m := range []string{"Seek", "WriteAt", "Truncate"} {
						if hasMethodIface(it, m) {
							r.violated("C09.a", fname, "type assertion to an interface with "+m, p.pos(x.Pos()), "the destination is probed for random access; rewriting earlier bytes breaks the prefix guarantee")
							bad = true
						}
					}
				}
				if strings.HasSuffix(x.AssertedType.String(), "os.File") {
					r.violated("C09.a", fname, "type assertion to *os.File", p.pos(x.Pos()), "the destination is probed for random access")
					bad = true
				}
			case ssa.CallInstruction:
				c := x.Common()
				name := ""
				if c.IsInvoke() {
					name = c.Method.Name()
				} else if f := c.StaticCallee(); f != nil && f.Signature.Recv() != nil {
					name = f.Name()
				}
				switch name {
				case "Seek", "WriteAt", "Truncate":
					r.violated("C09.a", fname, "call of "+name, p.pos(x.Pos()), "writer code repositions or rewrites its destination; after a crash the sink would not hold a prefix of the final file")
					bad = true
				}
			}
		}
		if !bad {
			r.held("C09.a", fname, "append-only", p.pos(fn.Pos()), "no Seek/WriteAt/Truncate, no assertion to a seekable writer")
		}
	}

	// ---- b: returns of (token, record, nil) in Lexer.Next
	if fn := p.lookupFunc(pkgMcap, "Lexer.Next"); fn != nil {
		checkFullReadBeforeReturn(p, r, fn, 1, 2)
	}
	if fn := p.lookupFunc(pkgMcap, "readRecord"); fn != nil {
		checkFullReadBeforeReturn(p, r, fn, 1, 2)
	}

	r.rule("C09.r", "the source is consumed only through full-read primitives (a hand-written Read loop mishandles the (0, EOF) a truncated file produces)", 15)
	for _, fn := range sortedFuncs(readerScope(p)) {
		checkRawReadsAs(p, r, fn, "C09.r")
	}
	r.rule("C09.f", "the destination of a full read is consumed only where the read succeeded", 10)
	checkConsumeAfterFullRead(p, r, "C09.f", sortedFuncs(readerScope(p)))
	r.rule("C09.l", "a full read's destination is cut to the wanted length on every path", 1)
	checkFullReadLength(p, r, "C09.l", sortedFuncs(readerScope(p)))
	r.rule("C09.t", "how much input the source reports as left never enters a decoding decision (no dynamic type test of a source beyond seekability)", 1)
	checkSourceTypeTests(p, r, "C09.t", sortedFuncs(readerScope(p)))

	// ---- c: same engine as C15.b restricted to the lexer and helpers
	spec := sourceSpec()
	R := p.reachSet(spec)
	cfg := errFlowCfg{rule: "C09.c", inScope: p.scopeFn(spec, R), allowClassify: true, forbidEOF: true, passThrough: repositioningCall}
	for _, fn := range sortedFuncs(readerScope(p)) {
		runErrFlow(p, r, fn, cfg)
	}
	// ---- d
	scope := readerScope(p)
	ba := newBoundAnalysis(p, scope)
	ba.run()
	emitBoundReports(p, r, ba, "C09.d", map[string]string{
		"C09.d | mcap.indexedMessageIterator.NextInto | slice-high(it.chunkSlots[·].buf) <- mcap.checkedAdd()#0": "see C10.a (DESIGN.md 7.1)",
	})
}

func hasMethodIface(it *types.Interface, name string) bool {
	for i := 0; i < it.NumMethods(); i++ {
		if it.Method(i).Name() == name {
			return true
		}
	}
	return false
}

// checkFullReadBeforeReturn: every return whose error result is nil and whose data result (index dataIdx) is not
// nil must be dominated by the success edge of an io.ReadFull into exactly that slice.
func checkFullReadBeforeReturn(p *Program, r *Result, fn *ssa.Function, dataIdx, errIdx int) {
	fname := funcName(fn)
	for _, in := range instrsOf(fn) {
		ret, ok := in.(*ssa.Return)
		if !ok || len(ret.Results) <= errIdx || !isNilConst(ret.Results[errIdx]) || isNilConst(ret.Results[dataIdx]) {
			continue
		}
		data := ret.Results[dataIdx]
		construct := "return of " + valueLabel(ret.Results[0]) + " with record"
		okRead := false
		for _, ci := range callsIn(fn, func(ci ssa.CallInstruction) bool { return calleeIs(ci, "io.ReadFull") }) {
			call := ci.(*ssa.Call)
			if !sameOrPhi(call.Call.Args[1], data) {
				continue
			}
			// error of this ReadFull tested, and ret on the nil side: approximated by dominance of the call plus
			// absence of a path from the call's error branches (E3 decides the error discipline itself)
			if instrDominates(call, ret) {
				okRead = true
			}
		}
		// the full read may be delegated to a helper that is handed the slice: the helper must return a nil error only
		// after io.ReadFull into that parameter
		for _, ci := range callsIn(fn, func(ssa.CallInstruction) bool { return true }) {
			g := ci.Common().StaticCallee()
			if g == nil || !p.transparent(g) || !instrDominates(ci, ret) {
				continue
			}
			for i, a := range ci.Common().Args {
				if sameOrPhi(a, data) && i < len(g.Params) && helperFullyReads(g, g.Params[i]) {
					okRead = true
				}
			}
		}
		// ... or to a helper that hands the filled slice back: each of its returns with a nil error and a slice must
		// itself come after a full read into that slice
		if ex, ok := data.(*ssa.Extract); ok && !okRead {
			if call, ok := ex.Tuple.(*ssa.Call); ok && instrDominates(call, ret) {
				if g := call.Call.StaticCallee(); g != nil && p.transparent(g) && helperReturnsFullyRead(p, g, ex.Index, 0) {
					okRead = true
				}
			}
		}
		if okRead {
			r.held("C09.b", fname, construct, p.pos(ret.Pos()), "dominated by io.ReadFull into the returned slice")
		} else {
			r.violated("C09.b", fname, construct, p.pos(ret.Pos()),
				"a record is returned without a dominating full read of its declared length into the returned slice; on a truncated file a partially filled (stale) buffer would be returned as a record")
		}
	}
	_ = token.ADD
}

// helperFullyReads: every return of g whose error may be nil is dominated by an io.ReadFull into prm.
func helperFullyReads(g *ssa.Function, prm *ssa.Parameter) bool {
	var reads []ssa.CallInstruction
	for _, ci := range callsIn(g, func(ci ssa.CallInstruction) bool { return calleeIs(ci, "io.ReadFull") }) {
		if sameOrPhi(ci.Common().Args[1], prm) {
			reads = append(reads, ci)
		}
	}
	if len(reads) == 0 {
		return false
	}
	for _, in := range instrsOf(g) {
		ret, ok := in.(*ssa.Return)
		if !ok || len(ret.Results) == 0 {
			continue
		}
		e := ret.Results[len(ret.Results)-1]
		if !isNilConst(e) && errKnownNonNil(ret, e) {
			continue
		}
		dom := false
		for _, rd := range reads {
			if instrDominates(rd, ret) {
				dom = true
			}
		}
		if !dom {
			return false
		}
	}
	return true
}

// helperReturnsFullyRead: every return of g with a nil error and a non-nil slice at result k is dominated by an
// io.ReadFull into that slice (directly, or through a further helper).
func helperReturnsFullyRead(p *Program, g *ssa.Function, k int, depth int) bool {
	res := g.Signature.Results()
	if g.Blocks == nil || k >= res.Len() || res.Len() < 2 || !isErrorType(res.At(res.Len()-1).Type()) || depth > 2 {
		return false
	}
	errIdx := res.Len() - 1
	n := 0
	for _, in := range instrsOf(g) {
		ret, ok := in.(*ssa.Return)
		if !ok || !isNilConst(ret.Results[errIdx]) || isNilConst(ret.Results[k]) {
			continue
		}
		n++
		data := ret.Results[k]
		okRead := false
		for _, ci := range callsIn(g, func(ci ssa.CallInstruction) bool { return calleeIs(ci, "io.ReadFull") }) {
			if sameOrPhi(ci.Common().Args[1], data) && instrDominates(ci, ret) {
				okRead = true
			}
		}
		if ex, ok := data.(*ssa.Extract); ok && !okRead {
			if call, ok := ex.Tuple.(*ssa.Call); ok && instrDominates(call, ret) {
				if h := call.Call.StaticCallee(); h != nil && p.transparent(h) && helperReturnsFullyRead(p, h, ex.Index, depth+1) {
					okRead = true
				}
			}
		}
		if !okRead {
			return false
		}
	}
	return n > 0
}
