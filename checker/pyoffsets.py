#!/usr/bin/env python3
"""Offset conventions in the Python writer and seeking reader, read from the AST only (nothing is imported/run).
Output JSON: {name: {"ok": bool, "where": file:func, "detail": str}}"""
import ast, json, os, sys
root = sys.argv[1] if len(sys.argv) > 1 else "/repo"
base = os.path.join(root, "python/mcap/mcap")
out = {}

def funcs(tree):
    res = {}
    for n in ast.walk(tree):
        if isinstance(n, (ast.FunctionDef,)):
            res[n.name] = n
    return res

def src(n):
    return ast.unparse(n)

# ---- writer: offset = <stream>.tell()/count taken BEFORE the record is written
w = ast.parse(open(os.path.join(base, "writer.py")).read())
wf = funcs(w)
for fname, rec_cls, idx_cls in (("add_attachment", "Attachment", "AttachmentIndex"), ("add_metadata", "Metadata", "MetadataIndex"), ("__finalize_chunk", "Chunk", "ChunkIndex")):
    fn = wf.get(fname) or wf.get("_" + fname) or wf.get("_Writer" + fname)
    key = f"writer.{fname}: offset snapshot precedes the {rec_cls} record"
    if fn is None:
        out[key] = {"ok": False, "where": "python/mcap/mcap/writer.py", "detail": "function not found"}
        continue
    # order of (a) assignment of a variable from .count / .tell() (b) first <Record>(...).write( / record.write(
    snap_line, write_line, snap_var = None, None, None
    for n in ast.walk(fn):
        if isinstance(n, ast.Assign) and isinstance(n.targets[0], ast.Name):
            s = src(n.value)
            if (".count" in s or ".tell()" in s) and "-" not in s and snap_line is None and "offset" in n.targets[0].id:
                snap_line, snap_var = n.lineno, n.targets[0].id
        if isinstance(n, ast.Call) and isinstance(n.func, ast.Attribute) and n.func.attr == "write" and write_line is None:
            # the write of the record object into the output record builder
            if any(isinstance(a, ast.Name) or isinstance(a, ast.Attribute) for a in n.args):
                recv = src(n.func.value)
                if rec_cls.lower() in recv.lower() or recv in ("attachment", "metadata", "chunk", "record"):
                    write_line = n.lineno
    uses_snap = False
    for n in ast.walk(fn):
        if isinstance(n, ast.Call) and src(n.func).endswith(idx_cls):
            for kw in n.keywords:
                if kw.arg in ("offset", "chunk_start_offset") and isinstance(kw.value, ast.Name) and kw.value.id == snap_var:
                    uses_snap = True
    ok = snap_line is not None and write_line is not None and snap_line < write_line and uses_snap
    out[key] = {"ok": ok, "where": f"python/mcap/mcap/writer.py:{fname}", "detail": f"snapshot {snap_var} at line {snap_line}, record written at line {write_line}, index uses snapshot: {uses_snap}"}

# ---- seeking reader: seeks to chunk_start_offset + 1 + 8 (record prefix) and reads chunk_length - 9 ... or reads the record at chunk_start_offset
r = ast.parse(open(os.path.join(base, "reader.py")).read())
text = open(os.path.join(base, "reader.py")).read()
seeks = [src(n) for n in ast.walk(r) if isinstance(n, ast.Call) and isinstance(n.func, ast.Attribute) and n.func.attr == "seek"]
chunk_seek = [s for s in seeks if "chunk_start_offset" in s]
ok = any(("+ 1 + 8" in s or "+ 9" in s or "+1+8" in s) for s in chunk_seek)
out["reader: chunk is read from chunk_start_offset + 9 (after the opcode and length)"] = {"ok": ok, "where": "python/mcap/mcap/reader.py", "detail": "; ".join(chunk_seek) or "no seek on chunk_start_offset found"}
att_seek = [s for s in seeks if ".offset" in s and "chunk" not in s]
ok = len(att_seek) >= 2 and all(("+" not in s and "-" not in s) for s in att_seek)
out["reader: attachment/metadata records are read from index.offset (the opcode byte, as the writers record it)"] = {"ok": ok, "where": "python/mcap/mcap/reader.py", "detail": "; ".join(att_seek) or "no seek on an index offset found"}
# ---- stream reader dispatch: every opcode is routed to the read() of the record class of the same name
sr = ast.parse(open(os.path.join(base, "stream_reader.py")).read())
sf = funcs(sr)
disp = {}
fn = sf.get("_read_record")
if fn is not None:
    for n in ast.walk(fn):
        if isinstance(n, ast.If) and isinstance(n.test, ast.Compare) and len(n.test.comparators) == 1:
            c = n.test.comparators[0]
            if isinstance(c, ast.Attribute) and isinstance(c.value, ast.Name) and c.value.id == "Opcode":
                for st in n.body:
                    if isinstance(st, ast.Return) and isinstance(st.value, ast.Call) and isinstance(st.value.func, ast.Attribute) and st.value.func.attr == "read":
                        disp[c.attr] = src(st.value.func.value)
opc = []
for n in ast.walk(ast.parse(open(os.path.join(base, "opcode.py")).read())):
    if isinstance(n, ast.ClassDef):
        opc = [s.targets[0].id for s in n.body if isinstance(s, ast.Assign)]
def camel(name): return "".join(w.capitalize() for w in name.split("_"))
wrong = [f"{k}->{v}" for k, v in disp.items() if camel(k) != v]
missing = [k for k in opc if k not in disp]
out["stream reader: every opcode dispatches to the record class of the same name"] = {
    "ok": fn is not None and not wrong and not missing and len(disp) >= 15, "where": "python/mcap/mcap/stream_reader.py:_read_record",
    "detail": f"{len(disp)} opcodes dispatched; wrong: {wrong}; missing: {missing}"}
skips_unknown = fn is not None and any(isinstance(st, ast.Expr) and "read(length)" in src(st) for st in fn.body)
rec = sf.get("records")
pads = rec is not None and "padding" in src(rec) and "read(padding)" in src(rec)
out["stream reader: unknown records and trailing record padding are skipped by length"] = {
    "ok": bool(skips_unknown and pads), "where": "python/mcap/mcap/stream_reader.py", "detail": f"unknown skipped: {skips_unknown}; padding skipped: {pads}"}
json.dump(out, sys.stdout, indent=1)
