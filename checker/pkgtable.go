package main

import (
	"go/token"
	"go/types"

	"golang.org/x/tools/go/ssa"
)

// Package-level dispatch tables of function values (var t = map[K]func(..){K1: f1, ...} or an array/slice literal):
// read through SSA. The table counts only when the variable is assigned by its initialiser alone and nothing in the
// package updates it or lets it escape, so that the literal is the whole table.

func pkgFuncsOf(pkg *ssa.Package) []*ssa.Function {
	var out []*ssa.Function
	seen := map[*ssa.Function]bool{}
	var add func(f *ssa.Function)
	add = func(f *ssa.Function) {
		if f == nil || seen[f] {
			return
		}
		seen[f] = true
		out = append(out, f)
		for _, a := range f.AnonFuncs {
			add(a)
		}
	}
	for _, m := range pkg.Members {
		switch x := m.(type) {
		case *ssa.Function:
			add(x)
		case *ssa.Type:
			for _, t := range []types.Type{x.Type(), types.NewPointer(x.Type())} {
				ms := pkg.Prog.MethodSets.MethodSet(t)
				for i := 0; i < ms.Len(); i++ {
					add(pkg.Prog.MethodValue(ms.At(i)))
				}
			}
		}
	}
	return out
}

// packageTableFuncs: constant key -> function value of the table held by g; nil when g is not such a table.
func packageTableFuncs(g *ssa.Global) map[int64]*ssa.Function {
	if g == nil || g.Pkg == nil {
		return nil
	}
	initFn := g.Pkg.Func("init")
	if initFn == nil {
		return nil
	}
	out := map[int64]*ssa.Function{}
	var table ssa.Value
	nStores := 0
	for _, f := range pkgFuncsOf(g.Pkg) {
		for _, in := range instrsOf(f) {
			switch x := in.(type) {
			case *ssa.Store:
				if x.Addr == ssa.Value(g) {
					nStores++
					if f != initFn {
						return nil
					}
					table = x.Val
				}
				if x.Val == ssa.Value(g) {
					return nil // address escapes
				}
			case *ssa.UnOp:
				if x.Op == token.MUL && x.X == ssa.Value(g) && f != initFn {
					// the loaded table may only be looked up, ranged over or measured
					for _, ref := range *x.Referrers() {
						switch y := ref.(type) {
						case *ssa.Lookup:
							if y.X != ssa.Value(x) {
								return nil
							}
						case *ssa.Range, *ssa.DebugRef:
						case *ssa.Index:
						case *ssa.Call:
							if b, ok := y.Call.Value.(*ssa.Builtin); !ok || b.Name() != "len" {
								return nil
							}
						default:
							return nil
						}
					}
				}
			case *ssa.IndexAddr:
				if x.X == ssa.Value(g) && f != initFn {
					for _, ref := range *x.Referrers() {
						if u, ok := ref.(*ssa.UnOp); !ok || u.Op != token.MUL {
							return nil
						}
					}
				}
			default:
				if f != initFn {
					for _, op := range in.Operands(nil) {
						if *op == ssa.Value(g) {
							return nil
						}
					}
				}
			}
		}
	}
	if nStores > 1 {
		return nil
	}
	asFunc := func(v ssa.Value) *ssa.Function {
		switch y := v.(type) {
		case *ssa.Function:
			return y
		case *ssa.MakeClosure:
			f, _ := y.Fn.(*ssa.Function)
			return f
		}
		return nil
	}
	constKey := func(v ssa.Value) (int64, bool) {
		c, ok := stripConv(v).(*ssa.Const)
		if !ok || c.Value == nil {
			return 0, false
		}
		return c.Int64(), true
	}
	switch {
	case table != nil: // map: MakeMap + MapUpdate in init; slice literal: Slice(Alloc) with stores through IndexAddr
		if sl, ok := table.(*ssa.Slice); ok {
			table = sl.X
		}
		for _, in := range instrsOf(initFn) {
			switch x := in.(type) {
			case *ssa.MapUpdate:
				if x.Map == table {
					k, ok := constKey(x.Key)
					fn := asFunc(x.Value)
					if !ok || fn == nil {
						return nil
					}
					out[k] = fn
				}
			case *ssa.Store:
				if ia, ok := x.Addr.(*ssa.IndexAddr); ok && ia.X == table {
					k, ok := constKey(ia.Index)
					fn := asFunc(x.Val)
					if !ok || fn == nil {
						return nil
					}
					out[k] = fn
				}
			}
		}
	default: // array variable: elements stored through IndexAddr(g, K) in init
		for _, in := range instrsOf(initFn) {
			if st, ok := in.(*ssa.Store); ok {
				if ia, ok := st.Addr.(*ssa.IndexAddr); ok && ia.X == ssa.Value(g) {
					k, ok := constKey(ia.Index)
					fn := asFunc(st.Val)
					if !ok || fn == nil {
						return nil
					}
					out[k] = fn
				}
			}
		}
	}
	if len(out) == 0 {
		return nil
	}
	return out
}

// tableLookupOf: v is the value found in a package-level table under key -> (the table variable, the key).
func tableLookupOf(v ssa.Value) (*ssa.Global, ssa.Value) {
	if ex, ok := v.(*ssa.Extract); ok && ex.Index == 0 {
		v = ex.Tuple
	}
	switch x := v.(type) {
	case *ssa.Lookup:
		if u, ok := x.X.(*ssa.UnOp); ok && u.Op == token.MUL {
			if g, ok := u.X.(*ssa.Global); ok {
				return g, x.Index
			}
		}
	case *ssa.UnOp:
		if x.Op == token.MUL {
			if ia, ok := x.X.(*ssa.IndexAddr); ok {
				if g, ok := ia.X.(*ssa.Global); ok {
					return g, ia.Index
				}
				if u, ok := ia.X.(*ssa.UnOp); ok && u.Op == token.MUL {
					if g, ok := u.X.(*ssa.Global); ok {
						return g, ia.Index
					}
				}
			}
		}
	}
	return nil, nil
}
