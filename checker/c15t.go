package main

import (
	"go/types"
	"sort"
	"strings"

	"golang.org/x/tools/go/ssa"
)

// C15.t / C09.t: what is decoded must not depend on what kind of object delivers the bytes. Reader-side code may ask
// its source whether it can also seek (that enables index-based access); any other question about the dynamic type of
// a byte source - a type assertion or type switch to something that knows its length, size, name or file descriptor -
// makes the result differ between a file, a pipe and an in-memory reader over the same bytes, and makes "how much input
// is left" part of the decoding decision (which is exactly what a truncated or slowly arriving input falsifies).

var sourceAssertAllowedMethods = map[string]bool{
	"Read": true, "Seek": true, "Close": true, "ReadAt": true, "ReadByte": true, "UnreadByte": true, "WriteTo": true, "ReadFrom": true,
}

func checkSourceTypeTests(p *Program, r *Result, rule string, fns []*ssa.Function) {
	n := 0
	for _, fn := range fns {
		k := 0
		for _, in := range instrsOf(fn) {
			ta, ok := in.(*ssa.TypeAssert)
			if !ok {
				continue
			}
			// operand: an interface that can be read from
			it, ok := ta.X.Type().Underlying().(*types.Interface)
			if !ok || !hasMethod(ta.X.Type(), "Read") {
				continue
			}
			_ = it
			n++
			var extra []string
			ms := types.NewMethodSet(ta.AssertedType)
			if _, isIface := ta.AssertedType.Underlying().(*types.Interface); !isIface {
				// a concrete type: also consider the pointer's methods as written
				ms = types.NewMethodSet(ta.AssertedType)
			}
			for i := 0; i < ms.Len(); i++ {
				name := ms.At(i).Obj().Name()
				if !sourceAssertAllowedMethods[name] {
					extra = append(extra, name)
				}
			}
			sort.Strings(extra)
			construct := "dynamic type test of a byte source: " + shortType(ta.AssertedType)
			k++
			if k > 1 {
				construct += " #" + itoa(k-1)
			}
			if len(extra) == 0 {
				r.held(rule, funcName(fn), construct, p.pos(ta.Pos()), "only asks whether the source can also seek / be closed")
			} else {
				if len(extra) > 4 {
					extra = append(extra[:4], "...")
				}
				r.violated(rule, funcName(fn), construct, p.pos(ta.Pos()),
					"reader-side code asks a byte source for more than reading and seeking ("+strings.Join(extra, ", ")+"): what is decoded then depends on the kind of source (file, pipe, in-memory) and on how much input it reports as left, not only on the bytes")
			}
		}
	}
	if n == 0 {
		r.held(rule, "mcap", "no dynamic type test of a byte source", "", "reader-side code never inspects the dynamic type of a source")
	}
}
