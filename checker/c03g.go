package main

import (
	"go/token"

	"golang.org/x/tools/go/ssa"
)

// C03.g / C02.g: cursor discipline of the index-based iterator. The message that NextInto yields is the record that
// the queue entry at the cursor designates: the bytes handed to PopulateFrom are sliced out of the chunk slot named by
// that entry's chunkSlotIndex, starting at a position derived from that entry's offset; and the comparison that decides
// whether another chunk must be loaded first looks at the timestamp of the entry at the cursor.

// cursorEntryField: v is field `field` of it.messageIndexes[it.curMessageIndex] (element copied or addressed).
func cursorEntryField(v ssa.Value, field string) bool {
	isCursorElemAddr := curRoles.cursorElemAddr
	var isCursorElem func(s ssa.Value, depth int) bool
	isCursorElem = func(s ssa.Value, depth int) bool {
		if depth > 4 {
			return false
		}
		switch x := s.(type) {
		case *ssa.UnOp:
			if x.Op != token.MUL {
				return false
			}
			if isCursorElemAddr(x.X) {
				return true
			}
			if al, ok := x.X.(*ssa.Alloc); ok {
				n, good := 0, 0
				for _, ref := range *al.Referrers() {
					if st, ok := ref.(*ssa.Store); ok && st.Addr == ssa.Value(al) {
						n++
						if isCursorElem(st.Val, depth+1) {
							good++
						}
					}
				}
				return n > 0 && n == good
			}
		case *ssa.Phi:
			for _, e := range x.Edges {
				if !isCursorElem(e, depth+1) {
					return false
				}
			}
			return len(x.Edges) > 0
		}
		return false
	}
	switch x := v.(type) {
	case *ssa.Field:
		_, f, base, ok := fieldRef(x)
		return ok && f == field && isCursorElem(base, 0)
	case *ssa.UnOp:
		if x.Op != token.MUL {
			return false
		}
		fa, ok := x.X.(*ssa.FieldAddr)
		if !ok {
			return false
		}
		_, f, base, ok2 := fieldRef(fa)
		if !ok2 || f != field {
			return false
		}
		if isCursorElemAddr(base) {
			return true
		}
		if al, ok := base.(*ssa.Alloc); ok {
			n, good := 0, 0
			for _, ref := range *al.Referrers() {
				if st, ok := ref.(*ssa.Store); ok && st.Addr == ssa.Value(al) {
					n++
					if isCursorElem(st.Val, 0) {
						good++
					}
				}
			}
			return n > 0 && n == good
		}
	}
	return false
}

// reachesThroughArith: pred holds for some value in the backward slice of v through arithmetic, conversions, phis
// and call arguments.
func reachesThroughArith(v ssa.Value, pred func(ssa.Value) bool, seen map[ssa.Value]bool) bool {
	if v == nil || seen[v] {
		return false
	}
	seen[v] = true
	if pred(v) {
		return true
	}
	switch x := v.(type) {
	case *ssa.Phi:
		for _, e := range x.Edges {
			if reachesThroughArith(e, pred, seen) {
				return true
			}
		}
	case *ssa.BinOp:
		return reachesThroughArith(x.X, pred, seen) || reachesThroughArith(x.Y, pred, seen)
	case *ssa.Convert:
		return reachesThroughArith(x.X, pred, seen)
	case *ssa.ChangeType:
		return reachesThroughArith(x.X, pred, seen)
	case *ssa.Extract:
		return reachesThroughArith(x.Tuple, pred, seen)
	case *ssa.Call:
		for _, a := range x.Call.Args {
			if reachesThroughArith(a, pred, seen) {
				return true
			}
		}
	}
	return false
}

var curRoles = &queueRoles{qType: "indexedMessageIterator", qField: "messageIndexes", cType: "indexedMessageIterator", cField: "curMessageIndex"}

func checkCursorDiscipline(p *Program, r *Result, rule string) {
	curRoles = p.roles()
	ni := p.lookupFunc(pkgMcap, "indexedMessageIterator.NextInto")
	if ni == nil {
		r.undecided(rule, "mcap.indexedMessageIterator.NextInto", "anchor", "", "not found")
		return
	}
	fname := funcName(ni)
	n := 0
	for _, ci := range callsIn(ni, func(ci ssa.CallInstruction) bool { return calleeRepoName(ci) == "mcap.Message.PopulateFrom" }) {
		data := ci.Common().Args[1]
		sl, ok := data.(*ssa.Slice)
		if !ok {
			r.note(rule, fname, "bytes of the yielded message", p.pos(ci.Pos()), "PopulateFrom argument is not a slice expression: not judged")
			continue
		}
		n++
		// base: load of (slot).buf where slot = &it.chunkSlots[idx]
		slotOK, lowOK := false, false
		detail := ""
		if u, ok := sl.X.(*ssa.UnOp); ok && u.Op == token.MUL {
			if fa, ok := u.X.(*ssa.FieldAddr); ok {
				if tn, f, base, ok := fieldRef(fa); ok && tn == "chunkSlot" && f == "buf" {
					// base may be an IndexAddr or a phi/alloc holding it
					var idx ssa.Value
					switch b := base.(type) {
					case *ssa.IndexAddr:
						if loadOfField(b.X, "indexedMessageIterator", "chunkSlots") {
							idx = b.Index
						}
					}
					if idx != nil && reachesThroughArith(idx, func(v ssa.Value) bool { return cursorEntryField(v, "chunkSlotIndex") }, map[ssa.Value]bool{}) {
						slotOK = true
					} else if idx != nil {
						detail = "the chunk slot is selected by " + valueLabel(idx) + ", not by the chunkSlotIndex of the queue entry at the cursor"
					}
				}
			}
		}
		if sl.Low != nil && reachesThroughArith(sl.Low, func(v ssa.Value) bool { return cursorEntryField(v, "offset") }, map[ssa.Value]bool{}) {
			lowOK = true
		} else if detail == "" {
			detail = "the start of the record bytes is not derived from the offset of the queue entry at the cursor"
		}
		switch {
		case slotOK && lowOK:
			r.held(rule, fname, "bytes of the yielded message", p.pos(ci.Pos()), "sliced from chunkSlots[entry.chunkSlotIndex].buf at a position derived from entry.offset, entry = messageIndexes[curMessageIndex]")
		case detail == "":
			r.note(rule, fname, "bytes of the yielded message", p.pos(ci.Pos()), "slot selection form not recognised: not judged")
		default:
			r.violated(rule, fname, "bytes of the yielded message", p.pos(ci.Pos()), detail+"; the message returned is not the one whose turn it is")
		}
	}
	// the load trigger looks at the entry at the cursor
	for _, in := range instrsOf(ni) {
		b, ok := in.(*ssa.BinOp)
		if !ok {
			continue
		}
		var ts ssa.Value
		for _, pair := range [][2]ssa.Value{{b.X, b.Y}, {b.Y, b.X}} {
			if u, ok := stripConv(pair[0]).(*ssa.UnOp); ok && u.Op == token.MUL {
				if tn, f, _, ok := fieldRef(u.X); ok && tn == "ChunkIndex" && (f == "MessageStartTime" || f == "MessageEndTime") {
					ts = stripConv(pair[1])
				}
			}
		}
		if ts == nil {
			continue
		}
		isTimestampField := func(v ssa.Value) bool {
			switch x := v.(type) {
			case *ssa.Field:
				_, f, _, ok := fieldRef(x)
				return ok && f == "timestamp"
			case *ssa.UnOp:
				if x.Op == token.MUL {
					_, f, _, ok := fieldRef(x.X)
					return ok && f == "timestamp"
				}
			}
			return false
		}
		if !isTimestampField(ts) {
			continue
		}
		n++
		construct := "load trigger compares the entry at the cursor (" + b.Op.String() + ")"
		if cursorEntryField(ts, "timestamp") {
			r.held(rule, fname, construct, p.pos(b.Pos()), "timestamp of messageIndexes[curMessageIndex]")
		} else {
			r.violated(rule, fname, construct, p.pos(b.Pos()),
				"the decision to load the next chunk compares the chunk's time range with a queue entry other than the one at the cursor; the next message to be yielded may sort after messages of a chunk not yet loaded")
		}
	}
	if n == 0 {
		r.note(rule, fname, "cursor discipline", p.pos(ni.Pos()), "neither the PopulateFrom slice nor the trigger comparison found in NextInto (moved to helpers): not judged")
	}
}
