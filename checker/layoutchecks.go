package main

import (
	"go/token"
	"encoding/json"
	"fmt"
	"go/ast"
	"go/constant"
	"go/types"
	"os/exec"
	"path/filepath"
	"strings"
)

var verifDir = "/verif"

type pyTok struct {
	Kind  string  `json:"kind"`
	Field string  `json:"field"`
	Sub   []pyTok `json:"sub"`
}

type pyRecord struct {
	Opcode   *string  `json:"opcode"`
	Write    []pyTok  `json:"write"`
	Read     []pyTok  `json:"read"`
	Fields   []string `json:"fields"`
	CRCScope []any    `json:"crc_scope"`
}

type pyLayouts struct {
	Records  map[string]pyRecord `json:"records"`
	Opcodes  map[string]int      `json:"opcodes"`
	Magic    []int               `json:"magic"`
	Prim     map[string]string   `json:"prim"`
	Problems []string            `json:"problems"`
}

func toToks(in []pyTok) []Tok {
	var out []Tok
	for _, t := range in {
		out = append(out, Tok{Kind: t.Kind, Field: t.Field, Sub: toToks(t.Sub)})
	}
	return out
}

type layoutFacts struct {
	g    *goLayouts
	spec map[string]specRecord
	enc  map[string]*encResult
	dec  map[string]*decResult
}

func gatherLayouts(p *Program) (*layoutFacts, error) {
	lf := &layoutFacts{g: newGoLayouts(p, pkgMcap), spec: map[string]specRecord{}, enc: map[string]*encResult{}, dec: map[string]*decResult{}}
	spec, err := loadSpec(p)
	if err != nil {
		return nil, err
	}
	for _, s := range spec {
		lf.spec[s.Name] = s
	}
	for _, k := range recordKinds {
		if fd := findFuncDecl(lf.g, k.Encoder); fd != nil {
			enc := lf.g.encoderLayout(fd)
			if enc != nil && enc.opcode == "" && len(enc.toks) == 0 {
				// the encoding proper may live in an unexported helper the public method delegates to
				if d := lf.g.delegateEncoder(fd, 2); d != nil {
					enc = d
				}
			}
			lf.enc[k.Spec] = enc
		}
		if fd := findFuncDecl(lf.g, k.Decoder); fd != nil {
			lf.dec[k.Spec] = lf.g.decoderLayout(fd)
		}
	}
	return lf, nil
}

// aliasesFor: implementation field label -> spec label, per record kind, confirmed by reading (DESIGN.md E1).
func aliasesFor(kind string) map[string]string {
	switch kind {
	case "Attachment":
		return map[string]string{"data_size": "#len(data)"} // Attachment.DataSize is the length prefix of data
	}
	return nil
}

func opConstValue(p *Program, name string) (int, bool) {
	obj := p.Pkgs[pkgMcap].Types.Scope().Lookup(name)
	c, ok := obj.(*types.Const)
	if !ok {
		return 0, false
	}
	v, ok := constant.Int64Val(c.Val())
	return int(v), ok
}

// checkEncVsSpec: rule "encoder layout equals the spec table".
func (lf *layoutFacts) checkEncVsSpec(p *Program, r *Result, rule string) {
	for _, k := range recordKinds {
		fname := "mcap.Writer." + k.Encoder
		enc, sp := lf.enc[k.Spec], lf.spec[k.Spec]
		if enc == nil {
			r.undecided(rule, fname, "encoder of "+k.Spec, "", "encoder function not found")
			continue
		}
		if len(sp.Toks) == 0 {
			r.undecided(rule, fname, "spec table of "+k.Spec, "", "no table for this record in website/docs/spec/index.md")
			continue
		}
		pos := p.pos(enc.pos)
		if enc.opcode != k.OpConst {
			r.violated(rule, fname, "opcode of "+k.Spec, pos, fmt.Sprintf("record is framed with opcode %q, expected %s", enc.opcode, k.OpConst))
		} else if v, ok := opConstValue(p, k.OpConst); !ok || v != sp.Opcode {
			r.violated(rule, fname, "opcode of "+k.Spec, pos, fmt.Sprintf("%s = 0x%02x but the specification says 0x%02x", k.OpConst, v, sp.Opcode))
		} else {
			r.held(rule, fname, "opcode of "+k.Spec, pos, fmt.Sprintf("%s = 0x%02x as specified", k.OpConst, v))
		}
		if d := layoutDiff(enc.toks, sp.Toks, aliasesFor(k.Spec), false); d != "" {
			if why := lf.g.encoderBlind(findFuncDecl(lf.g, k.Encoder)); why != "" {
				r.abstain(rule, fname, "layout of "+k.Spec, pos, "the encoder moves its bytes through a form the layout extractor does not model ("+why+")")
				continue
			}
			r.violated(rule, fname, "layout of "+k.Spec, pos, "encoder disagrees with the specification: "+d+" | encoder: "+layoutString(enc.toks)+" | spec: "+layoutString(sp.Toks))
		} else {
			r.held(rule, fname, "layout of "+k.Spec, pos, layoutString(enc.toks))
		}
	}
}

// checkDecVsSpec: rule "decoder layout equals the spec table".
func (lf *layoutFacts) checkDecVsSpec(p *Program, r *Result, rule string) {
	for _, k := range recordKinds {
		dec, sp := lf.dec[k.Spec], lf.spec[k.Spec]
		fname := "mcap." + k.Decoder
		if dec == nil {
			r.undecided(rule, fname, "decoder of "+k.Spec, "", "decoder function not found")
			continue
		}
		prefixOK := k.Spec == "Attachment" // streaming: data and crc are read by the AttachmentReader
		if d := layoutDiff(dec.toks, sp.Toks, aliasesFor(k.Spec), prefixOK); d != "" {
			// widths and order agree with the table, only the mapping of values to result fields could not be traced
			// (the values pass through an intermediate struct or a helper's results)
			if hasUnnamed(dec.toks) && layoutDiff(blankNames(dec.toks), blankNames(sp.Toks), nil, prefixOK) == "" {
				r.abstain(rule, fname, "layout of "+k.Spec, p.pos(dec.pos), "widths and order equal the table ("+layoutString(blankNames(dec.toks))+"); which result field each value reaches could not be traced")
				continue
			}
			if why := lf.g.decoderBlind(findFuncDecl(lf.g, k.Decoder)); why != "" {
				r.abstain(rule, fname, "layout of "+k.Spec, p.pos(dec.pos), "the decoder reads the record through a form the layout extractor does not model ("+why+")")
				continue
			}
			r.violated(rule, fname, "layout of "+k.Spec, p.pos(dec.pos), "decoder disagrees with the specification: "+d+" | decoder: "+layoutString(dec.toks)+" | spec: "+layoutString(sp.Toks))
		} else {
			r.held(rule, fname, "layout of "+k.Spec, p.pos(dec.pos), layoutString(dec.toks))
		}
	}
	// the lexer's inline chunk-header decode: kinds must be a prefix of the Chunk table
	if fd := findFuncDecl(lf.g, "loadChunk"); fd != nil {
		// there are two loadChunk functions (lexer func, iterator method); pick the package-level one
		for fn, d := range lf.g.decls {
			if fn.Name() == "loadChunk" && (d.Recv == nil || recvTypeName(lf.g, d) == "Lexer") {
				fd = d
			}
		}
		dec := lf.g.decoderLayout(fd)
		if len(dec.toks) < 7 {
			// the header decode may have been moved into an unexported helper of loadChunk
			best := dec
			var look func(d *ast.FuncDecl, depth int)
			look = func(d *ast.FuncDecl, depth int) {
				if depth <= 0 || d.Body == nil {
					return
				}
				ast.Inspect(d.Body, func(n ast.Node) bool {
					ce, ok := n.(*ast.CallExpr)
					if !ok {
						return true
					}
					fn := lf.g.calleeOf(ce)
					if fn == nil || fn.Exported() || strings.HasPrefix(fn.Name(), "get") {
						return true
					}
					hd := lf.g.decls[fn]
					if hd == nil || hd.Body == nil || hd == d {
						return true
					}
					if hdec := lf.g.decoderLayout(hd); len(hdec.toks) > len(best.toks) {
						best = hdec
						fd = hd
					}
					look(hd, depth-1)
					return true
				})
			}
			look(fd, 2)
			dec = best
		}
		sp := lf.spec["Chunk"]
		var kinds, skinds []string
		for _, t := range dec.toks {
			kinds = append(kinds, t.Kind)
		}
		for _, t := range sp.Toks {
			skinds = append(skinds, t.Kind)
		}
		ok := len(kinds) >= 7 && len(kinds) <= len(skinds)
		for i := 0; ok && i < len(kinds); i++ {
			if kinds[i] != skinds[i] {
				ok = false
			}
		}
		if !ok {
			// second form: fields picked at constant offsets of the header buffer instead of with a running cursor
			if detail, good, applicable := lf.absoluteHeaderReads(fd, skinds); applicable {
				if good {
					r.held(rule, "mcap.loadChunk", "chunk header field widths", p.pos(fd.Pos()), detail)
				} else {
					r.violated(rule, "mcap.loadChunk", "chunk header field widths", p.pos(fd.Pos()), detail)
				}
				return
			}
		}
		if ok {
			r.held(rule, "mcap.loadChunk", "chunk header field widths", p.pos(fd.Pos()), strings.Join(kinds, " "))
		} else {
			r.violated(rule, "mcap.loadChunk", "chunk header field widths", p.pos(fd.Pos()), "lexer reads the chunk header as ["+strings.Join(kinds, " ")+"], the specification says ["+strings.Join(skinds, " ")+"]")
		}
	}
}

// checkSizes: rule "the reserved message-buffer size covers the bytes written into it".
func (lf *layoutFacts) checkSizes(p *Program, r *Result, rule string) {
	for _, k := range recordKinds {
		enc := lf.enc[k.Spec]
		if enc == nil {
			continue
		}
		fname := "mcap.Writer." + k.Encoder
		if enc.sized == nil {
			r.undecided(rule, fname, "buffer size of "+k.Spec, p.pos(enc.pos), "no sizing call found before the buffer is filled")
			continue
		}
		if why := enc.ctx.sizeShortfall(enc.sized, enc.sizes); why != "" {
			e, _, _ := emittedLin(enc.sizes)
			r.violated(rule, fname, "buffer size of "+k.Spec, p.pos(enc.sizedPos),
				"the reusable message buffer is sized too small for what is then written into it ("+why+"); reserved: "+enc.ctx.linearOf(enc.sized, 0).String()+"; written: "+e.String()+
					". The shortfall is masked while the buffer is still large from an earlier record and then truncates a field or panics")
		} else {
			r.held(rule, fname, "buffer size of "+k.Spec, p.pos(enc.sizedPos), "reserved "+enc.ctx.linearOf(enc.sized, 0).String())
		}
	}
}

func runPyLayout(p *Program) (*pyLayouts, error) {
	script := filepath.Join(verifDir, "checker", "pylayout.py")
	out, err := exec.Command("python3", script, p.RepoRoot).Output()
	if err != nil {
		return nil, fmt.Errorf("pylayout.py: %v", err)
	}
	var pl pyLayouts
	if err := json.Unmarshal(out, &pl); err != nil {
		return nil, err
	}
	return &pl, nil
}

type pyOffsetFact struct {
	OK     bool   `json:"ok"`
	Where  string `json:"where"`
	Detail string `json:"detail"`
}

func runPyOffsets(p *Program) (map[string]pyOffsetFact, error) {
	script := filepath.Join(verifDir, "checker", "pyoffsets.py")
	out, err := exec.Command("python3", script, p.RepoRoot).Output()
	if err != nil {
		return nil, fmt.Errorf("pyoffsets.py: %v", err)
	}
	res := map[string]pyOffsetFact{}
	if err := json.Unmarshal(out, &res); err != nil {
		return nil, err
	}
	return res, nil
}

// absoluteHeaderReads: integer reads at constant offsets of a buffer (binary.LittleEndian.UintN(buf[K:]) or
// getUintN(buf, K)) must each start at a field boundary of the specification's fixed prefix and have that field's
// width; the size, CRC and compression-length fields must be among them.
func (lf *layoutFacts) absoluteHeaderReads(fd *ast.FuncDecl, skinds []string) (detail string, good, applicable bool) {
	g := lf.g
	width := map[string]int{"u8": 1, "u16": 2, "u32": 4, "u64": 8}
	starts := map[int]string{}
	off := 0
	for _, k := range skinds {
		w, ok := width[k]
		if !ok {
			break
		}
		starts[off] = k
		off += w
	}
	type rd struct {
		off  int
		kind string
	}
	var reads []rd
	// the function and the unexported helpers it hands the header buffer to
	bodies := []*ast.FuncDecl{fd}
	seenDecl := map[*ast.FuncDecl]bool{fd: true}
	for i := 0; i < len(bodies) && i < 6; i++ {
		ast.Inspect(bodies[i].Body, func(n ast.Node) bool {
			if ce, ok := n.(*ast.CallExpr); ok {
				if fn := g.calleeOf(ce); fn != nil && !fn.Exported() && !strings.HasPrefix(fn.Name(), "get") {
					if hd := g.decls[fn]; hd != nil && hd.Body != nil && !seenDecl[hd] && (hd.Recv == nil || recvTypeName(g, hd) == "Lexer") {
						seenDecl[hd] = true
						bodies = append(bodies, hd)
					}
				}
			}
			return true
		})
	}
	for _, body := range bodies {
		// integer locals with a value known from straight-line constant assignments (cursor := 16; cursor += 8)
		env := map[types.Object]int{}
		ast.Inspect(body.Body, func(n ast.Node) bool {
			if as, ok := n.(*ast.AssignStmt); ok && len(as.Lhs) == 1 && len(as.Rhs) == 1 {
				if id, ok := as.Lhs[0].(*ast.Ident); ok {
					obj := g.info.ObjectOf(id)
					if tv, ok := g.info.Types[as.Rhs[0]]; ok && tv.Value != nil && obj != nil {
						if v, ok := constant.Int64Val(constant.ToInt(tv.Value)); ok {
							switch as.Tok {
							case token.DEFINE, token.ASSIGN:
								env[obj] = int(v)
							case token.ADD_ASSIGN:
								if cur, known := env[obj]; known {
									env[obj] = cur + int(v)
								}
							default:
								delete(env, obj)
							}
						}
					} else if obj != nil {
						delete(env, obj)
					}
				}
			}
			ce, ok := n.(*ast.CallExpr)
			if !ok {
				return true
			}
			name := ""
			if fn := g.calleeOf(ce); fn != nil {
				name = fn.Name()
			}
			kind := map[string]string{"Uint64": "u64", "Uint32": "u32", "Uint16": "u16", "getUint64": "u64", "getUint32": "u32", "getUint16": "u16"}[name]
			if kind == "" || len(ce.Args) == 0 {
				return true
			}
			constOf := func(e ast.Expr) (int, bool) {
				if e == nil {
					return 0, true
				}
				if tv, ok := g.info.Types[e]; ok && tv.Value != nil {
					if v, ok := constant.Int64Val(constant.ToInt(tv.Value)); ok {
						return int(v), true
					}
				}
				if id, ok := e.(*ast.Ident); ok {
					if v, known := env[g.info.ObjectOf(id)]; known {
						return v, true
					}
				}
				return 0, false
			}
			switch {
			case strings.HasPrefix(name, "get") && len(ce.Args) == 2:
				if k, ok := constOf(ce.Args[1]); ok {
					reads = append(reads, rd{k, kind})
				}
			case len(ce.Args) == 1:
				if se, ok := ce.Args[0].(*ast.SliceExpr); ok {
					if k, ok := constOf(se.Low); ok {
						reads = append(reads, rd{k, kind})
					}
				}
			}
			return true
		})
	}
	if len(reads) < 3 {
		return "", false, false
	}
	seen := map[int]bool{}
	var parts []string
	for _, x := range reads {
		want, ok := starts[x.off]
		parts = append(parts, fmt.Sprintf("%s@%d", x.kind, x.off))
		if !ok {
			return fmt.Sprintf("the lexer reads a %s at offset %d of the chunk header, which is not the start of a field in the specification's layout", x.kind, x.off), false, true
		}
		if want != x.kind {
			return fmt.Sprintf("the lexer reads a %s at offset %d of the chunk header; the specification has a %s there", x.kind, x.off, want), false, true
		}
		seen[x.off] = true
	}
	for _, need := range []int{16, 24, 28} {
		if !seen[need] {
			return fmt.Sprintf("the lexer does not read the header field at offset %d (uncompressed size, CRC and compression length are needed)", need), false, true
		}
	}
	return "fields read at constant offsets, each at a specified field boundary with the specified width: " + strings.Join(parts, " "), true, true
}

// delegateEncoder: the first unexported package function called from fd whose own layout carries an opcode.
func (g *goLayouts) delegateEncoder(fd *ast.FuncDecl, depth int) *encResult {
	if depth <= 0 || fd.Body == nil {
		return nil
	}
	var found *encResult
	ast.Inspect(fd.Body, func(n ast.Node) bool {
		if found != nil {
			return false
		}
		ce, ok := n.(*ast.CallExpr)
		if !ok {
			return true
		}
		fn := g.calleeOf(ce)
		if fn == nil || fn.Exported() {
			return true
		}
		hd := g.decls[fn]
		if hd == nil || hd.Body == nil || hd == fd {
			return true
		}
		if strings.HasPrefix(fn.Name(), "put") || fn.Name() == "ensureSized" || fn.Name() == "writeRecord" {
			return true
		}
		enc := g.encoderLayout(hd)
		if enc != nil && enc.opcode != "" && len(enc.toks) > 0 {
			found = enc
			return false
		}
		if d := g.delegateEncoder(hd, depth-1); d != nil {
			found = d
			return false
		}
		return true
	})
	return found
}

// recvTypeName: name of the receiver's named type of a method declaration ("" for functions).
func recvTypeName(g *goLayouts, d *ast.FuncDecl) string {
	if d.Recv == nil || len(d.Recv.List) != 1 {
		return ""
	}
	nt, _ := structOf(g.info.TypeOf(d.Recv.List[0].Type))
	if nt == nil {
		return ""
	}
	return nt.Obj().Name()
}

func hasUnnamed(toks []Tok) bool {
	for _, t := range toks {
		if t.Field == "_" || strings.Contains(t.Field, "(_)") || hasUnnamed(t.Sub) {
			return true
		}
	}
	return false
}

// blankNames keeps kinds and the role of a token (length prefix / value) and drops the field names.
func blankNames(toks []Tok) []Tok {
	out := make([]Tok, len(toks))
	for i, t := range toks {
		f := "x"
		switch {
		case strings.HasPrefix(t.Field, "#len("):
			f = "#len(x)"
		case strings.HasPrefix(t.Field, "#bytelen("):
			f = "#bytelen(x)"
		}
		out[i] = Tok{Kind: t.Kind, Field: f, Sub: blankNames(t.Sub)}
	}
	return out
}
