package main

import (
	"go/constant"
	"go/token"
	"go/types"

	"golang.org/x/tools/go/ssa"
)

// Constant evaluation over SSA ("what does this code do when the opcode is K?"). An abstract interpretation with the
// flat constant lattice: values are a known constant (integers, booleans, strings, nil, small structs and tuples of
// those) or unknown. One designated kind of value - anything of a given named type that cannot be computed, e.g. the
// opcode just read from the input - is bound to the constant under study and taints what is computed from it. Package
// tables (arrays, slices and maps initialised by a literal and never modified) are read through the package
// initialiser. Small pure helpers are interpreted. No code of the repository is executed.

type cval struct {
	known  bool
	v      constant.Value // integers, booleans, strings
	isNil  bool
	fields map[int]cval // struct value
	tuple  []cval       // multi-value
	dep    bool         // computed from the constant under study
}

var unknownVal = cval{}

type evalCtx struct {
	p        *Program
	keyType  string // name of the named type whose incomputable values stand for K (e.g. "OpCode")
	K        int64
	bind     map[ssa.Value]cval
	pred     map[*ssa.BasicBlock]*ssa.BasicBlock // block -> predecessor on the current path (for phis)
	depth    int
	steps    *int
	memTable map[*ssa.Global]map[string]cval
}

func (c *evalCtx) isKeyType(t types.Type) bool {
	nt, ok := t.(*types.Named)
	return ok && nt.Obj().Name() == c.keyType
}

func (c *evalCtx) keyVal(t types.Type) cval {
	return cval{known: true, v: constant.MakeInt64(c.K), dep: true}
}

func constOf(k *ssa.Const) cval {
	if k.Value == nil {
		if _, isStruct := k.Type().Underlying().(*types.Struct); isStruct {
			return cval{known: true, fields: map[int]cval{}}
		}
		if b, ok := k.Type().Underlying().(*types.Basic); ok {
			switch {
			case b.Info()&types.IsBoolean != 0:
				return cval{known: true, v: constant.MakeBool(false)}
			case b.Info()&types.IsNumeric != 0:
				return cval{known: true, v: constant.MakeInt64(0)}
			case b.Info()&types.IsString != 0:
				return cval{known: true, v: constant.MakeString("")}
			}
		}
		return cval{known: true, isNil: true}
	}
	return cval{known: true, v: k.Value}
}

func zeroOf(t types.Type) cval {
	switch u := t.Underlying().(type) {
	case *types.Basic:
		switch {
		case u.Info()&types.IsBoolean != 0:
			return cval{known: true, v: constant.MakeBool(false)}
		case u.Info()&types.IsNumeric != 0:
			return cval{known: true, v: constant.MakeInt64(0)}
		case u.Info()&types.IsString != 0:
			return cval{known: true, v: constant.MakeString("")}
		}
	case *types.Struct:
		f := map[int]cval{}
		for i := 0; i < u.NumFields(); i++ {
			f[i] = zeroOf(u.Field(i).Type())
		}
		return cval{known: true, fields: f}
	case *types.Pointer, *types.Slice, *types.Map, *types.Signature, *types.Interface, *types.Chan:
		return cval{known: true, isNil: true}
	}
	return unknownVal
}

// ---- package tables ----

// globalInitOnly: g is assigned only by the package initialiser and nothing outside it stores through it or lets its
// address escape.
func globalInitOnly(g *ssa.Global) bool {
	if g == nil || g.Pkg == nil {
		return false
	}
	initFn := g.Pkg.Func("init")
	for _, f := range pkgFuncsOf(g.Pkg) {
		if f == initFn {
			continue
		}
		for _, in := range instrsOf(f) {
			switch x := in.(type) {
			case *ssa.Store:
				if x.Addr == ssa.Value(g) || x.Val == ssa.Value(g) {
					return false
				}
				if rootGlobal(x.Addr) == g {
					return false
				}
			case *ssa.MapUpdate:
				if rootGlobal(x.Map) == g {
					return false
				}
			case *ssa.Call:
				for _, a := range x.Call.Args {
					if a == ssa.Value(g) {
						return false
					}
				}
			}
		}
	}
	return true
}

// rootGlobal: the package variable an address / loaded container is derived from (through loads, element and field
// addressing and re-slicing), or nil.
func rootGlobal(v ssa.Value) *ssa.Global {
	for i := 0; i < 12 && v != nil; i++ {
		switch x := v.(type) {
		case *ssa.Global:
			return x
		case *ssa.UnOp:
			v = x.X
		case *ssa.IndexAddr:
			v = x.X
		case *ssa.FieldAddr:
			v = x.X
		case *ssa.Slice:
			v = x.X
		default:
			return nil
		}
	}
	return nil
}

// tableOf reads the initialiser of g into access paths: "[k]" element, "[k].f" field of a struct element, "{k}" map
// entry, "len" for slices. nil if the initialiser is not a plain literal of constants.
func (c *evalCtx) tableOf(g *ssa.Global) map[string]cval {
	if t, ok := c.memTable[g]; ok {
		return t
	}
	if c.memTable == nil {
		c.memTable = map[*ssa.Global]map[string]cval{}
	}
	c.memTable[g] = nil
	if !globalInitOnly(g) {
		return nil
	}
	initFn := g.Pkg.Func("init")
	if initFn == nil {
		return nil
	}
	out := map[string]cval{}
	// the backing store: the global itself (arrays), or the alloc / map the global is assigned from
	var backing ssa.Value = g
	for _, in := range instrsOf(initFn) {
		if st, ok := in.(*ssa.Store); ok && st.Addr == ssa.Value(g) {
			backing = st.Val
			if u, ok := backing.(*ssa.UnOp); ok && u.Op == token.MUL {
				if al, ok := u.X.(*ssa.Alloc); ok {
					backing = al // array literal built in a local and copied into the variable
				}
			}
			if call, ok := backing.(*ssa.Call); ok {
				// var t = func() (a [N]T) { for i := range a { a[i] = D }; a[K1] = V1; ...; return a }()
				if tab := filledArrayTable(call); tab != nil {
					c.memTable[g] = tab
					return tab
				}
			}
			switch backing.(type) {
			case *ssa.Slice, *ssa.MakeMap, *ssa.Alloc:
			default:
				return nil // initialised by something other than a literal (a function call, another variable)
			}
			if sl, ok := backing.(*ssa.Slice); ok {
				backing = sl.X
				if at, ok := sl.X.Type().Underlying().(*types.Pointer); ok {
					if arr, ok := at.Elem().Underlying().(*types.Array); ok {
						out["len"] = cval{known: true, v: constant.MakeInt64(arr.Len())}
					}
				}
			}
		}
	}
	pathOf := func(addr ssa.Value) (string, bool) {
		// addr = backing | IndexAddr(backing, k) | FieldAddr(IndexAddr(backing, k), f)
		var parts []string
		v := addr
		for i := 0; i < 4; i++ {
			if v == backing {
				s := ""
				for j := len(parts) - 1; j >= 0; j-- {
					s += parts[j]
				}
				return s, true
			}
			switch x := v.(type) {
			case *ssa.IndexAddr:
				k, ok := x.Index.(*ssa.Const)
				if !ok || k.Value == nil {
					return "", false
				}
				parts = append(parts, "["+k.Value.ExactString()+"]")
				v = x.X
			case *ssa.FieldAddr:
				parts = append(parts, "."+itoa(x.Field))
				v = x.X
			default:
				return "", false
			}
		}
		return "", false
	}
	// a struct literal built in a local and copied: its fields stored through FieldAddr of the alloc
	localStruct := func(v ssa.Value) (cval, bool) {
		u, ok := v.(*ssa.UnOp)
		if !ok || u.Op != token.MUL {
			return unknownVal, false
		}
		al, ok := u.X.(*ssa.Alloc)
		if !ok {
			return unknownVal, false
		}
		sv := zeroOf(u.Type())
		if sv.fields == nil {
			return unknownVal, false
		}
		for _, ref := range *al.Referrers() {
			if fa, ok := ref.(*ssa.FieldAddr); ok {
				for _, r2 := range *fa.Referrers() {
					if st, ok := r2.(*ssa.Store); ok && st.Addr == ssa.Value(fa) {
						if kc, ok := stripConv(st.Val).(*ssa.Const); ok {
							sv.fields[fa.Field] = constOf(kc)
						} else {
							sv.fields[fa.Field] = unknownVal
						}
					}
				}
			}
		}
		return sv, true
	}
	for _, in := range instrsOf(initFn) {
		switch x := in.(type) {
		case *ssa.Store:
			if pth, ok := pathOf(x.Addr); ok && pth != "" {
				if k, ok := x.Val.(*ssa.Const); ok {
					out[pth] = constOf(k)
				} else if cv, ok := stripConv(x.Val).(*ssa.Const); ok {
					out[pth] = constOf(cv)
				} else if sv, ok := localStruct(x.Val); ok {
					out[pth] = sv
				} else {
					out[pth] = unknownVal
				}
			}
		case *ssa.MapUpdate:
			if x.Map == backing {
				k, ok := stripConv(x.Key).(*ssa.Const)
				if !ok || k.Value == nil {
					return nil
				}
				key := "{" + k.Value.ExactString() + "}"
				if vc, ok := stripConv(x.Value).(*ssa.Const); ok {
					out[key] = constOf(vc)
				} else if u, ok := x.Value.(*ssa.UnOp); ok && u.Op == token.MUL {
					// struct literal built in a local: fields stored through FieldAddr of the alloc
					if al, ok := u.X.(*ssa.Alloc); ok {
						sv := zeroOf(u.Type())
						for _, ref := range *al.Referrers() {
							if fa, ok := ref.(*ssa.FieldAddr); ok {
								for _, r2 := range *fa.Referrers() {
									if st, ok := r2.(*ssa.Store); ok && st.Addr == ssa.Value(fa) {
										if kc, ok := stripConv(st.Val).(*ssa.Const); ok && sv.fields != nil {
											sv.fields[fa.Field] = constOf(kc)
										}
									}
								}
							}
						}
						out[key] = sv
					} else {
						out[key] = unknownVal
					}
				} else {
					out[key] = unknownVal
				}
			}
		}
	}
	c.memTable[g] = out
	return out
}

// loadFrom evaluates a load through addr when it addresses an element of a package table by a known index.
func (c *evalCtx) loadFrom(addr ssa.Value, t types.Type) cval {
	switch x := addr.(type) {
	case *ssa.IndexAddr:
		g := rootGlobal(x.X)
		if g == nil {
			return unknownVal
		}
		idx := c.eval(x.Index)
		if !idx.known || idx.v == nil {
			return unknownVal
		}
		tab := c.tableOf(g)
		if tab == nil {
			return unknownVal
		}
		key := "[" + idx.v.ExactString() + "]"
		res := zeroOf(t)
		if d, ok := tab["default"]; ok {
			res = d
		}
		if v, ok := tab[key]; ok {
			res = v
		} else if res.fields != nil {
			for f := range res.fields {
				if v, ok := tab[key+"."+itoa(f)]; ok {
					res.fields[f] = v
				}
			}
		}
		res.dep = res.dep || idx.dep
		if res.fields != nil && idx.dep {
			for f, v := range res.fields {
				v.dep = true
				res.fields[f] = v
			}
		}
		return res
	case *ssa.FieldAddr:
		if ia, ok := x.X.(*ssa.IndexAddr); ok {
			elem := c.loadFrom(ia, ia.Type().Underlying().(*types.Pointer).Elem())
			if elem.known && elem.fields != nil {
				if v, ok := elem.fields[x.Field]; ok {
					return v
				}
			}
		}
		if al, ok := x.X.(*ssa.Alloc); ok {
			whole := c.loadFrom(al, al.Type().Underlying().(*types.Pointer).Elem())
			if whole.known && whole.fields != nil {
				if v, ok := whole.fields[x.Field]; ok {
					return v
				}
			}
		}
	case *ssa.Alloc:
		// a local that is assigned as a whole exactly once (entry := table[k])
		var val ssa.Value
		n := 0
		for _, ref := range *x.Referrers() {
			if st, ok := ref.(*ssa.Store); ok && st.Addr == ssa.Value(x) {
				n++
				val = st.Val
			}
		}
		if n == 1 {
			return c.eval(val)
		}
	}
	return unknownVal
}

func (c *evalCtx) eval(v ssa.Value) cval {
	if c.steps != nil {
		*c.steps++
		if *c.steps > 200000 {
			return unknownVal
		}
	}
	if b, ok := c.bind[v]; ok {
		return b
	}
	res := c.eval1(v)
	if !res.known && c.isKeyType(v.Type()) {
		if _, isConst := v.(*ssa.Const); !isConst {
			return c.keyVal(v.Type())
		}
	}
	return res
}

func (c *evalCtx) eval1(v ssa.Value) cval {
	switch x := v.(type) {
	case *ssa.Const:
		return constOf(x)
	case *ssa.Convert:
		in := c.eval(x.X)
		if in.known && in.v != nil {
			if b, ok := x.Type().Underlying().(*types.Basic); ok && b.Info()&types.IsInteger != 0 && in.v.Kind() == constant.Int {
				return in
			}
		}
		return unknownVal
	case *ssa.ChangeType:
		return c.eval(x.X)
	case *ssa.BinOp:
		a, b := c.eval(x.X), c.eval(x.Y)
		if !a.known || !b.known {
			return unknownVal
		}
		dep := a.dep || b.dep
		if a.isNil || b.isNil {
			if x.Op == token.EQL {
				return cval{known: true, v: constant.MakeBool(a.isNil && b.isNil), dep: dep}
			}
			if x.Op == token.NEQ {
				return cval{known: true, v: constant.MakeBool(!(a.isNil && b.isNil)), dep: dep}
			}
			return unknownVal
		}
		if a.v == nil || b.v == nil {
			return unknownVal
		}
		switch x.Op {
		case token.EQL, token.NEQ, token.LSS, token.LEQ, token.GTR, token.GEQ:
			return cval{known: true, v: constant.MakeBool(constant.Compare(a.v, x.Op, b.v)), dep: dep}
		case token.ADD, token.SUB, token.MUL, token.AND, token.OR, token.XOR:
			return cval{known: true, v: constant.BinaryOp(a.v, x.Op, b.v), dep: dep}
		}
		return unknownVal
	case *ssa.UnOp:
		switch x.Op {
		case token.NOT:
			a := c.eval(x.X)
			if a.known && a.v != nil && a.v.Kind() == constant.Bool {
				return cval{known: true, v: constant.MakeBool(!constant.BoolVal(a.v)), dep: a.dep}
			}
		case token.MUL:
			return c.loadFrom(x.X, x.Type())
		}
		return unknownVal
	case *ssa.Lookup:
		g := rootGlobal(x.X)
		if g == nil {
			return unknownVal
		}
		key := c.eval(x.Index)
		tab := c.tableOf(g)
		if !key.known || key.v == nil || tab == nil {
			return unknownVal
		}
		mt, _ := x.X.Type().Underlying().(*types.Map)
		val, hit := tab["{"+key.v.ExactString()+"}"]
		if !hit && mt != nil {
			val = zeroOf(mt.Elem())
		}
		val.dep = val.dep || key.dep
		if x.CommaOk {
			return cval{known: true, tuple: []cval{val, {known: true, v: constant.MakeBool(hit), dep: key.dep}}, dep: key.dep}
		}
		return val
	case *ssa.Extract:
		t := c.eval(x.Tuple)
		if t.known && x.Index < len(t.tuple) {
			return t.tuple[x.Index]
		}
		return unknownVal
	case *ssa.Field:
		s := c.eval(x.X)
		if s.known && s.fields != nil {
			if f, ok := s.fields[x.Field]; ok {
				return f
			}
		}
		return unknownVal
	case *ssa.Phi:
		if pr := c.pred[x.Block()]; pr != nil {
			for i, p := range x.Block().Preds {
				if p == pr {
					return c.eval(x.Edges[i])
				}
			}
		}
		return unknownVal
	case *ssa.Call:
		if b, ok := x.Call.Value.(*ssa.Builtin); ok && b.Name() == "len" && len(x.Call.Args) == 1 {
			a := x.Call.Args[0]
			if at, ok := a.Type().Underlying().(*types.Array); ok {
				return cval{known: true, v: constant.MakeInt64(at.Len())}
			}
			if pt, ok := a.Type().Underlying().(*types.Pointer); ok {
				if at, ok := pt.Elem().Underlying().(*types.Array); ok {
					return cval{known: true, v: constant.MakeInt64(at.Len())}
				}
			}
			if g := rootGlobal(a); g != nil {
				if at, ok := g.Type().Underlying().(*types.Pointer).Elem().Underlying().(*types.Array); ok {
					return cval{known: true, v: constant.MakeInt64(at.Len())}
				}
				if tab := c.tableOf(g); tab != nil {
					if l, ok := tab["len"]; ok {
						return l
					}
				}
			}
			return unknownVal
		}
		g := x.Call.StaticCallee()
		if g == nil || g.Blocks == nil || !c.p.isRepoFunc(g) || c.depth > 3 {
			return unknownVal
		}
		return c.interp(g, x.Call.Args)
	}
	return unknownVal
}

// interp runs a small helper on (partly) known arguments; gives up (unknown) at the first branch it cannot decide.
func (c *evalCtx) interp(g *ssa.Function, args []ssa.Value) cval {
	sub := &evalCtx{p: c.p, keyType: c.keyType, K: c.K, bind: map[ssa.Value]cval{}, pred: map[*ssa.BasicBlock]*ssa.BasicBlock{}, depth: c.depth + 1, steps: c.steps, memTable: c.memTable}
	for i, prm := range g.Params {
		if i < len(args) {
			sub.bind[prm] = c.eval(args[i])
		}
	}
	b := g.Blocks[0]
	for n := 0; n < 200; n++ {
		last := b.Instrs[len(b.Instrs)-1]
		switch t := last.(type) {
		case *ssa.Return:
			if len(t.Results) == 1 {
				return sub.eval(t.Results[0])
			}
			out := cval{known: true}
			for _, rv := range t.Results {
				e := sub.eval(rv)
				out.tuple = append(out.tuple, e)
				out.dep = out.dep || e.dep
			}
			return out
		case *ssa.If:
			cond := sub.eval(t.Cond)
			if !cond.known || cond.v == nil || cond.v.Kind() != constant.Bool {
				return unknownVal
			}
			next := b.Succs[1]
			if constant.BoolVal(cond.v) {
				next = b.Succs[0]
			}
			sub.pred[next] = b
			b = next
		case *ssa.Jump:
			sub.pred[b.Succs[0]] = b
			b = b.Succs[0]
		default:
			return unknownVal
		}
	}
	return unknownVal
}

// ---- exploring a function under "the key is K" ----

type pathOutcome struct {
	kind    string // "return" | "loop"
	ret     *ssa.Return
	results []cval
	depK    bool // a branch decided by K was taken before this point
}

// explore enumerates the ways control can leave fn (returns, and returning to the head of the outermost loop) when
// every incomputable value of the key type is K. Branches whose condition evaluates to a constant are followed on that
// side only.
func exploreUnderKey(p *Program, fn *ssa.Function, keyType string, K int64, bind map[ssa.Value]cval, depth int, steps *int) []pathOutcome {
	var out []pathOutcome
	if fn == nil || len(fn.Blocks) == 0 {
		return nil
	}
	ctx := &evalCtx{p: p, keyType: keyType, K: K, bind: map[ssa.Value]cval{}, pred: map[*ssa.BasicBlock]*ssa.BasicBlock{}, steps: steps}
	for k, v := range bind {
		ctx.bind[k] = v
	}
	onPath := map[*ssa.BasicBlock]bool{}
	seenOutcome := map[string]bool{}
	var walk func(b *ssa.BasicBlock, depK bool)
	walk = func(b *ssa.BasicBlock, depK bool) {
		*steps++
		if *steps > 400000 {
			return
		}
		onPath[b] = true
		defer delete(onPath, b)
		last := b.Instrs[len(b.Instrs)-1]
		next := func(s *ssa.BasicBlock, dk bool) {
			if onPath[s] {
				// back to a loop head: the outermost loop is the record loop
				key := "loop:" + itoa(s.Index) + ":" + itoa(b.Index) + map[bool]string{true: "d", false: "n"}[dk]
				if !seenOutcome[key] {
					seenOutcome[key] = true
					out = append(out, pathOutcome{kind: "loop", depK: dk})
				}
				return
			}
			old := ctx.pred[s]
			ctx.pred[s] = b
			walk(s, dk)
			ctx.pred[s] = old
		}
		switch t := last.(type) {
		case *ssa.Return:
			o := pathOutcome{kind: "return", ret: t, depK: depK}
			// a tail call of a helper with the same results: its outcomes are this function's
			if depth < 2 && len(t.Results) > 1 {
				if ex, ok := t.Results[0].(*ssa.Extract); ok {
					if call, ok := ex.Tuple.(*ssa.Call); ok {
						all := true
						for i, rv := range t.Results {
							e2, ok := rv.(*ssa.Extract)
							if !ok || e2.Tuple != ssa.Value(call) || e2.Index != i {
								all = false
							}
						}
						if g := call.Call.StaticCallee(); all && g != nil && g.Blocks != nil && p.isRepoFunc(g) {
							b2 := map[ssa.Value]cval{}
							for i, prm := range g.Params {
								if i < len(call.Call.Args) {
									b2[prm] = ctx.eval(call.Call.Args[i])
								}
							}
							for _, so := range exploreUnderKey(p, g, keyType, K, b2, depth+1, steps) {
								if so.kind == "return" {
									so.depK = so.depK || depK
									out = append(out, so)
								}
							}
							return
						}
					}
				}
			}
			for _, rv := range t.Results {
				o.results = append(o.results, ctx.eval(rv))
			}
			out = append(out, o)
		case *ssa.If:
			cond := ctx.eval(t.Cond)
			if cond.known && cond.v != nil && cond.v.Kind() == constant.Bool {
				if constant.BoolVal(cond.v) {
					next(b.Succs[0], depK || cond.dep)
				} else {
					next(b.Succs[1], depK || cond.dep)
				}
				return
			}
			next(b.Succs[0], depK)
			next(b.Succs[1], depK)
		case *ssa.Jump:
			next(b.Succs[0], depK)
		}
	}
	walk(fn.Blocks[0], false)
	return out
}

// filledArrayTable: the array-initialisation domain "default + exceptions" for a table built by a parameterless
// function: a range loop over the whole local array that stores one constant into every element, followed by stores of
// constants at constant indexes, and the array returned. nil when the body does anything else with the array.
func filledArrayTable(call *ssa.Call) map[string]cval {
	f := call.Call.StaticCallee()
	if mc, ok := call.Call.Value.(*ssa.MakeClosure); ok && len(mc.Bindings) == 0 {
		f, _ = mc.Fn.(*ssa.Function)
	}
	if f == nil || f.Blocks == nil || len(call.Call.Args) != 0 || len(f.FreeVars) != 0 {
		return nil
	}
	// the returned array: load of a local alloc
	var arr *ssa.Alloc
	for _, in := range instrsOf(f) {
		if ret, ok := in.(*ssa.Return); ok {
			if len(ret.Results) != 1 {
				return nil
			}
			u, ok := ret.Results[0].(*ssa.UnOp)
			if !ok || u.Op != token.MUL {
				return nil
			}
			al, ok := u.X.(*ssa.Alloc)
			if !ok || (arr != nil && arr != al) {
				return nil
			}
			arr = al
		}
	}
	if arr == nil {
		return nil
	}
	at, ok := arr.Type().Underlying().(*types.Pointer).Elem().Underlying().(*types.Array)
	if !ok {
		return nil
	}
	out := map[string]cval{}
	var fillBlock *ssa.BasicBlock
	var constStores []*ssa.Store
	for _, ref := range *arr.Referrers() {
		switch x := ref.(type) {
		case *ssa.UnOp, *ssa.DebugRef:
		case *ssa.Store:
			// `return a` with a named result copies the array onto itself
			u, ok := x.Val.(*ssa.UnOp)
			if !ok || x.Addr != ssa.Value(arr) || u.X != ssa.Value(arr) {
				return nil
			}
		case *ssa.IndexAddr:
			for _, r2 := range *x.Referrers() {
				st, ok := r2.(*ssa.Store)
				if !ok || st.Addr != ssa.Value(x) {
					return nil
				}
				vc, ok := stripConv(st.Val).(*ssa.Const)
				if !ok {
					return nil
				}
				if k, ok := x.Index.(*ssa.Const); ok && k.Value != nil {
					out["["+k.Value.ExactString()+"]"] = constOf(vc)
					constStores = append(constStores, st)
					continue
				}
				// the index of a range loop over the whole array: i' = phi(-1, i'+1) + 1, continued while i' < len
				inc, ok := x.Index.(*ssa.BinOp)
				if !ok || inc.Op != token.ADD {
					return nil
				}
				phi, ok := inc.X.(*ssa.Phi)
				one, ok2 := inc.Y.(*ssa.Const)
				if !ok || !ok2 || one.Value == nil || one.Int64() != 1 || len(phi.Edges) != 2 {
					return nil
				}
				startOK := false
				for _, e := range phi.Edges {
					if k, ok := e.(*ssa.Const); ok && k.Value != nil && k.Int64() == -1 {
						startOK = true
					}
				}
				condOK := false
				for _, r3 := range *inc.Referrers() {
					if cmp, ok := r3.(*ssa.BinOp); ok && cmp.Op == token.LSS && cmp.X == ssa.Value(inc) {
						if k, ok := cmp.Y.(*ssa.Const); ok && k.Value != nil && k.Int64() == at.Len() {
							condOK = true
						}
					}
				}
				if !startOK || !condOK || fillBlock != nil {
					return nil
				}
				fillBlock = st.Block()
				out["default"] = constOf(vc)
			}
		default:
			return nil
		}
	}
	// the fill comes first: no constant-index store can execute before the loop has finished
	if fillBlock != nil {
		for _, st := range constStores {
			if reachableFromSuccs(st.Block())[fillBlock] {
				return nil
			}
		}
	}
	return out
}
