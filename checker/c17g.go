package main

import (
	"go/token"

	"golang.org/x/tools/go/ssa"
)

// C17.g: every Skip* writer option takes effect. The conformance tool turns the absence of a feature into
// Skip<Part> = true and the expected file then has no such records. Statically: each write of the part's record kind, in
// the operation that emits the part, only executes where the option was tested and found false - the call is dominated
// by the false edge of a test of WriterOptions.Skip<Part> (in the calling function, or in the single caller of the
// helper it sits in), or the record's writer itself returns before writing when the option is set.
func checkSkipOptionsEffective(p *Program, r *Result, rule string) {
	type item struct{ opt, root, writer string }
	for _, it := range []item{
		{"SkipMessageIndexing", "Writer.WriteChunkWithIndexes", "mcap.Writer.WriteMessageIndex"},
		{"SkipStatistics", "Writer.writeSummarySection", "mcap.Writer.WriteStatistics"},
		{"SkipRepeatedSchemas", "Writer.writeSummarySection", "mcap.Writer.WriteSchema"},
		{"SkipRepeatedChannelInfos", "Writer.writeSummarySection", "mcap.Writer.WriteChannel"},
		{"SkipChunkIndex", "Writer.writeSummarySection", "mcap.Writer.WriteChunkIndex"},
		{"SkipAttachmentIndex", "Writer.writeSummarySection", "mcap.Writer.WriteAttachmentIndex"},
		{"SkipMetadataIndex", "Writer.writeSummarySection", "mcap.Writer.WriteMetadataIndex"},
		{"SkipSummaryOffsets", "Writer.Close", "mcap.Writer.WriteSummaryOffset"},
	} {
		root := p.lookupFunc(pkgMcap, it.root)
		construct := "option " + it.opt + " suppresses " + trimPkg(it.writer)
		if root == nil {
			r.undecided(rule, "mcap."+it.root, construct, "", "function not found")
			continue
		}
		isOpt := func(v ssa.Value) bool { return loadOfField(v, "WriterOptions", it.opt) }
		// ci executes only where the option is false
		guarded := func(ci ssa.Instruction) bool {
			for d := ci.Block(); d != nil; d = d.Idom() {
				if len(d.Preds) != 1 {
					continue
				}
				pr := d.Preds[0]
				iff, ok := pr.Instrs[len(pr.Instrs)-1].(*ssa.If)
				if !ok {
					continue
				}
				cond, falseSide := iff.Cond, 1
				for {
					u, ok := cond.(*ssa.UnOp)
					if !ok || u.Op != token.NOT {
						break
					}
					cond, falseSide = u.X, 1-falseSide
				}
				if isOpt(cond) && pr.Succs[falseSide] == d {
					return true
				}
			}
			return false
		}
		// guard by data: the record comes out of a collection that is emptied when the option is set
		// (if opts.Skip { list = nil }; for _, x := range list { write(x) })
		emptied := func(ci ssa.Instruction) bool {
			call, ok := ci.(ssa.CallInstruction)
			if !ok {
				return false
			}
			for _, a := range call.Common().Args {
				u, ok := a.(*ssa.UnOp)
				if !ok || u.Op != token.MUL {
					continue
				}
				ia, ok := u.X.(*ssa.IndexAddr)
				if !ok {
					continue
				}
				phi, ok := ia.X.(*ssa.Phi)
				if !ok {
					continue
				}
				nilFromSet, othersFromUnset := false, true
				for i, e := range phi.Edges {
					pr := phi.Block().Preds[i]
					// the option-true side: pr is (dominated by) the true successor of a test of the option
					onTrue := false
					for d := pr; d != nil; d = d.Idom() {
						if len(d.Preds) != 1 {
							continue
						}
						pp := d.Preds[0]
						if iff, ok := pp.Instrs[len(pp.Instrs)-1].(*ssa.If); ok && isOpt(iff.Cond) && pp.Succs[0] == d {
							onTrue = true
						}
					}
					if isNilConst(e) {
						if onTrue {
							nilFromSet = true
						}
					} else if onTrue {
						othersFromUnset = false
					}
				}
				if nilFromSet && othersFromUnset {
					return true
				}
			}
			return false
		}
		var guardedUp func(ci ssa.Instruction, depth int) bool
		guardedUp = func(ci ssa.Instruction, depth int) bool {
			if guarded(ci) || emptied(ci) {
				return true
			}
			f := ci.Parent()
			if depth <= 0 || f == root || !p.transparent(f) {
				return false
			}
			sites := p.staticCallers(f)
			if len(sites) == 0 {
				return false
			}
			for _, s := range sites {
				if !guardedUp(s, depth-1) {
					return false
				}
			}
			return true
		}
		// the writer guards itself: every sink call in it is on the option-false side
		selfGuard := false
		if wfn := p.lookupFunc(pkgMcap, trimPrefixMcap(it.writer)); wfn != nil {
			n, ok := 0, true
			for _, c2 := range callsIn(wfn, func(c2 ssa.CallInstruction) bool { return calleeRepoName(c2) == "mcap.Writer.writeRecord" }) {
				n++
				if !guarded(c2) {
					ok = false
				}
			}
			selfGuard = n > 0 && ok
		}
		n, bad := 0, 0
		tableForm := false
		for _, dc := range deepCalls(p, root, 3) {
			if dc.name != it.writer {
				continue
			}
			n++
			if selfGuard || guardedUp(dc.in, 2) {
				continue
			}
			bad++
		}
		// table-driven form: the option is evaluated into a field of a group descriptor and tested there
		for _, rf := range regionOf(p, root, 3) {
			for _, in := range instrsOf(rf) {
				if u, ok := in.(*ssa.UnOp); ok && isOpt(u) {
					for _, ref := range *u.Referrers() {
						if _, isIf := ref.(*ssa.If); !isIf {
							if _, isNot := ref.(*ssa.UnOp); !isNot {
								tableForm = true
							}
						}
					}
				}
			}
		}
		switch {
		case n == 0 && tableForm:
			r.note(rule, "mcap."+it.root, construct, p.pos(root.Pos()), "the record writers are reached through a table of groups whose enabling flag is computed from the option: not judged")
		case n == 0:
			r.note(rule, "mcap."+it.root, construct, p.pos(root.Pos()), "no direct call of the record writer found in this operation: not judged")
		case bad == 0:
			r.held(rule, "mcap."+it.root, construct, p.pos(root.Pos()), "every write of the part is on the option-false side of a test of the option")
		case tableForm:
			r.note(rule, "mcap."+it.root, construct, p.pos(root.Pos()), "the option is evaluated into a flag first: not judged")
		default:
			r.violated(rule, "mcap."+it.root, construct, p.pos(root.Pos()),
				"a call of "+trimPkg(it.writer)+" can execute without WriterOptions."+it.opt+" having been tested and found false; with the option set the part is written anyway and the file differs from what a writer configured without that feature must produce")
		}
	}
}

func trimPrefixMcap(s string) string {
	if len(s) > 5 && s[:5] == "mcap." {
		return s[5:]
	}
	return s
}
