package main

import (
	"go/types"

	"golang.org/x/tools/go/ssa"
)

// C01.r / C05.r: the buffer flushActiveChunk reads the chunk's bytes from (Writer.compressed) is the buffer the
// compressor writes into. The compressors are built over that buffer in NewWriter; replacing the buffer later is only
// sound if every repo compressor's Reset(io.Writer) really re-targets to its argument (the pass-through compressor for
// uncompressed chunks keeps its own pointer). Decided as: no store to Writer.compressed outside the constructor, or
// else every repo implementation of Reset(io.Writer) uses its parameter.
func checkChunkBufferIdentity(p *Program, r *Result, rule string) {
	var stores []*ssa.Store
	for _, fn := range p.repoFunctions(pkgMcap) {
		if fn.Name() == "NewWriter" {
			continue
		}
		stores = append(stores, fieldStores(fn, "Writer", "compressed")...)
	}
	if len(stores) == 0 {
		r.held(rule, "mcap.Writer", "chunk buffer identity", "", "Writer.compressed is assigned only by NewWriter: the compressors and flushActiveChunk share one buffer for the writer's lifetime")
		return
	}
	// Reset(io.Writer) implementations in the repo that ignore their argument
	var ignoring []string
	for _, fn := range p.repoFunctions(pkgMcap) {
		if fn.Name() != "Reset" || fn.Signature.Recv() == nil || fn.Signature.Params().Len() != 1 {
			continue
		}
		if nt, ok := fn.Signature.Params().At(0).Type().(*types.Named); !ok || nt.Obj().Name() != "Writer" || nt.Obj().Pkg() == nil || nt.Obj().Pkg().Path() != "io" {
			continue
		}
		prm := fn.Params[len(fn.Params)-1]
		if prm.Referrers() == nil || len(*prm.Referrers()) == 0 {
			ignoring = append(ignoring, funcName(fn))
		}
	}
	for _, st := range stores {
		construct := "store to Writer.compressed"
		if len(ignoring) == 0 {
			r.held(rule, funcName(st.Parent()), construct, p.pos(st.Pos()), "every repo compressor's Reset re-targets to its argument")
		} else {
			r.violated(rule, funcName(st.Parent()), construct, p.pos(st.Pos()),
				"the chunk buffer is replaced after construction, but "+ignoring[0]+" ignores the writer it is asked to re-target to and keeps writing into the old buffer: "+
					"with that compressor later chunks are flushed from an empty buffer while their records go to the orphaned one (records silently lost, sizes and CRCs inconsistent)")
		}
	}
}

// C01.t: how much of the stream the CRC-validating lexer consumes for a chunk depends on the chunk's compression
// format (a property of the data), not on which decoder implementation is installed for it. The drain of the frame
// trailer (io.ReadAll after the chunk was buffered) must not be controlled by the decoder selection: a caller-supplied
// decompressor for the same format leaves the same trailer behind.
func checkTrailerDrain(p *Program, r *Result, rule string) {
	entry := p.lookupFunc(pkgMcap, "loadChunk")
	if entry == nil {
		return
	}
	n := 0
	for _, fn := range regionOf(p, entry, 3) {
		for _, ci := range callsIn(fn, func(ci ssa.CallInstruction) bool { return calleeIs(ci, "io.ReadAll") || calleeIs(ci, "io.Copy") }) {
			// the controlling conditions of the drain
			src := map[string]bool{}
			for d := ci.Block(); d != nil; d = d.Idom() {
				if len(d.Preds) != 1 {
					continue
				}
				if iff, ok := d.Preds[0].Instrs[len(d.Preds[0].Instrs)-1].(*ssa.If); ok {
					valueSources(iff.Cond, src, map[ssa.Value]bool{}, 0)
				}
			}
			n++
			construct := "drain of the chunk's frame trailer (" + trimPkg(staticCalleeName(ci.Common())) + ")"
			if src["field:Lexer.decompressors"] || src["field:Lexer.decoders"] {
				r.violated(rule, funcName(fn), construct, p.pos(ci.Pos()),
					"whether the trailing bytes of the compressed frame are consumed depends on which decoder was selected (built-in or caller-supplied), not only on the chunk's compression format; with a caller-supplied decompressor the base reader is left inside the chunk record and the next record is mis-framed")
			} else {
				r.held(rule, funcName(fn), construct, p.pos(ci.Pos()), "controlled by the chunk's compression format and the validation switch only")
			}
		}
	}
	if n == 0 {
		r.note(rule, "mcap.loadChunk", "drain of the frame trailer", "", "no drain call found: not judged")
	}
}
