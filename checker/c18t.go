package main

import (
	"go/constant"
	"go/token"
	"go/types"

	"golang.org/x/tools/go/ssa"
)

// C18.t: a table of constant length indexed by an id must have room for every id the index's type (or its guard)
// admits. make([]T, K) indexed by an unsigned value whose type reaches K or beyond, with no dominating comparison of the
// index against the length or a smaller constant, panics for the largest ids only (connection id 65535).
func checkConstTables(p *Program, r *Result, rule string, fns []*ssa.Function) {
	n := 0
	for _, fn := range fns {
		for _, in := range instrsOf(fn) {
			ia, ok := in.(*ssa.IndexAddr)
			if !ok {
				continue
			}
			k, ok := constSliceLen(fn, ia.X, 0)
			if !ok {
				// a fixed-size array (package-level table or local)
				if pt, isP := ia.X.Type().Underlying().(*types.Pointer); isP {
					if at, isA := pt.Elem().Underlying().(*types.Array); isA {
						k, ok = at.Len(), true
					}
				}
			}
			if !ok {
				continue
			}
			idx := ia.Index
			b, ok := stripConv(idx).Type().Underlying().(*types.Basic)
			if !ok || b.Info()&types.IsUnsigned == 0 {
				// the declared index type (int after conversion): use the narrowest unsigned type it was converted from
				continue
			}
			bits := map[types.BasicKind]uint{types.Uint8: 8, types.Uint16: 16, types.Uint32: 32, types.Uint64: 64, types.Uint: 64}[b.Kind()]
			if bits == 0 {
				continue
			}
			n++
			construct := "index into a table of " + itoa64(k) + " entries"
			maxVal := uint64(1)<<bits - 1
			if bits == 64 {
				maxVal = ^uint64(0)
			}
			if maxVal < uint64(k) {
				r.held(rule, funcName(fn), construct, p.pos(ia.Pos()), "the index type cannot reach the table's length")
				continue
			}
			// a dominating comparison of the index with a constant below the length, or with len(table)
			guarded := false
			src := stripConv(idx)
			for d := ia.Block(); d != nil; d = d.Idom() {
				if len(d.Preds) != 1 {
					continue
				}
				pred := d.Preds[0]
				iff, ok := pred.Instrs[len(pred.Instrs)-1].(*ssa.If)
				if !ok {
					continue
				}
				cmp, ok := iff.Cond.(*ssa.BinOp)
				if !ok {
					continue
				}
				x, y := stripConv(cmp.X), stripConv(cmp.Y)
				if x != src && y != src {
					continue
				}
				other := y
				if y == src {
					other = x
				}
				if c, ok := other.(*ssa.Const); ok && c.Value != nil {
					if v, ok := constant.Uint64Val(constant.ToInt(c.Value)); ok && v <= uint64(k) {
						switch cmp.Op {
						case token.LSS, token.LEQ, token.GTR, token.GEQ:
							guarded = true
						}
					}
				}
				if call, ok := other.(*ssa.Call); ok {
					if bi, ok := call.Call.Value.(*ssa.Builtin); ok && bi.Name() == "len" {
						guarded = true
					}
				}
			}
			if guarded {
				r.held(rule, funcName(fn), construct, p.pos(ia.Pos()), "the index is compared with the table's length (or a constant within it) first")
			} else {
				r.violated(rule, funcName(fn), construct, p.pos(ia.Pos()),
					"the index is a "+b.Name()+" (values up to "+itoa64(int64(maxVal))+") but the table was made with "+itoa64(k)+" entries and nothing compares the index with its length: the largest ids index out of range and panic")
			}
		}
	}
	if n == 0 {
		r.held(rule, "ros", "constant-length tables", "", "no constant-length table indexed by an unsigned id")
	}
}

func itoa64(n int64) string { return constant.MakeInt64(n).ExactString() }

// constSliceLen: v is a slice created by make([]T, K) with constant K (directly, through a local, or through a variable
// captured from the enclosing function).
func constSliceLen(fn *ssa.Function, v ssa.Value, depth int) (int64, bool) {
	if depth > 4 {
		return 0, false
	}
	switch x := v.(type) {
	case *ssa.MakeSlice:
		if c, ok := x.Len.(*ssa.Const); ok && c.Value != nil {
			if k, ok := constant.Int64Val(constant.ToInt(c.Value)); ok {
				return k, true
			}
		}
	case *ssa.Slice:
		if al, ok := x.X.(*ssa.Alloc); ok {
			// make([]T, K) with constant K compiles to a new array [K]T that is sliced
			if pt, ok := al.Type().Underlying().(*types.Pointer); ok {
				if at, ok := pt.Elem().Underlying().(*types.Array); ok && x.Low == nil {
					if x.High == nil {
						return at.Len(), true
					}
					if c, ok := x.High.(*ssa.Const); ok && c.Value != nil {
						if k, ok := constant.Int64Val(constant.ToInt(c.Value)); ok {
							return k, true
						}
					}
				}
			}
		}
	case *ssa.UnOp:
		if x.Op != token.MUL {
			return 0, false
		}
		switch a := x.X.(type) {
		case *ssa.Alloc:
			for _, ref := range *a.Referrers() {
				if st, ok := ref.(*ssa.Store); ok && st.Addr == ssa.Value(a) {
					return constSliceLen(fn, st.Val, depth+1)
				}
			}
		case *ssa.FreeVar:
			parent := fn.Parent()
			if parent == nil {
				return 0, false
			}
			idx := -1
			for i, fv := range fn.FreeVars {
				if fv == a {
					idx = i
				}
			}
			for _, in := range instrsOf(parent) {
				if mc, ok := in.(*ssa.MakeClosure); ok && mc.Fn == ssa.Value(fn) && idx >= 0 && idx < len(mc.Bindings) {
					if al, ok := mc.Bindings[idx].(*ssa.Alloc); ok {
						for _, ref := range *al.Referrers() {
							if st, ok := ref.(*ssa.Store); ok && st.Addr == ssa.Value(al) {
								return constSliceLen(parent, st.Val, depth+1)
							}
						}
					}
				}
			}
		}
	}
	return 0, false
}
