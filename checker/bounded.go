package main

// E2: bounded-input analysis ("user-supplied integer used without an upper-bound check").
//
// raw value      an integer decoded from input bytes (binary.LittleEndian.UintN), or derived from one by
//                arithmetic/conversion/phi, or loaded from a struct field / received as a parameter / returned
//                by a repo function that carries such a value unguarded (field-based, whole-program fixpoint).
// bounded at P   on every CFG path to P the value (or, through conversions, the value it converts) has been
//                compared against a bounded quantity on the branch that implies an upper bound, or has already
//                been used successfully as a slice bound / allocation size, or was validated by a callee that
//                returns a nil error only after guarding that parameter (makeSafe, seekTo).
// sink           slice bounds, index expressions, make sizes, and a few size-taking library calls.
//
// The analysis decides PRESENCE of an upper bound on every path, not its tightness.

import (
	"fmt"
	"go/token"
	"go/types"
	"sort"
	"strings"

	"golang.org/x/tools/go/ssa"
)

type valSet map[ssa.Value]bool

// rawInfo: provenance of an input-derived value.
type rawInfo struct {
	why       string
	intrinsic bool // decoded here, or from a raw field / raw result
	realParam bool // derives from a parameter that receives raw values at some call site
	hypParam  bool // derives from a parameter only hypothetically raw (used for callee summaries)
}

func (ri *rawInfo) real() bool { return ri != nil && (ri.intrinsic || ri.realParam) }

func (s valSet) clone() valSet {
	o := make(valSet, len(s))
	for k := range s {
		o[k] = true
	}
	return o
}

func intersect(a, b valSet) valSet {
	o := valSet{}
	for k := range a {
		if b[k] {
			o[k] = true
		}
	}
	return o
}

func equalSets(a, b valSet) bool {
	if len(a) != len(b) {
		return false
	}
	for k := range a {
		if !b[k] {
			return false
		}
	}
	return true
}

type paramField struct {
	param int
	field *types.Var
}

type sinkReport struct {
	fn      *ssa.Function
	instr   ssa.Instruction
	kind    string // slice-high, slice-low, index, make-len, ...
	operand ssa.Value
	target  string // label of the sliced/indexed object
	origin  string // description of the raw source
	ok      bool
	hyp     bool // operand is a parameter no call site feeds with unchecked input
}

type boundAnalysis struct {
	p         *Program
	scope     map[*ssa.Function]bool
	fns       []*ssa.Function
	rawResult map[*ssa.Function][]bool
	rawParam  map[*ssa.Function][]bool
	rawField  map[*types.Var]string // field -> origin description
	validates map[*ssa.Function][]bool
	// validatesFld: f returns a nil error only after the integer field fv of its i-th (pointer) parameter was bounded
	validatesFld map[*ssa.Function]map[paramField]bool
	passThru  map[*ssa.Function][]bool // result k derives from integer parameters
	// extraRaw lets a rule add sources (e.g. strings.Index positions)
	extraRawCall func(c *ssa.Call) bool
	reports      []sinkReport
	rawOrigin    map[ssa.Value]string
	// assembled: integers put together by hand from the bytes of a slice; sources like a decode call, not arithmetic
	// over (harmless) single bytes
	assembled map[ssa.Value]bool
}

func newBoundAnalysis(p *Program, scope map[*ssa.Function]bool) *boundAnalysis {
	ba := &boundAnalysis{p: p, scope: scope, rawResult: map[*ssa.Function][]bool{}, rawParam: map[*ssa.Function][]bool{},
		rawField: map[*types.Var]string{}, validates: map[*ssa.Function][]bool{}, validatesFld: map[*ssa.Function]map[paramField]bool{}, passThru: map[*ssa.Function][]bool{}, rawOrigin: map[ssa.Value]string{}}
	ba.fns = sortedFuncs(scope)
	return ba
}

func isIntegerType(t types.Type) bool {
	b, ok := t.Underlying().(*types.Basic)
	return ok && b.Info()&(types.IsInteger|types.IsFloat) != 0
}

func fieldVar(v ssa.Value) *types.Var {
	switch x := v.(type) {
	case *ssa.FieldAddr:
		_, st := structOf(x.X.Type())
		if st != nil {
			return st.Field(x.Field)
		}
	case *ssa.Field:
		_, st := structOf(x.X.Type())
		if st != nil {
			return st.Field(x.Field)
		}
	}
	return nil
}

func isDecodeCall(c *ssa.Call) bool {
	n := staticCalleeName(c.Common())
	switch n {
	case "(encoding/binary.littleEndian).Uint16", "(encoding/binary.littleEndian).Uint32", "(encoding/binary.littleEndian).Uint64",
		"(encoding/binary.bigEndian).Uint16", "(encoding/binary.bigEndian).Uint32", "(encoding/binary.bigEndian).Uint64":
		return true
	}
	return false
}

// run iterates the whole-program summaries to a fixpoint, then collects sink verdicts.
func (ba *boundAnalysis) run() {
	inner := func() {
		for iter := 0; iter < 20; iter++ {
			changed := false
			for _, fn := range ba.fns {
				if ba.analyze(fn, false) {
					changed = true
				}
			}
			if !changed {
				break
			}
		}
	}
	inner()
	// The "raw" summaries only grow during a fixpoint, while the "validates" summaries of callees are still being
	// discovered: a call site analysed before its validating callee was summarised marks its argument raw for good.
	// Restart the raw summaries under the validation summaries found so far until nothing changes (each stage is
	// sound given the sound summaries of the stage before; raw sets can only shrink, validation sets only grow).
	for stage := 0; stage < 3; stage++ {
		sig := ba.rawSignature()
		ba.rawResult, ba.rawParam, ba.rawField, ba.passThru = map[*ssa.Function][]bool{}, map[*ssa.Function][]bool{}, map[*types.Var]string{}, map[*ssa.Function][]bool{}
		inner()
		if ba.rawSignature() == sig {
			break
		}
	}
	ba.reports = nil
	for _, fn := range ba.fns {
		ba.analyze(fn, true)
	}
}

// rawValues computes the raw-derived values of fn under the current summaries. Integer parameters that no
// call site is known to feed with raw values are marked hypothetically raw (for the callee summaries).
func (ba *boundAnalysis) rawValues(fn *ssa.Function) map[ssa.Value]*rawInfo {
	raw := map[ssa.Value]*rawInfo{}
	for i, prm := range fn.Params {
		if !isIntegerType(prm.Type()) {
			continue
		}
		if rp := ba.rawParam[fn]; i < len(rp) && rp[i] {
			raw[prm] = &rawInfo{why: "parameter " + prm.Name() + " (receives an unguarded input-derived value at some call site)", realParam: true}
		} else {
			raw[prm] = &rawInfo{why: "parameter " + prm.Name(), hypParam: true}
		}
	}
	for changed := true; changed; {
		changed = false
		// merge provenance of src (with explanation why) into v
		merge := func(v ssa.Value, src *rawInfo, why string) {
			if src == nil {
				return
			}
			cur := raw[v]
			if cur == nil {
				cur = &rawInfo{why: why}
				if why == "" {
					cur.why = src.why
				}
				raw[v] = cur
				changed = true
			}
			if src.intrinsic && !cur.intrinsic {
				cur.intrinsic, changed = true, true
				if why == "" {
					cur.why = src.why
				}
			}
			if src.realParam && !cur.realParam {
				cur.realParam, changed = true, true
				if !cur.intrinsic && why == "" {
					cur.why = src.why
				}
			}
			if src.hypParam && !cur.hypParam {
				cur.hypParam, changed = true, true
			}
		}
		intrinsic := func(v ssa.Value, why string) { merge(v, &rawInfo{intrinsic: true}, why) }
		fromArgs := func(v ssa.Value, args []ssa.Value) {
			for _, a := range args {
				if isIntegerType(a.Type()) {
					merge(v, raw[a], "")
				}
			}
		}
		for _, b := range fn.Blocks {
			for _, in := range b.Instrs {
				v, ok := in.(ssa.Value)
				if !ok {
					continue
				}
				switch x := in.(type) {
				case *ssa.Call:
					if isDecodeCall(x) {
						intrinsic(x, "decoded from input by "+trimPkg(staticCalleeName(x.Common()))+" at "+ba.p.pos(x.Pos()))
						break
					}
					if ba.extraRawCall != nil && ba.extraRawCall(x) {
						intrinsic(x, "position returned by "+trimPkg(staticCalleeName(x.Common()))+" at "+ba.p.pos(x.Pos()))
						break
					}
					if f := x.Call.StaticCallee(); f != nil && isIntegerType(x.Type()) {
						if rr := ba.rawResult[f]; len(rr) == 1 && rr[0] {
							intrinsic(x, "result of "+funcName(f)+" at "+ba.p.pos(x.Pos()))
						}
						if pt := ba.passThru[f]; len(pt) == 1 && pt[0] {
							fromArgs(x, x.Call.Args)
						}
						if pk := pkgOfCallee(f); pk == "math/bits" || pk == "math" {
							fromArgs(x, x.Call.Args)
						}
					}
				case *ssa.Extract:
					if c, ok := x.Tuple.(*ssa.Call); ok && isIntegerType(x.Type()) {
						if f := c.Call.StaticCallee(); f != nil {
							if rr := ba.rawResult[f]; x.Index < len(rr) && rr[x.Index] {
								intrinsic(x, "result "+fmt.Sprint(x.Index)+" of "+funcName(f)+" at "+ba.p.pos(c.Pos()))
							}
							if pt := ba.passThru[f]; x.Index < len(pt) && pt[x.Index] {
								fromArgs(x, c.Call.Args)
							}
							if pk := pkgOfCallee(f); pk == "math/bits" {
								fromArgs(x, c.Call.Args)
							}
						}
					}
				case *ssa.UnOp:
					if x.Op == token.MUL {
						if vals, local := localFieldStores(x.X); local {
							// field of a struct allocated in this function: the values stored here (object-sensitive)
							for _, sv := range vals {
								merge(v, raw[sv], "")
							}
						} else if fv := fieldVar(x.X); fv != nil {
							if w, ok := ba.rawField[fv]; ok && isIntegerType(x.Type()) {
								intrinsic(x, "field "+fv.Name()+" ("+w+")")
							}
						}
					} else {
						merge(v, raw[x.X], "")
					}
				case *ssa.Field:
					if fv := fieldVar(x); fv != nil {
						if w, ok := ba.rawField[fv]; ok && isIntegerType(x.Type()) {
							intrinsic(x, "field "+fv.Name()+" ("+w+")")
						}
					}
				case *ssa.Convert:
					if isIntegerType(x.Type()) {
						merge(v, raw[x.X], "")
					}
				case *ssa.ChangeType:
					merge(v, raw[x.X], "")
				case *ssa.BinOp:
					// an integer assembled by hand from the bytes of a slice (uint32(b[0]) | uint32(b[1])<<8 ...) is decoded input
					if (x.Op == token.OR || x.Op == token.SHL) && isIntegerType(x.Type()) && (byteOfSlice(x.X) || byteOfSlice(x.Y)) {
						if bw, _, ok := intWidth(x.Type()); ok && bw > 8 {
							intrinsic(x, "assembled from the bytes of a slice at "+ba.p.pos(x.Pos()))
							if ba.assembled == nil {
								ba.assembled = map[ssa.Value]bool{}
							}
							ba.assembled[x] = true
						}
					}
					switch x.Op {
					case token.ADD, token.SUB, token.MUL, token.QUO, token.SHL, token.SHR, token.OR, token.XOR:
						merge(v, raw[x.X], "")
						merge(v, raw[x.Y], "")
					case token.AND, token.REM:
						// x & const and x % const are bounded by the constant
						_, cx := x.X.(*ssa.Const)
						_, cy := x.Y.(*ssa.Const)
						if !cx && !cy {
							merge(v, raw[x.X], "")
							merge(v, raw[x.Y], "")
						}
					}
				case *ssa.Phi:
					for _, e := range x.Edges {
						merge(v, raw[e], "")
					}
				}
			}
		}
	}
	return raw
}

type fnState struct {
	ba   *boundAnalysis
	fn   *ssa.Function
	raw  map[ssa.Value]*rawInfo
	wrap map[ssa.Value]string // results of +,*,<< computed on a still unbounded input value (may have wrapped)
}

// wrapSuspect: v is, or merely converts / further combines, an arithmetic result that may have wrapped.
func (s *fnState) wrapSuspect(v ssa.Value, depth int) string {
	if depth > 10 || v == nil {
		return ""
	}
	if w, ok := s.wrap[v]; ok {
		return w
	}
	switch x := v.(type) {
	case *ssa.Convert:
		return s.wrapSuspect(x.X, depth+1)
	case *ssa.ChangeType:
		return s.wrapSuspect(x.X, depth+1)
	case *ssa.BinOp:
		if w := s.wrapSuspect(x.X, depth+1); w != "" {
			return w
		}
		return s.wrapSuspect(x.Y, depth+1)
	}
	return ""
}

func (s *fnState) isBounded(v ssa.Value, G valSet) bool {
	return s.bounded(v, G, 0)
}

func (s *fnState) bounded(v ssa.Value, G valSet, depth int) bool {
	if depth > 30 {
		return false
	}
	if _, isConst := v.(*ssa.Const); isConst {
		return true
	}
	if s.raw[v] == nil {
		return true
	}
	if G[v] {
		return true
	}
	if s.ba != nil && s.ba.assembled[v] {
		return false
	}
	switch x := v.(type) {
	case *ssa.Convert:
		return s.bounded(x.X, G, depth+1)
	case *ssa.ChangeType:
		return s.bounded(x.X, G, depth+1)
	case *ssa.BinOp:
		switch x.Op {
		case token.QUO, token.SHR, token.SUB:
			return s.bounded(x.X, G, depth+1)
		case token.ADD, token.MUL, token.SHL, token.OR, token.XOR, token.AND, token.REM:
			return s.bounded(x.X, G, depth+1) && s.bounded(x.Y, G, depth+1)
		}
	case *ssa.UnOp:
		if x.Op != token.MUL {
			return s.bounded(x.X, G, depth+1)
		}
		if vals, local := localFieldStores(x.X); local {
			for _, sv := range vals {
				if !s.bounded(sv, G, depth+1) {
					return false
				}
			}
			return true
		}
	}
	return false
}

// localFieldStores: addr is a field of a struct allocated in the same function (composite literal / new); returns
// the values stored into that field of that object in the function.
func localFieldStores(addr ssa.Value) ([]ssa.Value, bool) {
	fa, ok := addr.(*ssa.FieldAddr)
	if !ok {
		return nil, false
	}
	al, ok := fa.X.(*ssa.Alloc)
	if !ok {
		return nil, false
	}
	var vals []ssa.Value
	for _, ref := range *al.Referrers() {
		fa2, ok := ref.(*ssa.FieldAddr)
		if !ok || fa2.Field != fa.Field {
			continue
		}
		for _, r2 := range *fa2.Referrers() {
			if st, ok := r2.(*ssa.Store); ok && st.Addr == ssa.Value(fa2) {
				vals = append(vals, st.Val)
			}
		}
	}
	return vals, len(vals) > 0
}

// addBounded adds v and everything it merely converts; and, for v = widen(u) + const where the addition
// cannot overflow because u was converted from a strictly narrower unsigned type, also u.
func addBounded(G valSet, v ssa.Value) {
	for {
		G[v] = true
		// every load of the same field of a write-once local struct is the same value
		for _, peer := range localFieldLoadPeers(v) {
			G[peer] = true
		}
		switch x := v.(type) {
		case *ssa.Convert:
			v = x.X
			continue
		case *ssa.ChangeType:
			v = x.X
			continue
		case *ssa.BinOp:
			if x.Op == token.ADD {
				var other ssa.Value
				if c, ok := x.Y.(*ssa.Const); ok && c.Value != nil && !isNegConst(c) {
					other = x.X
				} else if c, ok := x.X.(*ssa.Const); ok && c.Value != nil && !isNegConst(c) {
					other = x.Y
				}
				if cv, ok := other.(*ssa.Convert); ok && widensUnsigned(cv) {
					v = cv
					continue
				}
			}
		}
		return
	}
}

func isNegConst(c *ssa.Const) bool {
	return c.Value != nil && strings.HasPrefix(c.Value.ExactString(), "-")
}

func intWidth(t types.Type) (bits int, unsigned bool, ok bool) {
	b, isB := t.Underlying().(*types.Basic)
	if !isB {
		return
	}
	switch b.Kind() {
	case types.Uint8:
		return 8, true, true
	case types.Uint16:
		return 16, true, true
	case types.Uint32:
		return 32, true, true
	case types.Uint64:
		return 64, true, true
	case types.Uint, types.Uintptr:
		return 32, true, true // conservative (GOARCH=386)
	case types.Int8:
		return 8, false, true
	case types.Int16:
		return 16, false, true
	case types.Int32:
		return 32, false, true
	case types.Int64:
		return 64, false, true
	case types.Int:
		return 32, false, true // conservative
	}
	return
}

// widensUnsigned: conversion from an unsigned type to a strictly wider integer type.
func widensUnsigned(cv *ssa.Convert) bool {
	fb, fu, ok1 := intWidth(cv.X.Type())
	tb, _, ok2 := intWidth(cv.Type())
	return ok1 && ok2 && fu && tb > fb
}

// guardFacts adds to G what the condition implies on the given edge.
func (s *fnState) guardFacts(cond ssa.Value, onTrue bool, G valSet) {
	switch c := cond.(type) {
	case *ssa.UnOp:
		if c.Op == token.NOT {
			s.guardFacts(c.X, !onTrue, G)
		}
	case *ssa.BinOp:
		x, y := c.X, c.Y
		// int64(u) < 0 failing (or int64(u) >= 0 holding) for an unsigned u means u <= MaxInt64: a sign test of the
		// reinterpreted value is an upper bound of the original
		if cv, ok := x.(*ssa.Convert); ok && isZeroConst(y) {
			_, fu, ok1 := intWidth(cv.X.Type())
			_, tu, ok2 := intWidth(cv.Type())
			if ok1 && ok2 && fu && !tu {
				if (c.Op == token.LSS && !onTrue) || (c.Op == token.GEQ && onTrue) {
					addBounded(G, cv.X)
					addBounded(G, cv)
					return
				}
			}
		}
		var xBoundedByY, yBoundedByX bool
		switch c.Op {
		case token.LSS, token.LEQ:
			if onTrue {
				xBoundedByY = true
			} else {
				yBoundedByX = true
			}
		case token.GTR, token.GEQ:
			if onTrue {
				yBoundedByX = true
			} else {
				xBoundedByY = true
			}
		case token.EQL:
			if onTrue {
				xBoundedByY, yBoundedByX = true, true
			}
		case token.NEQ:
			if !onTrue {
				xBoundedByY, yBoundedByX = true, true
			}
		default:
			return
		}
		if !isIntegerType(x.Type()) {
			// nil-ness of an error that a validating callee returned
			s.validationFacts(c, onTrue, G)
			return
		}
		// evaluate both against the incoming G before adding anything; a parameter that no call site is known to feed
		// with input-derived values (only hypothetically raw, for this function's own summary) is a bound like any other
		hypOnly := func(v ssa.Value) bool {
			ri := s.raw[stripConv(v)]
			_, isParam := stripConv(v).(*ssa.Parameter)
			return isParam && ri != nil && !ri.real()
		}
		bx, by := s.isBounded(x, G) || hypOnly(x), s.isBounded(y, G) || hypOnly(y)
		if xBoundedByY && by {
			addBounded(G, x)
		}
		if yBoundedByX && bx {
			addBounded(G, y)
		}
	}
}

// validationFacts: `err != nil` / `err == nil` where err is the error of a call to a function that
// validates some of its parameters before returning nil.
func (s *fnState) validationFacts(c *ssa.BinOp, onTrue bool, G valSet) {
	var e ssa.Value
	if isNilConst(c.Y) {
		e = c.X
	} else if isNilConst(c.X) {
		e = c.Y
	} else {
		return
	}
	nilEdge := (c.Op == token.EQL && onTrue) || (c.Op == token.NEQ && !onTrue)
	if !nilEdge {
		return
	}
	var call *ssa.Call
	switch x := e.(type) {
	case *ssa.Call:
		call = x
	case *ssa.Extract:
		call, _ = x.Tuple.(*ssa.Call)
	}
	if call == nil {
		return
	}
	f := call.Call.StaticCallee()
	if f == nil {
		return
	}
	val := s.ba.validates[f]
	args := call.Call.Args
	for i, ok := range val {
		if ok && i < len(args) {
			addBounded(G, args[i])
		}
	}
	// fields of pointer arguments the callee validated: every load of that field of that object in this function
	// (the field is written neither by the callee nor here)
	for pf := range s.ba.validatesFld[f] {
		if pf.param >= len(args) {
			continue
		}
		written := false
		var loads []ssa.Value
		for _, in := range instrsOf(s.fn) {
			switch x := in.(type) {
			case *ssa.Store:
				if fieldVar(x.Addr) == pf.field {
					written = true
				}
			case *ssa.UnOp:
				if fa, ok := x.X.(*ssa.FieldAddr); ok && x.Op == token.MUL && fa.X == args[pf.param] && fieldVar(fa) == pf.field {
					loads = append(loads, x)
				}
			}
		}
		if !written {
			for _, l := range loads {
				addBounded(G, l)
			}
		}
	}
}

type sinkUse struct {
	kind    string
	operand ssa.Value
	target  string
}

// sinksOf lists the size/bound/index operands of an instruction.
func sinksOf(in ssa.Instruction) []sinkUse {
	var out []sinkUse
	switch x := in.(type) {
	case *ssa.Slice:
		t := valueLabel(x.X)
		if x.Low != nil {
			out = append(out, sinkUse{"slice-low", x.Low, t})
		}
		if x.High != nil {
			out = append(out, sinkUse{"slice-high", x.High, t})
		}
		if x.Max != nil {
			out = append(out, sinkUse{"slice-max", x.Max, t})
		}
	case *ssa.IndexAddr:
		out = append(out, sinkUse{"index", x.Index, valueLabel(x.X)})
	case *ssa.Index:
		out = append(out, sinkUse{"index", x.Index, valueLabel(x.X)})
	case *ssa.MakeSlice:
		out = append(out, sinkUse{"make-len", x.Len, shortType(x.Type())})
		if x.Cap != x.Len {
			out = append(out, sinkUse{"make-cap", x.Cap, shortType(x.Type())})
		}
	case *ssa.MakeMap:
		if x.Reserve != nil {
			out = append(out, sinkUse{"make-map-size", x.Reserve, shortType(x.Type())})
		}
	case *ssa.MakeChan:
		out = append(out, sinkUse{"make-chan-size", x.Size, shortType(x.Type())})
	case *ssa.Call:
		// relative seeks: an input-derived offset (in particular one that went negative through a uint64 -> int64
		// conversion) moves the source backwards and the same bytes are lexed again
		if c := x.Common(); c.IsInvoke() && c.Method.Name() == "Seek" && len(c.Args) == 2 {
			if wh, ok := c.Args[1].(*ssa.Const); ok && wh.Value != nil && wh.Value.String() == "1" {
				out = append(out, sinkUse{"seek-offset", c.Args[0], valueLabel(c.Value)})
			}
		}
		switch staticCalleeName(x.Common()) {
		case "bytes.Repeat", "strings.Repeat":
			out = append(out, sinkUse{"repeat-count", x.Call.Args[1], trimPkg(staticCalleeName(x.Common()))})
		case "(*bytes.Buffer).Grow", "(*strings.Builder).Grow":
			out = append(out, sinkUse{"grow-size", x.Call.Args[1], trimPkg(staticCalleeName(x.Common()))})
		case "slices.Grow":
			out = append(out, sinkUse{"grow-size", x.Call.Args[1], "slices.Grow"})
		case "bufio.NewReaderSize", "bufio.NewWriterSize":
			out = append(out, sinkUse{"buffer-size", x.Call.Args[1], trimPkg(staticCalleeName(x.Common()))})
		}
	}
	return out
}

func smallByType(t types.Type) bool {
	b, ok := t.Underlying().(*types.Basic)
	if !ok {
		return false
	}
	switch b.Kind() {
	case types.Uint8, types.Int8, types.Uint16, types.Int16, types.Bool:
		return true
	}
	return false
}

// analyze runs the per-function dataflow. With report=false it only updates summaries and
// returns whether any summary changed; with report=true it appends sink verdicts.
func (ba *boundAnalysis) analyze(fn *ssa.Function, report bool) bool {
	s := &fnState{ba: ba, fn: fn, wrap: map[ssa.Value]string{}}
	s.raw = ba.rawValues(fn)
	in := map[*ssa.BasicBlock]valSet{}
	visited := map[*ssa.BasicBlock]bool{}
	edgeOut := map[[2]*ssa.BasicBlock]valSet{}
	order := fn.DomPreorder()
	changedSummary := false
	var passVal []bool
	var passFld map[paramField]bool
	storedFields := map[*types.Var]bool{}
	for _, in := range instrsOf(fn) {
		if st, ok := in.(*ssa.Store); ok {
			if fv := fieldVar(st.Addr); fv != nil {
				storedFields[fv] = true
			}
		}
	}

	transfer := func(b *ssa.BasicBlock, G valSet, emit bool) {
		for _, instr := range b.Instrs {
			// sinks
			for _, su := range sinksOf(instr) {
				ri := s.raw[su.operand]
				if ri == nil {
					continue
				}
				if !ri.real() {
					// only hypothetically input-derived: a parameter that every caller feeds with checked values. Counted
					// as an examined sink (the rule matched it), decided at the call sites.
					if emit {
						ba.reports = append(ba.reports, sinkReport{fn: fn, instr: instr, kind: su.kind, operand: su.operand, target: su.target, origin: "parameter; every call site passes a checked or input-independent value", ok: true, hyp: true})
					}
					addBounded(G, su.operand)
					continue
				}
				if strings.HasPrefix(su.kind, "make-") && smallByType(stripConv(su.operand).Type()) {
					continue
				}
				ok := s.isBounded(su.operand, G)
				if w := s.wrapSuspect(su.operand, 0); w != "" && ok {
					// bounded only through a check on a value that was computed by arithmetic on the unchecked input
					ok = false
					ri = &rawInfo{why: ri.why + "; " + w, intrinsic: true}
				}
				if emit {
					ba.reports = append(ba.reports, sinkReport{fn: fn, instr: instr, kind: su.kind, operand: su.operand, target: su.target, origin: ri.why, ok: ok})
				}
				// a sink that did not panic bounds its operand for what follows
				addBounded(G, su.operand)
			}
			switch x := instr.(type) {
			case *ssa.BinOp:
				if x.Op == token.ADD || x.Op == token.MUL || x.Op == token.SHL {
					for _, opnd := range []ssa.Value{x.X, x.Y} {
						ri := s.raw[opnd]
						if !ri.real() || s.isBounded(opnd, G) {
							continue
						}
						// widening an unsigned value before adding a constant cannot wrap
						if cv, ok := opnd.(*ssa.Convert); ok && widensUnsigned(cv) {
							continue
						}
						if _, had := s.wrap[x]; !had {
							s.wrap[x] = "the value is the result of " + x.Op.String() + " on the still unchecked input (" + valueLabel(opnd) + "), which can wrap around before the bound check"
						}
					}
				}
			case *ssa.Store:
				if fv := fieldVar(x.Addr); fv != nil {
					if ri := s.raw[x.Val]; ri.real() && !s.isBounded(x.Val, G) {
						if _, had := ba.rawField[fv]; !had {
							ba.rawField[fv] = "stored unguarded in " + funcName(fn) + ": " + ri.why
							changedSummary = true
						}
					}
				}
			case ssa.CallInstruction:
				for _, cal := range ba.p.callees(x) {
					if !ba.scope[cal] {
						continue
					}
					args := x.Common().Args
					off := 0
					if x.Common().IsInvoke() {
						off = 1 // receiver is not in Args for invokes
					}
					for i, a := range args {
						pi := i + off
						if ri := s.raw[a]; ri.real() && !s.isBounded(a, G) && pi < len(cal.Params) && isIntegerType(cal.Params[pi].Type()) {
							rp := ba.rawParam[cal]
							if rp == nil {
								rp = make([]bool, len(cal.Params))
								ba.rawParam[cal] = rp
							}
							if !rp[pi] {
								rp[pi] = true
								changedSummary = true
							}
						}
					}
				}
			case *ssa.Return:
				res := fn.Signature.Results()
				rr := ba.rawResult[fn]
				if rr == nil {
					rr = make([]bool, res.Len())
					ba.rawResult[fn] = rr
				}
				errIdx := -1
				for i := 0; i < res.Len(); i++ {
					if isErrorType(res.At(i).Type()) {
						errIdx = i
					}
				}
				pt := ba.passThru[fn]
				if pt == nil {
					pt = make([]bool, res.Len())
					ba.passThru[fn] = pt
				}
				// what accompanies a definitely non-nil error is not a result anyone may use (C10.h decides that errors are
				// consulted): only the values of returns that can report success count
				definitelyFails := false
				if errIdx >= 0 && errIdx < len(x.Results) {
					ev := x.Results[errIdx]
					if !isNilConst(ev) && !mayBeNilError(ev) {
						definitelyFails = true
					}
					if c, ok := ev.(*ssa.Call); ok && (calleeIs(c, "fmt.Errorf") || calleeIs(c, "errors.New")) {
						definitelyFails = true
					}
				}
				for i, rv := range x.Results {
					if definitelyFails {
						break
					}
					ri := s.raw[rv]
					if ri == nil || !isIntegerType(rv.Type()) || s.isBounded(rv, G) {
						continue
					}
					if ri.intrinsic && !rr[i] {
						rr[i] = true
						changedSummary = true
					}
					if (ri.realParam || ri.hypParam) && !pt[i] {
						pt[i] = true
						changedSummary = true
					}
				}
				// composite results: struct literal fields are handled through rawField (stores)
				// validates: on a nil-error return, which integer params are bounded?
				if errIdx >= 0 && isNilConst(x.Results[errIdx]) {
					// recomputed from scratch in every pass (callee summaries improve between passes)
					if passVal == nil {
						passVal = make([]bool, len(fn.Params))
						for i := range passVal {
							passVal[i] = isIntegerType(fn.Params[i].Type())
						}
					}
					for i, prm := range fn.Params {
						if passVal[i] && !G[prm] {
							passVal[i] = false
						}
					}
					// integer fields of pointer parameters that are bounded here (and never written by fn)
					here := map[paramField]bool{}
					for v := range G {
						u, ok := stripConv(v).(*ssa.UnOp)
						if !ok || u.Op != token.MUL {
							continue
						}
						fa, ok := u.X.(*ssa.FieldAddr)
						if !ok {
							continue
						}
						fv := fieldVar(fa)
						if fv == nil || storedFields[fv] || !isIntegerType(fv.Type()) {
							continue
						}
						for i, prm := range fn.Params {
							if fa.X == ssa.Value(prm) {
								here[paramField{i, fv}] = true
							}
						}
					}
					if passFld == nil {
						passFld = here
					} else {
						for k := range passFld {
							if !here[k] {
								delete(passFld, k)
							}
						}
					}
				}
			}
		}
		// successors
		if len(b.Succs) == 2 {
			if iff, ok := b.Instrs[len(b.Instrs)-1].(*ssa.If); ok {
				gt, gf := G.clone(), G.clone()
				s.guardFacts(iff.Cond, true, gt)
				s.guardFacts(iff.Cond, false, gf)
				edgeOut[[2]*ssa.BasicBlock{b, b.Succs[0]}] = gt
				edgeOut[[2]*ssa.BasicBlock{b, b.Succs[1]}] = gf
				return
			}
		}
		for _, su := range b.Succs {
			edgeOut[[2]*ssa.BasicBlock{b, su}] = G.clone()
		}
	}

	// Conditional facts (correlated branches). A value bounded on one side only of a test `v == K` is lost at the merge;
	// if a later test establishes `v == K2` with a constant K2 != K (an arm of a switch over the same v), the path came
	// through the `v != K` side and the fact holds again. cfAt[b][key] = values bounded at b whenever key holds, where key
	// names (v, K, equal/unequal). Facts are only ever added in the situation described, never removed from G.
	type ckey struct {
		v  ssa.Value
		k  string
		eq bool
	}
	eqTest := func(cond ssa.Value) (ssa.Value, string, bool, bool) {
		bo, ok := cond.(*ssa.BinOp)
		if !ok || (bo.Op != token.EQL && bo.Op != token.NEQ) {
			return nil, "", false, false
		}
		if c, ok := bo.Y.(*ssa.Const); ok && c.Value != nil {
			return bo.X, c.Value.ExactString(), bo.Op == token.EQL, true
		}
		if c, ok := bo.X.(*ssa.Const); ok && c.Value != nil {
			return bo.Y, c.Value.ExactString(), bo.Op == token.EQL, true
		}
		return nil, "", false, false
	}
	cfAt := map[*ssa.BasicBlock]map[ckey]valSet{}
	for iter := 0; iter < 50; iter++ {
		changed := false
		for _, b := range order {
			var G valSet
			if len(b.Preds) == 0 {
				G = valSet{}
			} else {
				first := true
				for _, pr := range b.Preds {
					eo, ok := edgeOut[[2]*ssa.BasicBlock{pr, b}]
					if !ok {
						continue // not yet visited: optimistic top
					}
					if first {
						G = eo.clone()
						first = false
					} else {
						G = intersect(G, eo)
					}
				}
				if first {
					continue
				}
			}
			// phis: bounded if every known incoming value is bounded on its edge
			for _, instr := range b.Instrs {
				phi, ok := instr.(*ssa.Phi)
				if !ok {
					break
				}
				if s.raw[phi] == nil {
					continue
				}
				all := true
				for i, e := range phi.Edges {
					eo, ok := edgeOut[[2]*ssa.BasicBlock{b.Preds[i], b}]
					if !ok {
						continue
					}
					if !s.isBounded(e, eo) {
						all = false
						break
					}
				}
				if all {
					G[phi] = true
				} else {
					delete(G, phi)
				}
			}
			// conditional facts at b: inherited, plus what a two-way merge under an equality test loses
			cf := map[ckey]valSet{}
			if len(b.Preds) == 1 {
				for k, v := range cfAt[b.Preds[0]] {
					cf[k] = v
				}
			} else if len(b.Preds) > 1 {
				first := true
				for _, pr := range b.Preds {
					pc, seen := cfAt[pr]
					if !seen {
						continue
					}
					if first {
						for k, v := range pc {
							cf[k] = v
						}
						first = false
						continue
					}
					for k, v := range cf {
						if pv, ok := pc[k]; ok {
							cf[k] = intersect(v, pv)
						} else {
							delete(cf, k)
						}
					}
				}
			}
			if d := b.Idom(); d != nil && len(b.Preds) >= 2 && len(d.Succs) == 2 {
				if iff, ok := d.Instrs[len(d.Instrs)-1].(*ssa.If); ok {
					if v, k, isEq, ok := eqTest(iff.Cond); ok {
						// every predecessor lies behind exactly one side of the test; per side, what all its predecessors agree on
						sideSet := map[int]valSet{}
						okSides := true
						for _, pr := range b.Preds {
							eo, have := edgeOut[[2]*ssa.BasicBlock{pr, b}]
							if !have {
								okSides = false
								break
							}
							side := -1
							for si, su := range d.Succs {
								if (pr == d && su == b) || (pr != d && len(su.Preds) == 1 && (su == pr || su.Dominates(pr))) {
									if side >= 0 {
										side = -2
									} else {
										side = si
									}
								}
							}
							if side < 0 {
								okSides = false
								break
							}
							if cur, seen := sideSet[side]; seen {
								sideSet[side] = intersect(cur, eo)
							} else {
								sideSet[side] = eo.clone()
							}
						}
						if okSides {
							for side, set := range sideSet {
								extra := valSet{}
								for x := range set {
									if !G[x] {
										extra[x] = true
									}
								}
								if len(extra) > 0 {
									cf[ckey{v, k, (side == 0) == isEq}] = extra
								}
							}
						}
					}
				}
			}
			cfChanged := len(cf) != len(cfAt[b])
			for k, v := range cf {
				if !equalSets(v, cfAt[b][k]) {
					cfChanged = true
				}
			}
			cfAt[b] = cf
			if visited[b] && equalSets(in[b], G) && !cfChanged {
				continue
			}
			visited[b] = true
			in[b] = G.clone()
			changed = true
			transfer(b, G, false)
			// promotion: on the edge where `v == K2` is known, what holds under `v == K2` or under `v != K` (K != K2) holds
			if len(b.Succs) == 2 && len(cf) > 0 {
				if iff, ok := b.Instrs[len(b.Instrs)-1].(*ssa.If); ok {
					if v, k2, isEq, ok := eqTest(iff.Cond); ok {
						eqSucc := b.Succs[1]
						if isEq {
							eqSucc = b.Succs[0]
						}
						e := [2]*ssa.BasicBlock{b, eqSucc}
						for key, set := range cf {
							if key.v != v {
								continue
							}
							if (key.eq && key.k == k2) || (!key.eq && key.k != k2) {
								for x := range set {
									edgeOut[e][x] = true
								}
							}
						}
					}
				}
			}
		}
		if !changed {
			break
		}
	}
	// validates summary: from one clean pass over the converged states
	passVal = nil
	passFld = nil
	for _, b := range order {
		if visited[b] {
			transfer(b, in[b].clone(), report)
		}
	}
	if passFld != nil {
		prev := ba.validatesFld[fn]
		same := len(prev) == len(passFld)
		for k := range passFld {
			if !prev[k] {
				same = false
			}
		}
		if !same {
			ba.validatesFld[fn] = passFld
			changedSummary = true
		}
	}
	if passVal != nil && !equalBools(passVal, ba.validates[fn]) {
		ba.validates[fn] = passVal
		changedSummary = true
	}
	return changedSummary
}

func equalBools(a, b []bool) bool {
	if len(a) != len(b) {
		return false
	}
	for i := range a {
		if a[i] != b[i] {
			return false
		}
	}
	return true
}

// sortedReports returns the verdicts in a stable order.
func (ba *boundAnalysis) sortedReports() []sinkReport {
	rs := append([]sinkReport{}, ba.reports...)
	sort.SliceStable(rs, func(i, j int) bool {
		a, b := funcName(rs[i].fn), funcName(rs[j].fn)
		if a != b {
			return a < b
		}
		return rs[i].instr.Pos() < rs[j].instr.Pos()
	})
	return rs
}

// rawSignature: a canonical rendering of the raw summaries (to detect that a restart changed nothing).
func (ba *boundAnalysis) rawSignature() string {
	var parts []string
	for f, v := range ba.rawParam {
		parts = append(parts, "P:"+f.String()+fmt.Sprint(v))
	}
	for f, v := range ba.rawResult {
		parts = append(parts, "R:"+f.String()+fmt.Sprint(v))
	}
	for fv := range ba.rawField {
		parts = append(parts, "F:"+fv.Pkg().Path()+"."+fv.Name()+fmt.Sprint(fv.Pos()))
	}
	sort.Strings(parts)
	return strings.Join(parts, ";")
}

// byteOfSlice: (a widening conversion of) an element of a []byte.
func byteOfSlice(v ssa.Value) bool {
	for {
		c, ok := v.(*ssa.Convert)
		if !ok {
			break
		}
		v = c.X
	}
	u, ok := v.(*ssa.UnOp)
	if !ok || u.Op != token.MUL {
		return false
	}
	ia, ok := u.X.(*ssa.IndexAddr)
	return ok && isByteSlice(ia.X.Type())
}

func isZeroConst(v ssa.Value) bool {
	c, ok := v.(*ssa.Const)
	return ok && c.Value != nil && c.Value.ExactString() == "0"
}
