package main

import (
	"go/token"
	"strings"

	"golang.org/x/tools/go/ssa"
)

func init() { register("C07", true, checkC07) }

func checkC07(p *Program, r *Result) {
	r.Explanation = "Structural necessary conditions of 'corrupted chunk or attachment bytes are never read back as good data': " +
		"(C07.a) in the lexer's loadChunk, the comparison of crc32.ChecksumIEEE(buffer) with the stored CRC has a mismatch branch that returns the invalid-CRC error, and the statement that makes the " +
		"validated buffer the active reader is dominated by the comparison's pass branch (only a stored CRC of 0 bypasses the check); the hashed buffer is filled by a full read of exactly uncompressed_size bytes whose error returns; " +
		"(C07.e) the error of the read that stages the chunk is only returned (directly or through %w) after errors.Is(err, io.EOF) was evaluated, so that a decoder running dry on a damaged frame is not reported as a clean end of file; " +
		"(C07.o) the lexer state tested in front of the validation is written only by NewLexer and computed from LexerOptions.ValidateChunkCRCs alone (no other option or run-time event switches validation off); " +
		"(C07.b) Lexer.Next returns loadChunk's error (as TokenError or, for the CRC error under EmitInvalidChunks, TokenInvalidChunk) — error-flow engine; " +
		"(C07.d) crcReader.Read hashes exactly p[:n] and returns (n, err) unchanged; parseAttachmentReader routes every field and the data reader through the crcReader, and the stored CRC is read from the unwrapped reader; " +
		"(C07.s) AttachmentReader.crc is written only by ParsedCRC, from the bytes read off the base reader (computed and stored CRC can never be confused)."
	r.NotDecided = []string{"detection power for every corruption", "decompressor behaviour on damaged frames", "behaviour of further Next calls after an error"}
	r.rule("C07.a", "CRC comparison dominates exposure of the chunk's bytes", 3)
	r.rule("C07.b", "loadChunk errors reach the caller of Next", 1)
	r.rule("C07.d", "attachment CRC accumulation covers exactly the bytes delivered", 4)
	r.rule("C07.s", "stored attachment CRC slot has one writer", 1)

	entry := p.lookupFunc(pkgMcap, "loadChunk")
	if entry == nil {
		r.undecided("C07.a", "mcap.loadChunk", "anchor", "", "not found")
		return
	}
	// the function that computes the chunk CRC: loadChunk itself or a helper it calls (searched breadth-first, depth 3)
	lc := entry
	chain := map[*ssa.Function]bool{entry: true}
	{
		hasSum := func(f *ssa.Function) bool {
			return len(callsIn(f, isIEEEChecksum)) > 0
		}
		parent := map[*ssa.Function]*ssa.Function{}
		level := []*ssa.Function{entry}
		var foundFn *ssa.Function
		if hasSum(entry) {
			foundFn = entry
		}
		for depth := 0; depth < 3 && foundFn == nil; depth++ {
			var next []*ssa.Function
			for _, f := range level {
				for _, ci := range callsIn(f, func(ssa.CallInstruction) bool { return true }) {
					g := ci.Common().StaticCallee()
					if g == nil || g.Blocks == nil || !p.isRepoFunc(g) || p.funcPkgPath(g) != pkgMcap || parent[g] != nil || g == entry {
						continue
					}
					parent[g] = f
					next = append(next, g)
					if foundFn == nil && hasSum(g) {
						foundFn = g
					}
				}
			}
			level = next
		}
		if foundFn != nil {
			lc = foundFn
			for f := foundFn; f != nil; f = parent[f] {
				chain[f] = true
			}
		}
	}
	fname := funcName(lc)
	var sumCall *ssa.Call
	for _, ci := range callsIn(lc, isIEEEChecksum) {
		sumCall, _ = ci.(*ssa.Call)
	}
	if sumCall == nil {
		r.violated("C07.a", fname, "chunk CRC computation", p.pos(lc.Pos()), "no CRC-32/IEEE is computed over the decompressed chunk")
	} else {
		// comparison crc != stored
		var iff *ssa.If
		var cmp *ssa.BinOp
		for _, ref := range *sumCall.Referrers() {
			if b, ok := ref.(*ssa.BinOp); ok && (b.Op == token.NEQ || b.Op == token.EQL) {
				cmp = b
				for _, r2 := range *b.Referrers() {
					if i, ok := r2.(*ssa.If); ok {
						iff = i
					}
				}
			}
		}
		if iff == nil {
			r.violated("C07.a", fname, "CRC comparison", p.pos(sumCall.Pos()), "the computed CRC is not compared with the stored one in a branch")
		} else {
			mismatch, pass := iff.Block().Succs[0], iff.Block().Succs[1]
			if cmp.Op == token.EQL {
				mismatch, pass = pass, mismatch
			}
			if returnsNonNilErrOnAllPaths(lc, mismatch) {
				r.held("C07.a", fname, "CRC mismatch returns an error", p.pos(iff.Pos()), "mismatch branch returns a non-nil error")
			} else {
				r.violated("C07.a", fname, "CRC mismatch returns an error", p.pos(iff.Pos()), "a CRC mismatch does not return an error on every path")
			}
			// exposure: calls that store the validated buffer as the active reader
			exposed := 0
			for _, ci := range callsIn(lc, func(ci ssa.CallInstruction) bool { return calleeRepoName(ci) == "mcap.Lexer.setNoneDecoder" }) {
				exposed++
				// the only other way to reach it is the documented bypass "stored CRC == 0" branch, which joins the pass branch
				ok := pass.Dominates(ci.Block()) || bypassJoins(iff, ci.Block())
				if ok && !reachableBlocks(ci.Block())[iff.Block()] && instrDominates(sumCall, ci) {
					r.held("C07.a", fname, "validated buffer becomes the active reader after the check", p.pos(ci.Pos()), "dominated by the CRC computation and its pass/bypass branch")
				} else {
					r.violated("C07.a", fname, "validated buffer becomes the active reader after the check", p.pos(ci.Pos()),
						"the decompressed buffer is installed as the lexer's reader before (or regardless of) the CRC comparison; after a mismatch error the damaged records can still be read by continuing to call Next")
				}
			}
			if exposed == 0 {
				r.undecided("C07.a", fname, "exposure of the validated buffer", p.pos(lc.Pos()), "no setNoneDecoder call found")
			}
			// bypass constant must be 0
			for _, in := range instrsOf(lc) {
				b, ok := in.(*ssa.BinOp)
				if !ok || !b.Block().Dominates(iff.Block()) && b.Block() != iff.Block() {
					continue
				}
				if (b.Op == token.GTR || b.Op == token.NEQ || b.Op == token.EQL) && isStoredCRC(b.X, cmp) {
					if c, ok := b.Y.(*ssa.Const); ok && c.Value != nil && c.Value.String() != "0" {
						r.violated("C07.a", fname, "CRC bypass constant", p.pos(b.Pos()), "only a stored CRC of 0 means 'not available'; comparing with "+c.Value.String()+" skips validation for real CRC values")
					}
				}
			}
		}
		// the hashed buffer is filled by ReadFull of the same slice
		hashed := checksumData(sumCall)
		full := false
		for _, ci := range callsIn(lc, isExactFullRead) {
			if sameSliceShape(ci.Common().Args[1], hashed) && instrDominates(ci, sumCall) {
				full = true
			}
		}
		if full {
			r.held("C07.a", fname, "hashed buffer filled by a full read", p.pos(sumCall.Pos()), "io.ReadFull of the same [:uncompressedSize] window precedes the CRC")
		} else {
			r.violated("C07.a", fname, "hashed buffer filled by a full read", p.pos(sumCall.Pos()), "the buffer that is hashed is not the one filled by a full read of uncompressed_size bytes")
		}
	}
	r.rule("C07.v", "no view of the lexer's scratch buffer is used after the buffer was filled again", 1)
	checkScratchViews(p, r, "C07.v")
	r.rule("C07.e", "a decoder running dry while the chunk is staged is not reported as io.EOF", 1)
	checkStagedReadEOF(p, r, "C07.e", lc, sumCall)
	r.rule("C07.o", "the ValidateChunkCRCs option alone decides, once, whether chunks are validated", 1)
	checkValidationSwitch(p, r, "C07.o", lc, sumCall, chain)
	// ---- b
	if next := p.lookupFunc(pkgMcap, "Lexer.Next"); next != nil {
		cfg := errFlowCfg{rule: "C07.b", inScope: func(site ssa.CallInstruction) (bool, string) {
			if f := site.Common().StaticCallee(); f != nil && chain[f] {
				return true, funcName(f)
			}
			return false, ""
		}}
		runErrFlow(p, r, next, cfg)
		for _, f := range sortedFuncs(chain) {
			if f != lc {
				runErrFlow(p, r, f, cfg)
			}
		}
	}
	// ---- d
	if rd := p.lookupFunc(pkgMcap, "crcReader.Read"); rd != nil {
		// every write to the hash is p[:n] with n the count of a wrapped Read(p) that precedes it; a wrapped Read whose count
		// feeds no hash write must sit behind a test of the computeCRC switch
		reads := callsIn(rd, func(ci ssa.CallInstruction) bool { return ci.Common().IsInvoke() && ci.Common().Method.Name() == "Read" })
		var inner ssa.CallInstruction
		ok := len(reads) > 0
		why := "no wrapped Read call"
		hashedReads := map[ssa.Value]bool{}
		nw := 0
		for _, ci := range callsIn(rd, func(ci ssa.CallInstruction) bool {
			return ci.Common().IsInvoke() && ci.Common().Method.Name() == "Write" || calleeIs(ci, "hash/crc32.Update")
		}) {
			nw++
			good := false
			hashArg := ci.Common().Args[len(ci.Common().Args)-1] // Write(p[:n]) / crc32.Update(sum, table, p[:n])
			if sl, ok2 := hashArg.(*ssa.Slice); ok2 && sl.X == ssa.Value(rd.Params[1]) && sl.Low == nil {
				if ex, ok3 := sl.High.(*ssa.Extract); ok3 && ex.Index == 0 {
					if rc, ok4 := ex.Tuple.(*ssa.Call); ok4 && rc.Call.IsInvoke() && rc.Call.Method.Name() == "Read" && instrDominates(rc, ci) {
						good = true
						hashedReads[rc] = true
					}
				}
			}
			if !good {
				ok = false
				why = "the hash is not fed p[:n] with n the count returned by the wrapped Read"
			}
		}
		if nw == 0 {
			ok = false
			why = "the bytes read are never written to the hash"
		}
		for _, rc := range reads {
			inner = rc
			if hashedReads[rc.Value()] {
				continue
			}
			gated := false
			for d := rc.Block(); d != nil; d = d.Idom() {
				if iff, isIf := d.Instrs[len(d.Instrs)-1].(*ssa.If); isIf && d != rc.Block() || isIf && d == rc.Block() && false {
					cond := iff.Cond
					if u, isU := cond.(*ssa.UnOp); isU && u.Op == token.NOT {
						cond = u.X
					}
					if loadOfField(cond, "crcReader", "computeCRC") {
						gated = true
					}
				}
			}
			if !gated {
				ok = false
				why = "a wrapped Read delivers bytes that are not written to the hash although CRC computation is not known to be off"
			}
		}
		if ok && transparentReadWrapper(rd, inner) {
			r.held("C07.d", funcName(rd), "hash p[:n], return (n, err)", p.pos(rd.Pos()), "exactly the delivered bytes are hashed")
		} else {
			r.violated("C07.d", funcName(rd), "hash p[:n], return (n, err)", p.pos(rd.Pos()), why+"; with a source that delivers short reads the computed CRC would cover stale buffer bytes")
		}
	}
	if pa := p.lookupFunc(pkgMcap, "parseAttachmentReader"); pa != nil {
		var crcR ssa.Value
		for _, ci := range callsIn(pa, func(ci ssa.CallInstruction) bool { return calleeRepoName(ci) == "mcap.newCRCReader" }) {
			crcR = ci.Value()
		}
		if crcR == nil {
			r.violated("C07.d", funcName(pa), "crc reader", p.pos(pa.Pos()), "no crcReader wraps the attachment fields")
		} else {
			bad := ""
			n := 0
			for _, ci := range callsIn(pa, func(ci ssa.CallInstruction) bool {
				nm := calleeRepoName(ci)
				return nm == "mcap.readUint64" || nm == "mcap.readPrefixedString"
			}) {
				n++
				args := ci.Common().Args
				src := args[len(args)-1]
				if mi, ok := src.(*ssa.MakeInterface); ok {
					src = mi.X
				}
				if src != crcR {
					bad = "a field is read from " + valueLabel(src) + " instead of the crcReader"
				}
			}
			// LimitedReader.R = crcReader ; baseReader = r
			for _, st := range fieldStores(pa, "LimitedReader", "R") {
				v := st.Val
				if mi, ok := v.(*ssa.MakeInterface); ok {
					v = mi.X
				}
				if v != crcR {
					bad = "the attachment data reader does not go through the crcReader"
				}
			}
			for _, st := range fieldStores(pa, "AttachmentReader", "baseReader") {
				if st.Val != ssa.Value(pa.Params[0]) {
					bad = "baseReader is not the unwrapped source"
				}
			}
			if bad == "" && n >= 5 {
				r.held("C07.d", funcName(pa), "all fields and data pass the crcReader", p.pos(pa.Pos()), "5 field reads + data reader wrapped; stored CRC read from the base reader")
			} else {
				if bad == "" {
					bad = "fewer than 5 field reads found"
				}
				r.violated("C07.d", funcName(pa), "all fields and data pass the crcReader", p.pos(pa.Pos()), bad)
			}
		}
	}
	for _, name := range []string{"AttachmentReader.ParsedCRC", "AttachmentReader.ComputedCRC"} {
		fn := p.lookupFunc(pkgMcap, name)
		if fn == nil {
			continue
		}
		// ParsedCRC reads from baseReader; ComputedCRC returns crcReader.Checksum()
		if strings.HasSuffix(name, "ParsedCRC") {
			ok := false
			for _, ci := range callsIn(fn, func(ci ssa.CallInstruction) bool { return calleeIs(ci, "io.ReadFull") }) {
				if loadOfFieldIface(ci.Common().Args[0], "AttachmentReader", "baseReader") {
					ok = true
				}
			}
			if ok {
				r.held("C07.d", funcName(fn), "stored CRC comes from the base reader", p.pos(fn.Pos()), "io.ReadFull(ar.baseReader, 4 bytes)")
			} else {
				r.violated("C07.d", funcName(fn), "stored CRC comes from the base reader", p.pos(fn.Pos()), "the stored CRC must be read from the unwrapped reader (reading it through the crcReader would fold it into the computed CRC)")
			}
		} else {
			ok := len(callsIn(fn, func(ci ssa.CallInstruction) bool { return calleeRepoName(ci) == "mcap.crcReader.Checksum" })) > 0
			if ok {
				r.held("C07.d", funcName(fn), "computed CRC comes from the crcReader", p.pos(fn.Pos()), "returns crcReader.Checksum()")
			} else {
				r.violated("C07.d", funcName(fn), "computed CRC comes from the crcReader", p.pos(fn.Pos()), "ComputedCRC never consults the crcReader's checksum")
			}
		}
	}
	// ---- s: who may store AttachmentReader.crc
	nst := 0
	for _, fn := range p.repoFunctions(pkgMcap) {
		for _, st := range fieldStores(fn, "AttachmentReader", "crc") {
			nst++
			if fn.Name() == "ParsedCRC" {
				r.held("C07.s", funcName(fn), "store to AttachmentReader.crc", p.pos(st.Pos()), "the parsed-CRC cache is filled by ParsedCRC")
			} else {
				r.violated("C07.s", funcName(fn), "store to AttachmentReader.crc", p.pos(st.Pos()),
					"the cache slot of the stored (parsed) CRC is written outside ParsedCRC; ParsedCRC would then return a value that was never read from the file and a corrupted attachment compares equal")
			}
		}
	}
	if nst == 0 {
		r.held("C07.s", "mcap.AttachmentReader", "store to AttachmentReader.crc", "", "no cache of the stored CRC")
	}
}

func loadOfFieldIface(v ssa.Value, tn, f string) bool {
	if mi, ok := v.(*ssa.MakeInterface); ok {
		v = mi.X
	}
	return loadOfField(v, tn, f)
}

func isStoredCRC(v ssa.Value, cmp *ssa.BinOp) bool {
	return cmp != nil && (v == cmp.X || v == cmp.Y) && func() bool { _, isCall := v.(*ssa.Call); return !isCall }()
}

// bypassJoins: target is reachable from the If only through successors that do not return (pass branch) or from
// a short-circuit predecessor testing the stored CRC against 0.
func bypassJoins(iff *ssa.If, target *ssa.BasicBlock) bool {
	// the pass successor and the bypass edge both lead to target; accept when every predecessor path to target that
	// avoids the comparison block comes from a block that dominates the comparison block (the `stored > 0 &&` test)
	cmpBlk := iff.Block()
	for _, pr := range target.Preds {
		if pr == cmpBlk || cmpBlk.Dominates(pr) {
			continue
		}
		if !pr.Dominates(cmpBlk) {
			return false
		}
	}
	return true
}

// sameSliceShape: both are X[:n] of the same base load and the same bound value.
func sameSliceShape(a, b ssa.Value) bool {
	if a == b || sameValue(a, b) {
		return true // one value (a staging window handed out by a helper) is both filled and hashed
	}
	sa, ok1 := a.(*ssa.Slice)
	sb, ok2 := b.(*ssa.Slice)
	if !ok1 || !ok2 {
		return false
	}
	if sa.High != sb.High && !sameLocalFieldLoad(sa.High, sb.High) {
		return false
	}
	return sameValue(sa.X, sb.X) || sameFieldLoad(sa.X, sb.X)
}

func sameFieldLoad(a, b ssa.Value) bool {
	ua, ok1 := a.(*ssa.UnOp)
	ub, ok2 := b.(*ssa.UnOp)
	if !ok1 || !ok2 {
		return false
	}
	ta, fa, ba, oka := fieldRef(ua.X)
	tb, fb, bb, okb := fieldRef(ub.X)
	return oka && okb && ta == tb && fa == fb && ba == bb
}

// isIEEEChecksum: crc32.ChecksumIEEE(data), crc32.Checksum(data, crc32.IEEETable) or crc32.Update(_, crc32.IEEETable, data).
func isIEEEChecksum(ci ssa.CallInstruction) bool {
	c := ci.Common()
	switch {
	case calleeIs(ci, "hash/crc32.ChecksumIEEE"):
		return true
	case calleeIs(ci, "hash/crc32.Checksum") && len(c.Args) == 2:
		return globalLoad(c.Args[1]) == "hash/crc32.IEEETable"
	case calleeIs(ci, "hash/crc32.Update") && len(c.Args) == 3:
		return globalLoad(c.Args[1]) == "hash/crc32.IEEETable"
	}
	return false
}

func checksumData(c *ssa.Call) ssa.Value {
	if calleeIs(c, "hash/crc32.Update") {
		return c.Call.Args[2]
	}
	return c.Call.Args[0]
}

// isExactFullRead: io.ReadFull(r, d), or the equivalent io.ReadAtLeast(r, d, len(d)).
func isExactFullRead(ci ssa.CallInstruction) bool {
	if calleeIs(ci, "io.ReadFull") {
		return true
	}
	if calleeIs(ci, "io.ReadAtLeast") && len(ci.Common().Args) == 3 {
		if c, ok := stripConv(ci.Common().Args[2]).(*ssa.Call); ok {
			if b, ok := c.Call.Value.(*ssa.Builtin); ok && b.Name() == "len" && c.Call.Args[0] == ci.Common().Args[1] {
				return true
			}
		}
	}
	return false
}
