package main

import (
	"fmt"
	"go/token"
	"go/types"
	"strings"

	"golang.org/x/tools/go/ssa"
)

// ---- C10.g: optional tables are nil-checked before dereference -------------------------------------------

// optionalPointer: v is a pointer that may legitimately be nil: the optional Statistics record, a map lookup
// without comma-ok, or a slicemap Get.
func optionalPointer(v ssa.Value) string {
	if _, isPtr := v.Type().Underlying().(*types.Pointer); !isPtr {
		return ""
	}
	switch x := v.(type) {
	case *ssa.UnOp:
		if x.Op == token.MUL {
			if tn, f, _, ok := fieldRef(x.X); ok && (f == "Statistics" || f == "statistics") && (tn == "Info" || tn == "indexedMessageIterator") {
				return valueLabel(x)
			}
		}
	case *ssa.Lookup:
		if !x.CommaOk {
			if _, isMap := x.X.Type().Underlying().(*types.Map); isMap {
				return valueLabel(x.X) + "[·]"
			}
		}
	case *ssa.Call:
		if f := x.Call.StaticCallee(); f != nil {
			if f.Origin() != nil {
				f = f.Origin()
			}
			if f.Name() == "Get" && strings.Contains(f.String(), "slicemap") {
				return valueLabel(x.Call.Args[0]) + ".Get()"
			}
		}
	}
	return ""
}

func nilChecked(v ssa.Value, at ssa.Instruction) bool {
	// loads of the same field of the same base are the same pointer (no store to it in between in these functions)
	vals := []ssa.Value{v}
	if u, ok := v.(*ssa.UnOp); ok && u.Op == token.MUL {
		if fa, ok := u.X.(*ssa.FieldAddr); ok {
			for _, in := range instrsOf(at.Parent()) {
				if u2, ok := in.(*ssa.UnOp); ok && u2.Op == token.MUL && u2 != u {
					if fa2, ok := u2.X.(*ssa.FieldAddr); ok && fa2.X == fa.X && fa2.Field == fa.Field {
						vals = append(vals, u2)
					}
				}
			}
		}
	}
	for _, vv := range vals {
		if nilChecked1(vv, at) {
			return true
		}
	}
	return false
}

func nilChecked1(v ssa.Value, at ssa.Instruction) bool {
	refs := v.Referrers()
	if refs == nil {
		return false
	}
	for _, ref := range *refs {
		b, ok := ref.(*ssa.BinOp)
		if !ok || (b.Op != token.NEQ && b.Op != token.EQL) || !(isNilConst(b.X) || isNilConst(b.Y)) {
			continue
		}
		for _, r2 := range *b.Referrers() {
			iff, ok := r2.(*ssa.If)
			if !ok {
				continue
			}
			nonNil := iff.Block().Succs[0]
			if b.Op == token.EQL {
				nonNil = iff.Block().Succs[1]
			}
			if len(nonNil.Preds) == 1 && (nonNil == at.Block() || nonNil.Dominates(at.Block())) {
				return true
			}
			// `if v == nil { return }` : the rest of the function is the non-nil region
			nilSucc := iff.Block().Succs[1]
			if b.Op == token.EQL {
				nilSucc = iff.Block().Succs[0]
			}
			if !reachableBlocks(nilSucc)[at.Block()] && iff.Block().Dominates(at.Block()) {
				return true
			}
		}
	}
	return false
}

func checkOptionalDeref(p *Program, r *Result, fns []*ssa.Function) {
	r.rule("C10.g", "optional summary tables / lookups are nil-checked before dereference", 3)
	for _, fn := range fns {
		fname := funcName(fn)
		seen := map[string]bool{}
		for _, in := range instrsOf(fn) {
			var base ssa.Value
			switch x := in.(type) {
			case *ssa.FieldAddr:
				base = x.X
			case *ssa.UnOp:
				if x.Op == token.MUL {
					if _, isPtr := x.X.Type().Underlying().(*types.Pointer); isPtr {
						if _, isFA := x.X.(*ssa.FieldAddr); !isFA {
							base = x.X
						}
					}
				}
			}
			if base == nil {
				continue
			}
			lbl := optionalPointer(base)
			if lbl == "" {
				continue
			}
			construct := "deref " + lbl
			if seen[construct] {
				continue
			}
			seen[construct] = true
			if nilChecked(base, in) {
				r.held("C10.g", fname, construct, p.pos(in.Pos()), "dominated by a nil test")
			} else {
				r.violated("C10.g", fname, construct, p.pos(in.Pos()),
					"the pointer may be nil (the record is optional / the key may be absent) and is dereferenced without a dominating nil test")
			}
		}
	}
}

// ---- C10.w: guard constant vs read width -----------------------------------------------------------------

var uintWidth = map[string]int64{"Uint16": 2, "Uint32": 4, "Uint64": 8}

// checkReadWidths: a read of W bytes at b[o:] whose dominating length guard (o > len(b)-k / len(b[o:]) < k) has a
// constant k smaller than W is a definite contradiction between the check and the access it protects.
func checkReadWidths(p *Program, r *Result, fns []*ssa.Function) {
	r.rule("C10.w", "length guards cover the width of the read they protect", 3)
	for _, fn := range fns {
		fname := funcName(fn)
		// an integer assembled from single bytes (b[0] | b[1]<<8 ...) has no width to compare a guard with: every byte
		// access is a constant index into a window whose bounds the slice expression checks (decided by C10.a/k)
		for _, in := range instrsOf(fn) {
			if b, ok := in.(*ssa.BinOp); ok && b.Op == token.OR && (byteOfSlice(b.X) || byteOfSlice(b.Y)) {
				r.abstain("C10.w", fname, "integer assembled from single bytes", p.pos(b.Pos()), "the read is assembled byte by byte; there is no multi-byte read whose width a guard constant could fall short of")
				break
			}
		}
		for _, ci := range callsIn(fn, func(ci ssa.CallInstruction) bool {
			c, ok := ci.(*ssa.Call)
			return ok && isDecodeCall(c)
		}) {
			call := ci.(*ssa.Call)
			name := staticCalleeName(call.Common())
			w := uintWidth[name[strings.LastIndex(name, ".")+1:]]
			arg := call.Call.Args[1]
			sl, ok := arg.(*ssa.Slice)
			if !ok || sl.High != nil {
				continue // fixed windows and whole buffers are decided by the bounded-input and minimum-length rules
			}
			// guards mentioning the same base buffer and offset
			k, found := guardConstant(fn, sl.X, sl.Low, call)
			construct := fmt.Sprintf("%d-byte read at %s[%s:]", w, valueLabel(sl.X), valueLabel(sl.Low))
			switch {
			case !found:
				continue
			case k < w:
				r.violated("C10.w", fname, construct, p.pos(call.Pos()),
					fmt.Sprintf("the dominating length test only guarantees %d byte(s) at this offset but %d are read; a record cut short by %d..%d bytes panics instead of returning an error", k, w, 1, w-k))
			default:
				r.held("C10.w", fname, construct, p.pos(call.Pos()), fmt.Sprintf("guard guarantees %d >= %d bytes", k, w))
			}
		}
	}
}

// guardConstant finds a dominating guard of the forms  o > len(b)-k (false edge)  or  len(b[o:]) < k (false edge)
// for the given buffer b and offset o, and returns k.
func guardConstant(fn *ssa.Function, b, o ssa.Value, at ssa.Instruction) (int64, bool) {
	isLenOf := func(v ssa.Value, pred func(ssa.Value) bool) bool {
		c, ok := stripConv(v).(*ssa.Call)
		if !ok {
			return false
		}
		bi, isB := c.Call.Value.(*ssa.Builtin)
		return isB && bi.Name() == "len" && pred(c.Call.Args[0])
	}
	sameBuf := func(v ssa.Value) bool { return v == b || sameFieldLoad(v, b) }
	constOf := func(v ssa.Value) (int64, bool) {
		c, ok := v.(*ssa.Const)
		if !ok || c.Value == nil {
			return 0, false
		}
		return c.Int64(), true
	}
	for _, in := range instrsOf(fn) {
		cmp, ok := in.(*ssa.BinOp)
		if !ok {
			continue
		}
		var k int64
		var passOnFalse, match bool
		switch cmp.Op {
		case token.GTR: // o > len(b) - k   -> error ; false edge passes
			if cmp.X == o || (o == nil && false) {
				if sub, ok := cmp.Y.(*ssa.BinOp); ok && sub.Op == token.SUB && isLenOf(sub.X, sameBuf) {
					if kk, ok := constOf(sub.Y); ok {
						k, passOnFalse, match = kk, true, true
					}
				}
			}
		case token.LSS: // len(b[o:]) < k -> error ; false edge passes
			if kk, ok := constOf(cmp.Y); ok && isLenOf(cmp.X, func(v ssa.Value) bool {
				s2, ok := v.(*ssa.Slice)
				return ok && sameBuf(s2.X) && s2.Low == o && s2.High == nil
			}) {
				k, passOnFalse, match = kk, true, true
			}
		}
		if !match {
			continue
		}
		for _, ref := range *cmp.Referrers() {
			iff, ok := ref.(*ssa.If)
			if !ok {
				continue
			}
			pass := iff.Block().Succs[0]
			if passOnFalse {
				pass = iff.Block().Succs[1]
			}
			if pass == at.Block() || pass.Dominates(at.Block()) {
				return k, true
			}
		}
	}
	return 0, false
}

// ---- C10.f: decode loops make progress --------------------------------------------------------------------

// checkLoopProgress: in a loop whose condition tests a position variable and whose body decodes, the value the
// position takes on the back edge must differ from its value at the loop head by a positive step (result of a
// decode helper called with it, or + positive constant). A back edge carrying the unchanged position loops forever.
func checkLoopProgress(p *Program, r *Result, fns []*ssa.Function) {
	r.rule("C10.f", "decode loops advance their position on every iteration", 4)
	for _, fn := range fns {
		fname := funcName(fn)
		for _, b := range fn.Blocks {
			iff, ok := b.Instrs[len(b.Instrs)-1].(*ssa.If)
			if !ok {
				continue
			}
			cond, ok := iff.Cond.(*ssa.BinOp)
			if !ok {
				continue
			}
			switch cond.Op {
			case token.LSS, token.LEQ, token.GTR, token.GEQ, token.NEQ:
			default:
				continue
			}
			// is this a loop header at all?
			isHeader := false
			for _, pr := range b.Preds {
				if b.Dominates(pr) {
					isHeader = true
				}
			}
			if isHeader && loopDecodes(p, b) {
				// a condition over values that the loop never changes
				inLoop := func(v ssa.Value) bool {
					in, ok := v.(ssa.Instruction)
					if !ok {
						return false
					}
					return in.Block() != nil && b.Dominates(in.Block()) && reachableFromSuccs(in.Block())[b]
				}
				var changes func(v ssa.Value, depth int) bool
				changes = func(v ssa.Value, depth int) bool {
					if depth > 6 || v == nil {
						return false
					}
					if _, isPhi := v.(*ssa.Phi); isPhi && inLoop(v) {
						return true
					}
					switch x := v.(type) {
					case *ssa.Convert:
						return changes(x.X, depth+1)
					case *ssa.BinOp:
						return changes(x.X, depth+1) || changes(x.Y, depth+1)
					case *ssa.Call, *ssa.UnOp, *ssa.Extract, *ssa.Lookup, *ssa.Index, *ssa.Field:
						return inLoop(v) // recomputed each iteration (loads, calls)
					}
					return false
				}
				if !changes(cond.X, 0) && !changes(cond.Y, 0) {
					r.violated("C10.f", fname, "loop condition "+valueLabel(cond.X)+cond.Op.String()+valueLabel(cond.Y)+" never changes", p.pos(iff.Pos()),
						"the loop decodes input but nothing it tests is updated in its body; with input that makes the condition true it never terminates")
				}
			}
			// loop header phis used (through conversions / + const) in the condition
			made := false
			for _, instr := range b.Instrs {
				phi, ok := instr.(*ssa.Phi)
				if !ok {
					break
				}
				if !isIntegerType(phi.Type()) || !(derivesFrom(cond.X, phi, 0) || derivesFrom(cond.Y, phi, 0)) {
					continue
				}
				// does the body decode?
				decodes := false
				for blk := range reachableBlocks(b) {
					if !b.Dominates(blk) {
						continue
					}
					for _, in2 := range blk.Instrs {
						if c, ok := in2.(*ssa.Call); ok {
							if isDecodeCall(c) {
								decodes = true
							}
							if f := c.Call.StaticCallee(); f != nil && p.isRepoFunc(f) && (strings.HasPrefix(f.Name(), "get") || strings.HasPrefix(f.Name(), "read")) {
								decodes = true
							}
						}
					}
				}
				if !decodes {
					continue
				}
				made = true
				construct := "progress of " + valueLabel(phi) + " in the decode loop"
				stuck := ""
				for i, e := range phi.Edges {
					pr := b.Preds[i]
					if !b.Dominates(pr) {
						continue // entry edge
					}
					if e == ssa.Value(phi) || !advances(e, phi, 0) {
						stuck = valueLabel(e)
					}
				}
				if stuck != "" {
					r.violated("C10.f", fname, construct, p.pos(iff.Pos()),
						"on a path round the loop the position variable comes back unchanged ("+stuck+"); with input that keeps the condition true the loop never terminates")
				} else {
					r.held("C10.f", fname, construct, p.pos(iff.Pos()), "every back edge carries a position advanced by a decode helper or a positive step")
				}
			}
			// a decode loop whose position lives in a field of a cursor object (re-loaded on every iteration): the
			// advance happens inside the cursor's methods; the "never changes" test above has looked at it
			if !made && isHeader && loopDecodes(p, b) {
				r.abstain("C10.f", fname, "decode loop over a cursor field", p.pos(iff.Pos()), "the position is a field updated by the cursor's methods, not a loop-carried value")
			}
		}
	}
}

// loopDecodes: the loop headed by b calls a decode primitive or a repo get*/read* helper.
func loopDecodes(p *Program, b *ssa.BasicBlock) bool {
	for blk := range reachableBlocks(b) {
		if !b.Dominates(blk) || !reachableFromSuccs(blk)[b] {
			continue
		}
		for _, in2 := range blk.Instrs {
			if c, ok := in2.(*ssa.Call); ok {
				if isDecodeCall(c) {
					return true
				}
				if f := c.Call.StaticCallee(); f != nil && p.isRepoFunc(f) && (strings.HasPrefix(f.Name(), "get") || strings.HasPrefix(f.Name(), "read")) {
					return true
				}
			}
		}
	}
	return false
}

func derivesFrom(v ssa.Value, phi *ssa.Phi, depth int) bool {
	if depth > 6 || v == nil {
		return false
	}
	if v == ssa.Value(phi) {
		return true
	}
	switch x := v.(type) {
	case *ssa.Convert:
		return derivesFrom(x.X, phi, depth+1)
	case *ssa.BinOp:
		return derivesFrom(x.X, phi, depth+1) || derivesFrom(x.Y, phi, depth+1)
	}
	return false
}

// advances: v is the phi advanced by at least one positive step.
func advances(v ssa.Value, phi *ssa.Phi, depth int) bool {
	if depth > 8 || v == nil {
		return false
	}
	switch x := v.(type) {
	case *ssa.Extract:
		// result of a helper called with (something derived from) the position: helpers return offset + k, k > 0
		if c, ok := x.Tuple.(*ssa.Call); ok {
			for _, a := range c.Call.Args {
				if derivesFrom(a, phi, 0) || advances(a, phi, depth+1) {
					return true
				}
			}
		}
	case *ssa.Call:
		for _, a := range x.Call.Args {
			if derivesFrom(a, phi, 0) || advances(a, phi, depth+1) {
				return true
			}
		}
	case *ssa.BinOp:
		if x.Op == token.ADD {
			for _, pair := range [][2]ssa.Value{{x.X, x.Y}, {x.Y, x.X}} {
				if derivesFrom(pair[0], phi, 0) || advances(pair[0], phi, depth+1) {
					if c, ok := pair[1].(*ssa.Const); ok && c.Value != nil && c.Int64() > 0 {
						return true
					}
					if advances(pair[0], phi, depth+1) {
						return true // already advanced, plus something
					}
					// + a decoded length (may be zero) only counts together with an earlier positive step
				}
			}
		}
	case *ssa.Phi:
		if x == phi {
			return false
		}
		for _, e := range x.Edges {
			if !advances(e, phi, depth+1) {
				return false
			}
		}
		return len(x.Edges) > 0
	case *ssa.Convert:
		return advances(x.X, phi, depth+1)
	}
	return false
}

// ---- C10.c: no input-driven recursion ---------------------------------------------------------------------------

// checkNoUnguardedRecursion: a call-graph cycle inside the decode scope recurses once per input element (record,
// nesting level); Go does not eliminate tail calls and a goroutine stack overflow is fatal, not a recoverable panic.
// Every call that closes a cycle must carry a visited-set or depth guard (same criterion as C19.a).
func checkNoUnguardedRecursion(p *Program, r *Result, scope map[*ssa.Function]bool) {
	r.rule("C10.c", "no unguarded recursion in the decode scope", 1)
	// cycles through statically resolved calls only: dynamic dispatch (error.Error, io.Writer.Write wrappers) is
	// over-approximated by the call graph and does not recurse on the same object
	static := func(f *ssa.Function) []*ssa.Function {
		var out []*ssa.Function
		for _, ci := range callsIn(f, func(ssa.CallInstruction) bool { return true }) {
			if g := ci.Common().StaticCallee(); g != nil && scope[g] {
				out = append(out, g)
			}
		}
		return out
	}
	reaches := func(from, to *ssa.Function) bool {
		seen := map[*ssa.Function]bool{}
		st := []*ssa.Function{from}
		for len(st) > 0 {
			f := st[len(st)-1]
			st = st[:len(st)-1]
			if seen[f] {
				continue
			}
			seen[f] = true
			for _, g := range static(f) {
				if g == to {
					return true
				}
				st = append(st, g)
			}
		}
		return false
	}
	n := 0
	for _, fn := range sortedFuncs(scope) {
		for _, ci := range callsIn(fn, func(ci ssa.CallInstruction) bool {
			g := ci.Common().StaticCallee()
			return g != nil && scope[g] && (g == fn || reaches(g, fn))
		}) {
			n++
			construct := "recursive call to " + calleeLabel(p, ci)
			if why := recursionGuard(fn, ci); why != "" {
				r.held("C10.c", funcName(fn), construct, p.pos(ci.Pos()), why)
			} else {
				r.violated("C10.c", funcName(fn), construct, p.pos(ci.Pos()),
					"the decode path recurses without a depth or visited-set guard; the depth is controlled by the input (one frame per skipped record / nesting level), and a stack overflow terminates the process")
			}
		}
	}
	if n == 0 {
		r.held("C10.c", "mcap (decode scope)", "call graph", "", "no cycle of statically resolved calls among the functions reachable from the decode entry points")
	}
}
