package main

// Loading of /repo's Go workspace: type-checked syntax, SSA, VTA call graph.
// Nothing here executes code of the system under test.

import (
	"fmt"
	"go/ast"
	"go/token"
	"go/types"
	"os"
	"path/filepath"
	"sort"
	"strings"

	"golang.org/x/tools/go/callgraph"
	"golang.org/x/tools/go/callgraph/cha"
	"golang.org/x/tools/go/callgraph/vta"
	"golang.org/x/tools/go/packages"
	"golang.org/x/tools/go/ssa"
	"golang.org/x/tools/go/ssa/ssautil"
)

const (
	pkgMcap    = "github.com/foxglove/mcap/go/mcap"
	pkgRos     = "github.com/foxglove/mcap/go/ros"
	pkgRos1msg = "github.com/foxglove/mcap/go/ros/ros1msg"
	pkgReadC   = "github.com/foxglove/mcap/go/conformance/test-read-conformance"
	pkgWriteC  = "github.com/foxglove/mcap/go/conformance/test-write-performance"
)

var repoPkgPaths = []string{pkgMcap, pkgRos, pkgRos1msg, pkgReadC, pkgWriteC}

// Program is everything the rules look at.
type Program struct {
	callerIdx map[*ssa.Function][]ssa.CallInstruction
	RepoRoot string
	Fset     *token.FileSet
	Pkgs     map[string]*packages.Package // repo packages by path
	SSA      *ssa.Program
	SSAPkgs  map[string]*ssa.Package
	CG       *callgraph.Graph
	// testScaffold: functions declared in a file that imports "testing"
	testScaffoldFiles map[string]bool
	allFuncs          map[*ssa.Function]bool
	LoadNotes         []string
	GOARCH            string
	Tags              string
}

type loadOpts struct {
	repo    string
	goarch  string
	tags    string
	overlay map[string][]byte
	needSSA bool
}

func cleanEnv(goarch string) []string {
	var env []string
	for _, kv := range os.Environ() {
		if strings.HasPrefix(kv, "GOFLAGS=") || strings.HasPrefix(kv, "GOWORK=") || strings.HasPrefix(kv, "GOARCH=") {
			continue
		}
		env = append(env, kv)
	}
	env = append(env, "GOPROXY=off", "GOSUMDB=off", "GOTOOLCHAIN=local", "GOFLAGS=")
	if goarch != "" {
		env = append(env, "GOARCH="+goarch)
	}
	return env
}

func loadProgram(o loadOpts) (*Program, error) {
	fset := token.NewFileSet()
	cfg := &packages.Config{
		Mode:    packages.LoadAllSyntax,
		Dir:     filepath.Join(o.repo, "go"),
		Fset:    fset,
		Env:     cleanEnv(o.goarch),
		Tests:   false,
		Overlay: o.overlay,
	}
	if o.tags != "" {
		cfg.BuildFlags = []string{"-tags", o.tags}
	}
	pkgs, err := packages.Load(cfg, "./mcap/...", "./ros/...",
		"./conformance/test-read-conformance/...", "./conformance/test-write-conformance/...")
	if err != nil {
		return nil, fmt.Errorf("packages.Load: %w", err)
	}
	p := &Program{RepoRoot: o.repo, Fset: fset, Pkgs: map[string]*packages.Package{}, SSAPkgs: map[string]*ssa.Package{},
		testScaffoldFiles: map[string]bool{}, GOARCH: o.goarch, Tags: o.tags}
	var errs []string
	packages.Visit(pkgs, nil, func(pk *packages.Package) {
		for _, e := range pk.Errors {
			errs = append(errs, fmt.Sprintf("%s: %s", pk.PkgPath, e.Error()))
		}
	})
	if len(errs) > 0 {
		sort.Strings(errs)
		if len(errs) > 10 {
			errs = errs[:10]
		}
		return nil, fmt.Errorf("type/load errors (undecided):\n  %s", strings.Join(errs, "\n  "))
	}
	for _, pk := range pkgs {
		p.Pkgs[pk.PkgPath] = pk
	}
	for _, want := range repoPkgPaths {
		if p.Pkgs[want] == nil {
			return nil, fmt.Errorf("package %s not loaded (undecided)", want)
		}
	}
	for _, pk := range p.Pkgs {
		for _, f := range pk.Syntax {
			for _, imp := range f.Imports {
				if imp.Path.Value == `"testing"` {
					p.testScaffoldFiles[fset.Position(f.Pos()).Filename] = true
				}
			}
		}
	}
	if !o.needSSA {
		return p, nil
	}
	prog, _ := ssautil.AllPackages(pkgs, ssa.InstantiateGenerics)
	prog.Build()
	p.SSA = prog
	for path, pk := range p.Pkgs {
		sp := prog.Package(pk.Types)
		if sp == nil {
			return nil, fmt.Errorf("no SSA for %s", path)
		}
		p.SSAPkgs[path] = sp
	}
	p.allFuncs = ssautil.AllFunctions(prog)
	p.CG = vta.CallGraph(p.allFuncs, cha.CallGraph(prog))
	return p, nil
}

// ---- helpers over the loaded program ----

func (p *Program) pos(pos token.Pos) string {
	if !pos.IsValid() {
		return "?"
	}
	ps := p.Fset.Position(pos)
	rel, err := filepath.Rel(p.RepoRoot, ps.Filename)
	if err != nil {
		rel = ps.Filename
	}
	return fmt.Sprintf("%s:%d", rel, ps.Line)
}

func (p *Program) fileOf(pos token.Pos) string {
	return p.Fset.Position(pos).Filename
}

// isRepoFunc reports whether fn belongs to one of the analysed repo packages
// (including closures and generic instantiations) and is not test scaffolding.
func (p *Program) isRepoFunc(fn *ssa.Function) bool {
	if fn == nil {
		return false
	}
	root := fn
	for root.Parent() != nil {
		root = root.Parent()
	}
	if o := root.Origin(); o != nil {
		root = o
	}
	if root.Pkg == nil {
		return false
	}
	if _, ok := p.Pkgs[root.Pkg.Pkg.Path()]; !ok {
		return false
	}
	if root.Synthetic != "" && root.Syntax() == nil {
		return false
	}
	if root.Pos().IsValid() && p.testScaffoldFiles[p.fileOf(root.Pos())] {
		return false
	}
	return true
}

func (p *Program) funcPkgPath(fn *ssa.Function) string {
	root := fn
	for root.Parent() != nil {
		root = root.Parent()
	}
	if o := root.Origin(); o != nil {
		root = o
	}
	if root.Pkg == nil {
		return ""
	}
	return root.Pkg.Pkg.Path()
}

// funcName gives a stable, line-free name: pkg.Recv.Method or pkg.Func, closures as outer$n.
func funcName(fn *ssa.Function) string {
	if fn == nil {
		return "<nil>"
	}
	name := fn.Name()
	if fn.Parent() != nil {
		return funcName(fn.Parent()) + "$" + strings.TrimPrefix(name, fn.Parent().Name()+"$")
	}
	base := fn
	if o := fn.Origin(); o != nil {
		base = o
	}
	pk := ""
	if base.Pkg != nil {
		pk = base.Pkg.Pkg.Name() + "."
	}
	if recv := base.Signature.Recv(); recv != nil {
		t := recv.Type()
		if pt, ok := t.(*types.Pointer); ok {
			t = pt.Elem()
		}
		if nt, ok := t.(*types.Named); ok {
			return pk + nt.Obj().Name() + "." + base.Name()
		}
	}
	return pk + base.Name()
}

// lookupFunc finds a package-level function or method ("Type.Method") in a repo package.
func (p *Program) lookupFunc(pkgPath, name string) *ssa.Function {
	sp := p.SSAPkgs[pkgPath]
	if sp == nil {
		return nil
	}
	if i := strings.Index(name, "."); i >= 0 {
		tname, mname := name[:i], name[i+1:]
		tm, ok := sp.Members[tname].(*ssa.Type)
		if !ok {
			return nil
		}
		T := tm.Type()
		for _, t := range []types.Type{T, types.NewPointer(T)} {
			ms := p.SSA.MethodSets.MethodSet(t)
			for i := 0; i < ms.Len(); i++ {
				if ms.At(i).Obj().Name() == mname {
					if f := p.SSA.MethodValue(ms.At(i)); f != nil {
						return f
					}
				}
			}
		}
		return nil
	}
	if f, ok := sp.Members[name].(*ssa.Function); ok {
		return f
	}
	// the lexer's chunk loader is a package-level function taking the lexer; as a method it is the same anchor
	if name == "loadChunk" && pkgPath == pkgMcap {
		return p.lookupFunc(pkgPath, "Lexer.loadChunk")
	}
	return nil
}

// repoFunctions lists all source functions (incl. closures, generic instances) of repo packages, sorted by name.
func (p *Program) repoFunctions(pkgPaths ...string) []*ssa.Function {
	want := map[string]bool{}
	for _, pp := range pkgPaths {
		want[pp] = true
	}
	var out []*ssa.Function
	for fn := range p.allFuncs {
		if !p.isRepoFunc(fn) || fn.Blocks == nil {
			continue
		}
		if len(want) > 0 && !want[p.funcPkgPath(fn)] {
			continue
		}
		// skip un-instantiated generic bodies; instances are analysed instead
		if fn.TypeParams().Len() > 0 && len(fn.TypeArgs()) == 0 {
			continue
		}
		out = append(out, fn)
	}
	sort.Slice(out, func(i, j int) bool {
		a, b := funcName(out[i]), funcName(out[j])
		if a != b {
			return a < b
		}
		return out[i].Pos() < out[j].Pos()
	})
	return out
}

// callees returns the possible callees of a call site according to the VTA graph
// (static callee if there is one).
func (p *Program) callees(site ssa.CallInstruction) []*ssa.Function {
	if f := site.Common().StaticCallee(); f != nil {
		return []*ssa.Function{f}
	}
	fn := site.Parent()
	n := p.CG.Nodes[fn]
	if n == nil {
		return nil
	}
	var out []*ssa.Function
	seen := map[*ssa.Function]bool{}
	for _, e := range n.Out {
		if e.Site == site && e.Callee != nil {
			f := unwrapSynthetic(e.Callee.Func)
			if !seen[f] {
				seen[f] = true
				out = append(out, f)
			}
		}
	}
	return out
}

// unwrapSynthetic: a bound-method wrapper or thunk (w.writeX used as a func value) stands for the method it calls.
func unwrapSynthetic(f *ssa.Function) *ssa.Function {
	for i := 0; i < 3 && f != nil && f.Synthetic != "" && f.Pkg == nil && len(f.Blocks) == 1; i++ {
		var inner *ssa.Function
		for _, in := range f.Blocks[0].Instrs {
			if c, ok := in.(ssa.CallInstruction); ok {
				if g := c.Common().StaticCallee(); g != nil {
					inner = g
				}
			}
		}
		if inner == nil {
			break
		}
		f = inner
	}
	return f
}

// reachableFrom returns the set of functions reachable from the roots in the call graph.
func (p *Program) reachableFrom(roots ...*ssa.Function) map[*ssa.Function]bool {
	seen := map[*ssa.Function]bool{}
	var stack []*ssa.Function
	for _, r := range roots {
		if r != nil && !seen[r] {
			seen[r] = true
			stack = append(stack, r)
		}
	}
	for len(stack) > 0 {
		f := stack[len(stack)-1]
		stack = stack[:len(stack)-1]
		// closures defined in f are reachable when f is
		for _, af := range f.AnonFuncs {
			if !seen[af] {
				seen[af] = true
				stack = append(stack, af)
			}
		}
		n := p.CG.Nodes[f]
		if n == nil {
			continue
		}
		for _, e := range n.Out {
			c := e.Callee.Func
			if !seen[c] {
				seen[c] = true
				stack = append(stack, c)
			}
		}
	}
	return seen
}

// funcDecl finds the AST declaration of a package-level function or method.
func (p *Program) funcDecl(pkgPath, name string) *ast.FuncDecl {
	pk := p.Pkgs[pkgPath]
	if pk == nil {
		return nil
	}
	tname, mname := "", name
	if i := strings.Index(name, "."); i >= 0 {
		tname, mname = name[:i], name[i+1:]
	}
	for _, f := range pk.Syntax {
		for _, d := range f.Decls {
			fd, ok := d.(*ast.FuncDecl)
			if !ok || fd.Name.Name != mname {
				continue
			}
			if tname == "" && fd.Recv == nil {
				return fd
			}
			if tname != "" && fd.Recv != nil && len(fd.Recv.List) == 1 {
				t := fd.Recv.List[0].Type
				if st, ok := t.(*ast.StarExpr); ok {
					t = st.X
				}
				if ix, ok := t.(*ast.IndexExpr); ok {
					t = ix.X
				}
				if id, ok := t.(*ast.Ident); ok && id.Name == tname {
					return fd
				}
			}
		}
	}
	return nil
}
