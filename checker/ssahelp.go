package main

import (
	"go/token"
	"go/types"
	"sort"
	"strings"

	"golang.org/x/tools/go/ssa"
)

// instrsOf returns all instructions of fn in block order.
func instrsOf(fn *ssa.Function) []ssa.Instruction {
	var out []ssa.Instruction
	for _, b := range fn.Blocks {
		out = append(out, b.Instrs...)
	}
	return out
}

func callsIn(fn *ssa.Function, pred func(ssa.CallInstruction) bool) []ssa.CallInstruction {
	var out []ssa.CallInstruction
	for _, in := range instrsOf(fn) {
		if ci, ok := in.(ssa.CallInstruction); ok && pred(ci) {
			out = append(out, ci)
		}
	}
	sort.SliceStable(out, func(i, j int) bool { return out[i].Pos() < out[j].Pos() })
	return out
}

func calleeIs(ci ssa.CallInstruction, names ...string) bool {
	n := staticCalleeName(ci.Common())
	for _, w := range names {
		if n == w {
			return true
		}
	}
	return false
}

// calleeRepoName returns funcName of the static callee ("mcap.Writer.writeRecord") or "".
func calleeRepoName(ci ssa.CallInstruction) string {
	if f := ci.Common().StaticCallee(); f != nil {
		return funcName(f)
	}
	return ""
}

func structOf(t types.Type) (*types.Named, *types.Struct) {
	if pt, ok := t.Underlying().(*types.Pointer); ok {
		t = pt.Elem()
	}
	nt, _ := t.(*types.Named)
	st, _ := t.Underlying().(*types.Struct)
	return nt, st
}

// fieldRef describes an address/field access as (struct type name, field name).
func fieldRef(v ssa.Value) (typeName, field string, base ssa.Value, ok bool) {
	switch x := v.(type) {
	case *ssa.FieldAddr:
		nt, st := structOf(x.X.Type())
		if st == nil {
			return
		}
		name := ""
		if nt != nil {
			name = nt.Obj().Name()
		}
		return name, st.Field(x.Field).Name(), x.X, true
	case *ssa.Field:
		nt, st := structOf(x.X.Type())
		if st == nil {
			return
		}
		name := ""
		if nt != nil {
			name = nt.Obj().Name()
		}
		return name, st.Field(x.Field).Name(), x.X, true
	}
	return
}

// loadOfField reports whether v is (a conversion of) a load of the named field.
func loadOfField(v ssa.Value, typeName, field string) bool {
	v = stripConv(v)
	if u, ok := v.(*ssa.UnOp); ok && u.Op == token.MUL {
		tn, f, _, ok := fieldRef(u.X)
		return ok && tn == typeName && f == field
	}
	if tn, f, _, ok := fieldRef(v); ok {
		if _, isField := v.(*ssa.Field); isField {
			return tn == typeName && f == field
		}
	}
	return false
}

func stripConv(v ssa.Value) ssa.Value {
	for {
		switch x := v.(type) {
		case *ssa.Convert:
			v = x.X
		case *ssa.ChangeType:
			v = x.X
		default:
			return v
		}
	}
}

// fieldStores returns Store instructions in fn whose address is the named field.
func fieldStores(fn *ssa.Function, typeName, field string) []*ssa.Store {
	var out []*ssa.Store
	for _, in := range instrsOf(fn) {
		if st, ok := in.(*ssa.Store); ok {
			if tn, f, _, ok := fieldRef(st.Addr); ok && tn == typeName && f == field {
				out = append(out, st)
			}
		}
	}
	return out
}

// returnsNonNilErrOnAllPaths: every path from b reaches a Return whose error operand is not the nil constant,
// without passing through a block in stop.
func returnsNonNilErrOnAllPaths(fn *ssa.Function, b *ssa.BasicBlock) bool {
	errIdx := -1
	res := fn.Signature.Results()
	for i := 0; i < res.Len(); i++ {
		if isErrorType(res.At(i).Type()) {
			errIdx = i
		}
	}
	if errIdx < 0 {
		return false
	}
	seen := map[*ssa.BasicBlock]bool{}
	var walk func(b *ssa.BasicBlock) bool
	walk = func(b *ssa.BasicBlock) bool {
		if seen[b] {
			return true
		}
		seen[b] = true
		last := b.Instrs[len(b.Instrs)-1]
		switch x := last.(type) {
		case *ssa.Return:
			return !isNilConst(x.Results[errIdx])
		case *ssa.Panic:
			return true
		}
		if len(b.Succs) == 0 {
			return false
		}
		for _, s := range b.Succs {
			if !walk(s) {
				return false
			}
		}
		return true
	}
	return walk(b)
}

func blockIndexOf(in ssa.Instruction) int {
	for i, x := range in.Block().Instrs {
		if x == in {
			return i
		}
	}
	return -1
}

// instrDominates: a executes before b on every path reaching b.
func instrDominates(a, b ssa.Instruction) bool {
	if a.Block() == b.Block() {
		return blockIndexOf(a) < blockIndexOf(b)
	}
	return a.Block().Dominates(b.Block())
}

// reachableBlocks from b (inclusive).
func reachableBlocks(b *ssa.BasicBlock) map[*ssa.BasicBlock]bool {
	seen := map[*ssa.BasicBlock]bool{}
	var st = []*ssa.BasicBlock{b}
	for len(st) > 0 {
		x := st[len(st)-1]
		st = st[:len(st)-1]
		if seen[x] {
			continue
		}
		seen[x] = true
		st = append(st, x.Succs...)
	}
	return seen
}

func shortType(t types.Type) string { return types.TypeString(t, shortQual) }

func trimPkg(s string) string {
	if i := strings.LastIndex(s, "/"); i >= 0 {
		return s[i+1:]
	}
	return s
}

// writeOnceLocal: al is a local struct variable that is assigned as a whole exactly once (hdr, err := parse(...)), never
// modified through its fields, and whose address does not escape: every load of one of its fields yields the same value.
func writeOnceLocal(al *ssa.Alloc) bool {
	if al == nil || al.Heap {
		return false
	}
	if _, ok := al.Type().Underlying().(*types.Pointer).Elem().Underlying().(*types.Struct); !ok {
		return false
	}
	whole := 0
	for _, ref := range *al.Referrers() {
		switch x := ref.(type) {
		case *ssa.Store:
			if x.Addr != ssa.Value(al) {
				return false // the address is stored somewhere
			}
			whole++
		case *ssa.FieldAddr:
			for _, r2 := range *x.Referrers() {
				switch y := r2.(type) {
				case *ssa.UnOp:
					if y.Op != token.MUL {
						return false
					}
				case *ssa.DebugRef:
				default:
					return false
				}
			}
		case *ssa.UnOp, *ssa.DebugRef:
		default:
			return false
		}
	}
	return whole == 1
}

// localFieldOf: v is (a conversion of) a load of field k of a write-once local struct -> (alloc, k).
func localFieldOf(v ssa.Value) (*ssa.Alloc, int, bool) {
	u, ok := stripConv(v).(*ssa.UnOp)
	if !ok || u.Op != token.MUL {
		return nil, 0, false
	}
	fa, ok := u.X.(*ssa.FieldAddr)
	if !ok {
		return nil, 0, false
	}
	al, ok := fa.X.(*ssa.Alloc)
	if !ok || !writeOnceLocal(al) {
		return nil, 0, false
	}
	return al, fa.Field, true
}

// sameLocalFieldLoad: a and b read the same field of the same write-once local struct.
func sameLocalFieldLoad(a, b ssa.Value) bool {
	a1, k1, ok1 := localFieldOf(a)
	a2, k2, ok2 := localFieldOf(b)
	return ok1 && ok2 && a1 == a2 && k1 == k2
}

// localFieldLoadPeers: all loads of the field that v loads, when v loads a field of a write-once local struct.
func localFieldLoadPeers(v ssa.Value) []ssa.Value {
	al, k, ok := localFieldOf(v)
	if !ok {
		return nil
	}
	var out []ssa.Value
	for _, ref := range *al.Referrers() {
		if fa, ok := ref.(*ssa.FieldAddr); ok && fa.Field == k {
			for _, r2 := range *fa.Referrers() {
				if u, ok := r2.(*ssa.UnOp); ok && u.Op == token.MUL {
					out = append(out, u)
				}
			}
		}
	}
	return out
}
