package main

import (
	"go/token"

	"golang.org/x/tools/go/ssa"
)

// C12.t: when the lexer expands chunks (sequential reading), what it does with a chunk does not depend on the chunk's
// message time range. A chunk whose messages all lie outside a requested window still carries the schema and channel
// records that later chunks rely on; skipping its payload makes the result depend on how records are partitioned into
// chunks. Statically: the two leading u64 fields of the chunk header (message_start_time, message_end_time) that
// loadChunk (or its helpers) decodes are not used by anything.
func checkChunkTimesUnused(p *Program, r *Result, rule string) {
	entry := p.lookupFunc(pkgMcap, "loadChunk")
	if entry == nil {
		r.undecided(rule, "mcap.loadChunk", "anchor", "", "not found")
		return
	}
	n := 0
	for _, fn := range regionOf(p, entry, 3) {
		// decode calls at header offsets 0 and 8
		var first *ssa.Call
		timeVals := map[ssa.Value]string{}
		for _, ci := range callsIn(fn, func(ci ssa.CallInstruction) bool { return calleeRepoName(ci) == "mcap.getUint64" }) {
			c, ok := ci.(*ssa.Call)
			if !ok || len(c.Call.Args) != 2 {
				continue
			}
			off := c.Call.Args[1]
			name := ""
			if k, ok := off.(*ssa.Const); ok && k.Value != nil && k.Value.String() == "0" {
				name, first = "message_start_time", c
			} else if ex, ok := off.(*ssa.Extract); ok && first != nil && ex.Tuple == ssa.Value(first) && ex.Index == 1 {
				name = "message_end_time"
			} else if k, ok := off.(*ssa.Const); ok && k.Value != nil && k.Value.String() == "8" {
				name = "message_end_time"
			}
			if name == "" {
				continue
			}
			for _, ref := range *c.Referrers() {
				if ex, ok := ref.(*ssa.Extract); ok && ex.Index == 0 {
					timeVals[ex] = name
				}
			}
			n++
		}
		// absolute form: binary.LittleEndian.Uint64(buf[0:]) / buf[8:]
		for _, ci := range callsIn(fn, func(ci ssa.CallInstruction) bool {
			return ci.Common().StaticCallee() != nil && ci.Common().StaticCallee().Name() == "Uint64" && !p.isRepoFunc(ci.Common().StaticCallee())
		}) {
			args := ci.Common().Args
			sl, ok := args[len(args)-1].(*ssa.Slice)
			if !ok {
				continue
			}
			lo := "0"
			if sl.Low != nil {
				if k, ok := sl.Low.(*ssa.Const); ok && k.Value != nil {
					lo = k.Value.String()
				} else {
					continue
				}
			}
			if !loadOfField(sl.X, "Lexer", "buf") {
				continue
			}
			if lo == "0" {
				timeVals[ci.Value()] = "message_start_time"
				n++
			} else if lo == "8" {
				timeVals[ci.Value()] = "message_end_time"
				n++
			}
		}
		for v, name := range timeVals {
			used := ""
			if v.Referrers() != nil {
				for _, ref := range *v.Referrers() {
					if _, isDbg := ref.(*ssa.DebugRef); isDbg {
						continue
					}
					// parked in a field of a header struct: used only if that field is read somewhere
					if st, ok := ref.(*ssa.Store); ok && st.Val == v {
						if tn, f, _, ok := fieldRef(st.Addr); ok && tn != "" {
							if at := fieldReadSomewhere(p, tn, f); at == "" {
								continue
							} else {
								used = at
								continue
							}
						}
					}
					used = p.pos(ref.Pos())
				}
			}
			construct := "chunk header " + name + " decoded by the lexer"
			if used == "" {
				r.held(rule, funcName(fn), construct, p.pos(v.Pos()), "decoded and ignored: every chunk is expanded whatever its time range")
			} else {
				r.violated(rule, funcName(fn), construct, used,
					"the lexer's handling of a chunk depends on the chunk's "+name+"; a chunk outside a time window still carries schema and channel records that later chunks rely on, so the messages returned depend on how the writer partitioned records into chunks")
			}
		}
	}
	if n == 0 {
		r.held(rule, "mcap.loadChunk", "chunk header times", "", "the lexer does not decode the chunk's message times at all")
	}
}

// fieldReadSomewhere: position of a read of struct field tn.f in go/mcap whose value is used ("" if none).
func fieldReadSomewhere(p *Program, tn, f string) string {
	for _, fn := range p.repoFunctions(pkgMcap) {
		for _, in := range instrsOf(fn) {
			var v ssa.Value
			switch x := in.(type) {
			case *ssa.UnOp:
				if x.Op != token.MUL {
					continue
				}
				if t2, f2, _, ok := fieldRef(x.X); !ok || t2 != tn || f2 != f {
					continue
				}
				v = x
			case *ssa.Field:
				if t2, f2, _, ok := fieldRef(x); !ok || t2 != tn || f2 != f {
					continue
				}
				v = x
			default:
				continue
			}
			for _, ref := range *v.Referrers() {
				if _, isDbg := ref.(*ssa.DebugRef); !isDbg {
					return p.pos(ref.Pos())
				}
			}
		}
	}
	return ""
}
