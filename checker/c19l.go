package main

import (
	"golang.org/x/tools/go/ssa"
)

// C19.l: the Field/Type values built for one line of a definition depend on that line alone. Statically: no
// loop-carried value (a phi at a loop header fed from inside the loop, or a load of a local declared outside the
// loop and assigned inside it) flows into a field of the Field/Type composite built inside the loop. State that a
// previous field leaves behind would otherwise classify the next field (primitive vs nested, array items).

func loopHeaders(fn *ssa.Function) map[*ssa.BasicBlock]bool {
	out := map[*ssa.BasicBlock]bool{}
	for _, b := range fn.Blocks {
		for _, pr := range b.Preds {
			if b.Dominates(pr) {
				out[b] = true
			}
		}
	}
	return out
}

// loopCarried: the first loop-carried source found for v ("" if none).
func loopCarried(v ssa.Value, hdr map[*ssa.BasicBlock]bool, seen map[ssa.Value]bool) string {
	if v == nil || seen[v] {
		return ""
	}
	seen[v] = true
	switch x := v.(type) {
	case *ssa.Phi:
		if hdr[x.Block()] {
			for i, e := range x.Edges {
				if x.Block().Dominates(x.Block().Preds[i]) && e != ssa.Value(x) {
					name := x.Comment
					if name == "" {
						name = x.Name()
					}
					return "variable " + name + " carried around the loop"
				}
			}
		}
		for _, e := range x.Edges {
			if s := loopCarried(e, hdr, seen); s != "" {
				return s
			}
		}
	case *ssa.UnOp:
		if al, ok := x.X.(*ssa.Alloc); ok {
			// address-taken local: carried if allocated outside a loop that contains the load and assigned inside that loop
			for h := range hdr {
				if h.Dominates(x.Block()) && !h.Dominates(al.Block()) {
					for _, ref := range *al.Referrers() {
						if st, ok := ref.(*ssa.Store); ok && st.Addr == ssa.Value(al) && h.Dominates(st.Block()) {
							return "variable " + al.Comment + " declared outside the loop and assigned inside it"
						}
					}
				}
			}
			return ""
		}
		return loopCarried(x.X, hdr, seen)
	case *ssa.MakeInterface:
		return loopCarried(x.X, hdr, seen)
	case *ssa.ChangeType:
		return loopCarried(x.X, hdr, seen)
	case *ssa.Convert:
		return loopCarried(x.X, hdr, seen)
	case *ssa.Slice:
		return loopCarried(x.X, hdr, seen)
	}
	return ""
}

func checkPerFieldState(p *Program, r *Result, fns []*ssa.Function) {
	n := 0
	for _, fn := range fns {
		hdr := loopHeaders(fn)
		if len(hdr) == 0 {
			continue
		}
		seenKey := map[string]bool{}
		for _, in := range instrsOf(fn) {
			st, ok := in.(*ssa.Store)
			if !ok {
				continue
			}
			tn, f, base, ok := fieldRef(st.Addr)
			if !ok || (tn != "Type" && tn != "Field") {
				continue
			}
			// only composites built inside a loop
			inLoop := false
			for h := range hdr {
				if h.Dominates(st.Block()) {
					inLoop = true
				}
			}
			if !inLoop {
				continue
			}
			_ = base
			construct := "value of " + tn + "." + f + " built per field"
			n++
			if src := loopCarried(st.Val, hdr, map[ssa.Value]bool{}); src != "" {
				r.violated("C19.l", funcName(fn), construct, p.pos(st.Pos()),
					src+" flows into the "+tn+" built for the current line: what a previous field left behind classifies this field (primitive versus nested type, array items), so the tree is wrong for fields that follow a nested or array field")
			} else if !seenKey[construct] {
				seenKey[construct] = true
				r.held("C19.l", funcName(fn), construct, p.pos(st.Pos()), "no loop-carried value reaches it")
			}
		}
	}
	// the per-line construction may live in a helper called from the loop: the composites are then built from the
	// helper's parameters, and what must not be loop-carried are the arguments at the call in the loop
	builders := map[*ssa.Function]bool{}
	for _, fn := range fns {
		for _, in := range instrsOf(fn) {
			if st, ok := in.(*ssa.Store); ok {
				if tn, _, _, ok := fieldRef(st.Addr); ok && (tn == "Type" || tn == "Field") {
					builders[fn] = true
				}
			}
		}
	}
	for _, fn := range fns {
		hdr := loopHeaders(fn)
		if len(hdr) == 0 {
			continue
		}
		k := 0
		for _, ci := range callsIn(fn, func(ci ssa.CallInstruction) bool { return builders[ci.Common().StaticCallee()] && ci.Common().StaticCallee() != fn }) {
			inLoop := false
			for h := range hdr {
				if h.Dominates(ci.Block()) {
					inLoop = true
				}
			}
			if !inLoop {
				continue
			}
			n++
			k++
			construct := "arguments of the per-field builder " + trimPkg(funcName(ci.Common().StaticCallee()))
			if k > 1 {
				construct += " #" + itoa(k-1)
			}
			bad := ""
			for _, a := range ci.Common().Args {
				if src := loopCarried(a, hdr, map[ssa.Value]bool{}); src != "" {
					bad = src
				}
			}
			if bad != "" {
				r.violated("C19.l", funcName(fn), construct, p.pos(ci.Pos()),
					bad+" is handed to the function that builds the Field for the current line: what a previous field left behind classifies this field")
			} else {
				r.held("C19.l", funcName(fn), construct, p.pos(ci.Pos()), "no loop-carried value is passed")
			}
		}
	}
	if n == 0 {
		r.undecided("C19.l", "ros1msg", "Field/Type composites built in a loop", "", "none found; anchor moved")
	}
}
