package main

import (
	"go/token"

	"golang.org/x/tools/go/ssa"
)

// C08.t: every message that WriteMessage writes successfully is folded into the file-level time range. Statically: on
// every path from a write of the message record to a return that may be successful, the comparisons of the message's
// log time against Statistics.MessageStartTime and Statistics.MessageEndTime are evaluated (an early `return
// w.flushActiveChunk()` or similar skips them for exactly the messages that complete a chunk).
func checkTimeFoldOnEveryPath(p *Program, r *Result, rule string) {
	fn := p.lookupFunc(pkgMcap, "Writer.WriteMessage")
	if fn == nil {
		r.undecided(rule, "mcap.Writer.WriteMessage", "anchor", "", "not found")
		return
	}
	// where the fold lives: WriteMessage itself or a helper it calls that compares LogTime with the statistics fields
	foldBlocks := map[string]map[*ssa.BasicBlock]bool{"MessageStartTime": {}, "MessageEndTime": {}}
	isStatField := func(v ssa.Value) string {
		u, ok := stripConv(v).(*ssa.UnOp)
		if !ok || u.Op != token.MUL {
			return ""
		}
		tn, f, _, ok := fieldRef(u.X)
		if ok && tn == "Statistics" && (f == "MessageStartTime" || f == "MessageEndTime") {
			return f
		}
		return ""
	}
	comparesIn := func(f *ssa.Function) map[string]bool {
		out := map[string]bool{}
		for _, in := range instrsOf(f) {
			if b, ok := in.(*ssa.BinOp); ok {
				switch b.Op {
				case token.LSS, token.GTR, token.LEQ, token.GEQ:
					if s := isStatField(b.X); s != "" {
						out[s] = true
					}
					if s := isStatField(b.Y); s != "" {
						out[s] = true
					}
				}
			}
		}
		return out
	}
	for _, in := range instrsOf(fn) {
		switch x := in.(type) {
		case *ssa.BinOp:
			switch x.Op {
			case token.LSS, token.GTR, token.LEQ, token.GEQ:
				for _, v := range []ssa.Value{x.X, x.Y} {
					if s := isStatField(v); s != "" {
						foldBlocks[s][x.Block()] = true
					}
				}
			}
		case ssa.CallInstruction:
			if g := x.Common().StaticCallee(); g != nil && g.Blocks != nil && p.isRepoFunc(g) && g != fn {
				for s := range comparesIn(g) {
					foldBlocks[s][x.Block()] = true
				}
			}
		}
	}
	// a block that stores the log time into the field has folded it as well (if first || t < start: the first message
	// takes the store without the comparison)
	for _, f := range []string{"MessageStartTime", "MessageEndTime"} {
		for _, st := range fieldStores(fn, "Statistics", f) {
			if isMessageLogTime(p, st.Val) {
				foldBlocks[f][st.Block()] = true
			}
			// x = min(x, t) / max(x, t): comparison and store in one
			if _, ok := minMaxFold(p, st.Val, f); ok {
				foldBlocks[f][st.Block()] = true
			}
		}
	}
	writes := callsIn(fn, func(ci ssa.CallInstruction) bool {
		if calleeRepoName(ci) != "mcap.Writer.writeRecord" {
			return false
		}
		for _, a := range ci.Common().Args {
			if c, ok := a.(*ssa.Const); ok && c.Value != nil {
				if v, ok2 := opConstValue(p, "OpMessage"); ok2 && c.Value.String() == itoa(v) {
					return true
				}
			}
		}
		return false
	})
	if len(writes) == 0 {
		r.note(rule, funcName(fn), "time-range fold on every successful path", p.pos(fn.Pos()), "no writeRecord(OpMessage) call found in WriteMessage: not judged")
		return
	}
	for _, field := range []string{"MessageStartTime", "MessageEndTime"} {
		construct := "fold of the log time into Statistics." + field + " on every successful path"
		if len(foldBlocks[field]) == 0 {
			r.violated(rule, funcName(fn), construct, p.pos(fn.Pos()), "WriteMessage never compares the message's log time with Statistics."+field)
			continue
		}
		bad := ""
		for _, w := range writes {
			// forward search from the write, not entering fold blocks
			seen := map[*ssa.BasicBlock]bool{}
			var stack []*ssa.BasicBlock
			start := w.Block()
			if foldBlocks[field][start] {
				continue
			}
			stack = append(stack, start)
			for len(stack) > 0 && bad == "" {
				b := stack[len(stack)-1]
				stack = stack[:len(stack)-1]
				if seen[b] {
					continue
				}
				seen[b] = true
				if b != start && foldBlocks[field][b] {
					continue
				}
				if ret, ok := b.Instrs[len(b.Instrs)-1].(*ssa.Return); ok {
					e := ret.Results[len(ret.Results)-1]
					if isNilConst(e) || !errKnownNonNil(ret, e) {
						bad = p.pos(ret.Pos())
					}
					continue
				}
				stack = append(stack, b.Succs...)
			}
		}
		if bad == "" {
			r.held(rule, funcName(fn), construct, p.pos(fn.Pos()), "every possibly successful return after the message write passes the comparison")
		} else {
			r.violated(rule, funcName(fn), construct, bad,
				"a return that can be successful is reachable from the write of the message record without the log time having been compared with Statistics."+field+
					"; the messages that leave through it (e.g. those that complete a chunk) are missing from the file's time range")
		}
	}
}
