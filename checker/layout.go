package main

// E1: codec-layout extraction. A layout is a flat list of tokens
//
//	u8|u16|u32|u64 : <field>      fixed-width little-endian integer carrying <field>
//	raw            : <field>      the bytes of <field>
//	seq[ ... ]     : <field>      repetition of the bracketed element tokens, one per element of <field>
//
// where <field> is the snake_case name of the record field, or a derived marker: #len(f) (byte length of f),
// #bytelen(f) (byte length of the following repetition over f), #crc, #opcode, #reclen, #derived.
// Layouts are extracted from the typed AST of the Go encoders / decoders (helpers are summarised recursively
// from their own bodies, nothing is matched by name), from the spec's Markdown tables and from the Python
// sources (see pylayout.py), and compared token by token.

import (
	"fmt"
	"go/ast"
	"go/constant"
	"go/token"
	"go/types"
	"regexp"
	"sort"
	"strings"
	"unicode"
)

type Tok struct {
	Kind  string // u8,u16,u32,u64,raw,seq
	Field string
	Sub   []Tok
	Pos   token.Pos
	Src   string
}

func (t Tok) String() string {
	if t.Kind == "seq" {
		var parts []string
		for _, s := range t.Sub {
			parts = append(parts, s.Kind)
		}
		return "seq[" + strings.Join(parts, " ") + "]:" + t.Field
	}
	return t.Kind + ":" + t.Field
}

func layoutString(l []Tok) string {
	var parts []string
	for _, t := range l {
		parts = append(parts, t.String())
	}
	return strings.Join(parts, " ")
}

func snake(s string) string {
	var out []rune
	rs := []rune(s)
	for i, r := range rs {
		if unicode.IsUpper(r) {
			if i > 0 && (unicode.IsLower(rs[i-1]) || unicode.IsDigit(rs[i-1]) || (i+1 < len(rs) && unicode.IsLower(rs[i+1]) && unicode.IsUpper(rs[i-1]))) {
				out = append(out, '_')
			}
			out = append(out, unicode.ToLower(r))
		} else {
			out = append(out, r)
		}
	}
	return string(out)
}

// ---------------------------------------------------------------- Go side

type goLayouts struct {
	p    *Program
	pkg  string
	info *types.Info
	// helper summaries
	emitSum map[*types.Func]*helperSum
	readSum map[*types.Func]*readHelper
	decls   map[*types.Func]*ast.FuncDecl
	problems []string
}

type helperSum struct {
	dstParam  int    // index of the []byte destination parameter, or -1 when the buffer is a returned local
	sizes     []sizeItem // atoms are "$<paramIndex>" placeholders
	toks      []Tok  // fields refer to "$<paramIndex>" placeholders
	returnsBuf bool
	busy      bool
	ok        bool
}

func newGoLayouts(p *Program, pkg string) *goLayouts {
	g := &goLayouts{p: p, pkg: pkg, info: p.Pkgs[pkg].TypesInfo, emitSum: map[*types.Func]*helperSum{}, readSum: map[*types.Func]*readHelper{}, decls: map[*types.Func]*ast.FuncDecl{}}
	for _, f := range p.Pkgs[pkg].Syntax {
		if p.testScaffoldFiles[p.Fset.Position(f.Pos()).Filename] {
			continue
		}
		for _, d := range f.Decls {
			if fd, ok := d.(*ast.FuncDecl); ok && fd.Body != nil {
				if obj, ok := g.info.Defs[fd.Name].(*types.Func); ok {
					g.decls[obj] = fd
				}
			}
		}
	}
	return g
}

func (g *goLayouts) calleeOf(ce *ast.CallExpr) *types.Func {
	var id *ast.Ident
	switch f := ce.Fun.(type) {
	case *ast.Ident:
		id = f
	case *ast.SelectorExpr:
		id = f.Sel
	case *ast.IndexExpr:
		if x, ok := f.X.(*ast.Ident); ok {
			id = x
		}
	}
	if id == nil {
		return nil
	}
	fn, _ := g.info.Uses[id].(*types.Func)
	return fn
}

func (g *goLayouts) isBuiltin(ce *ast.CallExpr, name string) bool {
	id, ok := ce.Fun.(*ast.Ident)
	if !ok || id.Name != name {
		return false
	}
	_, isB := g.info.Uses[id].(*types.Builtin)
	return isB
}

func isByteSliceType(t types.Type) bool {
	if t == nil {
		return false
	}
	s, ok := t.Underlying().(*types.Slice)
	if !ok {
		return false
	}
	b, ok := s.Elem().Underlying().(*types.Basic)
	return ok && b.Kind() == types.Uint8
}

func stripParenConv(g *goLayouts, e ast.Expr) ast.Expr {
	for {
		switch x := e.(type) {
		case *ast.ParenExpr:
			e = x.X
		case *ast.CallExpr:
			if tv, ok := g.info.Types[x.Fun]; ok && tv.IsType() && len(x.Args) == 1 {
				e = x.Args[0]
			} else {
				return e
			}
		default:
			return e
		}
	}
}

// rootIdent of a buffer expression: w.msg[offset:] -> "w.msg"; buf[4:] -> "buf".
func bufRoot(e ast.Expr) string {
	for {
		switch x := e.(type) {
		case *ast.SliceExpr:
			e = x.X
		case *ast.ParenExpr:
			e = x.X
		default:
			return types.ExprString(e)
		}
	}
}

type encCtx struct {
	g       *goLayouts
	fd      *ast.FuncDecl
	params  map[types.Object]int // helper mode: parameter object -> index
	recObjs map[types.Object]bool // identifiers denoting the record being encoded (params of struct pointer type, range vars)
	locals  map[types.Object][]ast.Expr
	bufs    map[string]bool // buffer roots being filled ("w.msg", "buf")
	toks    []Tok
	sized   ast.Expr // argument of ensureSized-like call
	opcode  string
	sizedPos token.Pos
	sizes   []sizeItem // what is placed into the tracked buffers, in order (for the size rule)
	inlineDepth int
}

// sizeItem: a constant number of bytes, the length of an expression (atom), or a repetition.
type sizeItem struct {
	c    int
	atom string     // "len(<expr>)" contribution; expr key is source text with conversions stripped
	seq  []sizeItem // repetition body
}

func (c *encCtx) exprKey(e ast.Expr) string {
	return types.ExprString(stripParenConv(c.g, e))
}

// collectLocals records every definition expression of each local variable in the function.
func (c *encCtx) collectLocals(body *ast.BlockStmt) {
	defer c.aliasBuffers(body)
	ast.Inspect(body, func(n ast.Node) bool {
		switch x := n.(type) {
		case *ast.AssignStmt:
			if len(x.Lhs) == len(x.Rhs) {
				for i, l := range x.Lhs {
					if id, ok := l.(*ast.Ident); ok {
						if obj := c.g.info.ObjectOf(id); obj != nil {
							c.locals[obj] = append(c.locals[obj], x.Rhs[i])
						}
					}
				}
			} else if len(x.Rhs) == 1 {
				for _, l := range x.Lhs {
					if id, ok := l.(*ast.Ident); ok {
						if obj := c.g.info.ObjectOf(id); obj != nil {
							c.locals[obj] = append(c.locals[obj], x.Rhs[0])
						}
					}
				}
			}
		case *ast.IncDecStmt:
			if id, ok := x.X.(*ast.Ident); ok {
				if obj := c.g.info.ObjectOf(id); obj != nil {
					c.locals[obj] = append(c.locals[obj], x.X)
				}
			}
		case *ast.ValueSpec:
			for i, id := range x.Names {
				if i < len(x.Values) {
					if obj := c.g.info.ObjectOf(id); obj != nil {
						c.locals[obj] = append(c.locals[obj], x.Values[i])
					}
				}
			}
		}
		return true
	})
}

// fieldOf resolves a value expression to a token field label.
func (c *encCtx) fieldOf(e ast.Expr, depth int) string {
	if depth > 6 {
		return "#derived"
	}
	e = stripParenConv(c.g, e)
	switch x := e.(type) {
	case *ast.BasicLit:
		return "#const"
	case *ast.SelectorExpr:
		if id, ok := x.X.(*ast.Ident); ok {
			obj := c.g.info.ObjectOf(id)
			if _, isPkg := obj.(*types.PkgName); isPkg {
				return "#const"
			}
			if sel, ok := c.g.info.Selections[x]; ok && sel.Kind() == types.FieldVal {
				if c.recObjs[obj] {
					return snake(x.Sel.Name)
				}
			}
		}
		// nested selector on a record (w.Statistics.X is not a record field of the encoded value)
		return "#derived"
	case *ast.Ident:
		obj := c.g.info.ObjectOf(x)
		if cst, ok := obj.(*types.Const); ok {
			if nt, ok := cst.Type().(*types.Named); ok && nt.Obj().Name() == "OpCode" {
				return "#opcode(" + cst.Name() + ")"
			}
			return "#const:" + x.Name
		}
		if idx, ok := c.params[obj]; ok {
			return fmt.Sprintf("$%d", idx)
		}
		if c.recObjs[obj] {
			return "#elem"
		}
		defs := c.locals[obj]
		seen := map[string]bool{}
		for _, d := range defs {
			for _, f := range c.fieldsIn(d, depth+1) {
				seen[f] = true
			}
		}
		if len(seen) == 1 {
			for f := range seen {
				// a local that is the length of / derived from exactly one field
				if len(defs) == 1 {
					return c.fieldOf(defs[0], depth+1)
				}
				return f
			}
		}
		return "#derived"
	case *ast.CallExpr:
		if c.g.isBuiltin(x, "len") && len(x.Args) == 1 {
			inner := c.fieldOf(x.Args[0], depth+1)
			if !strings.HasPrefix(inner, "#") || strings.HasPrefix(inner, "$") {
				return "#len(" + inner + ")"
			}
			return "#derived"
		}
		if fn := c.g.calleeOf(x); fn != nil {
			if strings.Contains(strings.ToLower(fn.Name()), "checksum") || strings.Contains(strings.ToLower(fn.Name()), "crc") || fn.Name() == "Sum32" ||
				(fn.Pkg() != nil && strings.HasPrefix(fn.Pkg().Path(), "hash/")) {
				return "#crc"
			}
			// accessor returning a field of the record: idx.Entries()
			if fd := c.g.decls[fn]; fd != nil && fd.Recv != nil && len(fd.Body.List) == 1 {
				if rs, ok := fd.Body.List[0].(*ast.ReturnStmt); ok && len(rs.Results) == 1 {
					if sel, ok := x.Fun.(*ast.SelectorExpr); ok {
						if id, ok := sel.X.(*ast.Ident); ok && c.recObjs[c.g.info.ObjectOf(id)] {
							if f := accessorField(rs.Results[0], fd); f != "" {
								return snake(f)
							}
						}
					}
				}
			}
			// a helper building a buffer from one field: makePrefixedMap(c.Metadata)
			fs := map[string]bool{}
			for _, a := range x.Args {
				for _, f := range c.fieldsIn(a, depth+1) {
					fs[f] = true
				}
			}
			if len(fs) == 1 {
				for f := range fs {
					return f
				}
			}
		}
		return "#derived"
	case *ast.BinaryExpr:
		return "#derived"
	case *ast.IndexExpr:
		// m[k] where m is a field of the record
		return c.fieldOf(x.X, depth+1)
	}
	return "#derived"
}

func accessorField(e ast.Expr, fd *ast.FuncDecl) string {
	for {
		switch x := e.(type) {
		case *ast.SliceExpr:
			e = x.X
		case *ast.SelectorExpr:
			if id, ok := x.X.(*ast.Ident); ok && fd.Recv != nil && len(fd.Recv.List) == 1 && len(fd.Recv.List[0].Names) == 1 && id.Name == fd.Recv.List[0].Names[0].Name {
				return x.Sel.Name
			}
			return ""
		default:
			return ""
		}
	}
}

// fieldsIn lists the record fields mentioned in an expression.
func (c *encCtx) fieldsIn(e ast.Expr, depth int) []string {
	set := map[string]bool{}
	ast.Inspect(e, func(n ast.Node) bool {
		switch x := n.(type) {
		case *ast.SelectorExpr:
			if id, ok := x.X.(*ast.Ident); ok && c.recObjs[c.g.info.ObjectOf(id)] {
				if sel, ok := c.g.info.Selections[x]; ok && sel.Kind() == types.FieldVal {
					set[snake(x.Sel.Name)] = true
				}
			}
		case *ast.Ident:
			if idx, ok := c.params[c.g.info.ObjectOf(x)]; ok {
				set[fmt.Sprintf("$%d", idx)] = true
			}
		}
		return true
	})
	var out []string
	for f := range set {
		out = append(out, f)
	}
	sort.Strings(out)
	return out
}

var putWidth = map[string]string{"PutUint16": "u16", "PutUint32": "u32", "PutUint64": "u64", "AppendUint16": "u16", "AppendUint32": "u32", "AppendUint64": "u64"}

// emitOfCall returns the tokens a call expression places into one of the tracked buffers.
func (c *encCtx) emitOfCall(ce *ast.CallExpr) ([]Tok, bool) {
	n0 := len(c.sizes)
	toks, ok := c.emitOfCall1(ce)
	if ok {
		// a write into a fixed window buf[:k] re-uses the front of the buffer; it does not extend the cursor
		for _, a := range ce.Args {
			if se, isSl := a.(*ast.SliceExpr); isSl && c.bufs[bufRoot(se)] && se.Low == nil && se.High != nil {
				if tv, ok := c.g.info.Types[se.High]; ok && tv.Value != nil {
					c.sizes = c.sizes[:n0]
				}
			}
		}
	}
	return toks, ok
}

func (c *encCtx) emitOfCall1(ce *ast.CallExpr) ([]Tok, bool) {
	g := c.g
	// builtin copy(dst, src)
	if g.isBuiltin(ce, "copy") && len(ce.Args) == 2 && c.bufs[bufRoot(ce.Args[0])] {
		src := ce.Args[1]
		c.sizes = append(c.sizes, sizeItem{atom: c.sizeAtom(src)})
		// src is a local buffer built by a helper that returns its buffer
		if toks, ok := c.inlineReturnedBuffer(src); ok {
			return toks, true
		}
		return []Tok{{Kind: "raw", Field: c.fieldOf(src, 0), Pos: ce.Pos(), Src: types.ExprString(src)}}, true
	}
	fn := g.calleeOf(ce)
	if fn == nil {
		return nil, false
	}
	// encoding/binary Put*
	if fn.Pkg() != nil && fn.Pkg().Path() == "encoding/binary" {
		if k, ok := putWidth[fn.Name()]; ok && len(ce.Args) == 2 && c.bufs[bufRoot(ce.Args[0])] {
			c.sizes = append(c.sizes, sizeItem{c: map[string]int{"u16": 2, "u32": 4, "u64": 8}[k]})
			return []Tok{{Kind: k, Field: c.fieldOf(ce.Args[1], 0), Pos: ce.Pos(), Src: types.ExprString(ce.Args[1])}}, true
		}
		return nil, false
	}
	// repo helper with a destination parameter
	sum := g.emitSummary(fn)
	if sum == nil || !sum.ok || sum.dstParam < 0 {
		return nil, false
	}
	args := ce.Args
	if sum.dstParam >= len(args) || !c.bufs[bufRoot(args[sum.dstParam])] {
		return nil, false
	}
	for _, it := range sum.sizes {
		c.sizes = append(c.sizes, c.substSize(it, args))
	}
	return c.substitute(sum.toks, args, ce.Pos()), true
}

// sizeAtom: key of the expression whose length is written; parameters of a helper become $i.
func (c *encCtx) sizeAtom(e ast.Expr) string {
	e = stripParenConv(c.g, e)
	if id, ok := e.(*ast.Ident); ok {
		if idx, ok := c.params[c.g.info.ObjectOf(id)]; ok {
			return fmt.Sprintf("$%d", idx)
		}
	}
	return types.ExprString(e)
}

func (c *encCtx) substSize(it sizeItem, args []ast.Expr) sizeItem {
	out := sizeItem{c: it.c, atom: it.atom}
	if strings.HasPrefix(it.atom, "$") {
		var idx int
		fmt.Sscanf(it.atom, "$%d", &idx)
		if idx < len(args) {
			out.atom = c.sizeAtom(args[idx])
		}
	}
	for _, s := range it.seq {
		out.seq = append(out.seq, c.substSize(s, args))
	}
	return out
}

func (c *encCtx) substitute(toks []Tok, args []ast.Expr, pos token.Pos) []Tok {
	re := regexp.MustCompile(`\$(\d+)`)
	var out []Tok
	for _, t := range toks {
		nt := t
		nt.Pos = pos
		nt.Field = re.ReplaceAllStringFunc(t.Field, func(m string) string {
			var idx int
			fmt.Sscanf(m, "$%d", &idx)
			if idx < len(args) {
				return c.fieldOf(args[idx], 0)
			}
			return "#derived"
		})
		// #len(#derived) etc. collapse
		if strings.HasPrefix(nt.Field, "#len(#") || strings.HasPrefix(nt.Field, "#bytelen(#") {
			nt.Field = "#derived"
		}
		if t.Kind == "seq" {
			nt.Sub = append([]Tok{}, t.Sub...)
		}
		out = append(out, nt)
	}
	return out
}

// inlineReturnedBuffer: e is (a local assigned from) a call to a helper that builds and returns a buffer.
func (c *encCtx) inlineReturnedBuffer(e ast.Expr) ([]Tok, bool) {
	e = stripParenConv(c.g, e)
	if id, ok := e.(*ast.Ident); ok {
		defs := c.locals[c.g.info.ObjectOf(id)]
		if len(defs) != 1 {
			return nil, false
		}
		e = stripParenConv(c.g, defs[0])
	}
	ce, ok := e.(*ast.CallExpr)
	if !ok {
		return nil, false
	}
	fn := c.g.calleeOf(ce)
	if fn == nil {
		return nil, false
	}
	sum := c.g.emitSummary(fn)
	if sum == nil || !sum.ok || !sum.returnsBuf {
		return nil, false
	}
	return c.substitute(sum.toks, ce.Args, ce.Pos()), true
}

// emitSummary computes (memoised) what a helper writes into its destination parameter or returned buffer.
func (g *goLayouts) emitSummary(fn *types.Func) *helperSum {
	if s, ok := g.emitSum[fn]; ok {
		if s.busy {
			return nil
		}
		return s
	}
	fd := g.decls[fn]
	s := &helperSum{dstParam: -1, busy: true}
	g.emitSum[fn] = s
	defer func() { s.busy = false }()
	if fd == nil || fd.Recv != nil {
		return s
	}
	c := &encCtx{g: g, fd: fd, params: map[types.Object]int{}, recObjs: map[types.Object]bool{}, locals: map[types.Object][]ast.Expr{}, bufs: map[string]bool{}}
	idx := 0
	for _, fl := range fd.Type.Params.List {
		for _, nm := range fl.Names {
			obj := g.info.ObjectOf(nm)
			c.params[obj] = idx
			if isByteSliceType(obj.Type()) && s.dstParam < 0 {
				s.dstParam = idx
				c.bufs[nm.Name] = true
				delete(c.params, obj)
			}
			idx++
		}
	}
	if s.dstParam < 0 {
		// a local []byte that is returned
		res := fd.Type.Results
		if res == nil || len(res.List) != 1 || !isByteSliceType(g.info.TypeOf(res.List[0].Type)) {
			return s
		}
		ast.Inspect(fd.Body, func(n ast.Node) bool {
			if rs, ok := n.(*ast.ReturnStmt); ok && len(rs.Results) == 1 {
				if id, ok := rs.Results[0].(*ast.Ident); ok {
					c.bufs[id.Name] = true
					s.returnsBuf = true
				}
			}
			return true
		})
		if !s.returnsBuf {
			return s
		}
		// in a buffer-returning helper the dst param of put-style callees is the local buffer; a first []byte param was not chosen
	}
	c.collectLocals(fd.Body)
	c.walkBlock(fd.Body.List)
	s.toks = normalise(c.toks)
	s.sizes = c.sizes
	s.ok = len(s.toks) > 0
	return s
}

// walkBlock walks statements in order, collecting emitted tokens.
func (c *encCtx) walkBlock(stmts []ast.Stmt) {
	for _, st := range stmts {
		c.walkStmt(st)
	}
}

func (c *encCtx) walkStmt(st ast.Stmt) {
	g := c.g
	switch x := st.(type) {
	case *ast.AssignStmt:
		// buf[k] = byte(v)
		if len(x.Lhs) == 1 && len(x.Rhs) == 1 {
			if ix, ok := x.Lhs[0].(*ast.IndexExpr); ok && c.bufs[bufRoot(ix.X)] {
				c.sizes = append(c.sizes, sizeItem{c: 1})
				c.toks = append(c.toks, Tok{Kind: "u8", Field: c.opOrField(x.Rhs[0]), Pos: x.Pos(), Src: types.ExprString(x.Rhs[0])})
				return
			}
		}
		for _, r := range x.Rhs {
			c.walkExpr(r)
		}
	case *ast.ExprStmt:
		c.walkExpr(x.X)
	case *ast.DeclStmt:
		if gd, ok := x.Decl.(*ast.GenDecl); ok {
			for _, sp := range gd.Specs {
				if vs, ok := sp.(*ast.ValueSpec); ok {
					for _, v := range vs.Values {
						c.walkExpr(v)
					}
				}
			}
		}
	case *ast.IfStmt:
		if x.Init != nil {
			c.walkStmt(x.Init)
		}
		// both arms are walked in order; encoders use if/else only to pick the destination writer
		before := len(c.toks)
		c.walkBlock(x.Body.List)
		thenToks := append([]Tok{}, c.toks[before:]...)
		if x.Else != nil {
			c.toks = c.toks[:before]
			c.walkStmt(x.Else)
			elseToks := append([]Tok{}, c.toks[before:]...)
			if layoutString(thenToks) == layoutString(elseToks) {
				c.toks = append(c.toks[:before], thenToks...)
			} else {
				c.toks = append(append(c.toks[:before], thenToks...), elseToks...)
			}
		}
	case *ast.BlockStmt:
		c.walkBlock(x.List)
	case *ast.RangeStmt:
		c.walkLoop(x.Body, x.X, []ast.Expr{x.Key, x.Value}, x.Pos())
	case *ast.ForStmt:
		c.walkLoop(x.Body, nil, nil, x.Pos())
	case *ast.ReturnStmt:
		for _, r := range x.Results {
			c.walkExpr(r)
		}
	}
	_ = g
}

func (c *encCtx) opOrField(e ast.Expr) string {
	e2 := stripParenConv(c.g, e)
	if id, ok := e2.(*ast.Ident); ok {
		if cst, ok := c.g.info.ObjectOf(id).(*types.Const); ok && strings.HasPrefix(cst.Name(), "Op") {
			return "#opcode(" + cst.Name() + ")"
		}
	}
	return c.fieldOf(e, 0)
}

func (c *encCtx) walkLoop(body *ast.BlockStmt, ranged ast.Expr, vars []ast.Expr, pos token.Pos) {
	saved := c.toks
	savedSizes := c.sizes
	c.toks = nil
	c.sizes = nil
	added := []types.Object{}
	for _, v := range vars {
		if id, ok := v.(*ast.Ident); ok && id.Name != "_" {
			if obj := c.g.info.ObjectOf(id); obj != nil && !c.recObjs[obj] {
				c.recObjs[obj] = true
				added = append(added, obj)
			}
		}
	}
	c.walkBlock(body.List)
	inner := c.toks
	innerSizes := c.sizes
	c.toks = saved
	c.sizes = savedSizes
	for _, o := range added {
		delete(c.recObjs, o)
	}
	if len(inner) == 0 {
		return
	}
	c.sizes = append(c.sizes, sizeItem{seq: innerSizes})
	// the collection: the ranged expression if it is a record field, else a record map indexed in the body
	field := "#derived"
	if ranged != nil {
		if f := c.fieldOf(ranged, 0); !strings.HasPrefix(f, "#") {
			field = f
		}
	}
	if strings.HasPrefix(field, "#") {
		ast.Inspect(body, func(n ast.Node) bool {
			if ix, ok := n.(*ast.IndexExpr); ok {
				if _, isMap := c.g.info.TypeOf(ix.X).Underlying().(*types.Map); isMap {
					if f := c.fieldOf(ix.X, 0); !strings.HasPrefix(f, "#") {
						field = f
					}
				}
			}
			return true
		})
	}
	if strings.HasPrefix(field, "#") && ranged != nil {
		// range over a local built from one field (sorted keys of a map parameter)
		if fs := c.fieldsIn(ranged, 0); len(fs) == 1 {
			field = fs[0]
		} else if id, ok := stripParenConv(c.g, ranged).(*ast.Ident); ok {
			set := map[string]bool{}
			for _, d := range c.locals[c.g.info.ObjectOf(id)] {
				for _, f := range c.fieldsIn(d, 0) {
					set[f] = true
				}
			}
			if len(set) == 1 {
				for f := range set {
					field = f
				}
			}
		}
	}
	c.toks = append(c.toks, Tok{Kind: "seq", Field: field, Sub: inner, Pos: pos})
}

// walkExpr finds emitting calls in an expression (in evaluation order).
func (c *encCtx) walkExpr(e ast.Expr) {
	if e == nil {
		return
	}
	ast.Inspect(e, func(n ast.Node) bool {
		ce, ok := n.(*ast.CallExpr)
		if !ok {
			return true
		}
		if _, isLit := ce.Fun.(*ast.FuncLit); isLit {
			return false
		}
		if toks, ok := c.emitOfCall(ce); ok {
			c.toks = append(c.toks, toks...)
			return false
		}
		if c.inlineRecordHelper(ce) {
			return false
		}
		c.specialCall(ce)
		return true
	})
}

// inlineRecordHelper: the encoder hands the record it is encoding to an unexported method of its own receiver type
// (encode the header / write the body / ...): the helper's statements are walked in place. Byte-slice parameters that
// receive a tracked buffer become tracked buffers, struct parameters that receive the record denote the record.
func (c *encCtx) inlineRecordHelper(ce *ast.CallExpr) bool {
	g := c.g
	fn := g.calleeOf(ce)
	if fn == nil || fn.Exported() || c.inlineDepth >= 3 {
		return false
	}
	fd := g.decls[fn]
	if fd == nil || fd.Body == nil || fd.Recv == nil || c.fd == nil || c.fd.Recv == nil || fd == c.fd {
		return false
	}
	if nt1, _ := structOf(g.info.TypeOf(fd.Recv.List[0].Type)); nt1 == nil {
		return false
	} else if nt2, _ := structOf(g.info.TypeOf(c.fd.Recv.List[0].Type)); nt2 == nil || nt1.Obj() != nt2.Obj() {
		return false
	}
	sig, _ := fn.Type().(*types.Signature)
	if sig == nil || isSizer(g, fd) {
		return false
	}
	if sig.Params().Len() == 3 {
		if nt, ok := sig.Params().At(1).Type().(*types.Named); ok && nt.Obj().Name() == "OpCode" {
			return false // the framing helper
		}
	}
	// the record must be passed along
	passesRecord := false
	for _, a := range ce.Args {
		if id, ok := stripParenConv(g, a).(*ast.Ident); ok && c.recObjs[g.info.ObjectOf(id)] {
			passesRecord = true
		}
	}
	if !passesRecord {
		return false
	}
	var addedBufs []string
	var addedRecs []types.Object
	if len(fd.Recv.List[0].Names) == 1 {
		rn := fd.Recv.List[0].Names[0].Name
		if _, st := structOf(g.info.TypeOf(fd.Recv.List[0].Type)); st != nil {
			for i := 0; i < st.NumFields(); i++ {
				if isByteSliceType(st.Field(i).Type()) && !c.bufs[rn+"."+st.Field(i).Name()] {
					c.bufs[rn+"."+st.Field(i).Name()] = true
					addedBufs = append(addedBufs, rn+"."+st.Field(i).Name())
				}
			}
		}
	}
	idx := 0
	for _, fl := range fd.Type.Params.List {
		for _, nm := range fl.Names {
			obj := g.info.ObjectOf(nm)
			if idx < len(ce.Args) {
				arg := ce.Args[idx]
				if isByteSliceType(obj.Type()) && c.bufs[bufRoot(arg)] && !c.bufs[nm.Name] {
					c.bufs[nm.Name] = true
					addedBufs = append(addedBufs, nm.Name)
				}
				if id, ok := stripParenConv(g, arg).(*ast.Ident); ok && c.recObjs[g.info.ObjectOf(id)] && !c.recObjs[obj] {
					c.recObjs[obj] = true
					addedRecs = append(addedRecs, obj)
				}
			}
			idx++
		}
	}
	c.collectLocals(fd.Body)
	c.inlineDepth++
	c.walkBlock(fd.Body.List)
	c.inlineDepth--
	for _, b := range addedBufs {
		delete(c.bufs, b)
	}
	for _, o := range addedRecs {
		delete(c.recObjs, o)
	}
	return true
}

// specialCall handles writer-level calls: ensureSized, writeRecord, direct sink writes of record payloads.
func (c *encCtx) specialCall(ce *ast.CallExpr) {
	fn := c.g.calleeOf(ce)
	if fn == nil {
		return
	}
	sig, _ := fn.Type().(*types.Signature)
	// a sizing call: a method of the writer taking one int and ensuring the message buffer is big enough.
	if fd := c.g.decls[fn]; fd != nil && sig != nil && sig.Params().Len() == 1 && sig.Results().Len() == 0 && isSizer(c.g, fd) {
		c.sized = ce.Args[0]
		c.sizedPos = ce.Pos()
		return
	}
	// record framing helper: (writer, op OpCode, data []byte)
	if sig != nil && sig.Params().Len() == 3 {
		if nt, ok := sig.Params().At(1).Type().(*types.Named); ok && nt.Obj().Name() == "OpCode" {
			if id, ok := stripParenConv(c.g, ce.Args[1]).(*ast.Ident); ok {
				c.opcode = id.Name
			}
			return
		}
	}
	// direct write of a payload that is not the message buffer: w.w.Write(c.Records), io.Copy(crcWriter, a.Data)
	name := fn.Name()
	if (name == "Write" && len(ce.Args) == 1) || ((name == "Copy" || name == "CopyN") && fn.Pkg() != nil && fn.Pkg().Path() == "io" && len(ce.Args) >= 2) {
		payload := ce.Args[len(ce.Args)-1]
		if name == "CopyN" {
			payload = ce.Args[1]
		}
		if !c.bufs[bufRoot(payload)] {
			f := c.fieldOf(payload, 0)
			if !strings.HasPrefix(f, "#") {
				c.toks = append(c.toks, Tok{Kind: "raw", Field: f, Pos: ce.Pos(), Src: types.ExprString(payload)})
			}
		}
	}
}

// isSizer: a function of one integer parameter n and no results that compares len(X) with n and assigns
// X = make([]byte, ...) - `if len(X) < n { X = make(...) }`, the guard-clause form `if n <= len(X) { return }; X = make(...)`, ...
func isSizer(g *goLayouts, fd *ast.FuncDecl) bool {
	if fd.Body == nil || fd.Type.Params == nil || len(fd.Type.Params.List) != 1 || len(fd.Type.Params.List[0].Names) != 1 {
		return false
	}
	if fd.Type.Results != nil && len(fd.Type.Results.List) > 0 {
		return false
	}
	prm := g.info.ObjectOf(fd.Type.Params.List[0].Names[0])
	var target string
	makes, compares, other := false, false, false
	ast.Inspect(fd.Body, func(n ast.Node) bool {
		switch x := n.(type) {
		case *ast.AssignStmt:
			if len(x.Lhs) == 1 && len(x.Rhs) == 1 {
				if ce, ok := x.Rhs[0].(*ast.CallExpr); ok && g.isBuiltin(ce, "make") && isByteSliceType(g.info.TypeOf(x.Lhs[0])) {
					makes = true
					target = types.ExprString(x.Lhs[0])
					return true
				}
			}
			other = true
		case *ast.BinaryExpr:
			switch x.Op {
			case token.LSS, token.LEQ, token.GTR, token.GEQ:
				mentionsParam, mentionsLen := false, false
				ast.Inspect(x, func(m ast.Node) bool {
					if id, ok := m.(*ast.Ident); ok && g.info.ObjectOf(id) == prm {
						mentionsParam = true
					}
					if ce, ok := m.(*ast.CallExpr); ok && (g.isBuiltin(ce, "len") || g.isBuiltin(ce, "cap")) {
						mentionsLen = true
					}
					return true
				})
				if mentionsParam && mentionsLen {
					compares = true
				}
			}
		case *ast.ForStmt, *ast.RangeStmt, *ast.GoStmt, *ast.DeferStmt:
			other = true
		}
		return true
	})
	_ = target
	return makes && compares && !other
}

// normalise rewrites raw token streams: [uN:#len(f), raw:f] stays as is (it is the canonical expansion of a
// length-prefixed field); a uN:#derived immediately followed by seq over f becomes uN:#bytelen(f).
func normalise(toks []Tok) []Tok {
	out := append([]Tok{}, toks...)
	for i := 0; i+1 < len(out); i++ {
		if out[i+1].Kind == "seq" && out[i].Kind != "seq" && out[i].Kind != "raw" && (strings.HasPrefix(out[i].Field, "#") || out[i].Field == out[i+1].Field) && !strings.HasPrefix(out[i].Field, "#opcode") {
			out[i].Field = "#bytelen(" + out[i+1].Field + ")"
		}
		// a local that merely holds len(f): u32:#len(f) where the next raw carries f
		if out[i+1].Kind == "raw" && out[i].Kind != "raw" && out[i].Kind != "seq" && out[i].Field == "#derived" {
			out[i].Field = "#len(" + out[i+1].Field + ")"
		}
	}
	return out
}

// encoderLayout extracts the layout of a Writer method.
type encResult struct {
	fn      string
	sizes   []sizeItem
	opcode  string
	toks    []Tok // record content (framing prefix stripped)
	msgToks []Tok // tokens placed in the message buffer (for the size rule), prefix included
	sized   ast.Expr
	sizedPos token.Pos
	ctx     *encCtx
	pos     token.Pos
}

func (g *goLayouts) encoderLayout(fd *ast.FuncDecl) *encResult {
	c := &encCtx{g: g, fd: fd, params: map[types.Object]int{}, recObjs: map[types.Object]bool{}, locals: map[types.Object][]ast.Expr{}, bufs: map[string]bool{}}
	recv := ""
	if fd.Recv != nil && len(fd.Recv.List) == 1 && len(fd.Recv.List[0].Names) == 1 {
		recv = fd.Recv.List[0].Names[0].Name
	}
	// buffers: every []byte field of the receiver that is written through
	if recv != "" {
		if nt, st := structOf(g.info.TypeOf(fd.Recv.List[0].Type)); st != nil {
			_ = nt
			for i := 0; i < st.NumFields(); i++ {
				if isByteSliceType(st.Field(i).Type()) {
					c.bufs[recv+"."+st.Field(i).Name()] = true
				}
			}
		}
	}
	for _, fl := range fd.Type.Params.List {
		for _, nm := range fl.Names {
			obj := g.info.ObjectOf(nm)
			if _, st := structOf(obj.Type()); st != nil {
				c.recObjs[obj] = true
			}
		}
	}
	c.collectLocals(fd.Body)
	c.walkBlock(fd.Body.List)
	res := &encResult{fn: fd.Name.Name, ctx: c, sizes: c.sizes, sized: c.sized, sizedPos: c.sizedPos, pos: fd.Pos(), opcode: c.opcode}
	toks := normalise(c.toks)
	res.msgToks = toks
	// inline framing prefix: u8:#opcode(OpX) u64:#...
	if len(toks) >= 2 && toks[0].Kind == "u8" && strings.HasPrefix(toks[0].Field, "#opcode(") && toks[1].Kind == "u64" && strings.HasPrefix(toks[1].Field, "#") {
		res.opcode = strings.TrimSuffix(strings.TrimPrefix(toks[0].Field, "#opcode("), ")")
		toks = toks[2:]
	}
	res.toks = toks
	return res
}

// ---------------------------------------------------------------- decoders

type readHelper struct {
	toks []Tok // what one call consumes; "$v" is the returned value
	ok   bool
	busy bool
}

var getWidth = map[string]string{"Uint16": "u16", "Uint32": "u32", "Uint64": "u64"}

// readSummary summarises a decode helper: which tokens one call consumes.
func (g *goLayouts) readSummary(fn *types.Func) *readHelper {
	if s, ok := g.readSum[fn]; ok {
		if s.busy {
			return nil
		}
		return s
	}
	s := &readHelper{busy: true}
	g.readSum[fn] = s
	defer func() { s.busy = false }()
	fd := g.decls[fn]
	if fd == nil || fd.Body == nil {
		return s
	}
	hasBuf := false
	// a method of a cursor type: a struct that carries the record buffer (or the stream) in a field
	if fd.Recv != nil && len(fd.Recv.List) == 1 {
		// (a cursor: a small struct of the buffer and positions - not the lexer, reader or writer themselves)
		if _, st := structOf(g.info.TypeOf(fd.Recv.List[0].Type)); st != nil && st.NumFields() <= 4 {
			small := true
			for i := 0; i < st.NumFields(); i++ {
				ft := st.Field(i).Type()
				if isByteSliceType(ft) || types.TypeString(ft, nil) == "io.Reader" {
					hasBuf = true
					continue
				}
				if b, ok := ft.Underlying().(*types.Basic); !ok || b.Info()&(types.IsInteger|types.IsString|types.IsBoolean) == 0 {
					if !isErrorType(ft) {
						small = false
					}
				}
			}
			hasBuf = hasBuf && small
		}
		if !hasBuf {
			return s
		}
	}
	for _, fl := range fd.Type.Params.List {
		t := g.info.TypeOf(fl.Type)
		if isByteSliceType(t) || types.TypeString(t, nil) == "io.Reader" {
			hasBuf = true
		}
	}
	if !hasBuf {
		return s
	}
	// an integer assembled from single bytes by shifting: the width is that of the result
	if g.movesBytesByHand(fd) && fd.Type.Results != nil && len(fd.Type.Results.List) > 0 {
		if b, ok := g.info.TypeOf(fd.Type.Results.List[0].Type).Underlying().(*types.Basic); ok {
			if k := map[types.BasicKind]string{types.Uint16: "u16", types.Uint32: "u32", types.Uint64: "u64"}[b.Kind()]; k != "" {
				s.toks = []Tok{{Kind: k, Field: "$v"}}
				s.ok = true
				return s
			}
		}
	}
	d := &decCtx{g: g}
	d.walkBlock(fd.Body.List)
	toks := d.toks
	// shape recognition: [uN] -> fixed; [u32, (slice/string of that length)] -> length-prefixed; [u32, seq[...]] -> map
	if len(toks) == 0 {
		return s
	}
	if len(toks) == 1 && toks[0].Kind != "seq" {
		toks[0].Field = "$v"
	} else if len(toks) >= 1 && toks[0].Kind != "seq" {
		// length prefix followed by raw bytes or a repetition
		if len(toks) == 1 || toks[1].Kind == "raw" {
			toks = []Tok{{Kind: toks[0].Kind, Field: "#len($v)"}, {Kind: "raw", Field: "$v"}}
		} else if toks[1].Kind == "seq" {
			toks = []Tok{{Kind: toks[0].Kind, Field: "#bytelen($v)"}, {Kind: "seq", Field: "$v", Sub: toks[1].Sub}}
		}
	}
	s.toks = toks
	s.ok = true
	return s
}

type decCtx struct {
	g     *goLayouts
	toks  []Tok
	binds map[types.Object]int // local variable -> index of the token whose value it holds
	direct map[int]string      // token index -> result field it was decoded into directly
}

func (d *decCtx) walkBlock(stmts []ast.Stmt) {
	for _, st := range stmts {
		d.walkStmt(st)
	}
}

func (d *decCtx) bind(lhs ast.Expr, idx int) {
	if d.binds == nil {
		d.binds = map[types.Object]int{}
	}
	if id, ok := lhs.(*ast.Ident); ok && id.Name != "_" {
		if obj := d.g.info.ObjectOf(id); obj != nil {
			d.binds[obj] = idx
		}
	}
	// decoded straight into a field of the result: x.Field, offset, err = getUint64(buf, offset)
	if sel, ok := lhs.(*ast.SelectorExpr); ok {
		if s, ok := d.g.info.Selections[sel]; ok && s.Kind() == types.FieldVal {
			if d.direct == nil {
				d.direct = map[int]string{}
			}
			d.direct[idx] = sel.Sel.Name
		}
	}
}

func (d *decCtx) walkStmt(st ast.Stmt) {
	switch x := st.(type) {
	case *ast.AssignStmt:
		for _, r := range x.Rhs {
			before := len(d.toks)
			d.walkExpr(r)
			if len(d.toks) > before && len(x.Lhs) >= 1 {
				// the value token is the last non-length token produced by the call
				vi := len(d.toks) - 1
				d.bind(x.Lhs[0], vi)
			} else if len(x.Lhs) == 1 && len(x.Rhs) == 1 {
				// plain copy of a bound local (x := y, conversions)
				if id, ok := stripParenConv(d.g, r).(*ast.Ident); ok {
					if idx, ok := d.binds[d.g.info.ObjectOf(id)]; ok {
						d.bind(x.Lhs[0], idx)
					}
				}
			}
		}
	case *ast.ExprStmt:
		d.walkExpr(x.X)
	case *ast.IfStmt:
		if x.Init != nil {
			d.walkStmt(x.Init)
		}
		// guard bodies (error returns) produce no reads in this code base; alternatives that read the same thing count once
		before := len(d.toks)
		d.walkBlock(x.Body.List)
		thenToks := append([]Tok{}, d.toks[before:]...)
		if x.Else != nil {
			d.toks = d.toks[:before]
			d.walkStmt(x.Else)
			elseToks := append([]Tok{}, d.toks[before:]...)
			if layoutString(thenToks) == layoutString(elseToks) {
				d.toks = append(d.toks[:before], thenToks...)
			} else {
				d.toks = append(append(d.toks[:before], thenToks...), elseToks...)
			}
		}
	case *ast.BlockStmt:
		d.walkBlock(x.List)
	case *ast.ForStmt, *ast.RangeStmt:
		var body *ast.BlockStmt
		if f, ok := x.(*ast.ForStmt); ok {
			body = f.Body
		} else {
			body = x.(*ast.RangeStmt).Body
		}
		saved, sb, sd := d.toks, d.binds, d.direct
		d.toks, d.binds, d.direct = nil, map[types.Object]int{}, nil
		d.walkBlock(body.List)
		inner := d.toks
		d.direct = sd
		// the collection being filled: m[k] = v / s = append(s, ...)
		var coll types.Object
		ast.Inspect(body, func(n ast.Node) bool {
			if as, ok := n.(*ast.AssignStmt); ok && len(as.Lhs) == 1 {
				if ix, ok := as.Lhs[0].(*ast.IndexExpr); ok {
					if id, ok := ix.X.(*ast.Ident); ok {
						coll = d.g.info.ObjectOf(id)
					}
				}
				if id, ok := as.Lhs[0].(*ast.Ident); ok && len(as.Rhs) == 1 {
					if ce, ok := as.Rhs[0].(*ast.CallExpr); ok && d.g.isBuiltin(ce, "append") {
						coll = d.g.info.ObjectOf(id)
					}
				}
			}
			return true
		})
		d.toks, d.binds = saved, sb
		if len(inner) > 0 {
			d.toks = append(d.toks, Tok{Kind: "seq", Field: "#coll", Sub: inner, Pos: st.Pos()})
			if coll != nil {
				if d.binds == nil {
					d.binds = map[types.Object]int{}
				}
				d.binds[coll] = len(d.toks) - 1
			}
		}
	case *ast.ReturnStmt:
		for _, r := range x.Results {
			d.walkExpr(r)
		}
	case *ast.DeclStmt:
	}
}

func (d *decCtx) walkExpr(e ast.Expr) {
	ast.Inspect(e, func(n ast.Node) bool {
		switch x := n.(type) {
		case *ast.CallExpr:
			fn := d.g.calleeOf(x)
			if fn == nil {
				return true
			}
			if fn.Pkg() != nil && fn.Pkg().Path() == "encoding/binary" {
				if k, ok := getWidth[fn.Name()]; ok {
					d.toks = append(d.toks, Tok{Kind: k, Field: "#v", Pos: x.Pos()})
					return false
				}
			}
			if fn.Pkg() != nil && fn.Pkg().Path() == "io" && (fn.Name() == "ReadFull" || fn.Name() == "ReadAtLeast") && len(x.Args) >= 2 {
				// a full read into a freshly sized buffer (not a constant-size window of the scratch buffer): raw bytes
				if _, isSlice := x.Args[1].(*ast.SliceExpr); !isSlice && (len(d.toks) == 0 || d.toks[len(d.toks)-1].Kind != "raw") {
					d.toks = append(d.toks, Tok{Kind: "raw", Field: "#v", Pos: x.Pos()})
				}
				return true
			}
			if fn.Pkg() != nil && fn.Pkg().Path() == "io" && fn.Name() == "ReadAll" {
				if len(d.toks) == 0 || d.toks[len(d.toks)-1].Kind != "raw" {
					d.toks = append(d.toks, Tok{Kind: "raw", Field: "#v", Pos: x.Pos()})
				}
				return true
			}
			if sum := d.g.readSummary(fn); sum != nil && sum.ok {
				for _, t := range sum.toks {
					nt := t
					nt.Pos = x.Pos()
					d.toks = append(d.toks, nt)
				}
				return false
			}
		case *ast.IndexExpr:
			// buf[k] with a constant k on a byte slice: one byte
			if isByteSliceType(d.g.info.TypeOf(x.X)) {
				if tv, ok := d.g.info.Types[x.Index]; ok && tv.Value != nil {
					if _, isParam := x.X.(*ast.Ident); isParam {
						d.toks = append(d.toks, Tok{Kind: "u8", Field: "#v", Pos: x.Pos()})
						return false
					}
				}
			}
		case *ast.SliceExpr:
			// data[a:b] with non-constant bounds in a helper: raw bytes of the preceding length
			if isByteSliceType(d.g.info.TypeOf(x.X)) && x.High != nil && len(d.toks) > 0 && d.toks[len(d.toks)-1].Kind != "raw" {
				if _, isLit := x.High.(*ast.BasicLit); !isLit {
					if tv, ok := d.g.info.Types[x.High]; !ok || tv.Value == nil {
						d.toks = append(d.toks, Tok{Kind: "raw", Field: "#v", Pos: x.Pos()})
					}
				}
			}
		}
		return true
	})
}

type decResult struct {
	fn   string
	toks []Tok
	pos  token.Pos
	tail string // field fed from an open-ended tail buf[off:], if any
}

// decoderLayout extracts the layout of a Parse* function / PopulateFrom and maps tokens to result fields.
func (g *goLayouts) decoderLayout(fd *ast.FuncDecl) *decResult {
	d := &decCtx{g: g}
	d.walkBlock(fd.Body.List)
	res := &decResult{fn: fd.Name.Name, pos: fd.Pos()}
	// name tokens from the composite literal / field assignments they flow to
	names := map[int]string{}
	for idx, f := range d.direct {
		names[idx] = snake(f)
	}
	use := func(field string, val ast.Expr) {
		val = stripParenConv(g, val)
		// append([]byte{}, data...) / copies
		if ce, ok := val.(*ast.CallExpr); ok && g.isBuiltin(ce, "append") && len(ce.Args) >= 2 {
			val = stripParenConv(g, ce.Args[1])
		}
		if id, ok := val.(*ast.Ident); ok {
			if idx, ok := d.binds[g.info.ObjectOf(id)]; ok {
				names[idx] = snake(field)
				return
			}
		}
		if g.isOpenTail(val) {
			res.tail = snake(field)
		}
	}
	ast.Inspect(fd.Body, func(n ast.Node) bool {
		switch x := n.(type) {
		case *ast.CompositeLit:
			if _, st := structOf(g.info.TypeOf(x)); st != nil {
				for _, el := range x.Elts {
					if kv, ok := el.(*ast.KeyValueExpr); ok {
						if k, ok := kv.Key.(*ast.Ident); ok {
							use(k.Name, kv.Value)
						}
					}
				}
			}
		case *ast.AssignStmt:
			if len(x.Lhs) == 1 && len(x.Rhs) == 1 {
				if sel, ok := x.Lhs[0].(*ast.SelectorExpr); ok {
					if s, ok := g.info.Selections[sel]; ok && s.Kind() == types.FieldVal {
						use(sel.Sel.Name, x.Rhs[0])
					}
				}
			}
		}
		return true
	})
	// a local `data := buf[offset:]` used as tail
	ast.Inspect(fd.Body, func(n ast.Node) bool {
		if as, ok := n.(*ast.AssignStmt); ok && len(as.Lhs) == 1 && len(as.Rhs) == 1 {
			if g.isOpenTail(as.Rhs[0]) {
				if id, ok := as.Lhs[0].(*ast.Ident); ok {
					obj := g.info.ObjectOf(id)
					// which field receives it?
					ast.Inspect(fd.Body, func(m ast.Node) bool {
						if kv, ok := m.(*ast.KeyValueExpr); ok {
							if key, ok := kv.Key.(*ast.Ident); ok {
								if vid, ok := stripParenConv(g, kv.Value).(*ast.Ident); ok && g.info.ObjectOf(vid) == obj {
									if _, isField := g.info.ObjectOf(key).(*types.Var); isField {
										res.tail = snake(key.Name)
									}
								}
							}
						}
						return true
					})
					ast.Inspect(fd.Body, func(m ast.Node) bool {
						if a2, ok := m.(*ast.AssignStmt); ok && len(a2.Lhs) == 1 && len(a2.Rhs) == 1 {
							if sel, ok := a2.Lhs[0].(*ast.SelectorExpr); ok {
								found := false
								ast.Inspect(a2.Rhs[0], func(k ast.Node) bool {
									// a bounded re-slice of the tail (rest[:n]) is a length-delimited field, not the tail
									if se, ok := k.(*ast.SliceExpr); ok && se.High != nil {
										if i2, ok := se.X.(*ast.Ident); ok && g.info.ObjectOf(i2) == obj {
											return false
										}
									}
									if i2, ok := k.(*ast.Ident); ok && g.info.ObjectOf(i2) == obj {
										found = true
									}
									return true
								})
								if found {
									res.tail = snake(sel.Sel.Name)
								}
							}
						}
						return true
					})
				}
			}
		}
		return true
	})
	// an open tail handed to a helper that stores it into a field (m.setPayload(buf[off:], copy))
	if res.tail == "" {
		ast.Inspect(fd.Body, func(n ast.Node) bool {
			ce, ok := n.(*ast.CallExpr)
			if !ok {
				return true
			}
			fn := g.calleeOf(ce)
			if fn == nil {
				return true
			}
			hd := g.decls[fn]
			if hd == nil || hd.Body == nil {
				return true
			}
			for ai, a := range ce.Args {
				if !g.isOpenTail(a) {
					continue
				}
				// the ai-th parameter of the helper
				var prm types.Object
				k := 0
				for _, fl := range hd.Type.Params.List {
					for _, nm := range fl.Names {
						if k == ai {
							prm = g.info.ObjectOf(nm)
						}
						k++
					}
				}
				if prm == nil {
					continue
				}
				ast.Inspect(hd.Body, func(m ast.Node) bool {
					as, ok := m.(*ast.AssignStmt)
					if !ok || len(as.Lhs) != 1 || len(as.Rhs) != 1 {
						return true
					}
					sel, ok := as.Lhs[0].(*ast.SelectorExpr)
					if !ok {
						return true
					}
					uses := false
					ast.Inspect(as.Rhs[0], func(q ast.Node) bool {
						if id, ok := q.(*ast.Ident); ok && g.info.ObjectOf(id) == prm {
							uses = true
						}
						return true
					})
					if uses {
						res.tail = snake(sel.Sel.Name)
					}
					return true
				})
			}
			return true
		})
	}
	toks := append([]Tok{}, d.toks...)
	for i := range toks {
		name, has := names[i]
		if !has {
			name = "_"
		}
		toks[i].Field = strings.ReplaceAll(toks[i].Field, "$v", name)
		toks[i].Field = strings.ReplaceAll(toks[i].Field, "#coll", name)
		if toks[i].Field == "#v" {
			toks[i].Field = name
		}
		// the length token precedes its value token: patch its placeholder from the following token's name
	}
	for i := 0; i+1 < len(toks); i++ {
		if strings.Contains(toks[i].Field, "(_)") {
			if n2, ok := names[i+1]; ok {
				toks[i].Field = strings.ReplaceAll(toks[i].Field, "(_)", "("+n2+")")
			}
		}
	}
	if res.tail != "" {
		toks = append(toks, Tok{Kind: "raw", Field: res.tail, Pos: fd.Pos()})
	}
	res.toks = toks
	return res
}

// ---------------------------------------------------------------- spec

type specRecord struct {
	Name   string
	Opcode int
	Toks   []Tok
	Line   int
}

var reSpecHead = regexp.MustCompile(`^###\s+(.+?)\s+\(op=0x([0-9A-Fa-f]{2})\)\s*$`)

func parseSpec(text string) ([]specRecord, error) {
	var out []specRecord
	lines := strings.Split(text, "\n")
	for i := 0; i < len(lines); i++ {
		m := reSpecHead.FindStringSubmatch(lines[i])
		if m == nil {
			continue
		}
		var op int
		fmt.Sscanf(m[2], "%x", &op)
		rec := specRecord{Name: strings.ReplaceAll(m[1], " ", ""), Opcode: op, Line: i + 1}
		// table rows until next heading
		for j := i + 1; j < len(lines) && !strings.HasPrefix(lines[j], "### "); j++ {
			row := strings.TrimSpace(lines[j])
			if !strings.HasPrefix(row, "|") {
				continue
			}
			cells := strings.Split(strings.Trim(row, "|"), "|")
			if len(cells) < 3 {
				continue
			}
			name := strings.TrimSpace(cells[1])
			typ := strings.Trim(strings.TrimSpace(cells[2]), "`")
			if name == "Name" || strings.HasPrefix(name, "---") || strings.HasPrefix(strings.TrimSpace(cells[0]), "---") || name == "" {
				continue
			}
			toks, err := specTypeToks(name, typ)
			if err != nil {
				return nil, fmt.Errorf("spec %s.%s: %v", rec.Name, name, err)
			}
			rec.Toks = append(rec.Toks, toks...)
		}
		out = append(out, rec)
	}
	if len(out) == 0 {
		return nil, fmt.Errorf("no record tables found in the specification")
	}
	return out, nil
}

func specScalar(t string) (string, bool) {
	switch strings.ToLower(strings.TrimSpace(t)) {
	case "uint8":
		return "u8", true
	case "uint16":
		return "u16", true
	case "uint32":
		return "u32", true
	case "uint64", "timestamp":
		return "u64", true
	}
	return "", false
}

func specElemToks(t string) ([]Tok, bool) {
	t = strings.TrimSpace(t)
	if k, ok := specScalar(t); ok {
		return []Tok{{Kind: k}}, true
	}
	if strings.EqualFold(t, "string") {
		return []Tok{{Kind: "u32"}, {Kind: "raw"}}, true
	}
	return nil, false
}

func specTypeToks(name, typ string) ([]Tok, error) {
	typ = strings.ReplaceAll(typ, `\<`, "<")
	if k, ok := specScalar(typ); ok {
		return []Tok{{Kind: k, Field: name}}, nil
	}
	lt := strings.ToLower(typ)
	switch {
	case lt == "string", lt == "uint32 length-prefixed bytes":
		return []Tok{{Kind: "u32", Field: "#len(" + name + ")"}, {Kind: "raw", Field: name}}, nil
	case lt == "uint64 length-prefixed bytes":
		return []Tok{{Kind: "u64", Field: "#len(" + name + ")"}, {Kind: "raw", Field: name}}, nil
	case lt == "bytes":
		return []Tok{{Kind: "raw", Field: name}}, nil
	}
	if m := regexp.MustCompile(`^(?i)map<\s*([^,]+),\s*([^>]+)>$`).FindStringSubmatch(typ); m != nil {
		a, ok1 := specElemToks(m[1])
		b, ok2 := specElemToks(m[2])
		if ok1 && ok2 {
			return []Tok{{Kind: "u32", Field: "#bytelen(" + name + ")"}, {Kind: "seq", Field: name, Sub: append(a, b...)}}, nil
		}
	}
	if m := regexp.MustCompile(`^(?i)array<\s*tuple<\s*([^,]+),\s*([^>]+)>\s*>$`).FindStringSubmatch(typ); m != nil {
		a, ok1 := specElemToks(m[1])
		b, ok2 := specElemToks(m[2])
		if ok1 && ok2 {
			return []Tok{{Kind: "u32", Field: "#bytelen(" + name + ")"}, {Kind: "seq", Field: name, Sub: append(a, b...)}}, nil
		}
	}
	return nil, fmt.Errorf("unrecognised type %q", typ)
}

// ---------------------------------------------------------------- comparison

// layoutDiff compares an implementation layout with the reference; aliases maps implementation field labels to
// reference labels. If prefixOK, the implementation may stop early. Fields named "_" match any name.
func layoutDiff(impl, ref []Tok, aliases map[string]string, prefixOK bool) string {
	norm := func(f string) string {
		if a, ok := aliases[f]; ok {
			return a
		}
		for from, to := range aliases {
			if strings.HasPrefix(from, "#") {
				continue
			}
			f = strings.ReplaceAll(f, "("+from+")", "("+to+")")
		}
		return f
	}
	n := len(impl)
	if len(ref) < n {
		n = len(ref)
	}
	for i := 0; i < n; i++ {
		a, b := impl[i], ref[i]
		if a.Kind != b.Kind {
			return fmt.Sprintf("position %d: implementation has %s, reference has %s", i+1, a, b)
		}
		af, bf := norm(a.Field), b.Field
		switch {
		case af == bf, af == "_", strings.Contains(af, "(_)"), strings.Contains(af, "(#derived)"), af == "#derived", af == "#skip", strings.HasPrefix(af, "#const"):
			// equal, unnamed, or a computed value the extractor cannot name: not a definite disagreement
		case af == "#crc" && strings.HasSuffix(bf, "crc"):
		default:
			return fmt.Sprintf("position %d: implementation carries %q where the reference has %q (%s)", i+1, a.Field, b.Field, a.Kind)
		}
		if a.Kind == "seq" {
			var ak, bk []string
			for _, s := range a.Sub {
				ak = append(ak, s.Kind)
			}
			for _, s := range b.Sub {
				bk = append(bk, s.Kind)
			}
			if strings.Join(ak, " ") != strings.Join(bk, " ") {
				return fmt.Sprintf("position %d: repetition element is [%s], reference has [%s]", i+1, strings.Join(ak, " "), strings.Join(bk, " "))
			}
		}
	}
	if len(impl) < len(ref) && !prefixOK {
		return fmt.Sprintf("implementation stops after %d tokens; reference continues with %s", len(impl), ref[len(impl)])
	}
	if len(impl) > len(ref) {
		return fmt.Sprintf("implementation has extra token %s after the reference layout ends", impl[len(ref)])
	}
	return ""
}

// ---------------------------------------------------------------- E8: linear size forms

type linForm struct {
	c     int
	atoms map[string]int // len(<expr key>) -> coefficient
	prods []int          // constant factors of (opaque count) * k terms
	opaque []string
}

func newLin() *linForm { return &linForm{atoms: map[string]int{}} }

func (l *linForm) add(o *linForm, k int) {
	l.c += k * o.c
	for a, n := range o.atoms {
		l.atoms[a] += k * n
	}
	for _, p := range o.prods {
		l.prods = append(l.prods, p*k)
	}
	l.opaque = append(l.opaque, o.opaque...)
}

// linearOf evaluates an int expression to a linear form over len() atoms.
func (c *encCtx) linearOf(e ast.Expr, depth int) *linForm {
	out := newLin()
	if depth > 60 {
		out.opaque = append(out.opaque, types.ExprString(e))
		return out
	}
	if tv, ok := c.g.info.Types[e]; ok && tv.Value != nil && tv.Value.Kind() == constant.Int {
		v, _ := constant.Int64Val(tv.Value)
		out.c = int(v)
		return out
	}
	e = stripParenConv(c.g, e)
	switch x := e.(type) {
	case *ast.BinaryExpr:
		a, b := c.linearOf(x.X, depth+1), c.linearOf(x.Y, depth+1)
		switch x.Op {
		case token.ADD:
			out.add(a, 1)
			out.add(b, 1)
			return out
		case token.SUB:
			out.add(a, 1)
			out.add(b, -1)
			return out
		case token.MUL:
			isConst := func(l *linForm) bool { return len(l.atoms) == 0 && len(l.prods) == 0 && len(l.opaque) == 0 }
			if isConst(a) {
				a, b = b, a
			}
			if isConst(b) {
				// (count expression) * k : a repetition term
				if len(a.atoms) == 1 && a.c == 0 || len(a.opaque) == 1 && len(a.atoms) == 0 {
					out.prods = append(out.prods, b.c)
					return out
				}
				out.add(a, b.c)
				return out
			}
		}
	case *ast.CallExpr:
		if c.g.isBuiltin(x, "len") && len(x.Args) == 1 {
			out.atoms[c.sizeAtom(x.Args[0])] = 1
			return out
		}
	case *ast.Ident:
		defs := c.locals[c.g.info.ObjectOf(x)]
		if len(defs) == 1 {
			return c.linearOf(defs[0], depth+1)
		}
	}
	out.opaque = append(out.opaque, types.ExprString(e))
	return out
}

// emittedLin sums the size items.
func emittedLin(items []sizeItem) (*linForm, []int, bool) {
	out := newLin()
	var seqs []int
	varSeq := false
	for _, it := range items {
		switch {
		case it.seq != nil:
			in, _, _ := emittedLin(it.seq)
			if len(in.atoms) == 0 {
				seqs = append(seqs, in.c)
			} else {
				varSeq = true
			}
		case it.atom != "":
			out.atoms[it.atom]++
		default:
			out.c += it.c
		}
	}
	return out, seqs, varSeq
}

// sizeShortfall compares the declared size with what is written into the buffer; returns "" if declared >= written.
func (c *encCtx) sizeShortfall(declared ast.Expr, items []sizeItem) string {
	d := c.linearOf(declared, 0)
	e, seqs, _ := emittedLin(items)
	if d.c < e.c {
		return fmt.Sprintf("constant part: %d bytes reserved, %d bytes written", d.c, e.c)
	}
	for a, n := range e.atoms {
		if d.atoms[a] < n {
			return fmt.Sprintf("len(%s) is written %d time(s) but reserved %d time(s)", a, n, d.atoms[a])
		}
	}
	for _, k := range seqs {
		ok := false
		for _, p := range d.prods {
			if p >= k {
				ok = true
			}
		}
		if !ok {
			return fmt.Sprintf("a repetition writes %d bytes per element but no term of the reserved size has that factor", k)
		}
	}
	return ""
}

func (l *linForm) String() string {
	var parts []string
	parts = append(parts, fmt.Sprint(l.c))
	var as []string
	for a, n := range l.atoms {
		as = append(as, fmt.Sprintf("%d*len(%s)", n, a))
	}
	sort.Strings(as)
	parts = append(parts, as...)
	for _, p := range l.prods {
		parts = append(parts, fmt.Sprintf("n*%d", p))
	}
	for _, o := range l.opaque {
		parts = append(parts, "?"+o)
	}
	return strings.Join(parts, " + ")
}

// aliasBuffers: a local []byte defined as a (re-)slice of a tracked buffer is the same buffer under another name
// (record := w.msg[:n]; covered, crcField := record[:n-4], record[n-4:]).
func (c *encCtx) aliasBuffers(body *ast.BlockStmt) {
	for pass := 0; pass < 3; pass++ {
		ast.Inspect(body, func(n ast.Node) bool {
			as, ok := n.(*ast.AssignStmt)
			if !ok || as.Tok != token.DEFINE || len(as.Lhs) != len(as.Rhs) {
				return true
			}
			for i, l := range as.Lhs {
				id, ok := l.(*ast.Ident)
				if !ok || id.Name == "_" {
					continue
				}
				if !isByteSliceType(c.g.info.TypeOf(id)) {
					continue
				}
				rhs := stripParenConv(c.g, as.Rhs[i])
				switch rhs.(type) {
				case *ast.SliceExpr, *ast.Ident, *ast.SelectorExpr:
					if c.bufs[bufRoot(rhs)] {
						c.bufs[id.Name] = true
					}
				}
			}
			return true
		})
	}
}

// isOpenTail: buf[off:] of a byte slice, or a call of a package function / cursor method whose body is `return x[off:]`.
func (g *goLayouts) isOpenTail(e ast.Expr) bool {
	e = stripParenConv(g, e)
	if se, ok := e.(*ast.SliceExpr); ok {
		return se.High == nil && isByteSliceType(g.info.TypeOf(se.X))
	}
	ce, ok := e.(*ast.CallExpr)
	if !ok {
		return false
	}
	fn := g.calleeOf(ce)
	if fn == nil {
		return false
	}
	fd := g.decls[fn]
	if fd == nil || fd.Body == nil || len(fd.Body.List) != 1 {
		return false
	}
	rs, ok := fd.Body.List[0].(*ast.ReturnStmt)
	if !ok || len(rs.Results) != 1 {
		return false
	}
	se, ok := stripParenConv(g, rs.Results[0]).(*ast.SliceExpr)
	return ok && se.High == nil && isByteSliceType(g.info.TypeOf(se.X))
}

// Blindness of the layout extractor. The extractor reads the encoders and decoders in the forms this code base uses (put*/get*
// helpers with a running offset, binary.LittleEndian on a window of the buffer, cursor structs, helper functions summarised
// recursively). When a function moves its bytes through something the extractor has no model of - an append-style encoder
// (binary.LittleEndian.AppendUint16, append(buf, s...)), a generic helper, a helper whose own reads or writes could not be
// summarised (hand-assembled integers) - the extracted layout is an artefact of the extractor, not of the code, and a
// disagreement with the table is not evidence of anything: the layout rule then says "not judged" for that function.
// A function written in the modelled forms is never blind, so single edits of today's encoders and decoders (a width, an
// order, a missing field) stay decided.

// decoderBlind names a construct in fd (or an unexported helper it calls, two levels) that reads the record in a way
// the extractor does not model; "" if there is none.
func (g *goLayouts) decoderBlind(fd *ast.FuncDecl) string {
	return g.blindIn(fd, 2, map[*ast.FuncDecl]bool{}, false)
}

func (g *goLayouts) encoderBlind(fd *ast.FuncDecl) string {
	return g.blindIn(fd, 2, map[*ast.FuncDecl]bool{}, true)
}

func (g *goLayouts) blindIn(fd *ast.FuncDecl, depth int, seen map[*ast.FuncDecl]bool, enc bool) string {
	if fd == nil || fd.Body == nil || seen[fd] {
		return ""
	}
	seen[fd] = true
	why := ""
	takesBytes := func(fn *types.Func) bool {
		sig, ok := fn.Type().(*types.Signature)
		if !ok {
			return false
		}
		for i := 0; i < sig.Params().Len(); i++ {
			if isByteSliceType(sig.Params().At(i).Type()) {
				return true
			}
		}
		if enc {
			for i := 0; i < sig.Results().Len(); i++ {
				if isByteSliceType(sig.Results().At(i).Type()) {
					return true
				}
			}
		}
		if rv := sig.Recv(); rv != nil {
			if _, st := structOf(rv.Type()); st != nil {
				for i := 0; i < st.NumFields(); i++ {
					if isByteSliceType(st.Field(i).Type()) && st.Field(i).Name() != "Data" && !st.Field(i).Exported() {
						return true
					}
				}
			}
		}
		return false
	}
	ast.Inspect(fd.Body, func(n ast.Node) bool {
		if why != "" {
			return false
		}
		if rs, isRange := n.(*ast.RangeStmt); isRange && enc {
			if _, isLit := rs.X.(*ast.CompositeLit); isLit {
				why = "fields written by a loop over a literal list"
				return false
			}
		}
		ce, ok := n.(*ast.CallExpr)
		if !ok {
			return true
		}
		fn := g.calleeOf(ce)
		if fn == nil {
			// a call of an instantiated generic function of the package
			var id *ast.Ident
			switch f := ce.Fun.(type) {
			case *ast.Ident:
				id = f
			case *ast.IndexExpr:
				id, _ = f.X.(*ast.Ident)
			}
			if id != nil {
				if tf, ok := g.info.Uses[id].(*types.Func); ok && tf.Pkg() != nil && tf.Pkg().Path() == g.pkg {
					if sig, ok := tf.Type().(*types.Signature); ok && sig.TypeParams() != nil && sig.TypeParams().Len() > 0 {
						why = "generic helper " + tf.Name()
					}
				}
			}
			return true
		}
		if fn.Pkg() != nil && fn.Pkg().Path() == "encoding/binary" && strings.HasPrefix(fn.Name(), "Append") {
			why = "append-style encoding (binary." + fn.Name() + ")"
			return false
		}
		if fn.Pkg() == nil || fn.Pkg().Path() != g.pkg {
			return true
		}
		if sig, ok := fn.Type().(*types.Signature); ok && sig.TypeParams() != nil && sig.TypeParams().Len() > 0 {
			why = "generic helper " + fn.Name()
			return false
		}
		hd := g.decls[fn]
		if hd == nil || hd.Body == nil || !takesBytes(fn) {
			return true
		}
		if enc {
			if s := g.emitSummary(fn); s != nil && s.ok && !g.movesBytesByHand(hd) {
				return true
			}
		} else {
			if s := g.readSummary(fn); s != nil && s.ok {
				return true
			}
		}
		// not summarised: either it contains modelled statements itself (then the extractor walks into it where it can)
		// or it moves bytes by hand
		if fn.Exported() {
			return true
		}
		if enc && hd.Recv != nil && len(hd.Recv.List) == 1 && recvTypeName(g, hd) != "Writer" {
			why = "encoding delegated to the method " + recvTypeName(g, hd) + "." + fn.Name()
			return false
		}
		if depth > 0 {
			if w := g.blindIn(hd, depth-1, seen, enc); w != "" {
				why = w
				return false
			}
		}
		if g.movesBytesByHand(hd) {
			why = "helper " + fn.Name() + " assembles or scatters bytes by hand"
			return false
		}
		return true
	})
	if why == "" && g.movesBytesByHand(fd) {
		why = fd.Name.Name + " assembles or scatters bytes by hand"
	}
	// an encoder that writes at two different position variables fills in a field later (a length back-filled after the
	// entries were written): the order of the put calls is then not the order of the bytes
	if why == "" && enc {
		lows := map[types.Object]bool{}
		ast.Inspect(fd.Body, func(n ast.Node) bool {
			ce, ok := n.(*ast.CallExpr)
			if !ok {
				return true
			}
			fn := g.calleeOf(ce)
			if fn == nil || !(strings.HasPrefix(fn.Name(), "put") || strings.HasPrefix(fn.Name(), "Put")) {
				return true
			}
			for _, a := range ce.Args {
				if se, ok := a.(*ast.SliceExpr); ok && se.Low != nil {
					if id, ok := se.Low.(*ast.Ident); ok {
						if obj := g.info.ObjectOf(id); obj != nil {
							lows[obj] = true
						}
					}
				}
			}
			return true
		})
		if len(lows) >= 2 {
			why = "fields written at a saved position (back-filled)"
		}
	}
	return why
}

// movesBytesByHand: the function shifts single bytes of a byte slice into an integer (x |= uint64(b[i]) << 8) or stores
// single bytes obtained by shifting (b[i] = byte(x >> 8)).
func (g *goLayouts) movesBytesByHand(fd *ast.FuncDecl) bool {
	found := false
	hasByteIndex := func(e ast.Node) bool {
		f := false
		ast.Inspect(e, func(m ast.Node) bool {
			if ix, ok := m.(*ast.IndexExpr); ok && isByteSliceType(g.info.TypeOf(ix.X)) {
				f = true
			}
			return true
		})
		return f
	}
	hasShift := func(e ast.Node) bool {
		f := false
		ast.Inspect(e, func(m ast.Node) bool {
			if be, ok := m.(*ast.BinaryExpr); ok && (be.Op == token.SHL || be.Op == token.SHR) {
				f = true
			}
			return true
		})
		return f
	}
	ast.Inspect(fd.Body, func(n ast.Node) bool {
		switch x := n.(type) {
		case *ast.BinaryExpr:
			if x.Op == token.SHL && hasByteIndex(x.X) {
				found = true
			}
		case *ast.AssignStmt:
			for i, l := range x.Lhs {
				if ix, ok := l.(*ast.IndexExpr); ok && isByteSliceType(g.info.TypeOf(ix.X)) && i < len(x.Rhs) && hasShift(x.Rhs[i]) {
					found = true
				}
			}
		}
		return true
	})
	return found
}
