package main

import (
	"go/token"
	"go/types"

	"golang.org/x/tools/go/ssa"
)

// Accumulator state of the chunk writer (countingCRCWriter), described by what its methods do to its fields rather than
// by their names: the size field is the one Write adds len(p) to; the CRC field is the one Write feeds p into (a
// hash.Hash32 whose Write is called, or a uint32 updated with crc32.Update). For every other method:
//
//	reads X   a result of the method derives from the current value of X (load of the integer, Sum32 of the hash)
//	resets X  the method stores the constant 0 into X, calls Reset on the hash, or installs a fresh hash
//
// and when a method does both ("take"), the loads that feed the result must dominate the reset.
type accMethod struct {
	reads, resets map[string]bool
	takeOK        bool // reads dominate resets where both apply
}

type accFacts struct {
	sizeField, crcField string
	accType, holder     string // the accumulators may live in a small struct held in field `holder` of the writer type
	methods             map[*ssa.Function]*accMethod
}

func accumulatorFacts(p *Program, typeName string) *accFacts { return accumulatorFactsOpt(p, typeName, true) }

// accumulatorFactsOpt: needSize=false accepts a wrapper that only keeps a running CRC (crcWriter).
func accumulatorFactsOpt(p *Program, typeName string, needSize bool) *accFacts {
	af := &accFacts{methods: map[*ssa.Function]*accMethod{}}
	var write *ssa.Function
	ms := methodsOf(p, pkgMcap, typeName)
	for _, m := range ms {
		if m.Name() == "Write" && m.Blocks != nil {
			write = m
		}
	}
	if write == nil {
		return nil
	}
	for _, in := range instrsOf(write) {
		switch x := in.(type) {
		case *ssa.Store:
			tn, f, base, ok := fieldRef(x.Addr)
			if !ok {
				continue
			}
			if tn != typeName {
				// a field of a state struct that is itself a field of the writer type
				htn, hf, _, hok := fieldRef(base)
				if !hok || htn != typeName || (af.holder != "" && af.holder != hf) {
					continue
				}
				af.holder = hf
			}
			if af.accType != "" && af.accType != tn {
				continue
			}
			if b, ok := x.Val.(*ssa.BinOp); ok && b.Op == token.ADD && (loadOfField(b.X, tn, f) || loadOfField(b.Y, tn, f)) {
				af.sizeField = f
				af.accType = tn
			}
			if c, ok := x.Val.(*ssa.Call); ok && calleeIs(c, "hash/crc32.Update") {
				af.crcField = f
				af.accType = tn
			}
		case ssa.CallInstruction:
			c := x.Common()
			if c.IsInvoke() && c.Method.Name() == "Write" {
				if u, ok := c.Value.(*ssa.UnOp); ok && u.Op == token.MUL {
					if tn, f, _, ok := fieldRef(u.X); ok && tn == typeName {
						if nt, ok := u.Type().(*types.Named); ok && nt.Obj().Name() == "Hash32" {
							af.crcField = f
						}
					}
				}
			}
		}
	}
	if (needSize && af.sizeField == "") || af.crcField == "" {
		return nil
	}
	if af.accType == "" {
		af.accType = typeName
	}
	accT := af.accType
	isZero := func(v ssa.Value) bool {
		c, ok := v.(*ssa.Const)
		if !ok {
			return false
		}
		if c.Value == nil {
			_, isStruct := c.Type().Underlying().(*types.Struct)
			return isStruct
		}
		return c.Value.String() == "0"
	}
	for _, m := range ms {
		if m.Blocks == nil || m.Name() == "Write" {
			continue
		}
		am := &accMethod{reads: map[string]bool{}, resets: map[string]bool{}, takeOK: true}
		var readInstr, resetInstr = map[string][]ssa.Instruction{}, map[string][]ssa.Instruction{}
		// values returned
		returned := map[ssa.Value]bool{}
		for _, in := range instrsOf(m) {
			if ret, ok := in.(*ssa.Return); ok {
				for _, rv := range ret.Results {
					v := stripConv(rv)
					returned[v] = true
					if phi, ok := v.(*ssa.Phi); ok {
						for _, e := range phi.Edges {
							returned[stripConv(e)] = true
						}
					}
				}
			}
		}
		for _, in := range instrsOf(m) {
			switch x := in.(type) {
			case *ssa.UnOp:
				if x.Op == token.MUL {
					if tn, f, _, ok := fieldRef(x.X); ok && tn == accT && (f == af.sizeField || f == af.crcField) && returned[x] {
						am.reads[f] = true
						readInstr[f] = append(readInstr[f], x)
					} else if ok && af.holder != "" && tn == typeName && f == af.holder && returned[x] {
						// the whole state struct is handed out
						for _, g := range []string{af.sizeField, af.crcField} {
							am.reads[g] = true
							readInstr[g] = append(readInstr[g], x)
						}
					}
				}
			case *ssa.Store:
				if tn, f, _, ok := fieldRef(x.Addr); ok && af.holder != "" && tn == typeName && f == af.holder && isZero(x.Val) {
					for _, g := range []string{af.sizeField, af.crcField} {
						am.resets[g] = true
						resetInstr[g] = append(resetInstr[g], x)
					}
				}
				if tn, f, _, ok := fieldRef(x.Addr); ok && tn == accT && (f == af.sizeField || f == af.crcField) {
					if isZero(x.Val) {
						am.resets[f] = true
						resetInstr[f] = append(resetInstr[f], x)
					}
					if c, ok := x.Val.(*ssa.Call); ok && calleeIs(c, "hash/crc32.NewIEEE") {
						am.resets[f] = true
						resetInstr[f] = append(resetInstr[f], x)
					}
				}
			case ssa.CallInstruction:
				c := x.Common()
				if !c.IsInvoke() {
					continue
				}
				u, ok := c.Value.(*ssa.UnOp)
				if !ok || u.Op != token.MUL {
					continue
				}
				tn, f, _, ok := fieldRef(u.X)
				if !ok || tn != typeName || f != af.crcField {
					continue
				}
				switch c.Method.Name() {
				case "Sum32":
					if v := x.Value(); v != nil && returned[v] {
						am.reads[f] = true
						readInstr[f] = append(readInstr[f], x)
					}
				case "Reset":
					am.resets[f] = true
					resetInstr[f] = append(resetInstr[f], x)
				}
			}
		}
		for f := range am.reads {
			for _, rd := range readInstr[f] {
				for _, rs := range resetInstr[f] {
					if !instrDominates(rd, rs) {
						am.takeOK = false
					}
				}
			}
		}
		if len(am.reads)+len(am.resets) > 0 {
			af.methods[m] = am
		}
	}
	return af
}

// checkCapturedBeforeReset: in the deep call order of fn, the call whose result becomes Chunk.<chunkField> reads the
// accumulator's field before any call resets it, and some call does reset it afterwards (or the same call takes it).
func checkCapturedBeforeReset(p *Program, r *Result, rule string, fn *ssa.Function, af *accFacts, accField, chunkField, what string) {
	fname := funcName(fn)
	calls := deepCalls(p, fn, 3)
	region := regionOf(p, fn, 3)
	iRead, iReset := -1, -1
	for i, c := range calls {
		g := c.in.Common().StaticCallee()
		am := af.methods[g]
		if am == nil {
			continue
		}
		if am.reads[accField] && iRead < 0 {
			if call, ok := c.in.(*ssa.Call); ok {
				for _, st := range regionStores(region, "Chunk", chunkField) {
					if flowsFromCall(st.Val, call, region) {
						iRead = i
					}
					// the call hands out the state struct: the header field takes the matching component
					if fl, ok := stripConv(st.Val).(*ssa.Field); ok && fl.X == ssa.Value(call) {
						if _, fname2, _, ok := fieldRef(fl); ok && fname2 == accField {
							iRead = i
						}
					}
					// ... kept in a local first: totals := w.TakeTotals(); ... totals.size
					if u, ok := stripConv(st.Val).(*ssa.UnOp); ok && u.Op == token.MUL {
						if fa, ok := u.X.(*ssa.FieldAddr); ok {
							if al, ok := fa.X.(*ssa.Alloc); ok {
								nst, fromCall := 0, false
								for _, ref := range *al.Referrers() {
									if s2, ok := ref.(*ssa.Store); ok && s2.Addr == ssa.Value(al) {
										nst++
										fromCall = s2.Val == ssa.Value(call)
									}
								}
								if _, fname2, _, ok := fieldRef(fa); ok && fname2 == accField && nst == 1 && fromCall {
									iRead = i
								}
							}
						}
					}
				}
			}
		}
		if am.resets[accField] && iReset < 0 {
			iReset = i
		}
	}
	switch {
	case iRead < 0:
		r.violated(rule, fname, what, p.pos(fn.Pos()), "Chunk."+chunkField+" is not taken from the chunk writer's running "+accField)
	case iReset < 0:
		r.violated(rule, fname, what, p.pos(calls[iRead].in.Pos()), "the chunk writer's running "+accField+" is never reset during the flush; the next chunk's header would include this chunk's bytes")
	case iRead == iReset:
		if af.methods[calls[iRead].in.Common().StaticCallee()].takeOK {
			r.held(rule, fname, what, p.pos(calls[iRead].in.Pos()), "read and reset by one call that loads the value before it zeroes it")
		} else {
			r.violated(rule, fname, what, p.pos(calls[iRead].in.Pos()), "the method that returns and resets the value resets it before reading it")
		}
	case iRead < iReset && deepDominates(calls[iRead], calls[iReset]):
		r.held(rule, fname, what, p.pos(calls[iRead].in.Pos()), "in this order on every path")
	default:
		r.violated(rule, fname, what, p.pos(calls[iReset].in.Pos()), "the value is reset before it is captured for the chunk header")
	}
}
