package main

import (
	"go/ast"
	"fmt"
	"go/token"
	"strings"

	"golang.org/x/tools/go/ssa"
)

func init() { register("C20", true, checkC20) }

func checkC20(p *Program, r *Result) {
	r.Explanation = "Structural necessary conditions of 'reading and writing need memory for a few chunks, not the file': " +
		"(C20.a) attachments stream: in WriteAttachment the data source is only used as the source of a streaming copy; in the lexer's attachment arm every path leaves by continuing with the next record " +
		"before the generic allocate-and-read of the record body, and the attachment parser exposes the data as a LimitedReader without reading it; no ReadAll of attachment data; " +
		"(C20.b) slot accounting: the only stores to chunkSlot.unreadMessages are an increment by one next to each append of an index entry for that slot (loadChunk) and a decrement by one next to the advance " +
		"of the read cursor (NextInto); (C20.c) a new chunk slot is appended only after the search for a slot with no unread messages failed, a slot's buffer is re-sliced when its capacity suffices, " +
		"and the lexer's chunk buffer is replaced only when it is too small; (C20.d) chunks are loaded only from the yield loop of NextInto, under 'queue empty' or the order trigger."
	r.NotDecided = []string{"measured peak memory", "the 'max overlap depth' bound on live slots (run-time)"}
	r.rule("C20.a", "attachment data is streamed, never materialised", 3)
	r.rule("C20.b", "slot unread-count inc/dec pairing", 2)
	r.rule("C20.c", "buffers are reused before they are grown", 3)
	r.rule("C20.d", "chunks are loaded lazily from the yield loop", 1)

	// ---- a
	if fn := p.lookupFunc(pkgMcap, "Writer.WriteAttachment"); fn != nil {
		fname := funcName(fn)
		bad := ""
		uses := 0
		var regionInstrs []ssa.Instruction
		for _, rf := range regionOf(p, fn, 3) {
			regionInstrs = append(regionInstrs, instrsOf(rf)...)
		}
		for _, in := range regionInstrs {
			u, ok := in.(*ssa.UnOp)
			if !ok || u.Op != token.MUL {
				continue
			}
			if tn, f, _, ok := fieldRef(u.X); !ok || tn != "Attachment" || f != "Data" {
				continue
			}
			for _, ref := range *u.Referrers() {
				uses++
				ci, ok := ref.(ssa.CallInstruction)
				if !ok || !calleeIs(ci, "io.Copy", "io.CopyN", "io.CopyBuffer") {
					if _, isDbg := ref.(*ssa.DebugRef); isDbg {
						uses--
						continue
					}
					bad = "a.Data is used by " + strings.SplitN(ref.String(), "\n", 2)[0]
				}
			}
		}
		if bad == "" && uses > 0 {
			r.held("C20.a", fname, "attachment source is only streamed", p.pos(fn.Pos()), "a.Data is the source of io.Copy and nothing else")
		} else {
			if bad == "" {
				bad = "a.Data is never copied"
			}
			r.violated("C20.a", fname, "attachment source is only streamed", p.pos(fn.Pos()), "the attachment data source must only feed a streaming copy: "+bad)
		}
	}
	// allocation sizes on the write path of an attachment must not grow with the attachment's data size
	if fn := p.lookupFunc(pkgMcap, "Writer.WriteAttachment"); fn != nil {
		fname := funcName(fn)
		n := 0
		var regionInstrs []ssa.Instruction
		for _, rf := range regionOf(p, fn, 3) {
			regionInstrs = append(regionInstrs, instrsOf(rf)...)
		}
		for _, in := range regionInstrs {
			var sizeArg ssa.Value
			what := ""
			switch x := in.(type) {
			case *ssa.MakeSlice:
				sizeArg, what = x.Len, "make"
			case ssa.CallInstruction:
				nm := calleeRepoName(x)
				if nm == "mcap.Writer.ensureSized" || nm == "mcap.makeSafe" {
					sizeArg, what = x.Common().Args[len(x.Common().Args)-1], trimPkg(nm)
				}
			}
			if sizeArg == nil {
				continue
			}
			n++
			src := map[string]bool{}
			valueSources(sizeArg, src, map[ssa.Value]bool{}, 0)
			construct := "buffer size requested by " + what
			if src["field:Attachment.DataSize"] {
				r.violated("C20.a", fname, construct, p.pos(in.Pos()),
					"the size of a buffer allocated while writing an attachment depends on Attachment.DataSize; the writer then holds memory proportional to the attachment although the data is streamed")
			} else {
				r.held("C20.a", fname, construct, p.pos(in.Pos()), "independent of the attachment's data size")
			}
		}
		_ = n
	}
	if fn := p.lookupFunc(pkgMcap, "Lexer.Next"); fn != nil {
		checkAttachmentArmLeaves(p, r, fn)
	}
	if fn := p.lookupFunc(pkgMcap, "parseAttachmentReader"); fn != nil {
		bad := ""
		for _, ci := range callsIn(fn, func(ci ssa.CallInstruction) bool { return calleeIs(ci, "io.ReadAll", "io.Copy", "io.CopyN") }) {
			bad = "parseAttachmentReader consumes the data with " + trimPkg(staticCalleeName(ci.Common()))
		}
		limited := len(fieldStores(fn, "LimitedReader", "N")) > 0
		if bad == "" && limited {
			r.held("C20.a", funcName(fn), "attachment data exposed as a LimitedReader", p.pos(fn.Pos()), "data is not read by the parser")
		} else {
			if bad == "" {
				bad = "the data is not exposed through an io.LimitedReader"
			}
			r.violated("C20.a", funcName(fn), "attachment data exposed as a LimitedReader", p.pos(fn.Pos()), bad)
		}
	}
	// ---- b
	checkSlotAccounting(p, r)
	// ---- c
	checkReuseBeforeGrow(p, r)
	// ---- d
	n := 0
	// the caller is NextInto, or an unexported helper that is itself only ever called (transitively) from NextInto
	var onlyFromNextInto func(fn *ssa.Function, depth int) bool
	onlyFromNextInto = func(fn *ssa.Function, depth int) bool {
		if funcName(fn) == "mcap.indexedMessageIterator.NextInto" {
			return true
		}
		if depth <= 0 || ast.IsExported(fn.Name()) {
			return false
		}
		sites := p.staticCallers(fn)
		if len(sites) == 0 {
			return false
		}
		for _, s := range sites {
			if !onlyFromNextInto(s.Parent(), depth-1) {
				return false
			}
		}
		return true
	}
	for _, fn := range p.repoFunctions(pkgMcap) {
		for _, ci := range callsIn(fn, func(ci ssa.CallInstruction) bool { return calleeRepoName(ci) == "mcap.indexedMessageIterator.loadChunk" }) {
			n++
			if !onlyFromNextInto(fn, 3) {
				r.violated("C20.d", funcName(fn), "call of loadChunk", p.pos(ci.Pos()), "chunks must be loaded lazily, one per turn of the yield loop in NextInto; loading elsewhere keeps more chunks in memory than the overlap requires")
				continue
			}
			r.held("C20.d", funcName(fn), "call of loadChunk", p.pos(ci.Pos()), "chunks are only loaded on demand from NextInto")
		}
	}
	if n == 0 {
		r.undecided("C20.d", "mcap.indexedMessageIterator.NextInto", "call of loadChunk", "", "no call found")
	}
	// ---- e: the "load the next chunk before yielding" trigger only exists for the two time orders; in file order a
	// chunk is loaded only when the queue is empty (one chunk in memory)
	r.rule("C20.e", "early chunk loads are tied to an explicit time order", 2)
	for _, m := range iteratorAndQueueMethods(p) {
		if m.Blocks == nil {
			continue
		}
		for _, in := range instrsOf(m) {
			b, ok := in.(*ssa.BinOp)
			if !ok {
				continue
			}
			switch b.Op {
			case token.LSS, token.LEQ, token.GTR, token.GEQ:
			default:
				continue
			}
			chunkTime := func(v ssa.Value) bool {
				return loadOfField(v, "ChunkIndex", "MessageStartTime") || loadOfField(v, "ChunkIndex", "MessageEndTime")
			}
			headTime := func(v ssa.Value) bool {
				if loadOfField(v, "messageIndexWithChunkSlot", "timestamp") {
					return true
				}
				_, isParam := v.(*ssa.Parameter)
				return isParam
			}
			if !(chunkTime(b.X) && headTime(b.Y) || chunkTime(b.Y) && headTime(b.X)) {
				continue
			}
			k := orderConstOf(in)
			construct := "load trigger " + valueLabel(b.X) + " " + b.Op.String() + " " + valueLabel(b.Y)
			if k == 1 || k == 2 {
				r.held("C20.e", funcName(m), construct, p.pos(b.Pos()), fmt.Sprintf("evaluated only under it.order == %d", k))
			} else {
				r.violated("C20.e", funcName(m), construct, p.pos(b.Pos()),
					"the comparison that makes NextInto load the next chunk before yielding is not tied to LogTimeOrder/ReverseLogTimeOrder; in file order later chunks are decompressed while earlier ones are still pending (memory grows with the file)")
			}
		}
	}
}

func loopDepth(b *ssa.BasicBlock) int {
	d := 0
	for h := b; h != nil; h = h.Idom() {
		for _, pr := range h.Preds {
			if h.Dominates(pr) && (h == b || reachableBlocks(h)[b]) && reachableFromSuccs(b)[h] {
				d++
				break
			}
		}
	}
	return d
}

// checkAttachmentArmLeaves: from the block that builds the attachment LimitedReader, the generic record read
// (makeSafe / io.ReadFull into p[:recordLen]) is not reachable without passing the loop head.
func checkAttachmentArmLeaves(p *Program, r *Result, fn *ssa.Function) {
	fname := funcName(fn)
	// the arm: comparison of the opcode with OpAttachment
	opAtt, ok := opConstValue(p, "OpAttachment")
	if !ok {
		return
	}
	var armEntry *ssa.BasicBlock
	for _, in := range instrsOf(fn) {
		b, isB := in.(*ssa.BinOp)
		if !isB || b.Op != token.EQL {
			continue
		}
		c, isC := b.Y.(*ssa.Const)
		if !isC || c.Value == nil || int(c.Int64()) != opAtt {
			continue
		}
		if nt := b.X.Type().String(); !strings.HasSuffix(nt, "OpCode") {
			continue
		}
		for _, ref := range *b.Referrers() {
			if iff, isIf := ref.(*ssa.If); isIf && armEntry == nil {
				armEntry = iff.Block().Succs[0]
			}
		}
	}
	if armEntry == nil {
		r.undecided("C20.a", fname, "attachment arm", p.pos(fn.Pos()), "no test of the opcode against OpAttachment found")
		return
	}
	// loop header of Next's outer loop
	var header *ssa.BasicBlock
	for d := armEntry; d != nil; d = d.Idom() {
		for _, pr := range d.Preds {
			if d.Dominates(pr) {
				header = d
			}
		}
	}
	// generic body read: calls to makeSafe or io.ReadFull whose buffer is p[:recordLen]-like (not l.buf)
	isGeneric := func(in ssa.Instruction) bool {
		ci, ok := in.(ssa.CallInstruction)
		if !ok {
			return false
		}
		if calleeRepoName(ci) == "mcap.makeSafe" {
			return true
		}
		if calleeIs(ci, "io.ReadFull") {
			if sl, ok := ci.Common().Args[1].(*ssa.Slice); ok {
				if _, isConst := sl.High.(*ssa.Const); !isConst && !loadOfField(sl.X, "Lexer", "buf") {
					return true
				}
			}
		}
		return false
	}
	seen := map[*ssa.BasicBlock]bool{}
	if header != nil {
		seen[header] = true
	}
	stack := []*ssa.BasicBlock{armEntry}
	reached := false
	for len(stack) > 0 {
		b := stack[len(stack)-1]
		stack = stack[:len(stack)-1]
		if seen[b] {
			continue
		}
		seen[b] = true
		for _, in := range b.Instrs {
			if isGeneric(in) {
				reached = true
			}
		}
		stack = append(stack, b.Succs...)
	}
	if reached {
		r.violated("C20.a", fname, "attachment arm leaves before the generic record read", p.pos(armEntry.Instrs[0].Pos()),
			"on some path an attachment record falls through to the generic path, which allocates and reads the whole record body; attachments of any size must stream in constant memory")
	} else {
		r.held("C20.a", fname, "attachment arm leaves before the generic record read", p.pos(armEntry.Instrs[0].Pos()), "every path continues with the next record")
	}
}

func checkSlotAccounting(p *Program, r *Result) {
	type st struct {
		fn   *ssa.Function
		in   *ssa.Store
		kind string
	}
	var stores []st
	for _, fn := range p.repoFunctions(pkgMcap) {
		for _, s := range fieldStores(fn, "chunkSlot", "unreadMessages") {
			kind := "other"
			if b, ok := s.Val.(*ssa.BinOp); ok && loadOfField(b.X, "chunkSlot", "unreadMessages") {
				if c, ok := b.Y.(*ssa.Const); ok && c.Value != nil && c.Value.String() == "1" {
					if b.Op == token.ADD {
						kind = "inc"
					} else if b.Op == token.SUB {
						kind = "dec"
					}
				}
			}
			stores = append(stores, st{fn, s, kind})
		}
	}
	inc, dec := 0, 0
	// loadChunk / NextInto and the unexported helpers they are split into
	inRegion := func(root string, fn *ssa.Function) bool {
		rf := p.lookupFunc(pkgMcap, root)
		if rf == nil {
			return false
		}
		for _, g := range regionOf(p, rf, 3) {
			if g == fn {
				return true
			}
		}
		return false
	}
	for _, s := range stores {
		fname := funcName(s.fn)
		pos := p.pos(s.in.Pos())
		switch {
		case s.kind == "inc" && inRegion("indexedMessageIterator.loadChunk", s.fn):
			// paired with an append to it.messageIndexes: the append dominates the increment and every path from
			// the append round the record loop passes the increment
			paired := false
			for _, fs := range instrsOf(s.fn) {
				if !storesRoleField(p, fs, p.roles().qType, p.roles().qField, 1) {
					continue
				}
				if !(fs.Block() == s.in.Block() || fs.Block().Dominates(s.in.Block())) {
					continue
				}
				var header *ssa.BasicBlock
				for d := fs.Block(); d != nil && header == nil; d = d.Idom() {
					for _, pr := range d.Preds {
						if d.Dominates(pr) {
							header = d
						}
					}
				}
				if header == nil {
					continue
				}
				target := ssa.Instruction(s.in)
				if fs.Block() == s.in.Block() || allPathsHitBefore(fs.Block(), header, s.fn, func(x ssa.Instruction) bool { return x == target }) {
					paired = true
				}
			}
			if paired {
				inc++
				r.held("C20.b", fname, "unreadMessages++ with the index append", pos, "one increment per appended entry")
			} else {
				r.violated("C20.b", fname, "unreadMessages++ with the index append", pos, "the increment is not in the block that appends the message index entry")
			}
		case s.kind == "dec" && inRegion("indexedMessageIterator.NextInto", s.fn):
			paired := false
			for _, in := range s.in.Block().Instrs {
				if storesRoleField(p, in, p.roles().cType, p.roles().cField, 1) {
					paired = true
				}
			}
			if paired {
				dec++
				r.held("C20.b", fname, "unreadMessages-- with the cursor advance", pos, "one decrement per consumed entry")
			} else {
				r.violated("C20.b", fname, "unreadMessages-- with the cursor advance", pos, "the decrement is not in the block that advances curMessageIndex")
			}
		default:
			r.violated("C20.b", fname, "store to chunkSlot.unreadMessages ("+s.kind+")", pos,
				"the unread counter of a chunk slot may only be incremented by one per indexed message and decremented by one per yielded message; any other update makes slots look busy (never reused: memory grows with the file) or free while still in use")
		}
	}
	if inc == 0 {
		r.violated("C20.b", "mcap.indexedMessageIterator.loadChunk", "unreadMessages++ with the index append", "", "no increment found: every slot looks free and is overwritten while its messages are still pending")
	}
	if dec == 0 {
		r.violated("C20.b", "mcap.indexedMessageIterator.NextInto", "unreadMessages-- with the cursor advance", "", "no decrement found: slots are never released, one decompressed chunk is retained per chunk of the file")
	}
}

func checkReuseBeforeGrow(p *Program, r *Result) {
	fn := p.lookupFunc(pkgMcap, "indexedMessageIterator.loadChunk")
	if fn == nil {
		return
	}
	fname := funcName(fn)
	// append(it.chunkSlots, ...) dominated by an If on the "found a free slot" result
	found := false
	var all []ssa.Instruction
	for _, m := range iteratorAndQueueMethods(p) {
		if m.Blocks != nil {
			all = append(all, instrsOf(m)...)
		}
	}
	for _, in := range all {
		c, ok := in.(*ssa.Call)
		if !ok {
			continue
		}
		b, isB := c.Call.Value.(*ssa.Builtin)
		if !isB || b.Name() != "append" || !loadOfField(c.Call.Args[0], "indexedMessageIterator", "chunkSlots") {
			continue
		}
		found = true
		// some dominating If compares a value that depends on a scan testing unreadMessages == 0
		guarded := false
		for d := c.Block(); d != nil; d = d.Idom() {
			if iff, ok := d.Instrs[len(d.Instrs)-1].(*ssa.If); ok && d != c.Block() {
				if dependsOnUnreadScan(iff.Cond, map[ssa.Value]bool{}) {
					guarded = true
				}
			}
		}
		fname := funcName(c.Parent())
		if guarded {
			r.held("C20.c", fname, "new slot only when none is free", p.pos(c.Pos()), "append(it.chunkSlots, …) is guarded by the failed search for a slot with unreadMessages == 0")
		} else {
			r.violated("C20.c", fname, "new slot only when none is free", p.pos(c.Pos()), "a chunk slot is appended without first looking for a slot whose messages were all consumed; one decompressed chunk is retained per chunk of the file")
		}
	}
	if !found {
		r.undecided("C20.c", fname, "slot allocation", p.pos(fn.Pos()), "no append to it.chunkSlots found")
	}
	// the test that makes a slot reusable is `unreadMessages == 0` alone: a further condition (capacity, age, …) lets
	// drained slots be passed over, and every passed-over slot keeps its buffer for the life of the iterator
	for _, in := range all {
		b, ok := in.(*ssa.BinOp)
		if !ok || b.Op != token.EQL && b.Op != token.NEQ {
			continue
		}
		var other ssa.Value
		if loadOfField(b.X, "chunkSlot", "unreadMessages") {
			other = b.Y
		} else if loadOfField(b.Y, "chunkSlot", "unreadMessages") {
			other = b.X
		} else {
			continue
		}
		if c, ok := other.(*ssa.Const); !ok || c.Value == nil || c.Value.String() != "0" {
			continue
		}
		for _, ref := range *b.Referrers() {
			iff, ok := ref.(*ssa.If)
			if !ok {
				continue
			}
			free := iff.Block().Succs[0]
			if b.Op == token.NEQ {
				free = iff.Block().Succs[1]
			}
			extra := ""
			if i2, ok := free.Instrs[len(free.Instrs)-1].(*ssa.If); ok && len(free.Preds) == 1 {
				extra = "a drained slot is accepted only if additionally " + strings.SplitN(i2.Cond.String(), "\n", 2)[0]
			}
			// the test itself must not sit behind another per-slot condition
			if pb := iff.Block(); len(pb.Preds) == 1 {
				if i0, ok := pb.Preds[0].Instrs[len(pb.Preds[0].Instrs)-1].(*ssa.If); ok {
					if _, isBin := i0.Cond.(*ssa.BinOp); isBin && !isRangeTest(i0) {
						extra = "the drained-slot test is only reached if " + strings.SplitN(i0.Cond.String(), "\n", 2)[0]
					}
				}
			}
			fn2 := funcName(b.Parent())
			if extra == "" {
				r.held("C20.c", fn2, "a slot is reusable as soon as it has no unread messages", p.pos(b.Pos()), "unreadMessages == 0 is the only condition")
			} else {
				r.violated("C20.c", fn2, "a slot is reusable as soon as it has no unread messages", p.pos(b.Pos()),
					extra+"; slots that fail the extra condition are skipped, a new slot is appended instead, and the skipped slot keeps its buffer: memory grows with the number of chunks")
			}
		}
	}
	// slot buffer: allocation guarded by a capacity test
	type bufSite struct {
		f      *ssa.Function
		tn, fl string
	}
	var sites []bufSite
	for _, m := range iteratorAndQueueMethods(p) {
		if m.Blocks != nil {
			sites = append(sites, bufSite{m, "chunkSlot", "buf"})
		}
	}
	for _, lf := range p.repoFunctions(pkgMcap) {
		if len(fieldStores(lf, "Lexer", "uncompressedChunk")) > 0 {
			sites = append(sites, bufSite{lf, "Lexer", "uncompressedChunk"})
		}
	}
	for _, site := range sites {
		f := site.f
		name := struct{ tn, f string }{site.tn, site.fl}
		for _, st := range fieldStores(f, name.tn, name.f) {
			oc := &originCtx{p: p}
			org := oc.origins(st.Val)
			if len(org) != 1 || org[0] != "fresh" {
				continue
			}
			guarded := false
			for d := st.Block(); d != nil; d = d.Idom() {
				if iff, ok := d.Instrs[len(d.Instrs)-1].(*ssa.If); ok && d != st.Block() {
					if b, ok := iff.Cond.(*ssa.BinOp); ok && (b.Op == token.LSS || b.Op == token.GTR || b.Op == token.LEQ || b.Op == token.GEQ) {
						for _, v := range []ssa.Value{b.X, b.Y} {
							if c, ok := stripConv(v).(*ssa.Call); ok {
								if bi, ok := c.Call.Value.(*ssa.Builtin); ok && (bi.Name() == "cap" || bi.Name() == "len") && loadOfField(c.Call.Args[0], name.tn, name.f) {
									guarded = true
								}
							}
						}
					}
				}
			}
			construct := "allocation of " + name.tn + "." + name.f + " only when too small"
			if guarded {
				r.held("C20.c", funcName(f), construct, p.pos(st.Pos()), "guarded by a capacity/length test of the existing buffer")
			} else {
				r.violated("C20.c", funcName(f), construct, p.pos(st.Pos()), "a fresh buffer is allocated for every chunk although the existing one may be large enough")
			}
		}
	}
}

// dependsOnUnreadScan: the value derives (through phis/comparisons) from a test of unreadMessages against 0.
func dependsOnUnreadScan(v ssa.Value, seen map[ssa.Value]bool) bool {
	if v == nil || seen[v] {
		return false
	}
	seen[v] = true
	switch x := v.(type) {
	case *ssa.BinOp:
		if loadOfField(x.X, "chunkSlot", "unreadMessages") || loadOfField(x.Y, "chunkSlot", "unreadMessages") {
			return true
		}
		return dependsOnUnreadScan(x.X, seen) || dependsOnUnreadScan(x.Y, seen)
	case *ssa.Phi:
		// the slot index phi: one edge comes from the block where the free slot was found (controlled by the test)
		for i, e := range x.Edges {
			if dependsOnUnreadScan(e, seen) {
				return true
			}
			pr := x.Block().Preds[i]
			for d := pr; d != nil; d = d.Idom() {
				if iff, ok := d.Instrs[len(d.Instrs)-1].(*ssa.If); ok {
					if b, ok := iff.Cond.(*ssa.BinOp); ok && (loadOfField(b.X, "chunkSlot", "unreadMessages") || loadOfField(b.Y, "chunkSlot", "unreadMessages")) {
						return true
					}
				}
			}
		}
	case *ssa.UnOp:
		return dependsOnUnreadScan(x.X, seen)
	case *ssa.Extract:
		return dependsOnUnreadScan(x.Tuple, seen)
	case *ssa.Call:
		// a search helper (repo function, or a library search given a predicate closure) that tests unreadMessages
		if f := x.Call.StaticCallee(); f != nil && testsUnread(f, 0) {
			return true
		}
		for _, a := range x.Call.Args {
			if cl := closureOf(a); cl != nil && testsUnread(cl, 0) {
				return true
			}
		}
	}
	return false
}

// testsUnread: the function (or a repo function it calls) compares chunkSlot.unreadMessages with something.
func testsUnread(f *ssa.Function, depth int) bool {
	if f == nil || f.Blocks == nil || depth > 2 {
		return false
	}
	for _, in := range instrsOf(f) {
		switch x := in.(type) {
		case *ssa.BinOp:
			if loadOfField(x.X, "chunkSlot", "unreadMessages") || loadOfField(x.Y, "chunkSlot", "unreadMessages") {
				return true
			}
		case *ssa.Call:
			if g := x.Call.StaticCallee(); g != nil && g != f && g.Pkg != nil && g.Pkg.Pkg.Path() == pkgMcap && testsUnread(g, depth+1) {
				return true
			}
			for _, a := range x.Call.Args {
				if cl := closureOf(a); cl != nil && testsUnread(cl, depth+1) {
					return true
				}
			}
		}
	}
	return false
}

// isRangeTest: the If is the bounds test of a range/for loop (index < len).
func isRangeTest(iff *ssa.If) bool {
	b, ok := iff.Cond.(*ssa.BinOp)
	if !ok || b.Op != token.LSS {
		return false
	}
	if c, ok := b.Y.(*ssa.Call); ok {
		if bi, ok := c.Call.Value.(*ssa.Builtin); ok && bi.Name() == "len" {
			return true
		}
	}
	_, isPhi := b.X.(*ssa.Phi)
	return isPhi
}

// storesRoleField: in stores into the given struct field, or calls a package function that does (depth levels down) -
// it.queue.push(x) appends to the queue, it.queue.pop() advances the cursor.
func storesRoleField(p *Program, in ssa.Instruction, typ, field string, depth int) bool {
	switch x := in.(type) {
	case *ssa.Store:
		tn, f, _, ok := fieldRef(x.Addr)
		return ok && tn == typ && f == field
	case ssa.CallInstruction:
		g := x.Common().StaticCallee()
		if g == nil || g.Blocks == nil || depth <= 0 || !p.isRepoFunc(g) {
			return false
		}
		for _, in2 := range instrsOf(g) {
			if storesRoleField(p, in2, typ, field, depth-1) {
				return true
			}
		}
	}
	return false
}
