package main

import (
	"go/ast"
	"os"
	"path/filepath"
)

func init() { register("C05", true, checkC05) }

// record kinds: spec name -> Go struct / encoder / decoder
type recordKind struct {
	Spec    string
	GoType  string
	Encoder string
	Decoder string
	OpConst string
}

var recordKinds = []recordKind{
	{"Header", "Header", "WriteHeader", "ParseHeader", "OpHeader"},
	{"Footer", "Footer", "WriteFooter", "ParseFooter", "OpFooter"},
	{"Schema", "Schema", "WriteSchema", "ParseSchema", "OpSchema"},
	{"Channel", "Channel", "WriteChannel", "ParseChannel", "OpChannel"},
	{"Message", "Message", "WriteMessage", "PopulateFrom", "OpMessage"},
	{"Chunk", "Chunk", "WriteChunkWithIndexes", "ParseChunk", "OpChunk"},
	{"MessageIndex", "MessageIndex", "WriteMessageIndex", "ParseMessageIndex", "OpMessageIndex"},
	{"ChunkIndex", "ChunkIndex", "WriteChunkIndex", "ParseChunkIndex", "OpChunkIndex"},
	{"Attachment", "Attachment", "WriteAttachment", "parseAttachmentReader", "OpAttachment"},
	{"Metadata", "Metadata", "WriteMetadata", "ParseMetadata", "OpMetadata"},
	{"DataEnd", "DataEnd", "WriteDataEnd", "ParseDataEnd", "OpDataEnd"},
	{"AttachmentIndex", "AttachmentIndex", "WriteAttachmentIndex", "ParseAttachmentIndex", "OpAttachmentIndex"},
	{"MetadataIndex", "MetadataIndex", "WriteMetadataIndex", "ParseMetadataIndex", "OpMetadataIndex"},
	{"Statistics", "Statistics", "WriteStatistics", "ParseStatistics", "OpStatistics"},
	{"SummaryOffset", "SummaryOffset", "WriteSummaryOffset", "ParseSummaryOffset", "OpSummaryOffset"},
}

// goAliases: implementation field label -> spec label, confirmed by reading (DESIGN.md E1).
var goAliases = map[string]string{
	"data_size": "#len(data)", // Attachment: DataSize is the length prefix of data
	"summary_crc": "summary_crc",
}

func findFuncDecl(g *goLayouts, name string) *ast.FuncDecl {
	var out *ast.FuncDecl
	for fn, fd := range g.decls {
		if fn.Name() == name {
			if out == nil || fd.Recv != nil {
				out = fd
			}
		}
	}
	return out
}

func loadSpec(p *Program) ([]specRecord, error) {
	b, err := os.ReadFile(filepath.Join(p.RepoRoot, "website/docs/spec/index.md"))
	if err != nil {
		return nil, err
	}
	return parseSpec(string(b))
}

func checkC05(p *Program, r *Result) {
	r.Explanation = "Structural necessary conditions of 'writer output is a spec-valid file whose every pointer is exact': " +
		"(C05.a) for each of the 15 record kinds the Go encoder's layout (fields, widths, order, framing opcode), extracted from the typed AST with helpers summarised recursively, equals the table in website/docs/spec/index.md; " +
		"(C05.s) the size reserved in the reusable message buffer covers the bytes then written into it; " +
		"(C05.b) each offset field (attachment/metadata index offsets, chunk start, message index offsets, in-chunk message offsets, summary group starts, footer summary start and summary-offset start) is a position snapshot " +
		"after which the next write to the sink, on every path, is the record the field designates (or the constant 0 where the spec allows it); " +
		"(C05.c) each length (chunk length, message index length, group lengths, metadata index length) is the difference of the two snapshots that bracket exactly the designated writes, and the chunk index repeats the chunk header's sizes and times; " +
		"(C05.d) in flushActiveChunk the compressor is closed and CRC, size and bytes are read before they are reset, chunk times are the running values or 0 for a message-less chunk, and per-chunk accumulators start fresh for the next chunk; " +
		"(C05.m) a map or slice stored into an index record that is retained until Close is created in the same call, never a container the Writer reuses; " +
		"(C05.r) the buffer flushActiveChunk reads the chunk bytes from is the one the compressors were built over (not replaced after construction unless every compressor's Reset re-targets); " +
		"(C05.p) where an encoder writes a length prefix and then emits elements in a loop, the prefix is computed from the same element count as the loop emits (accessors inlined; counting loops compared by header and filter); " +
		"(C05.e) every successful path of writeSummarySection that wrote records appended a summary offset (Close derives 'no summary' from an empty list)."
	r.NotDecided = []string{"whole-file grammar; numeric exactness of offsets/lengths/times on concrete inputs"}
	r.rule("C05.a", "encoder layout equals the spec table, field by field", 30)
	r.rule("C05.s", "reserved message-buffer size >= bytes written into it", 15)
	lf, err := gatherLayouts(p)
	if err != nil {
		r.undecided("C05.a", "spec", "record tables", "", err.Error())
		return
	}
	lf.checkEncVsSpec(p, r, "C05.a")
	lf.checkSizes(p, r, "C05.s")
	r.rule("C05.b", "every offset field is a position snapshot taken immediately before the record it designates", 6)
	r.rule("C05.c", "every length is the difference of the snapshots bracketing exactly the designated record(s)", 6)
	r.rule("C05.d", "chunk header values are captured before the buffers/counters are reset, and per-chunk state starts fresh", 9)
	r.rule("C05.e", "a summary offset is recorded whenever summary records were written", 1)
	spec := sinkSpec()
	R := p.reachSet(spec)
	isSink := p.scopeFn(spec, R)
	checkOffsetsAndLengths(p, r, isSink)
	checkFlush(p, r)
	checkSummaryOffsetsComplete(p, r, isSink)
	checkWriteRecordCount(p, r)
	r.rule("C05.o", "writeSummarySection hands the recorded summary groups back to Close (footer summary_start)", 1)
	checkSummaryOffsetsReturned(p, r, "C05.o")
	r.rule("C05.m", "retained index records own their maps/slices", 1)
	checkRetainedRecordsOwnContainers(p, r, "C05.m")
	r.rule("C05.r", "the chunk buffer read at flush is the buffer the compressor writes into", 1)
	checkChunkBufferIdentity(p, r, "C05.r")
	r.rule("C05.p", "a length prefix is computed from the quantity the following loop emits", 2)
	checkPrefixLoops(p, r, "C05.p", pkgMcap)
	r.rule("C05.x", "MessageIndex.Add records its time and position arguments in a new entry and keeps the earlier ones", 4)
	checkMessageIndexAdd(p, r, "C05.x")
	checkPooledMessageIndexes(p, r, "C05.x")
	r.rule("C05.i", "index records are written as they were accumulated: encoders do not modify or reorder the record they are handed", 1)
	checkWriterDoesNotMutateInputs(p, r, "C05.i")
}
