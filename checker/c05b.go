package main

import (
	"fmt"
	"go/token"
	"sort"
	"strings"

	"golang.org/x/tools/go/ssa"
)

// nextSinkCalls: the first sink-reaching call on each path after `from` (by callee label); "<exit>" if a path
// reaches a successful return without one. Error returns are ignored.
var nextSinkDepth int

func nextSinkCalls(p *Program, fn *ssa.Function, from ssa.Instruction, isSink func(ssa.CallInstruction) (bool, string), until ...ssa.Instruction) map[string]bool {
	out := map[string]bool{}
	seen := map[*ssa.BasicBlock]bool{}
	var walk func(b *ssa.BasicBlock, start int)
	walk = func(b *ssa.BasicBlock, start int) {
		for i := start; i < len(b.Instrs); i++ {
			in := b.Instrs[i]
			for _, u := range until {
				if in == u {
					return // end of the region of interest: nothing was written before it on this path
				}
			}
			if ci, ok := in.(ssa.CallInstruction); ok {
				if ok, _ := isSink(ci); ok {
					// a transparent helper: what it writes first is what is written next; if it can return without
					// writing, the walk goes on behind the call
					if g := ci.Common().StaticCallee(); g != nil && p.transparent(g) && g != fn && nextSinkDepth < 3 {
						nextSinkDepth++
						inner := nextSinkCalls(p, g, g.Blocks[0].Instrs[0], isSink)
						// the first instruction itself is not examined by the walk above; check it
						if c0, ok := g.Blocks[0].Instrs[0].(ssa.CallInstruction); ok {
							if ok, _ := isSink(c0); ok {
								nm := calleeRepoName(c0)
								if nm == "" {
									nm = trimPkg(staticCalleeName(c0.Common()))
								}
								inner = map[string]bool{nm: true}
							}
						}
						nextSinkDepth--
						passThrough := false
						for n := range inner {
							if n == "<exit>" {
								passThrough = true
							} else {
								out[n] = true
							}
						}
						if !passThrough {
							return
						}
						continue
					}
					name := calleeRepoName(ci)
					if name == "" {
						name = trimPkg(staticCalleeName(ci.Common()))
					}
					out[name] = true
					return
				}
			}
			if ret, ok := in.(*ssa.Return); ok {
				n := len(ret.Results)
				if n > 0 && isErrorType(fn.Signature.Results().At(n-1).Type()) && !isNilConst(ret.Results[n-1]) && !mayBeNilError(ret.Results[n-1]) {
					return
				}
				if n > 0 && errKnownNonNil(ret, ret.Results[n-1]) {
					return
				}
				out["<exit>"] = true
				return
			}
		}
		for _, s := range b.Succs {
			if !seen[s] {
				seen[s] = true
				walk(s, 0)
			}
		}
	}
	walk(from.Block(), blockIndexOf(from)+1)
	return out
}

func setString(m map[string]bool) string {
	var ks []string
	for k := range m {
		ks = append(ks, k)
	}
	sort.Strings(ks)
	return strings.Join(ks, ", ")
}

// sizeCallOf: v is (a conversion of) a call to writeSizer.Size / countingCRCWriter.Size.
func sizeCallOf(v ssa.Value) *ssa.Call {
	v = stripConv(v)
	if c, ok := v.(*ssa.Call); ok {
		switch calleeRepoName(c) {
		case "mcap.writeSizer.Size", "mcap.countingCRCWriter.Size":
			return c
		}
	}
	return nil
}

func checkOffsetsAndLengths(p *Program, r *Result, isSink func(ssa.CallInstruction) (bool, string)) {
	type offsetField struct {
		fn, typ, field string
		allowed        []string // callee labels that may be the next sink call after the snapshot
		zeroOK         bool
	}
	fields := []offsetField{
		{"Writer.WriteAttachment", "AttachmentIndex", "Offset", []string{"mcap.writeSizer.Write"}, false},
		{"Writer.WriteMetadata", "MetadataIndex", "Offset", []string{"mcap.Writer.writeRecord"}, false},
		{"Writer.WriteChunkWithIndexes", "ChunkIndex", "ChunkStartOffset", []string{"mcap.writeSizer.Write"}, false},
		{"Writer.Close", "Footer", "SummaryStart", []string{"mcap.Writer.writeSummarySection"}, true},
		{"Writer.Close", "Footer", "SummaryOffsetStart", []string{"mcap.Writer.WriteSummaryOffset", "mcap.Writer.WriteFooter"}, true},
	}
	for _, of := range fields {
		fn := p.lookupFunc(pkgMcap, of.fn)
		if fn == nil {
			r.undecided("C05.b", "mcap."+of.fn, of.typ+"."+of.field, "", "function not found")
			continue
		}
		fname := funcName(fn)
		stores := regionStores(regionOf(p, fn, 3), of.typ, of.field)
		if len(stores) == 0 {
			r.violated("C05.b", fname, "snapshot for "+of.typ+"."+of.field, p.pos(fn.Pos()), "the field is never set")
			continue
		}
		for _, st := range stores {
			checkSnapshot(p, r, st.Parent(), st.Val, of.typ+"."+of.field, of.allowed, of.zeroOK, st, isSink)
		}
		// the two footer offsets have two legal values each: the position when the section exists, 0 when it does not.
		// Both alternatives must be there (a bare snapshot names a summary that was never written; a bare 0 hides one
		// that was)
		if of.typ == "Footer" {
			hasSnap, hasZero, unknown := false, false, false
			for _, st := range stores {
				var alts []ssa.Value
				if phi, ok := stripConv(st.Val).(*ssa.Phi); ok {
					alts = phi.Edges
				} else {
					alts = []ssa.Value{st.Val}
				}
				for _, a := range alts {
					switch {
					case sizeCallOf(a) != nil:
						hasSnap = true
					default:
						if c, ok := stripConv(a).(*ssa.Const); ok && c.Value != nil && c.Value.String() == "0" {
							hasZero = true
						} else if hsc, _, zr := helperSnapshot(p, a); hsc != nil {
							hasSnap = true
							hasZero = hasZero || zr
						} else {
							unknown = true
						}
					}
				}
			}
			{
				st := stores[0]
				construct := of.typ + "." + of.field + " is the section's position, or 0 when the section is absent"
				switch {
				case unknown:
					r.note("C05.b", funcName(st.Parent()), construct, p.pos(st.Pos()), "value form not recognised: not judged")
				case hasSnap && hasZero:
					r.held("C05.b", funcName(st.Parent()), construct, p.pos(st.Pos()), "both alternatives present")
				case !hasSnap:
					r.violated("C05.b", funcName(st.Parent()), construct, p.pos(st.Pos()), of.typ+"."+of.field+" is always 0: readers cannot find the section although it is written")
				default:
					r.violated("C05.b", funcName(st.Parent()), construct, p.pos(st.Pos()), of.typ+"."+of.field+" is never 0: for a file whose section is empty the footer points at bytes that are not that section (the specification requires 0)")
				}
			}
		}
	}
	// MessageIndexOffsets[channel] = w.w.Size() immediately before WriteMessageIndex of the same index
	if fn0 := p.lookupFunc(pkgMcap, "Writer.WriteChunkWithIndexes"); fn0 != nil {
		n := 0
		fn := fn0
		var mus []*ssa.MapUpdate
		for _, rf := range regionOf(p, fn0, 3) {
			for _, in := range instrsOf(rf) {
				if mu, ok := in.(*ssa.MapUpdate); ok {
					mus = append(mus, mu)
				}
			}
		}
		for _, mu := range mus {
			fn = mu.Parent()
			n++
			checkSnapshot(p, r, fn, mu.Value, "ChunkIndex.MessageIndexOffsets[channel]", []string{"mcap.Writer.WriteMessageIndex"}, false, mu, isSink)
			// key is the ChannelID of the index that is written next
			if !loadOfField(mu.Key, "MessageIndex", "ChannelID") {
				r.violated("C05.b", funcName(fn), "key of ChunkIndex.MessageIndexOffsets", p.pos(mu.Pos()), "the offset is not recorded under the channel id of the message index that follows")
			}
		}
		if n == 0 {
			r.violated("C05.b", funcName(fn), "snapshot for ChunkIndex.MessageIndexOffsets[channel]", p.pos(fn.Pos()), "message index offsets are never recorded")
		}
	}
	// in-chunk message offsets: idx.Add(m.LogTime, compressedWriter.Size()) immediately before the message record
	if fn := p.lookupFunc(pkgMcap, "Writer.WriteMessage"); fn != nil {
		n := 0
		var adds []ssa.CallInstruction
		for _, rf := range regionOf(p, fn, 3) {
			adds = append(adds, callsIn(rf, func(ci ssa.CallInstruction) bool { return calleeRepoName(ci) == "mcap.MessageIndex.Add" })...)
		}
		for _, ci := range adds {
			n++
			args := ci.Common().Args
			// the position may be handed to the helper that calls Add: judge the snapshot where it is taken
			if prm, isPrm := args[2].(*ssa.Parameter); isPrm {
				idx := -1
				for i, q := range ci.Parent().Params {
					if q == prm {
						idx = i
					}
				}
				sites := p.staticCallers(ci.Parent())
				if idx >= 0 && len(sites) > 0 {
					for _, s := range sites {
						if idx < len(s.Common().Args) {
							checkSnapshot(p, r, s.Parent(), s.Common().Args[idx], "MessageIndexEntry.Offset", []string{"mcap.Writer.writeRecord"}, false, s, isSink)
						}
					}
					if !isMessageLogTime(p, args[1]) {
						r.violated("C05.b", funcName(ci.Parent()), "MessageIndexEntry.Timestamp", p.pos(ci.Pos()), "the message index entry does not carry the message's log time")
					}
					continue
				}
			}
			checkSnapshot(p, r, ci.Parent(), args[2], "MessageIndexEntry.Offset", []string{"mcap.Writer.writeRecord"}, false, ci, isSink)
			if !isMessageLogTime(p, args[1]) {
				r.violated("C05.b", funcName(ci.Parent()), "MessageIndexEntry.Timestamp", p.pos(ci.Pos()), "the message index entry does not carry the message's log time")
			}
		}
		if n == 0 {
			r.violated("C05.b", funcName(fn), "snapshot for MessageIndexEntry.Offset", p.pos(fn.Pos()), "messages are not entered into the message index")
		}
	}
	// SummaryOffset groups
	if fn := p.lookupFunc(pkgMcap, "Writer.writeSummarySection"); fn != nil {
		groupWriter := map[string]string{"OpSchema": "mcap.Writer.WriteSchema", "OpChannel": "mcap.Writer.WriteChannel", "OpStatistics": "mcap.Writer.WriteStatistics",
			"OpChunkIndex": "mcap.Writer.WriteChunkIndex", "OpAttachmentIndex": "mcap.Writer.WriteAttachmentIndex", "OpMetadataIndex": "mcap.Writer.WriteMetadataIndex"}
		opName := map[string]string{}
		for _, k := range recordKinds {
			if v, ok := opConstValue(p, k.OpConst); ok {
				opName[fmt.Sprint(v)] = k.OpConst
			}
		}
		// group literals: stores to SummaryOffset.{GroupOpcode,GroupStart,GroupLength} on the same base
		type grp struct{ op, start, length *ssa.Store }
		groups := map[ssa.Value]*grp{}
		var order []ssa.Value
		scanFns := append([]*ssa.Function{fn}, fn.AnonFuncs...)
		for _, f := range scanFns {
			for _, in := range instrsOf(f) {
				st, ok := in.(*ssa.Store)
				if !ok {
					continue
				}
				tn, fld, base, ok := fieldRef(st.Addr)
				if !ok || tn != "SummaryOffset" {
					continue
				}
				g := groups[base]
				if g == nil {
					g = &grp{}
					groups[base] = g
					order = append(order, base)
				}
				switch fld {
				case "GroupOpcode":
					g.op = st
				case "GroupStart":
					g.start = st
				case "GroupLength":
					g.length = st
				}
			}
		}
		for _, base := range order {
			g := groups[base]
			if g.op == nil || g.start == nil || g.length == nil {
				r.violated("C05.b", funcName(fn), "SummaryOffset literal", p.pos(base.Pos()), "a summary offset is created without opcode, start or length")
				continue
			}
			op := ""
			if c, ok := g.op.Val.(*ssa.Const); ok && c.Value != nil {
				op = opName[c.Value.String()]
			}
			if op == "" {
				// built in a helper closure from parameters: the closure form is checked by C05.e; skip naming
				continue
			}
			wr := groupWriter[op]
			checkSnapshot(p, r, fn, g.start.Val, "SummaryOffset.GroupStart("+op+")", []string{wr}, false, g.start, isSink, g.length, g.start)
			// length = Size() - start, with only the group's writer in between
			checkDifference(p, r, fn, g.length.Val, g.start.Val, "SummaryOffset.GroupLength("+op+")", []string{wr}, g.length, isSink)
		}
		// groups built by a helper from its parameters - h(op, start) { return &SummaryOffset{op, start, Size() - start} } -
		// or from the fields of a small state value that another helper filled in when the group began
		// (g := w.begin(op) … g.end())
		for _, ci := range callsIn(fn, func(ssa.CallInstruction) bool { return true }) {
			h := ci.Common().StaticCallee()
			if h == nil || h.Blocks == nil || !p.isRepoFunc(h) || h == fn {
				continue
			}
			var opSrc, startSrc, lenSrc *argSource
			lenOK := false
			var startLocal, lenSubLocal ssa.Value // start taken as a snapshot inside the helper itself
			for _, in := range instrsOf(h) {
				st, ok := in.(*ssa.Store)
				if !ok {
					continue
				}
				tn, fld, _, ok := fieldRef(st.Addr)
				if !ok || tn != "SummaryOffset" {
					continue
				}
				switch fld {
				case "GroupOpcode":
					opSrc = argSourceOf(h, st.Val)
				case "GroupStart":
					startSrc = argSourceOf(h, st.Val)
					if sizeCallOf(st.Val) != nil {
						startLocal = stripConv(st.Val)
					}
				case "GroupLength":
					if b, ok := stripConv(st.Val).(*ssa.BinOp); ok && b.Op == token.SUB && sizeCallOf(b.X) != nil {
						lenOK = true
						lenSrc = argSourceOf(h, b.Y)
						lenSubLocal = stripConv(b.Y)
					}
				}
			}
			if opSrc == nil && startSrc == nil && !lenOK {
				continue
			}
			// the helper does the whole group itself: snapshot, writes (through a function it is handed), literal
			if startLocal != nil && lenOK && lenSubLocal == startLocal {
				sc := sizeCallOf(startLocal)
				before := true
				for _, c2 := range callsIn(h, func(c2 ssa.CallInstruction) bool { ok, _ := isSink(c2); return ok }) {
					if !instrDominates(sc, c2) {
						before = false
					}
				}
				order = append(order, ci.Value())
				if before {
					r.held("C05.b", funcName(fn), "SummaryOffset built by "+funcName(h), p.pos(ci.Pos()), "start is a position snapshot taken in the helper before all of its writes; length is the current position minus that snapshot (which records follow is decided by the caller's table: pairing not judged)")
				} else {
					r.violated("C05.b", funcName(fn), "SummaryOffset built by "+funcName(h), p.pos(ci.Pos()), "the group's start snapshot is taken after the helper has already written to the sink")
				}
				continue
			}
			hname := funcName(h)
			args := ci.Common().Args
			op := ""
			if v, _, _ := opSrc.resolve(p, args); v != nil {
				if c, ok := v.(*ssa.Const); ok && c.Value != nil {
					op = opName[c.Value.String()]
				}
			}
			order = append(order, ci.Value())
			if op == "" || startSrc == nil || !lenOK || lenSrc == nil || *lenSrc != *startSrc {
				r.violated("C05.b", funcName(fn), "SummaryOffset built by "+hname, p.pos(ci.Pos()),
					"the helper does not build the group from (constant opcode, start, current position - start)")
				continue
			}
			sinkInHelper := false
			for _, c2 := range callsIn(h, func(c2 ssa.CallInstruction) bool { ok, _ := isSink(c2); return ok }) {
				_ = c2
				sinkInHelper = true
			}
			if sinkInHelper {
				r.violated("C05.c", funcName(fn), "SummaryOffset.GroupLength("+op+")", p.pos(ci.Pos()), "the helper that computes the group length also writes to the sink")
				continue
			}
			wr := groupWriter[op]
			startVal, beginSite, _ := startSrc.resolve(p, args)
			var ciInstr ssa.Instruction = ci
			switch {
			case startVal == nil:
				r.violated("C05.b", funcName(fn), "snapshot for SummaryOffset.GroupStart("+op+")", p.pos(ci.Pos()), "the group's start cannot be traced to a position snapshot")
			case beginSite == nil:
				checkSnapshot(p, r, fn, startVal, "SummaryOffset.GroupStart("+op+")", []string{wr}, false, ciInstr, isSink, ciInstr)
				if s1 := sizeCallOf(startVal); s1 != nil {
					checkBracket(p, r, fn, s1, ciInstr, "SummaryOffset.GroupLength("+op+")", []string{wr}, ciInstr, isSink)
				} else {
					r.violated("C05.c", funcName(fn), "SummaryOffset.GroupLength("+op+")", p.pos(ci.Pos()), "start is not a position snapshot")
				}
			default:
				// the snapshot was taken inside the begin-helper: what is written next is what follows it there and, after
				// the helper returns, what follows its call
				sc := sizeCallOf(startVal)
				construct := "snapshot for SummaryOffset.GroupStart(" + op + ")"
				if sc == nil {
					r.violated("C05.b", funcName(fn), construct, p.pos(ci.Pos()), "the group's start is not a position snapshot (Size())")
					break
				}
				next := nextSinkCalls(p, sc.Parent(), sc, isSink)
				if next["<exit>"] {
					delete(next, "<exit>")
					for n := range nextSinkCalls(p, fn, beginSite, isSink, ciInstr) {
						next[n] = true
					}
				}
				okAll := true
				detail := ""
				for n := range next {
					if n != wr {
						okAll = false
						detail = "after the snapshot the next write to the sink is " + n + ", expected " + wr
					}
				}
				if okAll {
					r.held("C05.b", funcName(fn), construct, p.pos(ci.Pos()), "position taken (in "+funcName(sc.Parent())+") immediately before "+wr)
				} else {
					r.violated("C05.b", funcName(fn), construct, p.pos(ci.Pos()), "SummaryOffset.GroupStart must be the file position of the first byte of the group: "+detail)
				}
				checkBracket(p, r, fn, beginSite, ciInstr, "SummaryOffset.GroupLength("+op+")", []string{wr}, ciInstr, isSink)
			}
		}
		if len(order) == 0 {
			r.violated("C05.b", funcName(fn), "SummaryOffset groups", p.pos(fn.Pos()), "no summary offsets are produced")
		}
	}
	// lengths in WriteChunkWithIndexes
	if fn := p.lookupFunc(pkgMcap, "Writer.WriteChunkWithIndexes"); fn != nil {
		var startVal ssa.Value
		for _, st := range fieldStores(fn, "ChunkIndex", "ChunkStartOffset") {
			startVal = st.Val
		}
		for _, st := range fieldStores(fn, "ChunkIndex", "ChunkLength") {
			checkDifference(p, r, fn, st.Val, startVal, "ChunkIndex.ChunkLength", []string{"mcap.writeSizer.Write"}, st, isSink)
		}
		for _, st := range fieldStores(fn, "ChunkIndex", "MessageIndexLength") {
			// = Size() after the indexes - Size() right after the chunk
			b, ok := stripConv(st.Val).(*ssa.BinOp)
			if !ok || b.Op != token.SUB || sizeCallOf(b.X) == nil || sizeCallOf(b.Y) == nil {
				r.violated("C05.c", funcName(fn), "ChunkIndex.MessageIndexLength", p.pos(st.Pos()), "not the difference of two position snapshots")
				continue
			}
			checkDifference(p, r, fn, st.Val, b.Y, "ChunkIndex.MessageIndexLength", []string{"mcap.Writer.WriteMessageIndex"}, st, isSink)
			// and its start snapshot is the end snapshot of the chunk
			for _, st2 := range fieldStores(fn, "ChunkIndex", "ChunkLength") {
				if b2, ok := stripConv(st2.Val).(*ssa.BinOp); ok && b2.Op == token.SUB && b2.X != b.Y {
					r.violated("C05.c", funcName(fn), "ChunkIndex.MessageIndexLength start", p.pos(st.Pos()), "the message index region does not start where the chunk record ends")
				}
			}
		}
		for _, pair := range [][2]string{{"CompressedSize", "Records"}, {"UncompressedSize", "UncompressedSize"}} {
			for _, st := range fieldStores(fn, "ChunkIndex", pair[0]) {
				v := stripConv(st.Val)
				ok := false
				if pair[0] == "CompressedSize" {
					if c, isC := v.(*ssa.Call); isC {
						if bi, isB := c.Call.Value.(*ssa.Builtin); isB && bi.Name() == "len" && loadOfField(c.Call.Args[0], "Chunk", "Records") {
							ok = true
						}
					}
				} else {
					ok = loadOfField(v, "Chunk", "UncompressedSize")
				}
				if ok {
					r.held("C05.c", funcName(fn), "ChunkIndex."+pair[0], p.pos(st.Pos()), "taken from the chunk being written")
				} else {
					r.violated("C05.c", funcName(fn), "ChunkIndex."+pair[0], p.pos(st.Pos()), "the chunk index does not state the size of the chunk it describes")
				}
			}
		}
		for _, tf := range []string{"MessageStartTime", "MessageEndTime"} {
			for _, st := range fieldStores(fn, "ChunkIndex", tf) {
				if loadOfField(st.Val, "Chunk", tf) {
					r.held("C05.c", funcName(fn), "ChunkIndex."+tf, p.pos(st.Pos()), "same value as the chunk header")
				} else {
					r.violated("C05.c", funcName(fn), "ChunkIndex."+tf, p.pos(st.Pos()), "chunk index time differs from the chunk header's")
				}
			}
		}
	}
	// MetadataIndex.Length = byte count returned by the record write
	if fn := p.lookupFunc(pkgMcap, "Writer.WriteMetadata"); fn != nil {
		for _, st := range fieldStores(fn, "MetadataIndex", "Length") {
			v := stripConv(st.Val)
			ok := false
			if ex, isEx := v.(*ssa.Extract); isEx && ex.Index == 0 {
				if c, isC := ex.Tuple.(*ssa.Call); isC && calleeRepoName(c) == "mcap.Writer.writeRecord" {
					ok = true
				}
			}
			if ok {
				r.held("C05.c", funcName(fn), "MetadataIndex.Length", p.pos(st.Pos()), "byte count returned by writeRecord (prefix + content)")
			} else {
				r.violated("C05.c", funcName(fn), "MetadataIndex.Length", p.pos(st.Pos()), "length is not the number of bytes written for the metadata record")
			}
		}
	}
}

// checkSnapshot: val is a position snapshot (Size()) or the constant 0, and the next sink write on every path after
// the snapshot is one of the allowed callees.
func checkSnapshot(p *Program, r *Result, fn *ssa.Function, val ssa.Value, what string, allowed []string, zeroOK bool, at ssa.Instruction, isSink func(ssa.CallInstruction) (bool, string), until ...ssa.Instruction) {
	fname := funcName(fn)
	construct := "snapshot for " + what
	vals := []ssa.Value{val}
	if phi, ok := stripConv(val).(*ssa.Phi); ok {
		vals = phi.Edges
	}
	okAll := true
	detail := ""
	for _, v := range vals {
		if c, ok := stripConv(v).(*ssa.Const); ok {
			if zeroOK && c.Value != nil && c.Value.String() == "0" {
				continue
			}
			okAll, detail = false, "constant "+c.String()
			continue
		}
		sc := sizeCallOf(v)
		var next map[string]bool
		if sc == nil {
			// the snapshot may be taken at the end of a transparent helper that returns it (e.g. "end the data section and
			// tell me where the summary starts"): what is written next is what follows the Size() call inside the helper
			// and, once the helper returns, what follows its call
			if hsc, site, zeroRet := helperSnapshot(p, v); hsc != nil && (!zeroRet || zeroOK) {
				next = nextSinkCalls(p, hsc.Parent(), hsc, isSink)
				if next["<exit>"] {
					delete(next, "<exit>")
					for n := range nextSinkCalls(p, site.Parent(), site, isSink, until...) {
						next[n] = true
					}
				}
				sc = hsc
			}
		}
		if sc == nil {
			okAll, detail = false, "value "+valueLabel(v)+" is not a position snapshot (Size())"
			continue
		}
		if next == nil {
			next = nextSinkCalls(p, sc.Parent(), sc, isSink, until...)
		}
		for n := range next {
			found := false
			for _, a := range allowed {
				if n == a {
					found = true
				}
			}
			if !found && !(n == "<exit>" && zeroOK) {
				okAll = false
				detail = "after the snapshot the next write to the sink is " + n + ", expected " + strings.Join(allowed, " or ")
			}
		}
	}
	if okAll {
		r.held("C05.b", fname, construct, p.pos(at.Pos()), "position taken immediately before "+strings.Join(allowed, "/"))
	} else {
		r.violated("C05.b", fname, construct, p.pos(at.Pos()), what+" must be the file position of the first byte of the record it designates: "+detail)
	}
}

// checkDifference: val = Size() - start, and between the two snapshots only the allowed writers touch the sink.
func checkDifference(p *Program, r *Result, fn *ssa.Function, val, start ssa.Value, what string, allowed []string, at ssa.Instruction, isSink func(ssa.CallInstruction) (bool, string)) {
	fname := funcName(fn)
	b, ok := stripConv(val).(*ssa.BinOp)
	if !ok || b.Op != token.SUB || sizeCallOf(b.X) == nil {
		r.violated("C05.c", fname, what, p.pos(at.Pos()), "not the difference between the position after the record(s) and their start position ("+valueLabel(val)+")")
		return
	}
	if start != nil && stripConv(b.Y) != stripConv(start) {
		r.violated("C05.c", fname, what, p.pos(at.Pos()), "the subtracted start is not the recorded start offset")
		return
	}
	s1, s2c := sizeCallOf(b.Y), sizeCallOf(b.X)
	if s1 == nil {
		r.violated("C05.c", fname, what, p.pos(at.Pos()), "start is not a position snapshot")
		return
	}
	checkBracket(p, r, fn, s1, s2c, what, allowed, at, isSink)
}

// checkBracket: between the snapshot s1 and the position s2 only the allowed writers touch the sink.
func checkBracket(p *Program, r *Result, fn *ssa.Function, s1 *ssa.Call, s2 ssa.Instruction, what string, allowed []string, at ssa.Instruction, isSink func(ssa.CallInstruction) (bool, string)) {
	fname := funcName(fn)
	// every sink call that lies between s1 and s2 must be an allowed writer (calls to unexported helpers are replaced by
	// the helpers' own calls)
	bad := ""
	for _, dc := range deepCalls(p, fn, 3) {
		if ok, _ := isSink(dc.in); !ok {
			continue
		}
		ci := dc.top()
		between := (ci.Block() == s1.Block() && blockIndexOf(ci) > blockIndexOf(s1) || reachableFromSuccs(s1.Block())[ci.Block()]) &&
			(ci.Block() == s2.Block() && blockIndexOf(ci) < blockIndexOf(s2) || reachableFromSuccs(ci.Block())[s2.Block()] && ci.Block() != s2.Block())
		if !between || !instrDominates(s1, ci) {
			continue
		}
		name := dc.name
		found := false
		for _, a := range allowed {
			if a == name {
				found = true
			}
		}
		if !found {
			bad = name
		}
	}
	if bad != "" {
		r.violated("C05.c", fname, what, p.pos(at.Pos()), "the bracketed region also contains writes by "+bad+"; the length would cover more than the designated record(s)")
	} else {
		r.held("C05.c", fname, what, p.pos(at.Pos()), "difference of the snapshots bracketing "+strings.Join(allowed, "/"))
	}
}

// checkFlush: C05.d
func checkFlush(p *Program, r *Result) {
	fn := p.lookupFunc(pkgMcap, "Writer.flushActiveChunk")
	wm := p.lookupFunc(pkgMcap, "Writer.WriteMessage")
	if fn == nil || wm == nil {
		r.undecided("C05.d", "mcap.Writer.flushActiveChunk", "anchor", "", "not found")
		return
	}
	// the flush may be split into helper methods (seal/reset/take): the rules look at flushActiveChunk with calls to
	// unexported helpers replaced by the helpers' own calls, and at stores anywhere in that region
	region := regionOf(p, fn, 3)
	fname := funcName(fn)
	calls := deepCalls(p, fn, 3)
	fnOrig := fn
	type pair struct{ a, b, what string }
	if af := accumulatorFacts(p, "countingCRCWriter"); af != nil {
		checkCapturedBeforeReset(p, r, "C05.d", fn, af, af.crcField, "UncompressedCRC", "chunk CRC read before it is reset")
		checkCapturedBeforeReset(p, r, "C05.d", fn, af, af.sizeField, "UncompressedSize", "uncompressed size read before it is reset")
	} else {
		r.undecided("C05.d", fname, "chunk writer accumulators", p.pos(fn.Pos()), "countingCRCWriter.Write does not update a size and a CRC field in a recognised way")
	}
	for _, pr := range []pair{
		{"mcap.countingCRCWriter.Close", "Buffer.Bytes", "compressor closed before the compressed bytes are taken"},
		{"Buffer.Bytes", "Buffer.Reset", "compressed bytes taken before the buffer is reset"},
	} {
		ia, ib := -1, -1
		for i, c := range calls {
			if ia < 0 && strings.HasSuffix(c.name, pr.a) {
				ia = i
			}
			if ib < 0 && strings.HasSuffix(c.name, pr.b) {
				ib = i
			}
		}
		// Size is also called at the top as the emptiness test; use the last Size before ResetSize
		if pr.a == "mcap.countingCRCWriter.Size" {
			ia = -1
			for i, c := range calls {
				if c.name == pr.a && (ib < 0 || i < ib) {
					// must be the one whose value is stored in Chunk.UncompressedSize
					if call, ok := c.in.(*ssa.Call); ok {
						for _, st := range regionStores(region, "Chunk", "UncompressedSize") {
							if flowsFromCall(st.Val, call, region) {
								ia = i
							}
						}
					}
				}
			}
		}
		switch {
		case ia < 0 || ib < 0:
			r.violated("C05.d", fname, pr.what, p.pos(fn.Pos()), "one of the two operations is missing from flushActiveChunk")
		case ia < ib && deepDominates(calls[ia], calls[ib]):
			r.held("C05.d", fname, pr.what, p.pos(calls[ia].in.Pos()), "in this order on every path")
		default:
			r.violated("C05.d", fname, pr.what, p.pos(calls[ib].in.Pos()), "the value is reset before it is captured for the chunk header")
		}
	}
	acc := p.chunkAcc()
	countGuarded := func(b *ssa.BasicBlock) bool {
		for d := b; d != nil; d = d.Idom() {
			if iff, isIf := d.Instrs[len(d.Instrs)-1].(*ssa.If); isIf && d != b {
				if bo, isB := iff.Cond.(*ssa.BinOp); isB && (acc.isCountLoad(bo.X) || acc.isCountLoad(bo.Y)) {
					return true
				}
			}
		}
		return false
	}
	// chunk times: running values when the chunk has messages, the constant 0 otherwise. classify gives, for a value
	// that becomes a chunk header time: zero (the constant 0 on some path), run (the running accumulator, read under the
	// message-count test, on some path), bad (anything else).
	var classify func(v ssa.Value, run fieldID, at *ssa.BasicBlock, depth int) (zero, running, bad bool)
	classify = func(v ssa.Value, run fieldID, at *ssa.BasicBlock, depth int) (zero, running, bad bool) {
		if depth > 4 {
			return false, false, true
		}
		switch x := v.(type) {
		case *ssa.Const:
			if x.Value != nil && x.Value.String() == "0" {
				return true, false, false
			}
			return false, false, true
		case *ssa.Phi:
			for i, e := range x.Edges {
				z, rn, b := classify(e, run, x.Block().Preds[i], depth+1)
				zero, running, bad = zero || z, running || rn, bad || b
			}
			return
		case *ssa.Extract:
			call, ok := x.Tuple.(*ssa.Call)
			if !ok {
				return false, false, true
			}
			g := call.Call.StaticCallee()
			if g == nil || g.Blocks == nil {
				return false, false, true
			}
			n := 0
			for _, in := range instrsOf(g) {
				if ret, ok := in.(*ssa.Return); ok && x.Index < len(ret.Results) {
					n++
					z, rn, b := classify(ret.Results[x.Index], run, ret.Block(), depth+1)
					zero, running, bad = zero || z, running || rn, bad || b
				}
			}
			if n == 0 {
				bad = true
			}
			return
		}
		if loadOfField(v, run.t, run.f) {
			// read under the message-count test: the block itself, or (for a phi edge) the predecessor, is guarded
			if countGuarded(at) || isCountTestBlock(at, acc) {
				return false, true, false
			}
			return false, false, true
		}
		return false, false, true
	}
	for _, tf := range []struct {
		hdr string
		run fieldID
	}{{"MessageStartTime", acc.start}, {"MessageEndTime", acc.end}} {
		stores := regionStores(region, "Chunk", tf.hdr)
		construct := "Chunk." + tf.hdr + " is the running value or 0 for a message-less chunk"
		if len(stores) == 0 {
			continue
		}
		zero, running, bad := false, false, false
		for _, st := range stores {
			z, rn, b := classify(st.Val, tf.run, st.Block(), 0)
			zero, running, bad = zero || z, running || rn, bad || b
		}
		_ = zero // a fresh Chunk literal is zero where no store reaches: the guarded store alone is the accepted second form
		if running && !bad {
			r.held("C05.d", fname, construct, p.pos(stores[0].Pos()), "0 for a message-less chunk, "+tf.run.t+"."+tf.run.f+" under the message-count test")
		} else {
			r.violated("C05.d", fname, construct, p.pos(stores[0].Pos()),
				"the chunk header time must be the running "+tf.run.f+" when the chunk holds messages and 0 otherwise")
		}
	}
	// per-chunk accumulators are re-initialised after a flush (or guarded by a first-message-in-chunk test)
	for _, f := range []fieldID{acc.start, acc.end, acc.count} {
		reset := false
		for _, rf := range region {
			for _, st := range fieldStores(rf, f.t, f.f) {
				if _, isC := st.Val.(*ssa.Const); isC {
					reset = true
				}
			}
			// the accumulators live in a small state struct that is replaced as a whole by a fresh value
			if f.t != "Writer" {
				for _, in := range instrsOf(rf) {
					st, ok := in.(*ssa.Store)
					if !ok {
						continue
					}
					if _, _, _, isField := fieldRef(st.Addr); !isField {
						continue
					}
					nt, _ := structOf(st.Val.Type())
					if nt == nil || nt.Obj().Name() != f.t {
						continue
					}
					if freshStateValue(st.Val, f) {
						reset = true
					}
				}
			}
		}
		firstMsg := false
		if f != acc.count {
			for _, wf := range regionOf(p, wm, 3) {
				for _, st := range fieldStores(wf, f.t, f.f) {
					for _, pr := range st.Block().Preds {
						for d := pr; d != nil; d = d.Idom() {
							if iff, isIf := d.Instrs[len(d.Instrs)-1].(*ssa.If); isIf {
								if b, isB := iff.Cond.(*ssa.BinOp); isB && (acc.isCountLoad(b.X) || acc.isCountLoad(b.Y)) {
									firstMsg = true
								}
							}
						}
					}
				}
			}
		}
		construct := "per-chunk accumulator w." + legacyAccName(acc, f) + " starts fresh for the next chunk"
		_ = fnOrig
		if reset || firstMsg {
			r.held("C05.d", fname, construct, p.pos(fn.Pos()), map[bool]string{true: "re-initialised after the chunk is written", false: "first message of a chunk overwrites it"}[reset])
		} else {
			r.violated("C05.d", fname, construct, p.pos(fn.Pos()),
				f.t+"."+f.f+" is neither re-initialised after a flush nor overwritten by the first message of the next chunk; a later chunk's header and index would report a time range (or count) inherited from earlier chunks")
		}
	}
}

// legacyAccName keeps obligation keys stable across renames of the accumulator fields.
func legacyAccName(acc *chunkAccRoles, f fieldID) string {
	switch f {
	case acc.start:
		return "currentChunkStartTime"
	case acc.end:
		return "currentChunkEndTime"
	}
	return "currentChunkMessageCount"
}

// isCountTestBlock: b ends in a test of the message count (the phi edge comes straight from the test).
func isCountTestBlock(b *ssa.BasicBlock, acc *chunkAccRoles) bool {
	if b == nil || len(b.Instrs) == 0 {
		return false
	}
	if iff, ok := b.Instrs[len(b.Instrs)-1].(*ssa.If); ok {
		if bo, ok := iff.Cond.(*ssa.BinOp); ok && (acc.isCountLoad(bo.X) || acc.isCountLoad(bo.Y)) {
			return true
		}
	}
	return false
}

// freshStateValue: v is a newly built state struct (constructor result or composite literal) in which field f holds a
// constant, not a copy of live state.
func freshStateValue(v ssa.Value, f fieldID) bool {
	switch x := v.(type) {
	case *ssa.Call:
		g := x.Call.StaticCallee()
		if g == nil || g.Blocks == nil {
			return false
		}
		for _, in := range instrsOf(g) {
			if ret, ok := in.(*ssa.Return); ok {
				if len(ret.Results) != 1 || !freshStateValue(ret.Results[0], f) {
					return false
				}
			}
		}
		return true
	case *ssa.UnOp:
		// load of a local composite literal: every store into field f of the alloc is a constant (absent = zero value)
		al, ok := x.X.(*ssa.Alloc)
		if !ok || x.Op != token.MUL {
			return false
		}
		for _, ref := range *al.Referrers() {
			fa, ok := ref.(*ssa.FieldAddr)
			if !ok {
				continue
			}
			if _, fl, _, ok := fieldRef(fa); !ok || fl != f.f {
				continue
			}
			for _, r2 := range *fa.Referrers() {
				if st, ok := r2.(*ssa.Store); ok && st.Addr == ssa.Value(fa) {
					if _, isC := st.Val.(*ssa.Const); !isC {
						return false
					}
				}
			}
		}
		return true
	case *ssa.Const:
		return true
	}
	return false
}

// checkSummaryOffsetsComplete: C05.e — in writeSummarySection, every path that wrote summary records and returns
// successfully has appended a SummaryOffset to the returned list (Close treats an empty list as "no summary").
func checkSummaryOffsetsComplete(p *Program, r *Result, isSink func(ssa.CallInstruction) (bool, string)) {
	fn := p.lookupFunc(pkgMcap, "Writer.writeSummarySection")
	cl := p.lookupFunc(pkgMcap, "Writer.Close")
	if fn == nil || cl == nil {
		r.undecided("C05.e", "mcap.Writer.writeSummarySection", "anchor", "", "not found")
		return
	}
	fname := funcName(fn)
	// does Close derive SummaryStart = 0 from the emptiness of the returned list?
	usesLen := false
	for _, in := range instrsOf(cl) {
		if c, ok := in.(*ssa.Call); ok {
			if b, isB := c.Call.Value.(*ssa.Builtin); isB && b.Name() == "len" {
				if ex, isEx := c.Call.Args[0].(*ssa.Extract); isEx {
					if c2, isC := ex.Tuple.(*ssa.Call); isC && calleeRepoName(c2) == "mcap.Writer.writeSummarySection" {
						usesLen = true
					}
				}
			}
		}
	}
	if !usesLen {
		r.held("C05.e", funcName(cl), "SummaryStart does not depend on the offsets list", p.pos(cl.Pos()), "Close does not use len(summaryOffsets) to decide whether a summary exists")
		return
	}
	// appending instructions: builtin append on a []*SummaryOffset, or a call to a local closure that appends on all its paths
	isOffsetsAppend := func(in ssa.Instruction) bool {
		c, ok := in.(*ssa.Call)
		if !ok {
			return false
		}
		if b, isB := c.Call.Value.(*ssa.Builtin); isB && b.Name() == "append" {
			return strings.Contains(c.Type().String(), "SummaryOffset")
		}
		return false
	}
	appendsAlways := func(f *ssa.Function) bool {
		if f == nil || f.Blocks == nil {
			return false
		}
		return allPathsHit(f.Blocks[0], isOffsetsAppend)
	}
	pred := func(in ssa.Instruction) bool {
		if isOffsetsAppend(in) {
			return true
		}
		if ci, ok := in.(ssa.CallInstruction); ok {
			for _, cal := range p.callees(ci) {
				if cal.Parent() == fn && appendsAlways(cal) {
					return true
				}
			}
		}
		return false
	}
	bad := 0
	n := 0
	for _, ci := range callsIn(fn, func(ci ssa.CallInstruction) bool { ok, _ := isSink(ci); return ok }) {
		n++
		// a helper that writes the group and hands back its summary offset, nil when it wrote nothing: the caller must
		// append whenever the result is not nil, and the helper must return a fresh record on every path that wrote
		var assume []ssa.Value
		if h := ci.Common().StaticCallee(); h != nil && p.transparent(h) {
			res := h.Signature.Results()
			for k := 0; k < res.Len(); k++ {
				nt, _ := structOf(res.At(k).Type())
				if nt == nil || nt.Obj().Name() != "SummaryOffset" {
					continue
				}
				fresh := true
				for _, c2 := range callsIn(h, func(c2 ssa.CallInstruction) bool { ok, _ := isSink(c2); return ok }) {
					k := k
					if !pathsToSuccessHit(h, c2, func(in ssa.Instruction) bool {
						ret, ok := in.(*ssa.Return)
						if !ok || k >= len(ret.Results) {
							return false
						}
						_, isAlloc := ret.Results[k].(*ssa.Alloc)
						return isAlloc
					}) {
						fresh = false
					}
				}
				if call, ok := ci.(*ssa.Call); ok && fresh {
					for _, ref := range *call.Referrers() {
						if ex, ok := ref.(*ssa.Extract); ok && ex.Index == k {
							assume = append(assume, ex)
						}
					}
					if res.Len() == 1 {
						assume = append(assume, call)
					}
				}
			}
		}
		// every path from after the call to a successful return passes an append
		ok := pathsToSuccessHit(fn, ci, pred, assume...)
		// a helper that writes the group and appends its offset itself (offsets, err = w.group(offsets, ...)): every
		// successful return of the helper comes after an append, and the caller keeps the returned list
		if h := ci.Common().StaticCallee(); !ok && h != nil && p.transparent(h) && len(h.Blocks) > 0 {
			if pathsToSuccessHit(h, h.Blocks[0].Instrs[0], isOffsetsAppend) {
				ok = true
			}
		}
		if !ok {
			bad++
			what := calleeRepoName(ci)
			if what == "" {
				_, what = isSink(ci)
			}
			r.violated("C05.e", fname, "summary offset appended after "+what, p.pos(ci.Pos()),
				"summary records are written here, but on some path the function returns successfully without having appended a SummaryOffset; Close then sees an empty list and writes Footer.SummaryStart = 0 although a summary section exists")
		}
	}
	if bad == 0 && n > 0 {
		r.held("C05.e", fname, "a summary offset is appended on every path that wrote summary records", p.pos(fn.Pos()), fmt.Sprintf("%d writer calls checked", n))
	}
	if n == 0 {
		r.undecided("C05.e", fname, "summary writes", p.pos(fn.Pos()), "no summary writer calls found")
	}
}

// pathsToSuccessHit: every path from `from` to a return with nil error executes an instruction satisfying pred.
func pathsToSuccessHit(fn *ssa.Function, from ssa.Instruction, pred func(ssa.Instruction) bool, nonNil ...ssa.Value) bool {
	type key struct {
		b *ssa.BasicBlock
	}
	seen := map[*ssa.BasicBlock]bool{}
	// successors to follow: at a nil-test of a value assumed non-nil only the non-nil side
	succsOf := func(b *ssa.BasicBlock) []*ssa.BasicBlock {
		if iff, ok := b.Instrs[len(b.Instrs)-1].(*ssa.If); ok {
			if c, ok := iff.Cond.(*ssa.BinOp); ok && (c.Op == token.EQL || c.Op == token.NEQ) {
				for _, v := range nonNil {
					if (c.X == v && isNilConst(c.Y)) || (c.Y == v && isNilConst(c.X)) {
						if c.Op == token.NEQ {
							return b.Succs[:1]
						}
						return b.Succs[1:]
					}
				}
			}
		}
		return b.Succs
	}
	var walk func(b *ssa.BasicBlock, start int) bool
	walk = func(b *ssa.BasicBlock, start int) bool {
		for i := start; i < len(b.Instrs); i++ {
			in := b.Instrs[i]
			if pred(in) {
				return true
			}
			if ret, ok := in.(*ssa.Return); ok {
				n := len(ret.Results)
				if n > 0 && !isNilConst(ret.Results[n-1]) && (!mayBeNilError(ret.Results[n-1]) || errKnownNonNil(ret, ret.Results[n-1]) || isCallValue(ret.Results[n-1])) {
					return true // error path
				}
				return false
			}
		}
		for _, s := range succsOf(b) {
			if seen[s] {
				continue
			}
			seen[s] = true
			if !walk(s, 0) {
				return false
			}
		}
		return true
	}
	return walk(from.Block(), blockIndexOf(from)+1)
}

func isCallValue(v ssa.Value) bool {
	_, ok := v.(*ssa.Call)
	return ok
}

// checkWriteRecordCount (C05.w): the framing helper returns, on success, exactly the sum of the byte counts its
// sink writes returned (MetadataIndex.Length is that number).
func checkWriteRecordCount(p *Program, r *Result) {
	r.rule("C05.w", "writeRecord returns the number of bytes it wrote", 1)
	fn := p.lookupFunc(pkgMcap, "Writer.writeRecord")
	if fn == nil {
		r.undecided("C05.w", "mcap.Writer.writeRecord", "anchor", "", "not found")
		return
	}
	counts := map[ssa.Value]bool{}
	for _, ci := range callsIn(fn, func(ci ssa.CallInstruction) bool { return ci.Common().IsInvoke() && ci.Common().Method.Name() == "Write" }) {
		if call, ok := ci.(*ssa.Call); ok {
			for _, ref := range *call.Referrers() {
				if ex, ok := ref.(*ssa.Extract); ok && ex.Index == 0 {
					counts[ex] = true
				}
			}
		}
	}
	var onlyCounts func(v ssa.Value, depth int) bool
	onlyCounts = func(v ssa.Value, depth int) bool {
		if depth > 10 {
			return false
		}
		if counts[v] {
			return true
		}
		switch x := v.(type) {
		case *ssa.Const:
			return x.Value != nil && x.Value.String() == "0"
		case *ssa.BinOp:
			return x.Op == token.ADD && onlyCounts(x.X, depth+1) && onlyCounts(x.Y, depth+1)
		case *ssa.Phi:
			for _, e := range x.Edges {
				if !onlyCounts(e, depth+1) {
					return false
				}
			}
			return true
		}
		return false
	}
	bad := ""
	n := 0
	for _, in := range instrsOf(fn) {
		ret, ok := in.(*ssa.Return)
		if !ok || len(ret.Results) != 2 {
			continue
		}
		if !isNilConst(ret.Results[1]) && (!mayBeNilError(ret.Results[1]) || errKnownNonNil(ret, ret.Results[1])) {
			continue // error path
		}
		n++
		if !onlyCounts(ret.Results[0], 0) {
			bad = p.pos(ret.Pos())
		}
	}
	switch {
	case n == 0:
		r.undecided("C05.w", funcName(fn), "returned byte count", p.pos(fn.Pos()), "no successful return found")
	case bad != "":
		r.violated("C05.w", funcName(fn), "returned byte count", bad,
			"on a successful return the count is not the sum of the byte counts returned by the sink writes; MetadataIndex.Length (taken from it) would not be the length of the record")
	default:
		r.held("C05.w", funcName(fn), "returned byte count", p.pos(fn.Pos()), "sum of the counts of all writes")
	}
}

// helperSnapshot: v is (a component of) the result of a transparent helper all of whose successful returns hand back a
// Size() snapshot taken inside it; returns that Size() call and the helper's call site.
func helperSnapshot(p *Program, v ssa.Value) (*ssa.Call, *ssa.Call, bool) {
	v = stripConv(v)
	idx := 0
	if ex, ok := v.(*ssa.Extract); ok {
		idx = ex.Index
		v = ex.Tuple
	}
	site, ok := v.(*ssa.Call)
	if !ok {
		return nil, nil, false
	}
	g := site.Call.StaticCallee()
	if g == nil || !p.transparent(g) {
		return nil, nil, false
	}
	zeroRet := false
	var found *ssa.Call
	for _, in := range instrsOf(g) {
		ret, ok := in.(*ssa.Return)
		if !ok || idx >= len(ret.Results) {
			continue
		}
		n := len(ret.Results)
		if n > 0 && isErrorType(g.Signature.Results().At(n-1).Type()) && !isNilConst(ret.Results[n-1]) && errKnownNonNil(ret, ret.Results[n-1]) {
			continue // error return: the value is not used
		}
		if c, isC := stripConv(ret.Results[idx]).(*ssa.Const); isC && c.Value != nil && n > 1 && !isNilConst(ret.Results[n-1]) {
			continue // `return 0, err`
		}
		if c, isC := stripConv(ret.Results[idx]).(*ssa.Const); isC && c.Value != nil && c.Value.String() == "0" {
			zeroRet = true // `return 0, nil`: the helper reports "nothing written" (allowed where 0 is a legal value)
			continue
		}
		sc := sizeCallOf(ret.Results[idx])
		if sc == nil || (found != nil && found != sc) {
			return nil, nil, false
		}
		found = sc
	}
	return found, site, zeroRet
}

// argSource describes where a helper takes a value from: its i-th parameter, or field f of its i-th parameter (a small
// struct handed in by value or by pointer).
type argSource struct {
	param int
	field string
}

func argSourceOf(h *ssa.Function, v ssa.Value) *argSource {
	v = stripConv(v)
	for i, prm := range h.Params {
		if v == ssa.Value(prm) {
			return &argSource{i, ""}
		}
	}
	// field of a struct parameter: Field(param) or load of FieldAddr(param | alloc holding param)
	var base ssa.Value
	field := ""
	switch x := v.(type) {
	case *ssa.Field:
		_, field, base, _ = fieldRef(x)
	case *ssa.UnOp:
		if x.Op == token.MUL {
			_, field, base, _ = fieldRef(x.X)
		}
	}
	if field == "" || base == nil {
		return nil
	}
	for i, prm := range h.Params {
		if base == ssa.Value(prm) {
			return &argSource{i, field}
		}
		// value receivers are spilled into a local cell
		if al, ok := base.(*ssa.Alloc); ok {
			for _, ref := range *al.Referrers() {
				if st, ok := ref.(*ssa.Store); ok && st.Addr == ssa.Value(al) && st.Val == ssa.Value(prm) {
					return &argSource{i, field}
				}
			}
		}
	}
	return nil
}

// resolve: the value the source denotes at a call with the given arguments. For a field of a struct argument that was
// produced by a call to a constructor helper, the value stored into that field inside the constructor is returned
// together with the constructor's call site (mapped back through the constructor's own parameters where possible).
func (a *argSource) resolve(p *Program, args []ssa.Value) (val ssa.Value, site *ssa.Call, ok bool) {
	if a == nil || a.param >= len(args) {
		return nil, nil, false
	}
	arg := args[a.param]
	if a.field == "" {
		return arg, nil, true
	}
	// the struct value: result of a constructor call (possibly loaded back from the local it was assigned to)
	v := arg
	if u, isU := v.(*ssa.UnOp); isU && u.Op == token.MUL {
		if al, isA := u.X.(*ssa.Alloc); isA {
			for _, ref := range *al.Referrers() {
				if st, isS := ref.(*ssa.Store); isS && st.Addr == ssa.Value(al) {
					v = st.Val
				}
			}
		}
	}
	c, isCall := v.(*ssa.Call)
	if !isCall {
		return nil, nil, false
	}
	b := c.Call.StaticCallee()
	if b == nil || b.Blocks == nil || !p.isRepoFunc(b) {
		return nil, nil, false
	}
	var stored ssa.Value
	for _, in := range instrsOf(b) {
		if st, isS := in.(*ssa.Store); isS {
			if _, f, _, okf := fieldRef(st.Addr); okf && f == a.field {
				stored = st.Val
			}
		}
	}
	if stored == nil {
		return nil, nil, false
	}
	sv := stripConv(stored)
	for i, prm := range b.Params {
		if sv == ssa.Value(prm) && i < len(c.Call.Args) {
			return c.Call.Args[i], c, true
		}
	}
	return stored, c, true
}
