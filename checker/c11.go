package main

import (
	"fmt"
	"os"
	"go/ast"
	"go/constant"
	"go/token"
	"go/types"
	"sort"
	"strings"

	"golang.org/x/tools/go/ssa"
)

func init() { register("C11", true, checkC11) }

// extensible records: everything but Message, Chunk, DataEnd, Footer (spec: "records may be extended by adding
// new fields at the end").
var nonExtensible = map[string]bool{"Message": true, "Chunk": true, "DataEnd": true, "Footer": true}

func checkC11(p *Program, r *Result) {
	r.Explanation = "Structural necessary conditions of 'unknown records and appended fields are skipped, not misread': " +
		"(C11.a) the lexer's opcode switch returns a token for each of the 15 opcodes of the specification, rejects only the reserved opcode 0 and lets every other opcode fall to an arm that continues " +
		"with the next record after the full record body was consumed; the index-based in-chunk walk interprets message records only and advances by the declared length for every opcode; " +
		"(C11.b) parsers of extensible records never compare the record length for equality or against an upper bound, never feed a field from an open-ended tail of the record, " +
		"and bound every repetition by the byte length declared in the record (a value decoded from it), not by the record's total size; " +
		"(C11.c) after an attachment is handled the unread remainder of the record is skipped on the same reader before the next record is framed; " +
		"(C11.r) inside Lexer.Next and its helpers the base reader is only ever re-installed as the active reader — record bodies are always consumed from the active reader."
	r.NotDecided = []string{"that all reports are unchanged under padding (run-time)"}
	r.rule("C11.a", "every record walk skips unknown opcodes by length", 17)
	r.rule("C11.b", "extensible-record parsers tolerate a longer record", 11)
	r.rule("C11.c", "unread attachment bytes are skipped", 1)
	r.rule("C11.r", "record bodies are consumed from the active reader only", 1)

	g := newGoLayouts(p, pkgMcap)
	checkLexerSwitch(p, r, g)
	checkInChunkWalk(p, r)
	checkParserTolerance(p, r, g)
	checkAttachmentTail(p, r)
	checkActiveReader(p, r)
	r.rule("C11.x", "a record ending exactly at the end of its buffer is accepted", 1)
	checkExactFit(p, r, "C11.x", sortedFuncs(readerScope(p)))
	r.rule("C11.w", "no read path accepts only a closed list of opcodes", 1)
	checkNoOpcodeWhitelist(p, r, "C11.w", sortedFuncs(readerScope(p)))
}

func checkLexerSwitch(p *Program, r *Result, g *goLayouts) {
	fd := methodDecl(g, "Lexer", "Next")
	fname := "mcap.Lexer.Next"
	if fd == nil {
		r.undecided("C11.a", fname, "anchor", "", "not found")
		return
	}
	spec, err := loadSpec(p)
	if err != nil {
		r.undecided("C11.a", fname, "spec opcodes", "", err.Error())
		return
	}
	// opcode constant name by value
	opName := map[int]string{}
	for _, k := range recordKinds {
		if v, ok := opConstValue(p, k.OpConst); ok {
			opName[v] = k.OpConst
		}
	}
	// first choice: decide by exploring Next under each opcode value, whatever form the dispatch takes
	{
		var specOps []int
		specNames := map[int]string{}
		for _, s := range spec {
			specOps = append(specOps, s.Opcode)
			specNames[s.Opcode] = s.Name
		}
		if checkLexerDispatchSemantic(p, r, fname, opName, specOps, specNames) {
			return
		}
		r.note("C11.a", fname, "dispatch", p.pos(fd.Pos()), "exploration by opcode value did not decide (a token is not a constant); falling back to matching the dispatch form")
	}
	// all case labels in switches over the opcode, with what the arm does
	type arm struct {
		cc      *ast.CaseClause
		returns bool
		errRet  bool
		cont    bool
	}
	arms := map[string]arm{}
	var def *arm
	ast.Inspect(fd.Body, func(n ast.Node) bool {
		sw, ok := n.(*ast.SwitchStmt)
		if !ok || sw.Tag == nil {
			return true
		}
		if nt, ok := g.info.TypeOf(sw.Tag).(*types.Named); !ok || nt.Obj().Name() != "OpCode" {
			return true
		}
		for _, st := range sw.Body.List {
			cc := st.(*ast.CaseClause)
			a := arm{cc: cc}
			ast.Inspect(cc, func(m ast.Node) bool {
				switch x := m.(type) {
				case *ast.ReturnStmt:
					a.returns = true
					if len(x.Results) == 3 {
						if id, ok := x.Results[2].(*ast.Ident); !ok || id.Name != "nil" {
							a.errRet = true
						}
					}
				case *ast.BranchStmt:
					if x.Tok == token.CONTINUE {
						a.cont = true
					}
				}
				return true
			})
			if len(cc.List) == 0 {
				aa := a
				def = &aa
			}
			for _, e := range cc.List {
				name := types.ExprString(e)
				if prev, had := arms[name]; !had || (a.returns && !prev.returns) {
					arms[name] = a
				}
			}
		}
		return true
	})
	// other dispatch forms: `if opcode == OpX { ... }` and a lookup in a package-level map[OpCode]TokenType literal
	// whose hit returns the token and whose miss falls through to the next iteration
	armOf := func(n ast.Node) arm {
		a := arm{}
		ast.Inspect(n, func(m ast.Node) bool {
			switch x := m.(type) {
			case *ast.ReturnStmt:
				a.returns = true
				if len(x.Results) == 3 {
					if id, ok := x.Results[2].(*ast.Ident); !ok || id.Name != "nil" {
						a.errRet = true
					}
				}
			case *ast.BranchStmt:
				if x.Tok == token.CONTINUE {
					a.cont = true
				}
			}
			return true
		})
		return a
	}
	isOpcodeExpr := func(e ast.Expr) bool {
		nt, ok := g.info.TypeOf(e).(*types.Named)
		return ok && nt.Obj().Name() == "OpCode"
	}
	var walkStmts func(list []ast.Stmt)
	walkStmts = func(list []ast.Stmt) {
		for i, st := range list {
			switch x := st.(type) {
			case *ast.ForStmt:
				walkStmts(x.Body.List)
			case *ast.BlockStmt:
				walkStmts(x.List)
			case *ast.IfStmt:
				// if opcode == OpX { ... }
				if be, ok := x.Cond.(*ast.BinaryExpr); ok && be.Op == token.EQL && x.Init == nil && isOpcodeExpr(be.X) {
					if tv, ok := g.info.Types[be.Y]; ok && tv.Value != nil {
						a := armOf(x.Body)
						cc := &ast.CaseClause{Case: x.Pos()}
						a.cc = cc
						name := types.ExprString(be.Y)
						if prev, had := arms[name]; !had || (a.returns && !prev.returns) {
							arms[name] = a
						}
					}
					continue
				}
				// if tok, ok := table[opcode]; ok { return tok, record, nil }
				as, ok := x.Init.(*ast.AssignStmt)
				var lit *ast.CompositeLit
				if !ok {
					// if <test on table[opcode]> { return table[opcode].tok, record, nil }: any index of a package-level table
					// by the opcode inside the condition, with the body returning
					if x.Init == nil && armOf(x.Body).returns {
						ast.Inspect(x.Cond, func(m ast.Node) bool {
							if ix, ok := m.(*ast.IndexExpr); ok && lit == nil {
								if tid, ok := ix.X.(*ast.Ident); ok && isOpcodeExpr(stripParenConv(g, ix.Index)) {
									lit = packageMapLiteral(g, tid)
								}
							}
							return true
						})
					}
					if lit == nil {
						continue
					}
				}
				if lit == nil && (len(as.Lhs) != 2 || len(as.Rhs) != 1) {
					continue
				}
				var okId, cid *ast.Ident
				if lit == nil {
					okId, _ = as.Lhs[1].(*ast.Ident)
					cid, _ = x.Cond.(*ast.Ident)
					if okId == nil || cid == nil || okId.Name != cid.Name {
						continue
					}
				}
				var rhs0 ast.Expr
				if lit == nil {
					rhs0 = as.Rhs[0]
				}
				switch rhs := rhs0.(type) {
				case *ast.IndexExpr:
					if tid, _ := rhs.X.(*ast.Ident); tid != nil && isOpcodeExpr(rhs.Index) {
						lit = packageMapLiteral(g, tid)
					}
				case *ast.CallExpr:
					// tok, ok := lookup(opcode): a helper that consults a package-level table
					if len(rhs.Args) == 1 && isOpcodeExpr(rhs.Args[0]) {
						if fn := g.calleeOf(rhs); fn != nil {
							if hd := g.decls[fn]; hd != nil && hd.Body != nil {
								ast.Inspect(hd.Body, func(m ast.Node) bool {
									if id, ok := m.(*ast.Ident); ok && lit == nil {
										lit = packageMapLiteral(g, id)
									}
									return true
								})
							}
						}
					}
				}
				if lit == nil {
					continue
				}
				hit := armOf(x.Body)
				for _, el := range lit.Elts {
					kv, ok := el.(*ast.KeyValueExpr)
					if !ok {
						continue
					}
					a := hit
					a.cc = &ast.CaseClause{Case: kv.Pos()}
					name := types.ExprString(kv.Key)
					if cl, ok := kv.Value.(*ast.CompositeLit); ok {
						off := false
						for _, el2 := range cl.Elts {
							v := el2
							if kv2, ok := el2.(*ast.KeyValueExpr); ok {
								v = kv2.Value
							}
							if id, ok := v.(*ast.Ident); ok && id.Name == "false" {
								off = true
							}
						}
						if off {
							continue
						}
					}
					if prev, had := arms[name]; !had || (a.returns && !prev.returns) {
						arms[name] = a
					}
				}
				// the miss path: the else branch, or whatever follows in the loop body
				if def == nil {
					d := arm{cc: &ast.CaseClause{Case: x.Pos()}, cont: true}
					if x.Else != nil {
						e := armOf(x.Else)
						d.returns, d.errRet = e.returns, e.errRet
					}
					for _, rest := range list[i+1:] {
						e := armOf(rest)
						if e.returns {
							d.returns = true
							d.errRet = d.errRet || e.errRet
						}
					}
					def = &d
				}
			}
		}
	}
	walkStmts(fd.Body.List)
	for _, s := range spec {
		name := opName[s.Opcode]
		construct := "token for opcode " + name
		a, ok := arms[name]
		switch {
		case name == "":
			r.violated("C11.a", fname, "opcode constant for "+s.Name, p.pos(fd.Pos()), "no Op constant has the value of the specification's "+s.Name+" record")
		case !ok:
			r.violated("C11.a", fname, construct, p.pos(fd.Pos()), "the lexer has no arm for this opcode; the record would be skipped as unknown")
		case name == "OpAttachment" || name == "OpChunk":
			r.held("C11.a", fname, construct, p.pos(a.cc.Pos()), "handled (streamed) before the generic record read")
		case a.errRet || !a.returns:
			r.violated("C11.a", fname, construct, p.pos(a.cc.Pos()), "the arm for a specified record does not return its token with a nil error")
		default:
			r.held("C11.a", fname, construct, p.pos(a.cc.Pos()), "returns the token and the record")
		}
	}
	// default arm
	switch {
	case def == nil:
		r.violated("C11.a", fname, "default arm of the opcode switch", p.pos(fd.Pos()), "no default arm: unknown opcodes are not skipped")
	case def.errRet || def.returns || !def.cont:
		r.violated("C11.a", fname, "default arm of the opcode switch", p.pos(def.cc.Pos()), "records with an unknown opcode must be skipped (continue with the next record); the default arm returns or fails instead")
	default:
		r.held("C11.a", fname, "default arm of the opcode switch", p.pos(def.cc.Pos()), "continue: unknown opcodes are skipped after their body was read")
	}
	// reserved opcode is the only error arm
	var errArms []string
	for name, a := range arms {
		if a.errRet && name != "OpReserved" && name != "OpChunk" && name != "OpAttachment" {
			errArms = append(errArms, name)
		}
	}
	sort.Strings(errArms)
	if len(errArms) > 0 {
		r.violated("C11.a", fname, "error arms", p.pos(fd.Pos()), "arms returning an error for opcodes other than the reserved one: "+strings.Join(errArms, ","))
	}
}

// checkInChunkWalk: in indexedMessageIterator.loadChunk the per-record loop advances by the declared length on
// every path and only interprets message records.
func checkInChunkWalk(p *Program, r *Result) {
	fn := p.lookupFunc(pkgMcap, "indexedMessageIterator.loadChunk")
	if fn == nil {
		r.undecided("C11.a", "mcap.indexedMessageIterator.loadChunk", "anchor", "", "not found")
		return
	}
	fname := funcName(fn)
	// comparisons of the opcode byte with constants
	var opCmps []*ssa.BinOp
	var walkInstrs []ssa.Instruction
	for _, rf := range regionOf(p, fn, 3) { // the walk may live in an unexported helper of loadChunk
		walkInstrs = append(walkInstrs, instrsOf(rf)...)
	}
	for _, in := range walkInstrs {
		b, ok := in.(*ssa.BinOp)
		if !ok || (b.Op != token.EQL && b.Op != token.NEQ) {
			continue
		}
		for _, v := range []ssa.Value{b.X, b.Y} {
			if nt, ok := v.Type().(*types.Named); ok && nt.Obj().Name() == "OpCode" {
				if _, isConst := v.(*ssa.Const); !isConst {
					opCmps = append(opCmps, b)
				}
			}
		}
	}
	bad := ""
	for _, b := range opCmps {
		for _, ref := range *b.Referrers() {
			iff, ok := ref.(*ssa.If)
			if !ok {
				continue
			}
			// the branch taken for OTHER opcodes must not return an error
			other := iff.Block().Succs[1]
			if b.Op == token.NEQ {
				other = iff.Block().Succs[0]
			}
			if returnsNonNilErrOnAllPaths(iff.Parent(), other) {
				bad = "opcodes other than the interpreted one lead to an error at " + p.pos(iff.Pos())
			}
		}
	}
	if len(opCmps) == 0 {
		r.undecided("C11.a", fname, "in-chunk record walk", p.pos(fn.Pos()), "no opcode test found in the in-chunk walk")
	} else if bad != "" {
		r.violated("C11.a", fname, "in-chunk record walk", p.pos(fn.Pos()), "the in-chunk walk must skip records it does not interpret by their length; "+bad)
	} else {
		r.held("C11.a", fname, "in-chunk record walk", p.pos(fn.Pos()), "only message records are interpreted; every other opcode advances by the declared length")
	}
}

func checkParserTolerance(p *Program, r *Result, g *goLayouts) {
	ba := newBoundAnalysis(p, readerScope(p))
	ba.run()
	for _, k := range recordKinds {
		if nonExtensible[k.Spec] {
			continue
		}
		fd := findFuncDecl(g, k.Decoder)
		fname := "mcap." + k.Decoder
		if fd == nil {
			r.undecided("C11.b", fname, "parser of "+k.Spec, "", "not found")
			continue
		}
		bad := ""
		ast.Inspect(fd.Body, func(n ast.Node) bool {
			be, ok := n.(*ast.BinaryExpr)
			if !ok || bad != "" {
				return true
			}
			mentionsLen := func(e ast.Expr) bool {
				f := false
				ast.Inspect(e, func(m ast.Node) bool {
					if ce, ok := m.(*ast.CallExpr); ok && g.isBuiltin(ce, "len") && len(ce.Args) == 1 {
						if id, ok := ce.Args[0].(*ast.Ident); ok && isByteSliceType(g.info.TypeOf(id)) {
							if _, isParam := g.info.ObjectOf(id).(*types.Var); isParam && id.Name == fd.Type.Params.List[0].Names[0].Name {
								f = true
							}
						}
					}
					return true
				})
				return f
			}
			l, rr := mentionsLen(be.X), mentionsLen(be.Y)
			if !l && !rr {
				return true
			}
			switch be.Op {
			case token.EQL, token.NEQ:
				bad = "record length compared with " + be.Op.String() + " (" + types.ExprString(be) + "): a record with appended fields is rejected"
			case token.GTR, token.GEQ:
				if l { // len(buf) > k : upper bound
					bad = "record length bounded from above (" + types.ExprString(be) + ")"
				}
			case token.LSS, token.LEQ:
				if rr && !l { // k < len(buf)
					if tv, ok := g.info.Types[be.X]; ok && tv.Value != nil && tv.Value.Kind() == constant.Int {
						bad = "record length bounded from above (" + types.ExprString(be) + ")"
					}
				}
			}
			return true
		})
		dec := g.decoderLayout(fd)
		if bad == "" && dec.tail != "" {
			bad = "field " + dec.tail + " is fed from the open-ended tail of the record; appended bytes would become part of it"
		}
		if bad != "" {
			r.violated("C11.b", fname, "tolerance of a longer "+k.Spec+" record", p.pos(fd.Pos()), bad)
		} else {
			r.held("C11.b", fname, "tolerance of a longer "+k.Spec+" record", p.pos(fd.Pos()), "only minimum-length tests; no field reads the tail")
		}
		// repetitions bounded by the declared length
		if fn := p.lookupFunc(pkgMcap, k.Decoder); fn != nil {
			checkLoopBounds(p, r, ba, fn, k.Spec)
			checkCollectionLengthFromRecord(p, r, fn, k.Spec)
		}
	}
	if fn := p.lookupFunc(pkgMcap, "getPrefixedMap"); fn != nil {
		checkLoopBounds(p, r, ba, fn, "map")
	}
}

// checkLoopBounds: a loop that decodes (contains a call to a repo decode helper) must have a header condition with
// an operand derived from a value decoded from the record (the declared byte length).
func checkLoopBounds(p *Program, r *Result, ba *boundAnalysis, fn *ssa.Function, kind string) {
	raw := ba.rawValues(fn)
	for _, b := range fn.Blocks {
		iff, ok := b.Instrs[len(b.Instrs)-1].(*ssa.If)
		if !ok {
			continue
		}
		// loop header: has a back edge
		isHeader := false
		for _, pr := range b.Preds {
			if b.Dominates(pr) {
				isHeader = true
			}
		}
		if !isHeader {
			continue
		}
		// does the loop body decode?
		decodes := false
		for blk := range reachableBlocks(b.Succs[0]) {
			if !b.Dominates(blk) {
				continue
			}
			for _, in := range blk.Instrs {
				if c, ok := in.(*ssa.Call); ok {
					if f := c.Call.StaticCallee(); f != nil && p.isRepoFunc(f) {
						if rr := ba.rawResult[f]; len(rr) > 0 {
							for _, x := range rr {
								if x {
									decodes = true
								}
							}
						}
						if pt := ba.passThru[f]; !decodes && len(pt) > 0 && strings.HasPrefix(f.Name(), "get") {
							decodes = true
						}
					}
				}
			}
		}
		if !decodes {
			continue
		}
		cond, ok := iff.Cond.(*ssa.BinOp)
		declared := false
		if ok {
			for _, v := range []ssa.Value{cond.X, cond.Y} {
				if ri := raw[v]; ri != nil && ri.intrinsic {
					declared = true
				}
			}
			// ... or a bound computed from it before the loop (end := start + declared)
			if !declared {
				e := newSumForm()
				linearize(cond.X, 1, e, 0)
				linearize(cond.Y, -1, e, 0)
				for k := range e.coef {
					if os.Getenv("MCAPVET_DEBUG") != "" {
						fmt.Fprintf(os.Stderr, "DBG %s atom %s raw=%v\n", fn.Name(), e.vals[k].String(), raw[e.vals[k]])
					}
					if ri := raw[e.vals[k]]; ri != nil && ri.intrinsic {
						declared = true
					}
				}
			}
		}
		construct := "repetition bound in the " + kind + " parser"
		if declared {
			if why := loopBoundExact(b, iff, cond, raw); why != "" {
				r.violated("C11.b", funcName(fn), construct, p.pos(iff.Pos()), why)
				continue
			}
		}
		if declared {
			r.held("C11.b", funcName(fn), construct, p.pos(iff.Pos()), "loop is bounded by the byte length declared in the record")
		} else {
			r.violated("C11.b", funcName(fn), construct, p.pos(iff.Pos()),
				"the number of repeated entries is not derived from the length field of the record; with bytes appended to the record the extra bytes are decoded as entries")
		}
	}
}

func checkAttachmentTail(p *Program, r *Result) {
	fn := p.lookupFunc(pkgMcap, "Lexer.Next")
	if fn == nil {
		return
	}
	ok := false
	var skips []ssa.CallInstruction
	for _, rf := range regionOf(p, fn, 3) {
		skips = append(skips, callsIn(rf, func(ci ssa.CallInstruction) bool { return calleeRepoName(ci) == "mcap.skipReader" })...)
	}
	for _, ci := range skips {
		a := ci.Common().Args
		// skipReader(limitReader.R, limitReader.N): both loaded from the same LimitedReader
		if loadOfFieldIface(a[0], "LimitedReader", "R") && loadOfField(a[1], "LimitedReader", "N") {
			ok = true
		}
		// skipReader(l.reader, unread) where unread is what the limited reader has left, or - on the path without a
		// callback, where nothing was consumed - the whole record length
		var amountOK func(v ssa.Value, depth int) bool
		amountOK = func(v ssa.Value, depth int) bool {
			v = stripConv(v)
			if depth > 4 {
				return false
			}
			if loadOfField(v, "LimitedReader", "N") {
				return true
			}
			if c, isCall := v.(*ssa.Call); isCall && isDecodeCall(c) {
				return true // the record length as decoded from the record header
			}
			if ph, isPhi := v.(*ssa.Phi); isPhi {
				for _, e := range ph.Edges {
					if !amountOK(e, depth+1) {
						return false
					}
				}
				return len(ph.Edges) > 0
			}
			return false
		}
		readerOK := loadOfFieldIface(a[0], "LimitedReader", "R") || loadOfFieldIface(a[0], "Lexer", "reader") || loadOfField(a[0], "Lexer", "reader")
		if _, isPhi := stripConv(a[1]).(*ssa.Phi); isPhi && readerOK && amountOK(a[1], 0) {
			ok = true
		}
	}
	if ok {
		r.held("C11.c", funcName(fn), "skip of the unread attachment remainder", p.pos(fn.Pos()), "skipReader(limitReader.R, limitReader.N) before the next record")
	} else {
		r.violated("C11.c", funcName(fn), "skip of the unread attachment remainder", p.pos(fn.Pos()), "bytes of an attachment record that the callback did not consume (including appended fields) are not skipped; the next record would be framed inside the attachment")
	}
}

// checkActiveReader: loads of Lexer.basereader flow only into stores to Lexer.reader (or the constructor).
func checkActiveReader(p *Program, r *Result) {
	bad := 0
	for _, fn := range p.repoFunctions(pkgMcap) {
		for _, in := range instrsOf(fn) {
			u, ok := in.(*ssa.UnOp)
			if !ok || u.Op != token.MUL {
				continue
			}
			if tn, f, _, ok := fieldRef(u.X); !ok || tn != "Lexer" || f != "basereader" {
				continue
			}
			for _, ref := range *u.Referrers() {
				if st, ok := ref.(*ssa.Store); ok {
					if tn, f, _, ok := fieldRef(st.Addr); ok && tn == "Lexer" && f == "reader" {
						continue
					}
				}
				if _, ok := ref.(*ssa.DebugRef); ok {
					continue
				}
				bad++
				r.violated("C11.r", funcName(fn), "use of Lexer.basereader", p.pos(ref.Pos()),
					"the base reader is used directly ("+strings.SplitN(ref.String(), "\n", 2)[0]+"); inside a chunk the record header was read from the active (chunk) reader, so consuming or seeking the base reader desynchronises the two streams")
			}
		}
	}
	if bad == 0 {
		r.held("C11.r", "mcap.Lexer", "use of Lexer.basereader", "", "the base reader is only re-installed as the active reader")
	}
}

// packageMapLiteral: the composite literal a package-level map variable is initialised with (nil if it is assigned
// anywhere else in the package, so that the literal is the whole table).
func packageMapLiteral(g *goLayouts, id *ast.Ident) *ast.CompositeLit {
	obj, ok := g.info.ObjectOf(id).(*types.Var)
	if !ok || obj.Parent() != obj.Pkg().Scope() {
		return nil
	}
	var lit *ast.CompositeLit
	mutated := false
	for _, f := range g.p.Pkgs[g.pkg].Syntax {
		ast.Inspect(f, func(n ast.Node) bool {
			switch x := n.(type) {
			case *ast.ValueSpec:
				for i, nm := range x.Names {
					if g.info.ObjectOf(nm) == obj && i < len(x.Values) {
						lit, _ = x.Values[i].(*ast.CompositeLit)
					}
				}
			case *ast.AssignStmt:
				for _, l := range x.Lhs {
					switch y := l.(type) {
					case *ast.Ident:
						if g.info.ObjectOf(y) == obj {
							mutated = true
						}
					case *ast.IndexExpr:
						if yi, ok := y.X.(*ast.Ident); ok && g.info.ObjectOf(yi) == obj {
							mutated = true
						}
					}
				}
			case *ast.CallExpr:
				if g.isBuiltin(x, "delete") && len(x.Args) > 0 {
					if yi, ok := x.Args[0].(*ast.Ident); ok && g.info.ObjectOf(yi) == obj {
						mutated = true
					}
				}
			}
			return true
		})
	}
	if mutated {
		return nil
	}
	return lit
}

// loopBoundExact: the repetition continues exactly while cursor < start + declared, where cursor is the loop-carried
// position, start its value on entry, and declared the byte length read from the record. `<=` decodes one entry too many
// (an exact record then fails with a short-buffer error); `start - declared` or a missing start decodes too few or too many.
// Returns "" when the header has that shape, or when its shape is not one this rule reads (no loop-carried operand).
func loopBoundExact(hdr *ssa.BasicBlock, iff *ssa.If, cond *ssa.BinOp, raw map[ssa.Value]*rawInfo) string {
	op := cond.Op
	// the in-loop successor is the one dominated by the header that reaches back to it; Succs[0] for `for cond {}`
	inLoopOnTrue := true
	if len(hdr.Succs) == 2 {
		back := func(s *ssa.BasicBlock) bool {
			for blk := range reachableBlocks(s) {
				for _, ss := range blk.Succs {
					if ss == hdr && hdr.Dominates(blk) {
						return true
					}
				}
			}
			return false
		}
		if !back(hdr.Succs[0]) && back(hdr.Succs[1]) {
			inLoopOnTrue = false
		}
	}
	if !inLoopOnTrue {
		op = map[token.Token]token.Token{token.LSS: token.GEQ, token.LEQ: token.GTR, token.GTR: token.LEQ, token.GEQ: token.LSS,
			token.EQL: token.NEQ, token.NEQ: token.EQL}[op]
	}
	e := newSumForm()
	strict := false
	switch op {
	case token.LSS, token.LEQ:
		linearize(cond.X, 1, e, 0)
		linearize(cond.Y, -1, e, 0)
		strict = op == token.LSS
	case token.GTR, token.GEQ:
		linearize(cond.Y, 1, e, 0)
		linearize(cond.X, -1, e, 0)
		strict = op == token.GTR
	default:
		return ""
	}
	e.clean()
	// the loop-carried cursor
	var phi *ssa.Phi
	for k, c := range e.coef {
		if ph, ok := e.vals[k].(*ssa.Phi); ok && ph.Block() == hdr {
			if c != 1 || phi != nil {
				return "the loop-carried position does not appear once on the smaller side of the repetition bound"
			}
			phi = ph
		}
	}
	if phi == nil {
		return ""
	}
	var init ssa.Value
	for i, pr := range hdr.Preds {
		if !hdr.Dominates(pr) {
			if init != nil && init != phi.Edges[i] {
				return ""
			}
			init = phi.Edges[i]
		}
	}
	if init == nil {
		return ""
	}
	// e - phi + init must be  -declared + k
	linearize(phi, -1, e, 0)
	linearize(init, 1, e, 0)
	e.clean()
	nDecl := 0
	for k, c := range e.coef {
		v := e.vals[k]
		ri := raw[v]
		if ri != nil && ri.intrinsic && c == -1 {
			nDecl++
			continue
		}
		return "the repetition bound is not start + declared length: the term " + valueLabel(v) + " remains after removing the position, its starting value and the declared length"
	}
	if nDecl != 1 {
		return "the repetition bound does not contain the declared length exactly once with a positive sign"
	}
	if (strict && e.k == 0) || (!strict && e.k == 1) {
		return ""
	}
	if !strict && e.k == 0 {
		return "the repetition continues while position <= start + declared length: after the last declared entry one more is decoded, so an exact record fails and appended bytes are read as an entry"
	}
	return "the repetition bound is off by a constant from start + declared length"
}

// checkCollectionLengthFromRecord (C11.b): in a parser of an extensible record, a slice handed back in the result must
// not take its LENGTH from the size of the record (len(buf)): bytes appended to the record would show up as extra,
// zero-valued entries. A capacity hint computed from len(buf) is fine (make(T, 0, n)); so is a slice cut to the number of
// entries decoded.
func checkCollectionLengthFromRecord(p *Program, r *Result, fn *ssa.Function, kind string) {
	var buf *ssa.Parameter
	for _, prm := range fn.Params {
		if isByteSlice(prm.Type()) {
			buf = prm
			break
		}
	}
	if buf == nil {
		return
	}
	var fromLen func(v ssa.Value, depth int) bool
	fromLen = func(v ssa.Value, depth int) bool {
		if depth > 8 || v == nil {
			return false
		}
		switch x := v.(type) {
		case *ssa.Call:
			if b, ok := x.Call.Value.(*ssa.Builtin); ok && b.Name() == "len" && len(x.Call.Args) == 1 {
				a := x.Call.Args[0]
				for i := 0; i < 4; i++ {
					if a == ssa.Value(buf) {
						return true
					}
					sl, ok := a.(*ssa.Slice)
					if !ok || sl.High != nil {
						break
					}
					a = sl.X // len(buf[off:]) is as long as the record says
				}
			}
		case *ssa.BinOp:
			return fromLen(x.X, depth+1) || fromLen(x.Y, depth+1)
		case *ssa.Convert:
			return fromLen(x.X, depth+1)
		}
		return false
	}
	for _, in := range instrsOf(fn) {
		mk, ok := in.(*ssa.MakeSlice)
		if !ok || isByteSlice(mk.Type()) || !fromLen(mk.Len, 0) {
			continue
		}
		// handed back as it is (stored into a field / returned) rather than through a re-slice to the decoded count
		direct := false
		for _, ref := range refsOf(mk) {
			switch x := ref.(type) {
			case *ssa.Store:
				if x.Val == ssa.Value(mk) {
					if _, isField := x.Addr.(*ssa.FieldAddr); isField {
						direct = true
					}
				}
			case *ssa.Return:
				direct = true
			}
		}
		construct := "length of the collection returned by the " + kind + " parser"
		if direct {
			r.violated("C11.b", funcName(fn), construct, p.pos(mk.Pos()),
				"the slice handed back in the result is made with a length computed from the size of the record; bytes appended to the record become extra zero-valued entries")
		} else {
			r.held("C11.b", funcName(fn), construct, p.pos(mk.Pos()), "the slice made from the record size is cut to the decoded count before it is handed back")
		}
	}
}
