package main

import (
	"go/token"

	"golang.org/x/tools/go/ssa"
)

// C09.f: the destination of a full read is consumed only where the read is known to have succeeded. From each
// io.ReadFull/io.ReadAtLeast call the CFG is walked forward, taking at every test of the call's error against nil only
// the non-nil successor (classification with errors.Is does not make the error nil); reaching an instruction that
// consumes the destination buffer (passes it or a re-slice of it to a call, returns it, stores it, indexes it) on such
// a path means a short read - exactly what a truncated file produces - is treated as a complete one.

func ssaBufRoot(v ssa.Value) (field string, val ssa.Value) {
	for {
		switch x := v.(type) {
		case *ssa.Slice:
			v = x.X
			continue
		case *ssa.ChangeType:
			v = x.X
			continue
		case *ssa.Convert:
			v = x.X
			continue
		case *ssa.UnOp:
			if x.Op == token.MUL {
				if tn, f, _, ok := fieldRef(x.X); ok {
					return tn + "." + f, nil
				}
			}
		}
		return "", v
	}
}

func sameBuf(af string, av ssa.Value, v ssa.Value) bool {
	if !isByteSlice(v.Type()) {
		return false
	}
	bf, bv := ssaBufRoot(v)
	if af != "" {
		return bf == af
	}
	return bf == "" && bv == av
}

func isFullRead(ci ssa.CallInstruction) bool {
	return calleeIs(ci, "io.ReadFull") || calleeIs(ci, "io.ReadAtLeast")
}

func checkConsumeAfterFullRead(p *Program, r *Result, rule string, fns []*ssa.Function) {
	n := 0
	for _, fn := range fns {
		seenC := map[string]int{}
		for _, ci := range callsIn(fn, isFullRead) {
			call, ok := ci.(*ssa.Call)
			if !ok {
				continue
			}
			n++
			dst := call.Call.Args[1]
			af, av := ssaBufRoot(dst)
			label := af
			if label == "" {
				label = valueLabel(av)
			}
			construct := "consumers of " + label + " after " + trimPkg(staticCalleeName(&call.Call))
			seenC[construct]++
			if k := seenC[construct]; k > 1 {
				construct += "#" + itoa(k-1)
			}
			// results
			var errV, cntV ssa.Value
			for _, ref := range *call.Referrers() {
				if ex, ok := ref.(*ssa.Extract); ok {
					if ex.Index == 1 {
						errV = ex
					} else if len(*ex.Referrers()) > 0 {
						cntV = ex
					}
				}
			}
			isErr := func(v ssa.Value) bool {
				if v == errV {
					return true
				}
				if phi, ok := v.(*ssa.Phi); ok {
					for _, e := range phi.Edges {
						if e == errV {
							return true
						}
					}
				}
				return false
			}
			// forward walk
			type item struct {
				b    *ssa.BasicBlock
				from int
			}
			seen := map[*ssa.BasicBlock]bool{}
			var offender ssa.Instruction
			var work []item
			work = append(work, item{call.Block(), blockIndexOf(call) + 1})
			for len(work) > 0 && offender == nil {
				it := work[len(work)-1]
				work = work[:len(work)-1]
				stop := false
				for _, in := range it.b.Instrs[it.from:] {
					if c2, ok := in.(ssa.CallInstruction); ok && isFullRead(c2) && sameBuf(af, av, c2.Common().Args[1]) {
						stop = true // refilled
						break
					}
					if consumesBuf(in, af, av) && !guardedByCount(in, cntV, af, av) {
						offender = in
						break
					}
				}
				if stop || offender != nil {
					continue
				}
				succs := it.b.Succs
				if iff, ok := it.b.Instrs[len(it.b.Instrs)-1].(*ssa.If); ok && errV != nil {
					if b, ok := iff.Cond.(*ssa.BinOp); ok && (b.Op == token.EQL || b.Op == token.NEQ) &&
						((isErr(b.X) && isNilConst(b.Y)) || (isErr(b.Y) && isNilConst(b.X))) {
						if b.Op == token.NEQ {
							succs = succs[:1]
						} else {
							succs = succs[1:]
						}
					}
				}
				for _, s := range succs {
					if !seen[s] {
						seen[s] = true
						work = append(work, item{s, 0})
					}
				}
			}
			switch {
			case offender == nil:
				r.held(rule, funcName(fn), construct, p.pos(call.Pos()), "the destination is consumed only on the path where the read returned a nil error")
			default:
				r.violated(rule, funcName(fn), construct, p.pos(offender.Pos()),
					"the buffer is consumed ("+offender.String()+") on a path where this read may have failed or stopped short (an end-of-file class error is tolerated or the error is not tested) and the byte count is not examined; "+
						"on a truncated file the stale tail of the reused buffer is taken for record content")
			}
		}
	}
	if n == 0 {
		r.undecided(rule, "mcap", "full reads", "", "no io.ReadFull call found in the reader scope")
	}
}

// consumesBuf: in uses the buffer's contents (not just its length).
func consumesBuf(in ssa.Instruction, af string, av ssa.Value) bool {
	switch x := in.(type) {
	case ssa.CallInstruction:
		c := x.Common()
		if bi, ok := c.Value.(*ssa.Builtin); ok && (bi.Name() == "len" || bi.Name() == "cap") {
			return false
		}
		if _, isDefer := in.(*ssa.Defer); isDefer {
			return false
		}
		for _, a := range c.Args {
			if sameBuf(af, av, a) {
				return true
			}
		}
	case *ssa.Return:
		// returning the buffer together with a non-nil error is not consumption by this function; returning it with a nil
		// error is
		n := len(x.Results)
		if n > 0 && isNilConst(x.Results[n-1]) {
			for _, v := range x.Results {
				if sameBuf(af, av, v) {
					return true
				}
			}
		}
	case *ssa.Store:
		if sameBuf(af, av, x.Val) {
			// re-slicing the field onto itself (l.buf = l.buf[:n]) is not consumption
			if tn, f, _, ok := fieldRef(x.Addr); ok && tn+"."+f == af {
				return false
			}
			return true
		}
	case *ssa.UnOp:
		if ia, ok := x.X.(*ssa.IndexAddr); ok && x.Op == token.MUL && sameBuf(af, av, ia.X) {
			return true
		}
	}
	return false
}

// guardedByCount: the consumer only looks at the bytes the read reported (a re-slice bounded by the count), or runs
// under a test of the count.
func guardedByCount(in ssa.Instruction, cnt ssa.Value, af string, av ssa.Value) bool {
	if cnt == nil {
		return false
	}
	fromCnt := func(v ssa.Value) bool {
		v = stripConv(v)
		if v == cnt {
			return true
		}
		if phi, ok := v.(*ssa.Phi); ok {
			for _, e := range phi.Edges {
				if stripConv(e) == cnt {
					return true
				}
			}
		}
		return false
	}
	var ops []*ssa.Value
	for _, op := range in.Operands(ops) {
		if op == nil || *op == nil {
			continue
		}
		if sl, ok := (*op).(*ssa.Slice); ok && sameBuf(af, av, sl) && sl.High != nil && fromCnt(sl.High) {
			return true
		}
	}
	// the count was examined by a test that every path to the consumer has passed
	isCntTest := func(d *ssa.BasicBlock) bool {
		if iff, ok := d.Instrs[len(d.Instrs)-1].(*ssa.If); ok {
			if b, ok := iff.Cond.(*ssa.BinOp); ok && (fromCnt(b.X) || fromCnt(b.Y)) {
				return true
			}
		}
		return false
	}
	for d := in.Block().Idom(); d != nil; d = d.Idom() {
		if isCntTest(d) {
			return true
		}
	}
	// ... or every feasible path has: walking back from the consumer, a path that would avoid every count test has to
	// take both outcomes of one boolean (case a && n == k: ...; case a: use) and does not exist
	var cntDef *ssa.BasicBlock
	if ex, ok := cnt.(*ssa.Extract); ok {
		cntDef = ex.Block()
	}
	if cntDef == nil {
		return false
	}
	budget := 4000
	var back func(b *ssa.BasicBlock, assume map[ssa.Value]bool, onPath map[*ssa.BasicBlock]bool) bool
	back = func(b *ssa.BasicBlock, assume map[ssa.Value]bool, onPath map[*ssa.BasicBlock]bool) bool {
		// true: every feasible path from the read to b passes a count test
		if budget--; budget < 0 {
			return false
		}
		if b == cntDef {
			return false
		}
		if len(b.Preds) == 0 {
			return true // not reachable from the read
		}
		for _, pr := range b.Preds {
			if onPath[pr] {
				continue
			}
			next := assume
			if iff, ok := pr.Instrs[len(pr.Instrs)-1].(*ssa.If); ok && pr.Succs[0] != pr.Succs[1] {
				cond, truth := iff.Cond, pr.Succs[0] == b
				for {
					u, ok := cond.(*ssa.UnOp)
					if !ok || u.Op != token.NOT {
						break
					}
					cond, truth = u.X, !truth
				}
				if have, ok := assume[cond]; ok {
					if have != truth {
						continue // infeasible: the same boolean would have to be both true and false
					}
				} else {
					next = map[ssa.Value]bool{cond: truth}
					for k, v := range assume {
						next[k] = v
					}
				}
			}
			if isCntTest(pr) {
				continue
			}
			onPath[pr] = true
			ok := back(pr, next, onPath)
			delete(onPath, pr)
			if !ok {
				return false
			}
		}
		return true
	}
	return back(in.Block(), map[ssa.Value]bool{}, map[*ssa.BasicBlock]bool{in.Block(): true})
}
