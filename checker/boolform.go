package main

// E7: predicate normaliser. Boolean expressions from the typed AST are turned into formulas over comparison
// atoms; operands are canonical terms (field paths by type, constants), helper predicates with a single return
// statement are inlined. Two formulas are compared by enumerating the finite set of ORDERINGS of the term pairs
// they mention (each pair is <, == or >) — values are touched only through comparisons, so this is exact for
// the propositional structure and involves no execution of repository code.

import (
	"fmt"
	"go/ast"
	"go/constant"
	"go/token"
	"go/types"
	"sort"
	"strings"
)

type bform struct {
	op   string // "atom", "and", "or", "not", "true", "false", "opaque"
	a, b string // atom: terms
	rel  string // atom: "<", "<=", "=="
	kids []*bform
	text string
}

type formCtx struct {
	g     *goLayouts
	env   map[types.Object]string // parameter -> caller's term (when inlining helper predicates)
	alias map[*types.Var]string   // struct field -> canonical term (fields that carry the same quantity under different owners)
	benv  map[types.Object]*bform // boolean local -> its current formula (symbolic evaluation of straight-line bodies)
	// skipRange: loops over these collections are assumed to run zero times (evaluation under "the collection is empty")
	skipRange func(e ast.Expr) bool
	depth     int
	resultIdx int // which result of a multi-value predicate body is being evaluated
}

// term canonicalises an operand: receiver/variable names are replaced by their static type.
func (fc *formCtx) term(e ast.Expr) string {
	e = stripParenConv(fc.g, e)
	if tv, ok := fc.g.info.Types[e]; ok && tv.Value != nil {
		if tv.Value.Kind() == constant.Int {
			s := tv.Value.ExactString()
			if s == "18446744073709551615" {
				return "MAX"
			}
			return s
		}
		return tv.Value.ExactString()
	}
	switch x := e.(type) {
	case *ast.Ident:
		obj := fc.g.info.ObjectOf(x)
		if t, ok := fc.env[obj]; ok {
			return t
		}
		return "$" + x.Name
	case *ast.SelectorExpr:
		if sel, ok := fc.g.info.Selections[x]; ok && sel.Kind() == types.FieldVal {
			if fv, ok := sel.Obj().(*types.Var); ok {
				if a, ok := fc.alias[fv]; ok {
					return a
				}
			}
			t := sel.Recv()
			if pt, ok := t.(*types.Pointer); ok {
				t = pt.Elem()
			}
			name := types.TypeString(t, func(*types.Package) string { return "" })
			if strings.HasSuffix(name, "MessageIterator") {
				name = "it" // sibling iterators share field names
			}
			return name + "." + x.Sel.Name
		}
		return types.ExprString(x)
	case *ast.StarExpr:
		return fc.term(x.X)
	case *ast.CallExpr:
		if fc.g.isBuiltin(x, "len") && len(x.Args) == 1 {
			return "len(" + fc.term(x.Args[0]) + ")"
		}
	case *ast.IndexExpr:
		return fc.term(x.X) + "[" + fc.term(x.Index) + "]"
	}
	return types.ExprString(e)
}

func (fc *formCtx) form(e ast.Expr) *bform {
	e = stripParenConv(fc.g, e)
	switch x := e.(type) {
	case *ast.BinaryExpr:
		switch x.Op {
		case token.LAND:
			return &bform{op: "and", kids: []*bform{fc.form(x.X), fc.form(x.Y)}}
		case token.LOR:
			return &bform{op: "or", kids: []*bform{fc.form(x.X), fc.form(x.Y)}}
		case token.LSS:
			return &bform{op: "atom", a: fc.term(x.X), rel: "<", b: fc.term(x.Y)}
		case token.LEQ:
			return &bform{op: "atom", a: fc.term(x.X), rel: "<=", b: fc.term(x.Y)}
		case token.GTR:
			return &bform{op: "atom", a: fc.term(x.Y), rel: "<", b: fc.term(x.X)}
		case token.GEQ:
			return &bform{op: "atom", a: fc.term(x.Y), rel: "<=", b: fc.term(x.X)}
		case token.EQL:
			return &bform{op: "atom", a: fc.term(x.X), rel: "==", b: fc.term(x.Y)}
		case token.NEQ:
			return &bform{op: "not", kids: []*bform{{op: "atom", a: fc.term(x.X), rel: "==", b: fc.term(x.Y)}}}
		}
	case *ast.UnaryExpr:
		if x.Op == token.NOT {
			return &bform{op: "not", kids: []*bform{fc.form(x.X)}}
		}
	case *ast.Ident:
		if x.Name == "true" {
			return &bform{op: "true"}
		}
		if x.Name == "false" {
			return &bform{op: "false"}
		}
		if f, ok := fc.benv[fc.g.info.ObjectOf(x)]; ok {
			return f
		}
		// a boolean local that is defined once and never reassigned (selected := a && b && c; if selected {...})
		if def := singleBoolDef(fc.g, fc.g.info.ObjectOf(x)); def != nil && fc.depth < 5 {
			inner := *fc
			inner.depth++
			return inner.form(def)
		}
		// ... or is one of the results of a repo predicate: _, _, selected, err := it.bind(msg)
		if call, k := multiResultDef(fc.g, fc.g.info.ObjectOf(x)); call != nil && fc.depth < 5 {
			if fn := fc.g.calleeOf(call); fn != nil {
				if fd := fc.g.decls[fn]; fd != nil && fd.Body != nil {
					env := map[types.Object]string{}
					i := 0
					for _, fl := range fd.Type.Params.List {
						for _, nm := range fl.Names {
							if i < len(call.Args) {
								env[fc.g.info.ObjectOf(nm)] = fc.term(call.Args[i])
							}
							i++
						}
					}
					inner := &formCtx{g: fc.g, env: env, alias: fc.alias, skipRange: fc.skipRange, depth: fc.depth + 1, resultIdx: k}
					if f := inner.bodyForm(fd.Body.List); f != nil {
						return f
					}
				}
			}
		}
	case *ast.CallExpr:
		// inline a repo predicate: a single return, or a chain of `if c { return x }` guards ending in a return
		if fn := fc.g.calleeOf(x); fn != nil && fc.depth < 5 {
			if fd := fc.g.decls[fn]; fd != nil && fd.Body != nil {
				env := map[types.Object]string{}
				i := 0
				for _, fl := range fd.Type.Params.List {
					for _, nm := range fl.Names {
						if i < len(x.Args) {
							env[fc.g.info.ObjectOf(nm)] = fc.term(x.Args[i])
						}
						i++
					}
				}
				inner := &formCtx{g: fc.g, env: env, alias: fc.alias, skipRange: fc.skipRange, depth: fc.depth + 1}
				if f := inner.bodyForm(fd.Body.List); f != nil {
					return f
				}
			}
		}
	}
	// boolean operand that is not a comparison: map lookups, flags
	return &bform{op: "opaque", text: fc.term(e)}
}

// bodyForm: the boolean value of a predicate body made of `if c { return x }` guards and a final `return y`.
func (fc *formCtx) bodyForm(stmts []ast.Stmt) *bform {
	if len(stmts) == 0 {
		return nil
	}
	switch x := stmts[0].(type) {
	case *ast.RangeStmt:
		if fc.skipRange != nil && fc.skipRange(x.X) {
			return fc.bodyForm(stmts[1:])
		}
		return nil
	case *ast.AssignStmt, *ast.DeclStmt, *ast.ExprStmt:
		// straight-line statements between the guards (lookups into locals); conditions on them stay opaque atoms
		if fc.resultIdx > 0 || len(stmts) > 1 {
			return fc.bodyForm(stmts[1:])
		}
		return nil
	case *ast.ReturnStmt:
		if len(x.Results) <= fc.resultIdx {
			return nil
		}
		return fc.form(x.Results[fc.resultIdx])
	case *ast.IfStmt:
		if x.Init != nil || x.Else != nil || len(x.Body.List) == 0 {
			return nil
		}
		rs, ok := x.Body.List[len(x.Body.List)-1].(*ast.ReturnStmt)
		if !ok || len(rs.Results) <= fc.resultIdx {
			return nil
		}
		rest := fc.bodyForm(stmts[1:])
		if rest == nil {
			return nil
		}
		c := fc.form(x.Cond)
		return simplifyForm(&bform{op: "or", kids: []*bform{
			{op: "and", kids: []*bform{c, fc.form(rs.Results[fc.resultIdx])}},
			{op: "and", kids: []*bform{{op: "not", kids: []*bform{c}}, rest}},
		}})
	}
	return nil
}

func (f *bform) String() string {
	switch f.op {
	case "atom":
		return f.a + f.rel + f.b
	case "and", "or":
		var parts []string
		for _, k := range f.kids {
			parts = append(parts, k.String())
		}
		sep := " && "
		if f.op == "or" {
			sep = " || "
		}
		return "(" + strings.Join(parts, sep) + ")"
	case "not":
		return "!" + f.kids[0].String()
	case "opaque":
		return "{" + f.text + "}"
	}
	return f.op
}

// ---- evaluation over orderings

type pairKey struct{ a, b string }

func canonPair(a, b string) (pairKey, bool) {
	if a <= b {
		return pairKey{a, b}, false
	}
	return pairKey{b, a}, true
}

func collectPairs(f *bform, pairs map[pairKey]bool, opaques map[string]bool) {
	switch f.op {
	case "atom":
		k, _ := canonPair(f.a, f.b)
		pairs[k] = true
	case "opaque":
		opaques[f.text] = true
	default:
		for _, k := range f.kids {
			collectPairs(k, pairs, opaques)
		}
	}
}

// eval: ord maps a canonical pair to -1 (a<b), 0, +1.
func (f *bform) eval(ord map[pairKey]int, opq map[string]bool) bool {
	switch f.op {
	case "true":
		return true
	case "false":
		return false
	case "atom":
		k, swapped := canonPair(f.a, f.b)
		o := ord[k]
		if swapped {
			o = -o
		}
		switch f.rel {
		case "<":
			return o < 0
		case "<=":
			return o <= 0
		default:
			return o == 0
		}
	case "and":
		for _, k := range f.kids {
			if !k.eval(ord, opq) {
				return false
			}
		}
		return true
	case "or":
		for _, k := range f.kids {
			if k.eval(ord, opq) {
				return true
			}
		}
		return false
	case "not":
		return !f.kids[0].eval(ord, opq)
	case "opaque":
		return opq[f.text]
	}
	return false
}

// possibleOrders restricts pairs involving the extreme constants.
func possibleOrders(k pairKey) []int {
	lo := func(t string) bool { return t == "0" }
	hi := func(t string) bool { return t == "MAX" }
	switch {
	case lo(k.a) && hi(k.b):
		return []int{-1}
	case hi(k.a) && lo(k.b):
		return []int{1}
	case lo(k.a): // 0 vs x : 0 <= x
		return []int{-1, 0}
	case lo(k.b): // x vs 0 : x >= 0
		return []int{0, 1}
	case hi(k.a): // MAX vs x
		return []int{0, 1}
	case hi(k.b):
		return []int{-1, 0}
	}
	return []int{-1, 0, 1}
}

// counterexample searches for a total preorder of the mentioned terms (and truth values of the opaque
// operands) under which `when` holds but `then` does not; constraint, if given, must hold. It returns a
// description of the assignment, or "" if when => then in every ordering.
func counterexample(when, then *bform, constraint *bform) string {
	return counterexampleQ(when, then, constraint, false)
}

// opaqueOutside turns every atom that mentions none of the given terms into an opaque boolean.
func (f *bform) opaqueOutside(terms ...string) *bform {
	switch f.op {
	case "atom":
		for _, t := range terms {
			if f.a == t || f.b == t {
				return f
			}
		}
		return &bform{op: "opaque", text: f.String()}
	case "and", "or", "not":
		out := &bform{op: f.op}
		for _, k := range f.kids {
			out.kids = append(out.kids, k.opaqueOutside(terms...))
		}
		return out
	}
	return f
}

// counterexampleQ: with forallOpaque, an ordering is a counterexample only if `then` fails for EVERY truth
// assignment of the opaque operands (they stand for conditions the rule does not constrain).
func counterexampleQ(when, then *bform, constraint *bform, forallOpaque bool) string {
	pairs := map[pairKey]bool{}
	opaques := map[string]bool{}
	collectPairs(when, pairs, opaques)
	collectPairs(then, pairs, opaques)
	if constraint != nil {
		collectPairs(constraint, pairs, opaques)
	}
	// A term that is compared with one other term only, always in the same atom (len(x) == 0 ...), contributes one
	// independent truth value: such atoms are enumerated as booleans instead of as positions in the ordering. (Exact: the
	// atom's truth is not constrained by any other comparison, except through the constants 0 and MAX, whose extremal
	// position only makes `t < 0` / `t > MAX` unsatisfiable - atoms of that form are left alone.)
	{
		uses := map[string]int{}
		for k := range pairs {
			uses[k.a]++
			uses[k.b]++
		}
		texts := map[pairKey]map[string]bool{}
		var scan func(f *bform)
		scan = func(f *bform) {
			if f == nil {
				return
			}
			if f.op == "atom" {
				k, _ := canonPair(f.a, f.b)
				if texts[k] == nil {
					texts[k] = map[string]bool{}
				}
				texts[k][f.a+f.rel+f.b] = true
			}
			for _, k := range f.kids {
				scan(k)
			}
		}
		scan(when)
		scan(then)
		scan(constraint)
		collapse := map[pairKey]bool{}
		for k, ts := range texts {
			if len(ts) != 1 {
				continue
			}
			lone := ""
			other := ""
			if uses[k.a] == 1 && k.a != "0" && k.a != "MAX" {
				lone, other = k.a, k.b
			} else if uses[k.b] == 1 && k.b != "0" && k.b != "MAX" {
				lone, other = k.b, k.a
			}
			if lone == "" {
				continue
			}
			if other == "0" || other == "MAX" {
				// only equality with the extreme is free in both directions
				free := false
				for t := range ts {
					if strings.Contains(t, "==") {
						free = true
					}
				}
				if !free {
					continue
				}
			}
			collapse[k] = true
		}
		if len(collapse) > 0 {
			var rw func(f *bform) *bform
			rw = func(f *bform) *bform {
				if f == nil {
					return nil
				}
				if f.op == "atom" {
					if k, _ := canonPair(f.a, f.b); collapse[k] {
						return &bform{op: "opaque", text: f.a + f.rel + f.b}
					}
					return f
				}
				if len(f.kids) == 0 {
					return f
				}
				out := &bform{op: f.op, a: f.a, b: f.b, rel: f.rel, text: f.text}
				for _, k := range f.kids {
					out.kids = append(out.kids, rw(k))
				}
				return out
			}
			when, then, constraint = rw(when), rw(then), rw(constraint)
			pairs, opaques = map[pairKey]bool{}, map[string]bool{}
			collectPairs(when, pairs, opaques)
			collectPairs(then, pairs, opaques)
			if constraint != nil {
				collectPairs(constraint, pairs, opaques)
			}
		}
	}
	termSet := map[string]bool{}
	for k := range pairs {
		termSet[k.a], termSet[k.b] = true, true
	}
	var terms []string
	for t := range termSet {
		terms = append(terms, t)
	}
	sort.Strings(terms)
	var ops []string
	for o := range opaques {
		ops = append(ops, o)
	}
	sort.Strings(ops)
	// too large to enumerate: not judged (counted, so that a check can say so) - never reported as a counterexample
	cost := 1.0
	for i := 0; i < len(terms); i++ {
		cost *= float64(len(terms))
	}
	for i := 0; i < len(ops); i++ {
		cost *= 2
	}
	if cost > 6e7 {
		e7TooLarge++
		return ""
	}
	n := len(terms)
	rank := map[string]int{}
	ord := map[pairKey]int{}
	opq := map[string]bool{}
	found := ""
	check := func() bool {
		// constants: 0 is minimal, MAX maximal, and they differ
		if z, ok := rank["0"]; ok {
			for _, t := range terms {
				if rank[t] < z {
					return false
				}
			}
		}
		if m, ok := rank["MAX"]; ok {
			for _, t := range terms {
				if rank[t] > m {
					return false
				}
			}
			if z, ok := rank["0"]; ok && z == m {
				return false
			}
		}
		for k := range pairs {
			switch {
			case rank[k.a] < rank[k.b]:
				ord[k] = -1
			case rank[k.a] > rank[k.b]:
				ord[k] = 1
			default:
				ord[k] = 0
			}
		}
		if constraint != nil && !constraint.eval(ord, opq) {
			return false
		}
		if when.eval(ord, opq) && !then.eval(ord, opq) {
			byRank := map[int][]string{}
			for _, t := range terms {
				byRank[rank[t]] = append(byRank[rank[t]], t)
			}
			var groups []string
			for r := 0; r < n; r++ {
				if len(byRank[r]) > 0 {
					groups = append(groups, strings.Join(byRank[r], " == "))
				}
			}
			desc := strings.Join(groups, " < ")
			for _, o := range ops {
				desc += fmt.Sprintf(", {%s}=%v", o, opq[o])
			}
			found = desc
			return true
		}
		return false
	}
	var recO func(i int) bool
	if forallOpaque {
		inner := check
		check = func() bool {
			// some assignment of the opaque operands satisfies `then` => not a counterexample
			total := 1 << len(ops)
			anyWhen := false
			for m := 0; m < total; m++ {
				for i, o := range ops {
					opq[o] = m&(1<<i) != 0
				}
				// recompute ord via inner's side effects: call a light version
				res := inner()
				if res {
					anyWhen = true
					continue
				}
				// inner false: either when is false, constraint false, or then true
				// distinguish: evaluate directly
				if (constraint == nil || constraint.eval(ord, opq)) && when.eval(ord, opq) && then.eval(ord, opq) {
					found = ""
					return false
				}
			}
			return anyWhen && found != ""
		}
	}
	recO = func(i int) bool {
		if forallOpaque {
			return check()
		}
		if i == len(ops) {
			return check()
		}
		for _, v := range []bool{false, true} {
			opq[ops[i]] = v
			if recO(i + 1) {
				return true
			}
		}
		return false
	}
	var recT func(i int) bool
	recT = func(i int) bool {
		if i == n {
			return recO(0)
		}
		for r := 0; r < n; r++ {
			rank[terms[i]] = r
			if recT(i + 1) {
				return true
			}
		}
		return false
	}
	if n == 0 {
		recO(0)
	} else {
		recT(0)
	}
	return found
}

var boolDefsMemo = map[*goLayouts]map[types.Object]ast.Expr{}

// singleBoolDef: the defining expression of a boolean local that has exactly one definition and no other assignment.
func singleBoolDef(g *goLayouts, obj types.Object) ast.Expr {
	if obj == nil {
		return nil
	}
	m, ok := boolDefsMemo[g]
	if !ok {
		m = map[types.Object]ast.Expr{}
		count := map[types.Object]int{}
		for _, f := range g.p.Pkgs[g.pkg].Syntax {
			ast.Inspect(f, func(n ast.Node) bool {
				switch x := n.(type) {
				case *ast.AssignStmt:
					for i, l := range x.Lhs {
						id, ok := l.(*ast.Ident)
						if !ok {
							continue
						}
						o := g.info.ObjectOf(id)
						if o == nil {
							continue
						}
						count[o]++
						if x.Tok == token.DEFINE && len(x.Lhs) == len(x.Rhs) {
							m[o] = x.Rhs[i]
						}
					}
				case *ast.ValueSpec:
					for i, id := range x.Names {
						if o := g.info.ObjectOf(id); o != nil {
							count[o]++
							if i < len(x.Values) {
								m[o] = x.Values[i]
							}
						}
					}
				case *ast.IncDecStmt, *ast.UnaryExpr:
					// address-taken or modified variables are not tracked here
					if u, ok := x.(*ast.UnaryExpr); ok && u.Op == token.AND {
						if id, ok := u.X.(*ast.Ident); ok {
							if o := g.info.ObjectOf(id); o != nil {
								count[o] += 2
							}
						}
					}
				}
				return true
			})
		}
		for o, c := range count {
			if c != 1 {
				delete(m, o)
			}
		}
		boolDefsMemo[g] = m
	}
	def := m[obj]
	if def == nil {
		return nil
	}
	if b, ok := obj.Type().Underlying().(*types.Basic); !ok || b.Kind() != types.Bool {
		return nil
	}
	return def
}

var multiDefsMemo = map[*goLayouts]map[types.Object]struct {
	call *ast.CallExpr
	k    int
}{}

// multiResultDef: obj is a boolean local defined exactly once as the k-th result of a call (a, b, ok, err := f(...)).
func multiResultDef(g *goLayouts, obj types.Object) (*ast.CallExpr, int) {
	if obj == nil {
		return nil, 0
	}
	if b, ok := obj.Type().Underlying().(*types.Basic); !ok || b.Kind() != types.Bool {
		return nil, 0
	}
	m, ok := multiDefsMemo[g]
	if !ok {
		m = map[types.Object]struct {
			call *ast.CallExpr
			k    int
		}{}
		count := map[types.Object]int{}
		for _, f := range g.p.Pkgs[g.pkg].Syntax {
			ast.Inspect(f, func(n ast.Node) bool {
				as, ok := n.(*ast.AssignStmt)
				if !ok {
					return true
				}
				for i, l := range as.Lhs {
					id, ok := l.(*ast.Ident)
					if !ok {
						continue
					}
					o := g.info.ObjectOf(id)
					if o == nil {
						continue
					}
					count[o]++
					if as.Tok == token.DEFINE && len(as.Rhs) == 1 && len(as.Lhs) > 1 {
						if ce, ok := as.Rhs[0].(*ast.CallExpr); ok {
							m[o] = struct {
								call *ast.CallExpr
								k    int
							}{ce, i}
						}
					}
				}
				return true
			})
		}
		for o, c := range count {
			if c != 1 {
				delete(m, o)
			}
		}
		multiDefsMemo[g] = m
	}
	e := m[obj]
	return e.call, e.k
}

// simplifyForm folds the constants true/false out of and/or/not.
func simplifyForm(f *bform) *bform {
	if f == nil {
		return nil
	}
	switch f.op {
	case "not":
		k := simplifyForm(f.kids[0])
		switch k.op {
		case "true":
			return &bform{op: "false"}
		case "false":
			return &bform{op: "true"}
		}
		return &bform{op: "not", kids: []*bform{k}}
	case "and", "or":
		unit, zero := "true", "false"
		if f.op == "or" {
			unit, zero = "false", "true"
		}
		var kids []*bform
		for _, k := range f.kids {
			k = simplifyForm(k)
			if k.op == zero {
				return &bform{op: zero}
			}
			if k.op == unit {
				continue
			}
			kids = append(kids, k)
		}
		switch len(kids) {
		case 0:
			return &bform{op: unit}
		case 1:
			return kids[0]
		}
		return &bform{op: f.op, kids: kids}
	}
	return f
}

// pushNegations rewrites a formula so that "not" only stands in front of atoms and opaque operands (De Morgan); the
// conjuncts of a guard like !(a || !b) then show as !a and b.
func pushNegations(f *bform, neg bool) *bform {
	if f == nil {
		return nil
	}
	switch f.op {
	case "not":
		return pushNegations(f.kids[0], !neg)
	case "and", "or":
		op := f.op
		if neg {
			op = map[string]string{"and": "or", "or": "and"}[op]
		}
		out := &bform{op: op}
		for _, k := range f.kids {
			out.kids = append(out.kids, pushNegations(k, neg))
		}
		return out
	case "true":
		if neg {
			return &bform{op: "false"}
		}
		return f
	case "false":
		if neg {
			return &bform{op: "true"}
		}
		return f
	}
	if neg {
		return &bform{op: "not", kids: []*bform{f}}
	}
	return f
}

// e7TooLarge counts comparisons that were skipped because the formulas mention too many terms.
var e7TooLarge int
