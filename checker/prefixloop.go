package main

import (
	"go/ast"
	"go/token"
	"go/types"
	"sort"
	"strings"
)

// Length-prefix agreement (C05.p / C16.p): where an encoder writes a 4-byte length prefix and then emits the
// elements in a loop, the quantity the prefix is computed from must be the quantity the loop emits. Two forms are
// decided: (a) prefix = k*len(X) with the loop ranging, unfiltered, over X - both sides are reduced to a canonical
// element count (accessor methods with a single return are inlined, len(x[:h]) = h); (b) prefix = k*counter where the
// counter is incremented in an earlier loop with the same header and the same membership filter as the emitting loop.
// Other forms are reported as notes (not judged).

type canonCtx struct {
	g *goLayouts
}

func (c *canonCtx) expr(e ast.Expr, env map[string]string, depth int) string {
	switch x := e.(type) {
	case *ast.Ident:
		if r, ok := env[x.Name]; ok {
			return r
		}
		return x.Name
	case *ast.ParenExpr:
		return c.expr(x.X, env, depth)
	case *ast.SelectorExpr:
		return c.expr(x.X, env, depth) + "." + x.Sel.Name
	case *ast.StarExpr:
		return c.expr(x.X, env, depth)
	case *ast.BasicLit:
		return x.Value
	case *ast.BinaryExpr:
		return "(" + c.expr(x.X, env, depth) + x.Op.String() + c.expr(x.Y, env, depth) + ")"
	case *ast.SliceExpr:
		lo, hi := "", ""
		if x.Low != nil {
			lo = c.expr(x.Low, env, depth)
		}
		if x.High != nil {
			hi = c.expr(x.High, env, depth)
		}
		return c.expr(x.X, env, depth) + "[" + lo + ":" + hi + "]"
	case *ast.CallExpr:
		if c.g.isBuiltin(x, "len") && len(x.Args) == 1 {
			return c.lenOf(x.Args[0], env, depth)
		}
		if ret, env2 := c.accessor(x, env, depth); ret != nil {
			return c.expr(ret, env2, depth+1)
		}
		// conversions
		if len(x.Args) == 1 {
			if tv, ok := c.g.info.Types[x.Fun]; ok && tv.IsType() {
				return c.expr(x.Args[0], env, depth)
			}
		}
	}
	return types.ExprString(e)
}

// accessor: ce is a call of a repo method/function with no arguments whose body is a single `return E`.
func (c *canonCtx) accessor(ce *ast.CallExpr, env map[string]string, depth int) (ast.Expr, map[string]string) {
	if depth > 3 || len(ce.Args) != 0 {
		return nil, nil
	}
	fn := c.g.calleeOf(ce)
	if fn == nil {
		return nil, nil
	}
	fd := c.g.decls[fn]
	if fd == nil || fd.Body == nil || len(fd.Body.List) != 1 {
		return nil, nil
	}
	rs, ok := fd.Body.List[0].(*ast.ReturnStmt)
	if !ok || len(rs.Results) != 1 {
		return nil, nil
	}
	env2 := map[string]string{}
	if sel, ok := ce.Fun.(*ast.SelectorExpr); ok && fd.Recv != nil {
		if rn := recvName(fd); rn != "" {
			env2[rn] = c.expr(sel.X, env, depth)
		}
	}
	return rs.Results[0], env2
}

// lenOf: canonical element count of the collection expression e.
func (c *canonCtx) lenOf(e ast.Expr, env map[string]string, depth int) string {
	switch x := e.(type) {
	case *ast.ParenExpr:
		return c.lenOf(x.X, env, depth)
	case *ast.CallExpr:
		if ret, env2 := c.accessor(x, env, depth); ret != nil {
			return c.lenOf(ret, env2, depth+1)
		}
	case *ast.SliceExpr:
		if x.High != nil {
			if x.Low == nil {
				return c.expr(x.High, env, depth)
			}
			return "(" + c.expr(x.High, env, depth) + "-" + c.expr(x.Low, env, depth) + ")"
		}
		if x.Low == nil {
			return c.lenOf(x.X, env, depth)
		}
	}
	return "len(" + c.expr(e, env, depth) + ")"
}

// stripFactor removes a constant multiplier: k*E or E*k -> E.
func (c *canonCtx) stripFactor(e ast.Expr) ast.Expr {
	for {
		switch x := e.(type) {
		case *ast.ParenExpr:
			e = x.X
			continue
		case *ast.CallExpr:
			if len(x.Args) == 1 {
				if tv, ok := c.g.info.Types[x.Fun]; ok && tv.IsType() {
					e = x.Args[0]
					continue
				}
			}
		case *ast.BinaryExpr:
			if x.Op == token.MUL {
				if tv, ok := c.g.info.Types[x.Y]; ok && tv.Value != nil {
					e = x.X
					continue
				}
				if tv, ok := c.g.info.Types[x.X]; ok && tv.Value != nil {
					e = x.Y
					continue
				}
			}
		}
		return e
	}
}

// localDef: the single `name := expr` definition of an identifier in fd (nil when there is none or several).
func localDef(g *goLayouts, fd *ast.FuncDecl, id *ast.Ident) ast.Expr {
	obj := g.info.ObjectOf(id)
	var def ast.Expr
	n := 0
	ast.Inspect(fd.Body, func(m ast.Node) bool {
		switch as := m.(type) {
		case *ast.AssignStmt:
			for i, l := range as.Lhs {
				if li, ok := l.(*ast.Ident); ok && g.info.ObjectOf(li) == obj {
					n++
					if len(as.Lhs) == len(as.Rhs) && as.Tok == token.DEFINE {
						def = as.Rhs[i]
					} else {
						def = nil
						n += 10
					}
				}
			}
		case *ast.IncDecStmt:
			if li, ok := as.X.(*ast.Ident); ok && g.info.ObjectOf(li) == obj {
				n += 10
			}
		}
		return true
	})
	if n == 1 {
		return def
	}
	return nil
}

// loopShape describes `for ... range X { [if _, ok := M[k]; ok {] body [}] }`.
type loopShape struct {
	coll   string // canonical collection
	collN  string // canonical element count
	filter string // canonical map of the membership filter, "" if unfiltered
	emits  bool   // body writes bytes (put*/copy)
	incs   map[types.Object]bool
}

func (c *canonCtx) shapeOf(rs *ast.RangeStmt) *loopShape {
	sh := &loopShape{coll: c.expr(rs.X, nil, 0), collN: c.lenOf(rs.X, nil, 0), incs: map[types.Object]bool{}}
	// membership filter: `if v, ok := M[k]; ok { … }` around the whole body, or `v, ok := M[k]; if !ok { continue }`
	// in front of it; any other condition that can skip the emission makes the filter unknown ("?…")
	okMaps := map[string]string{}
	isMapLookup := func(as *ast.AssignStmt) (okName, m string, yes bool) {
		if as == nil || len(as.Lhs) != 2 || len(as.Rhs) != 1 {
			return "", "", false
		}
		ix, ok := as.Rhs[0].(*ast.IndexExpr)
		if !ok {
			return "", "", false
		}
		if _, isMap := c.g.info.TypeOf(ix.X).Underlying().(*types.Map); !isMap {
			return "", "", false
		}
		id, ok := as.Lhs[1].(*ast.Ident)
		if !ok {
			return "", "", false
		}
		return id.Name, c.expr(ix.X, nil, 0), true
	}
	skips := func(n ast.Node) bool {
		found := false
		ast.Inspect(n, func(m ast.Node) bool {
			switch x := m.(type) {
			case *ast.BranchStmt:
				if x.Tok == token.CONTINUE || x.Tok == token.BREAK {
					found = true
				}
			case *ast.CallExpr:
				if fn := c.g.calleeOf(x); fn != nil && strings.HasPrefix(fn.Name(), "put") {
					found = true
				}
			}
			return true
		})
		return found
	}
	for _, st := range rs.Body.List {
		switch x := st.(type) {
		case *ast.AssignStmt:
			if okName, m, yes := isMapLookup(x); yes {
				okMaps[okName] = m
			}
		case *ast.IfStmt:
			as, _ := x.Init.(*ast.AssignStmt)
			okName, m, yes := isMapLookup(as)
			cid, _ := x.Cond.(*ast.Ident)
			switch {
			case yes && cid != nil && cid.Name == okName && x.Else == nil && len(rs.Body.List) == 1:
				sh.filter = m
			case func() bool {
				u, ok := x.Cond.(*ast.UnaryExpr)
				if !ok || u.Op != token.NOT || x.Else != nil || x.Init != nil {
					return false
				}
				id, ok := u.X.(*ast.Ident)
				if !ok || okMaps[id.Name] == "" || len(x.Body.List) != 1 {
					return false
				}
				br, ok := x.Body.List[0].(*ast.BranchStmt)
				return ok && br.Tok == token.CONTINUE
			}():
				if sh.filter == "" {
					sh.filter = okMaps[x.Cond.(*ast.UnaryExpr).X.(*ast.Ident).Name]
				} else {
					sh.filter = "?several conditions"
				}
			case skips(x):
				sh.filter = "?" + types.ExprString(x.Cond)
			}
		}
	}
	ast.Inspect(rs.Body, func(m ast.Node) bool {
		switch x := m.(type) {
		case *ast.CallExpr:
			if fn := c.g.calleeOf(x); fn != nil && strings.HasPrefix(fn.Name(), "put") {
				sh.emits = true
			}
			if c.g.isBuiltin(x, "copy") {
				sh.emits = true
			}
		case *ast.IncDecStmt:
			if id, ok := x.X.(*ast.Ident); ok && x.Tok == token.INC {
				sh.incs[c.g.info.ObjectOf(id)] = true
			}
		}
		return true
	})
	return sh
}

func checkPrefixLoops(p *Program, r *Result, rule string, pkgs ...string) {
	total := 0
	for _, pkg := range pkgs {
		if p.Pkgs[pkg] == nil {
			continue
		}
		g := newGoLayouts(p, pkg)
		c := &canonCtx{g: g}
		var fds []*ast.FuncDecl
		for _, fd := range g.decls {
			if fd.Body != nil {
				fds = append(fds, fd)
			}
		}
		sort.Slice(fds, func(i, j int) bool { return fds[i].Pos() < fds[j].Pos() })
		for _, fd := range fds {
			fname := trimPkg(pkg) + "." + declName(fd)
			var blocks []*ast.BlockStmt
			ast.Inspect(fd.Body, func(m ast.Node) bool {
				if b, ok := m.(*ast.BlockStmt); ok {
					blocks = append(blocks, b)
				}
				return true
			})
			for _, b := range blocks {
				for i := 0; i+1 < len(b.List); i++ {
					rs, ok := b.List[i+1].(*ast.RangeStmt)
					if !ok {
						continue
					}
					L := prefixArg(g, b.List[i])
					if L == nil {
						continue
					}
					sh := c.shapeOf(rs)
					if !sh.emits {
						continue
					}
					total++
					construct := "length prefix " + types.ExprString(L) + " vs loop over " + types.ExprString(rs.X)
					pos := p.pos(b.List[i].Pos())
					cnt := c.stripFactor(L)
					if id, ok := cnt.(*ast.Ident); ok {
						if d := localDef(g, fd, id); d != nil {
							cnt = c.stripFactor(d)
						}
					}
					construct = "length prefix vs emitting loop over " + types.ExprString(rs.X)
					switch x := cnt.(type) {
					case *ast.Ident:
						// form (b): counter incremented in an earlier loop of the same shape
						obj := g.info.ObjectOf(x)
						var counting *loopShape
						for _, st := range b.List[:i] {
							if prs, ok := st.(*ast.RangeStmt); ok {
								if s2 := c.shapeOf(prs); s2.incs[obj] {
									counting = s2
								}
							}
						}
						switch {
						case counting == nil:
							r.abstain(rule, fname, construct, pos, "prefix "+types.ExprString(L)+" is not a counter of an earlier loop in this block")
						case counting.coll == sh.coll && counting.filter == sh.filter && !strings.HasPrefix(sh.filter, "?"):
							r.held(rule, fname, construct, pos, "the prefix counts a loop over "+sh.coll+" with the same membership filter ("+sh.filter+") as the emitting loop")
						case strings.HasPrefix(sh.filter, "?") || strings.HasPrefix(counting.filter, "?"):
							r.abstain(rule, fname, construct, pos, "filter form not recognised")
						default:
							r.violated(rule, fname, construct, pos, "the prefix counts elements of "+counting.coll+" filtered by "+orNone(counting.filter)+" but the loop emits elements of "+sh.coll+" filtered by "+orNone(sh.filter)+
								"; the record announces a different number of bytes than it holds")
						}
					default:
						cl := c.expr(cnt, nil, 0)
						switch {
						case sh.filter == "" && cl == sh.collN:
							r.held(rule, fname, construct, pos, "prefix and loop both cover "+cl+" elements")
						case sh.filter == "" && strings.HasPrefix(cl, "len(") || sh.filter == "" && isFieldTerm(cl):
							r.violated(rule, fname, construct, pos, "the prefix is computed from "+cl+" elements but the loop emits "+sh.collN+
								"; when the two differ the record announces a different number of bytes than it holds and readers mis-frame it")
						default:
							r.abstain(rule, fname, construct, pos, "prefix count "+cl+", loop over "+sh.coll+" filtered by "+orNone(sh.filter)+": form not modelled")
						}
					}
				}
			}
		}
	}
	if total == 0 {
		r.undecided(rule, "mcap", "length-prefixed loops", "", "no length-prefixed emitting loop found")
	}
}

func orNone(s string) string {
	if s == "" {
		return "nothing"
	}
	return s
}

func isFieldTerm(s string) bool {
	return s != "" && !strings.ContainsAny(s, "()+*- ")
}

func declName(fd *ast.FuncDecl) string {
	if fd.Recv != nil && len(fd.Recv.List) == 1 {
		t := fd.Recv.List[0].Type
		if st, ok := t.(*ast.StarExpr); ok {
			t = st.X
		}
		return types.ExprString(t) + "." + fd.Name.Name
	}
	return fd.Name.Name
}

// prefixArg: st is `offset (+|:)= putUint32(dst, uint32(L))`; returns L.
func prefixArg(g *goLayouts, st ast.Stmt) ast.Expr {
	as, ok := st.(*ast.AssignStmt)
	if !ok || len(as.Rhs) != 1 {
		return nil
	}
	ce, ok := as.Rhs[0].(*ast.CallExpr)
	if !ok || len(ce.Args) != 2 {
		return nil
	}
	fn := g.calleeOf(ce)
	if fn == nil || fn.Name() != "putUint32" {
		return nil
	}
	return ce.Args[1]
}
