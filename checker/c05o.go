package main

import (
	"go/types"

	"golang.org/x/tools/go/ssa"
)

// C05.o / C17.s: Close decides from the summary offsets writeSummarySection hands back whether the file has a summary
// section (footer summary_start). Once a group has been recorded, every successful return of writeSummarySection
// hands back the accumulated list: a return of a nil list with a nil error that can be reached after an append makes
// Close write summary_start = 0 in front of a summary that is there.
func checkSummaryOffsetsReturned(p *Program, r *Result, rule string) {
	fn := p.lookupFunc(pkgMcap, "Writer.writeSummarySection")
	construct := "successful returns hand back the recorded summary groups"
	if fn == nil || fn.Blocks == nil {
		r.note(rule, "mcap.Writer", construct, "", "writeSummarySection not found: not judged")
		return
	}
	sig := fn.Signature.Results()
	if sig.Len() != 2 || !types.Identical(sig.At(1).Type(), types.Universe.Lookup("error").Type()) {
		r.abstain(rule, funcName(fn), construct, p.pos(fn.Pos()), "result is not (list, error): located, not judged")
		return
	}
	if _, ok := sig.At(0).Type().Underlying().(*types.Slice); !ok {
		r.abstain(rule, funcName(fn), construct, p.pos(fn.Pos()), "first result is not a slice: located, not judged")
		return
	}
	// blocks that append to a slice of the result type
	var appendBlocks []*ssa.BasicBlock
	for _, in := range instrsOf(fn) {
		if c, ok := in.(*ssa.Call); ok {
			if b, ok := c.Call.Value.(*ssa.Builtin); ok && b.Name() == "append" && types.Identical(c.Type(), sig.At(0).Type()) {
				appendBlocks = append(appendBlocks, c.Block())
			}
		}
	}
	if len(appendBlocks) == 0 {
		r.abstain(rule, funcName(fn), construct, p.pos(fn.Pos()), "no append to the list of summary offsets in the function itself: located, not judged")
		return
	}
	after := map[*ssa.BasicBlock]bool{}
	for _, b := range appendBlocks {
		after[b] = true
		for s := range reachableFromSuccs(b) {
			after[s] = true
		}
	}
	bad := 0
	n := 0
	for _, in := range instrsOf(fn) {
		ret, ok := in.(*ssa.Return)
		if !ok || len(ret.Results) != 2 || !isNilConst(ret.Results[1]) {
			continue
		}
		n++
		if isNilConst(ret.Results[0]) && after[ret.Block()] {
			bad++
			r.violated(rule, funcName(fn), construct, p.pos(ret.Pos()),
				"returns a nil list with a nil error on a path on which summary groups have been written and recorded; Close reads an empty list as 'no summary section' and writes summary_start = 0")
		}
	}
	if bad == 0 {
		if n == 0 {
			r.abstain(rule, funcName(fn), construct, p.pos(fn.Pos()), "no return with a constant nil error: located, not judged")
		} else {
			r.held(rule, funcName(fn), construct, p.pos(fn.Pos()), "no successful return after an append hands back nil")
		}
	}
}
