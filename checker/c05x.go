package main

import (
	"go/token"
	"go/types"

	"golang.org/x/tools/go/ssa"
)

// C05.x: the in-memory message index keeps what WriteMessage enters into it. C05.b decides that WriteMessage hands
// MessageIndex.Add the message's log time and the position before the message record; this rule reads Add itself:
// on every path it stores its time argument into the Timestamp field and its position argument into the Offset field of an
// entry, it advances the entry count, and where it replaces the entry storage by a fresh slice the old entries were copied
// into that slice first (an append keeps them by construction).
func checkMessageIndexAdd(p *Program, r *Result, rule string) {
	fn := p.lookupFunc(pkgMcap, "MessageIndex.Add")
	if fn == nil || fn.Blocks == nil || len(fn.Params) != 3 {
		r.undecided(rule, "mcap.MessageIndex.Add", "anchor", "", "MessageIndex.Add(timestamp, offset) not found")
		return
	}
	fname := funcName(fn)
	recv := fn.Params[0]
	entryField := func(addr ssa.Value, name string) bool {
		fa, ok := addr.(*ssa.FieldAddr)
		if !ok {
			return false
		}
		nt, st := structOf(fa.X.Type())
		return nt != nil && st != nil && nt.Obj().Name() == "MessageIndexEntry" && st.Field(fa.Field).Name() == name
	}
	// value carries parameter prm (directly or as the field of an entry literal appended / stored whole)
	for i, want := range []string{"Timestamp", "Offset"} {
		prm := fn.Params[i+1]
		pred := func(in ssa.Instruction) bool {
			st, ok := in.(*ssa.Store)
			return ok && entryField(st.Addr, want) && stripConv(st.Val) == ssa.Value(prm)
		}
		construct := "entry." + want + " <- argument " + prm.Name()
		if allPathsHit(fn.Blocks[0], pred) {
			r.held(rule, fname, construct, p.pos(fn.Pos()), "stored on every path")
		} else {
			other := fn.Params[2-i]
			swapped := false
			for _, in := range instrsOf(fn) {
				if st, ok := in.(*ssa.Store); ok && entryField(st.Addr, want) && stripConv(st.Val) == ssa.Value(other) {
					swapped = true
				}
			}
			why := "a path through Add leaves the " + want + " of the new entry unset: the message index entry written to the file does not describe the message"
			if swapped {
				why = "the " + want + " of the new entry is set from the other argument (" + other.Name() + "): time and position are exchanged in the message index"
			}
			r.violated(rule, fname, construct, p.pos(fn.Pos()), why)
		}
	}
	// the count advances (or the storage grows by append) on every path
	advances := func(in ssa.Instruction) bool {
		st, ok := in.(*ssa.Store)
		if !ok {
			return false
		}
		fa, ok := st.Addr.(*ssa.FieldAddr)
		if !ok || fa.X != ssa.Value(recv) {
			return false
		}
		if b, ok := st.Val.(*ssa.BinOp); ok && b.Op == token.ADD {
			if c, ok := b.Y.(*ssa.Const); ok && c.Value != nil && c.Int64() == 1 {
				if ld, ok := b.X.(*ssa.UnOp); ok && ld.Op == token.MUL {
					if fa2, ok := ld.X.(*ssa.FieldAddr); ok && fa2.X == ssa.Value(recv) && fa2.Field == fa.Field {
						return true
					}
				}
			}
		}
		if c, ok := st.Val.(*ssa.Call); ok {
			if b, ok := c.Call.Value.(*ssa.Builtin); ok && b.Name() == "append" {
				return true
			}
		}
		return false
	}
	if allPathsHit(fn.Blocks[0], advances) {
		r.held(rule, fname, "entry count advances by one", p.pos(fn.Pos()), "on every path")
	} else {
		r.violated(rule, fname, "entry count advances by one", p.pos(fn.Pos()), "a path through Add does not advance the number of entries: the next message overwrites this entry")
	}
	// growth keeps the old entries (in Add or in a helper method it calls on the same index)
	var growthSites []ssa.Instruction
	for _, rf := range regionOf(p, fn, 2) {
		if rf != fn && (len(rf.Params) == 0 || !types.Identical(rf.Params[0].Type(), recv.Type())) {
			continue
		}
		growthSites = append(growthSites, instrsOf(rf)...)
	}
	for _, in := range growthSites {
		st, ok := in.(*ssa.Store)
		if !ok {
			continue
		}
		fn := st.Parent()
		recv := fn.Params[0]
		fa, ok := st.Addr.(*ssa.FieldAddr)
		if !ok || fa.X != ssa.Value(recv) {
			continue
		}
		mk, ok := st.Val.(*ssa.MakeSlice)
		if !ok {
			continue
		}
		kept := false
		for _, prev := range st.Block().Instrs {
			if prev == ssa.Instruction(st) {
				break
			}
			c, ok := prev.(*ssa.Call)
			if !ok {
				continue
			}
			if b, ok := c.Call.Value.(*ssa.Builtin); !ok || b.Name() != "copy" || len(c.Call.Args) != 2 {
				continue
			}
			if c.Call.Args[0] != ssa.Value(mk) {
				continue
			}
			if ld, ok := c.Call.Args[1].(*ssa.UnOp); ok && ld.Op == token.MUL {
				if fa2, ok := ld.X.(*ssa.FieldAddr); ok && fa2.X == ssa.Value(recv) && fa2.Field == fa.Field {
					kept = true
				}
			}
		}
		// a dominating block may hold the copy as well
		if !kept {
			for _, c := range callsIn(fn, func(ci ssa.CallInstruction) bool {
				b, ok := ci.Common().Value.(*ssa.Builtin)
				return ok && b.Name() == "copy"
			}) {
				cc, ok := c.(*ssa.Call)
				if !ok || cc.Call.Args[0] != ssa.Value(mk) || cc.Block() == st.Block() || !cc.Block().Dominates(st.Block()) {
					continue
				}
				if ld, ok := cc.Call.Args[1].(*ssa.UnOp); ok && ld.Op == token.MUL {
					if fa2, ok := ld.X.(*ssa.FieldAddr); ok && fa2.X == ssa.Value(recv) && fa2.Field == fa.Field {
						kept = true
					}
				}
			}
		}
		if kept {
			r.held(rule, fname, "growth keeps the entries", p.pos(st.Pos()), "the old entries are copied into the fresh slice before it replaces the storage")
		} else {
			r.violated(rule, fname, "growth keeps the entries", p.pos(st.Pos()),
				"the entry storage is replaced by a fresh slice into which the existing entries were not copied first: every chunk with more messages on a channel than the initial capacity loses its earlier index entries")
		}
	}
}

// C05.x (pooled state): a message index that does not come from a fresh allocation - taken from a sync.Pool, or any other
// call result that is not a constructor of this package - still holds the entries of whoever used it last. Before it is
// entered into the writer's per-channel table (or used at all) it must be Reset in the same function; otherwise the first
// chunk of the next file carries the previous file's message index entries.
func checkPooledMessageIndexes(p *Program, r *Result, rule string) {
	n := 0
	for _, fn := range p.repoFunctions(pkgMcap) {
		if fn.Blocks == nil {
			continue
		}
		for _, in := range instrsOf(fn) {
			ta, ok := in.(*ssa.TypeAssert)
			if !ok {
				continue
			}
			nt, _ := structOf(ta.AssertedType)
			if nt == nil || nt.Obj().Name() != "MessageIndex" {
				continue
			}
			c, ok := ta.X.(*ssa.Call)
			if !ok || staticCalleeName(c.Common()) != "(*sync.Pool).Get" {
				continue
			}
			n++
			var v ssa.Value = ta
			if ta.CommaOk {
				for _, ref := range refsOf(ta) {
					if ex, ok := ref.(*ssa.Extract); ok && ex.Index == 0 {
						v = ex
					}
				}
			}
			reset := false
			for _, ref := range refsOf(v) {
				if call, ok := ref.(ssa.CallInstruction); ok {
					if g := call.Common().StaticCallee(); g != nil && len(call.Common().Args) > 0 && call.Common().Args[0] == v {
						// Reset, or any method of MessageIndex that zeroes the entry count
						for _, st := range fieldStores(g, "MessageIndex", "currentIndex") {
							if k, ok := st.Val.(*ssa.Const); ok && k.Value != nil && k.Int64() == 0 {
								reset = true
							}
						}
					}
				}
			}
			construct := "a message index taken from a pool is reset before use"
			if reset {
				r.held(rule, funcName(fn), construct, p.pos(ta.Pos()), "the entry count is zeroed on the pooled value")
			} else {
				r.violated(rule, funcName(fn), construct, p.pos(ta.Pos()),
					"the message index comes out of a sync.Pool with the entries of its previous user and is used without being reset: the next file's first chunk carries message index entries of another file")
			}
		}
	}
	_ = n
}
