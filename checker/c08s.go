package main

import (
	"go/constant"
	"go/token"

	"golang.org/x/tools/go/ssa"
)

// C08.s: the file-level time range is the exact min / max of the log times written. The store
// Statistics.MessageStartTime = t must execute when t lies below the running start or when the message is the first one
// (0 is a legal log time, so "unset" is decided by the message count, which was incremented before), and must not execute
// when t lies above the running start of a later message; dually Statistics.MessageEndTime = t must execute when t lies
// above the running end and must not when it lies below. Decided by simulating the branch conditions that lead to the
// store under the six cases {t < v, t == v, t > v} x {first message, later message}: the conditions only compare t with
// the running value and the message count with a constant, so each evaluates to a constant in each case. No test looks
// at the statistics start time, so `||` turned into `&&`, `<= 1` into `< 1` or the assignment deleted all pass the suite.
func checkTimeFoldExact(p *Program, r *Result, rule string) {
	wm := p.lookupFunc(pkgMcap, "Writer.WriteMessage")
	if wm == nil {
		r.undecided(rule, "mcap.Writer.WriteMessage", "anchor", "", "not found")
		return
	}
	for _, side := range []struct {
		field string
		min   bool
	}{{"MessageStartTime", true}, {"MessageEndTime", false}} {
		construct := "Statistics." + side.field + " is the exact " + map[bool]string{true: "minimum", false: "maximum"}[side.min] + " of the log times written"
		var stores []*ssa.Store
		foldDir := map[*ssa.Store]int{} // store of min(running, t): -1, of max(running, t): +1
		for _, rf := range regionOf(p, wm, 3) {
			for _, st := range fieldStores(rf, "Statistics", side.field) {
				if isMessageLogTime(p, st.Val) {
					stores = append(stores, st)
				} else if dir, ok := minMaxFold(p, st.Val, side.field); ok {
					stores = append(stores, st)
					foldDir[st] = dir
				}
			}
		}
		if len(stores) == 0 {
			r.violated(rule, funcName(wm), construct, p.pos(wm.Pos()), "WriteMessage never stores the message's log time into Statistics."+side.field)
			continue
		}
		bad := ""
		// atoms: comparisons of the log time with the running value, and of the message count with a constant
		type env struct {
			rel   int  // -1: t < v, 0: t == v, +1: t > v
			first bool // MessageCount == 1 (after the increment)
		}
		evalCond := func(c ssa.Value, e env) (val, ok bool) {
			neg := false
			for {
				u, isU := c.(*ssa.UnOp)
				if !isU || u.Op != token.NOT {
					break
				}
				c, neg = u.X, !neg
			}
			b, isB := c.(*ssa.BinOp)
			if !isB {
				return false, false
			}
			x, y := stripConv(b.X), stripConv(b.Y)
			var res bool
			switch {
			case isMessageLogTime(p, x) && loadOfField(y, "Statistics", side.field):
				res = constant.Compare(constant.MakeInt64(int64(e.rel)), b.Op, constant.MakeInt64(0))
			case isMessageLogTime(p, y) && loadOfField(x, "Statistics", side.field):
				res = constant.Compare(constant.MakeInt64(0), b.Op, constant.MakeInt64(int64(e.rel)))
			case loadOfField(x, "Statistics", "MessageCount"):
				k, isK := y.(*ssa.Const)
				if !isK || k.Value == nil {
					return false, false
				}
				n := int64(2)
				if e.first {
					n = 1
				}
				res = constant.Compare(constant.MakeInt64(n), b.Op, constant.ToInt(k.Value))
			case loadOfField(y, "Statistics", "MessageCount"):
				k, isK := x.(*ssa.Const)
				if !isK || k.Value == nil {
					return false, false
				}
				n := int64(2)
				if e.first {
					n = 1
				}
				res = constant.Compare(constant.ToInt(k.Value), b.Op, constant.MakeInt64(n))
			default:
				return false, false
			}
			switch b.Op {
			case token.LSS, token.LEQ, token.GTR, token.GEQ, token.EQL, token.NEQ:
			default:
				return false, false
			}
			return res != neg, true
		}
		// does the store execute in case e? Walk from the closest decidable dominator; an unguarded store always does. A
		// condition that is not about this field (the other end of the range, an option) is followed on both sides:
		// all=true asks whether the store executes whatever such conditions say, all=false whether it can.
		executes := func(st *ssa.Store, e env, all bool) bool {
			root := st.Block()
			for d := st.Block().Idom(); d != nil; d = d.Idom() {
				iff, ok := d.Instrs[len(d.Instrs)-1].(*ssa.If)
				if !ok {
					break
				}
				if _, ok := evalCond(iff.Cond, env{}); !ok {
					break
				}
				root = d
			}
			var walk func(b *ssa.BasicBlock, steps int) bool
			walk = func(b *ssa.BasicBlock, steps int) bool {
				for ; steps < 24; steps++ {
					if b == st.Block() {
						return true
					}
					iff, ok := b.Instrs[len(b.Instrs)-1].(*ssa.If)
					if !ok {
						if len(b.Succs) == 1 {
							b = b.Succs[0]
							continue
						}
						return false
					}
					v, ok := evalCond(iff.Cond, e)
					if !ok {
						l, r := walk(b.Succs[0], steps+1), walk(b.Succs[1], steps+1)
						if all {
							return l && r
						}
						return l || r
					}
					if v {
						b = b.Succs[0]
					} else {
						b = b.Succs[1]
					}
				}
				return false
			}
			return walk(root, 0)
		}
		for _, e := range []env{{-1, true}, {0, true}, {1, true}, {-1, false}, {0, false}, {1, false}} {
			// the running value changes to t in this case iff a plain store of t executes, or a min/max fold executes in
			// a case where t is the smaller / larger of the two
			changed, mayChange := false, false
			for _, st := range stores {
				effective := true
				if dir, isFold := foldDir[st]; isFold {
					effective = (dir < 0 && e.rel < 0) || (dir > 0 && e.rel > 0)
				} else if e.rel == 0 {
					effective = false // storing an equal value changes nothing
				}
				if !effective {
					continue
				}
				if executes(st, e, true) {
					changed = true
				}
				if executes(st, e, false) {
					mayChange = true
				}
			}
			var must, mustNot bool
			if side.min {
				must = e.rel < 0 || (e.first && e.rel != 0)
				mustNot = e.rel > 0 && !e.first
			} else {
				must = e.rel > 0
				mustNot = e.rel < 0
			}
			relName := map[int]string{-1: "below", 0: "equal to", 1: "above"}[e.rel]
			who := map[bool]string{true: "the first message", false: "a later message"}[e.first]
			if must && !changed {
				bad = "for " + who + " with a log time " + relName + " the running value the statistics are not updated"
			}
			if mustNot && mayChange {
				bad = "for " + who + " with a log time " + relName + " the running value the statistics are overwritten"
			}
		}
		if bad == "" {
			r.held(rule, funcName(wm), construct, p.pos(stores[0].Pos()), "updated exactly when the log time extends the range (or the message is the first)")
		} else {
			r.violated(rule, funcName(wm), construct, p.pos(stores[0].Pos()), bad+"; Statistics."+side.field+" is then not the "+map[bool]string{true: "earliest", false: "latest"}[side.min]+" log time in the file")
		}
	}
}

// minMaxFold: v is the builtin min or max of the running Statistics.<field> and the message's log time.
func minMaxFold(p *Program, v ssa.Value, field string) (dir int, ok bool) {
	c, isCall := stripConv(v).(*ssa.Call)
	if !isCall {
		return 0, false
	}
	b, isB := c.Call.Value.(*ssa.Builtin)
	if !isB || (b.Name() != "min" && b.Name() != "max") || len(c.Call.Args) != 2 {
		return 0, false
	}
	a0, a1 := stripConv(c.Call.Args[0]), stripConv(c.Call.Args[1])
	if !((loadOfField(a0, "Statistics", field) && isMessageLogTime(p, a1)) || (loadOfField(a1, "Statistics", field) && isMessageLogTime(p, a0))) {
		return 0, false
	}
	if b.Name() == "min" {
		return -1, true
	}
	return 1, true
}
