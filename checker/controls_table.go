package main

// Positive controls: one-construct breakages, applied in memory, that must make the named rule fire.
// Every control compiles; those marked (S) were confirmed at design time to leave the 195 baseline tests green.

func init() {
	w := "go/mcap/writer.go"
	lx := "go/mcap/lexer.go"
	ix := "go/mcap/indexed_message_iterator.go"
	ux := "go/mcap/unindexed_message_iterator.go"
	pr := "go/mcap/parse.go"
	for _, c := range []control{
		// C01
		{"C01", "schema-msglen-drops-data", "C01.b", w, "msglen := 2 + 4 + len(s.Name) + 4 + len(s.Encoding) + 4 + len(s.Data)", "msglen := 2 + 4 + len(s.Name) + 4 + len(s.Encoding) + 4", "buffer size of Schema"}, // (S)
		{"C01", "parseschema-aliases-input", "C01.c", pr, "Data:     append([]byte{}, data...),", "Data:     data,", "Schema.Data"},                                                                                          // (S)
		{"C01", "unindexed-no-copy", "C01.c", ux, "msg.PopulateFrom(record, true)", "msg.PopulateFrom(record, false)", "PopulateFrom"},
		{"C01", "attachment-index-fields-swapped-both-sides", "C01.a", w, "offset += putUint64(w.msg[offset:], idx.LogTime)\n\toffset += putUint64(w.msg[offset:], idx.CreateTime)\n\toffset += putUint64(w.msg[offset:], idx.DataSize)", "offset += putUint64(w.msg[offset:], idx.CreateTime)\n\toffset += putUint64(w.msg[offset:], idx.LogTime)\n\toffset += putUint64(w.msg[offset:], idx.DataSize)", "layout of AttachmentIndex"},
		{"C01", "binding-wrong-key", "C01.d", ux, "schema := it.schemas.Get(channel.SchemaID)", "schema := it.schemas.Get(channel.ID)", "schema of the yielded message"},
		{"C01", "lexer-owned-token-buffer", "C01.c", lx, "\t\t\tp, err = makeSafe(recordLen)\n\t\t\tif err != nil {\n\t\t\t\treturn TokenError, nil, fmt.Errorf(\"failed to allocate %d bytes for %s token: %w\", recordLen, opcode, err)\n\t\t\t}", "\t\t\tif uint64(cap(l.uncompressedChunk)) < recordLen {\n\t\t\t\tl.uncompressedChunk, err = makeSafe(recordLen)\n\t\t\t\tif err != nil {\n\t\t\t\t\treturn TokenError, nil, err\n\t\t\t\t}\n\t\t\t}\n\t\t\tp = l.uncompressedChunk[:cap(l.uncompressedChunk)]", "returned token bytes"},
		{"C01", "chunk-buffer-replaced", "C01.r", w, "\tw.compressed.Reset()\n\tw.compressedWriter.Reset(w.compressed)", "\tw.compressed = &bytes.Buffer{}\n\tw.compressedWriter.Reset(w.compressed)", "store to Writer.compressed"},
		// C02
		{"C02", "gate-ignores-channels", "C02.a", "go/mcap/mcap.go", "return len(i.Channels) > 0", "return true", "gate does not consult Info.Channels"},
		{"C02", "attachment-offset-convention", "C02.d", "go/mcap/reader.go", "r.rs.Seek(int64(offset+9), io.SeekStart)", "r.rs.Seek(int64(offset+8), io.SeekStart)", "seek to index offset + 9"},
		{"C02", "slot-aliases-read-buffer", "C02.o", ix, "copy(chunkSlot.buf, parsedChunk.Records)", "chunkSlot.buf = parsedChunk.Records[:bufSize]", "chunkSlot.buf"},
		{"C02", "conditional-seek", "C02.k", ix, "\terr := it.seekTo(chunkIndex.ChunkStartOffset)\n\tif err != nil {\n\t\treturn err\n\t}", "\tvar err error\n\tif chunkIndex.ChunkStartOffset != 0 {\n\t\terr = it.seekTo(chunkIndex.ChunkStartOffset)\n\t\tif err != nil {\n\t\t\treturn err\n\t\t}\n\t}", "read of the shared stream"},
		{"C02", "file-order-chunks-by-time", "C02.f", ix, "return it.chunkIndexes[i].ChunkStartOffset < it.chunkIndexes[j].ChunkStartOffset\n\t\t\t\t})\n\t\t\tcase LogTimeOrder:", "return it.chunkIndexes[i].MessageStartTime < it.chunkIndexes[j].MessageStartTime\n\t\t\t\t})\n\t\t\tcase LogTimeOrder:", "chunk order in file order"},
		{"C02", "scan-iterator-built-before-info", "C02.m", "go/mcap/reader.go", `		info, err := r.Info()
		if err != nil {
			return nil, fmt.Errorf("could not get info: %w", err)
		}
		if !info.CanReadMessagesUsingIndex() {
			if options.Order != FileOrder {
				return nil, fmt.Errorf("no index available, only file-order reads are supported")
			}
			_, err = r.rs.Seek(startPos, io.SeekStart)
			if err != nil {
				return nil, fmt.Errorf("failed to seek to start: %w", err)
			}
			return r.unindexedIterator(&options), nil
`, `		scan := r.unindexedIterator(&options)
		info, err := r.Info()
		if err != nil {
			return nil, fmt.Errorf("could not get info: %w", err)
		}
		if !info.CanReadMessagesUsingIndex() {
			if options.Order != FileOrder {
				return nil, fmt.Errorf("no index available, only file-order reads are supported")
			}
			_, err = r.rs.Seek(startPos, io.SeekStart)
			if err != nil {
				return nil, fmt.Errorf("failed to seek to start: %w", err)
			}
			return scan, nil
`, "lexer chunk mode when the sequential iterator is returned"},
		{"C02", "keep-needs-statistics", "C02.n", ix, "keep := len(idx.MessageIndexOffsets) == 0\n", "keep := len(idx.MessageIndexOffsets) == 0 && it.statistics != nil\n", "chunk index without message indexes"},
		// C03
		{"C03", "unstable-sort", "C03.a", ix, "sort.SliceStable(unreadMessageIndexes, func(i, j int) bool {\n\t\t\t\treturn unreadMessageIndexes[i].timestamp < unreadMessageIndexes[j].timestamp", "sort.Slice(unreadMessageIndexes, func(i, j int) bool {\n\t\t\t\treturn unreadMessageIndexes[i].timestamp < unreadMessageIndexes[j].timestamp", "sort of the message queue"}, // (S)
		{"C03", "non-strict-comparator", "C03.b", ix, "return unreadMessageIndexes[i].timestamp > unreadMessageIndexes[j].timestamp", "return unreadMessageIndexes[i].timestamp >= unreadMessageIndexes[j].timestamp", "comparator"},
		{"C03", "reverse-trigger-wrong-key", "C03.c", ix, "it.order == ReverseLogTimeOrder && chunkIndex.MessageEndTime > messageIndex.timestamp", "it.order == ReverseLogTimeOrder && chunkIndex.MessageStartTime > messageIndex.timestamp", "chunk order key vs load trigger (order 2)"},
		{"C03", "reverse-after-sort", "C03.d", ix, "\t\tslices.Reverse(it.messageIndexes[startIdx:])\n\t\tif sortingRequired {\n\t\t\tsort.SliceStable(unreadMessageIndexes, func(i, j int) bool {\n\t\t\t\treturn unreadMessageIndexes[i].timestamp > unreadMessageIndexes[j].timestamp\n\t\t\t})\n\t\t}", "\t\tif sortingRequired {\n\t\t\tsort.SliceStable(unreadMessageIndexes, func(i, j int) bool {\n\t\t\t\treturn unreadMessageIndexes[i].timestamp > unreadMessageIndexes[j].timestamp\n\t\t\t})\n\t\t}\n\t\tslices.Reverse(it.messageIndexes[startIdx:])", "reverse of the new segment"},
		{"C03", "yield-from-last-slot", "C03.g", ix, "chunkSlot := &it.chunkSlots[messageIndex.chunkSlotIndex]", "chunkSlot := &it.chunkSlots[len(it.chunkSlots)-1]", "bytes of the yielded message"},
		{"C03", "trigger-looks-at-queue-tail", "C03.g", ix, "messageIndex := it.messageIndexes[it.curMessageIndex]\n\t\t\tif (it.order == LogTimeOrder", "messageIndex := it.messageIndexes[len(it.messageIndexes)-1]\n\t\t\tif (it.order == LogTimeOrder", "load trigger compares the entry at the cursor"},
		// C04
		{"C04", "inclusive-end", "C04.a", ux, "beforeEnd(msg.LogTime, it.end)", "msg.LogTime <= it.end", "window predicate"},
		{"C04", "pruning-too-strong", "C04.b", ix, "idx.MessageEndTime >= it.start", "idx.MessageEndTime > it.start", "chunk pruning condition"}, // (S)
		{"C04", "option-dead-field", "C04.d", "go/mcap/reader_options.go", "if err := BeforeNanos(uint64(end))(ro); err != nil {\n\t\t\treturn err\n\t\t}\n\t\tro.End = end", "ro.End = end", "mcap.Before"},
		{"C04", "finalize-defaults-end", "C04.g", "go/mcap/reader_options.go", "\tif ro.EndNanos == 0 && ro.End > 0 {\n\t\tro.EndNanos = uint64(ro.End)\n\t}", "\tif ro.EndNanos == 0 && ro.End > 0 {\n\t\tro.EndNanos = uint64(ro.End)\n\t} else if ro.EndNanos == 0 {\n\t\tro.EndNanos = math.MaxUint64\n\t}", "store to ReadOptions.EndNanos"},
		// C05
		{"C05", "metadata-offset-after-write", "C05.b", w, "metadataOffset := w.w.Size()\n\tc, err := w.writeRecord(w.w, OpMetadata, w.msg[:offset])\n\tif err != nil {\n\t\treturn err\n\t}", "c, err := w.writeRecord(w.w, OpMetadata, w.msg[:offset])\n\tif err != nil {\n\t\treturn err\n\t}\n\tmetadataOffset := w.w.Size()", "MetadataIndex.Offset"},
		{"C05", "group-length-not-subtracted", "C05.c", w, "GroupLength: w.w.Size() - statisticsOffset,", "GroupLength: w.w.Size(),", "GroupLength(OpStatistics)"}, // (S)
		{"C05", "size-reset-before-read", "C05.d", w, "\tcrc := w.compressedWriter.CRC()\n\tuncompressedlen := w.compressedWriter.Size()", "\tcrc := w.compressedWriter.CRC()\n\tw.compressedWriter.ResetSize()\n\tuncompressedlen := w.compressedWriter.Size()", "uncompressed size read before it is reset"},
		{"C05", "chunk-index-fields-swapped", "C05.a", w, "offset += putUint64(w.msg[offset:], idx.ChunkStartOffset)\n\toffset += putUint64(w.msg[offset:], idx.ChunkLength)", "offset += putUint64(w.msg[offset:], idx.ChunkLength)\n\toffset += putUint64(w.msg[offset:], idx.ChunkStartOffset)", "layout of ChunkIndex"},
		{"C05", "prefix-from-capacity", "C05.p", w, "datalen := len(idx.Entries()) * (8 + 8)", "datalen := len(idx.Records) * (8 + 8)", "length prefix vs emitting loop"},
		// C06
		{"C06", "reset-before-dataend", "C06.b", w, "\tw.closed = true\n\terr := w.WriteDataEnd(&DataEnd{", "\tw.closed = true\n\tw.w.ResetCRC()\n\terr := w.WriteDataEnd(&DataEnd{", "CRC reset"}, // order a/b: the first ResetCRC precedes DataEnd
		{"C06", "attachment-prefix-through-crc", "C06.d", w, "\t_, err = w.w.Write(w.msg[:9])\n\tif err != nil {\n\t\treturn err\n\t}\n\tcrcWriter := newCRCWriter(w.w)", "\tcrcWriter := newCRCWriter(w.w)\n\t_, err = crcWriter.Write(w.msg[:9])\n\tif err != nil {\n\t\treturn err\n\t}", "attachment CRC scope"},
		{"C06", "castagnoli", "C06.g", "go/mcap/crc_writer.go", "crc: crc32.NewIEEE(),", "crc: crc32.New(crc32.MakeTable(crc32.Castagnoli)),", "crc32"},
		// C07
		{"C07", "crcreader-hashes-whole-buffer", "C07.d", "go/mcap/crc_reader.go", "r.crc.Write(p[:n])", "r.crc.Write(p)", "hash p[:n]"}, // (S)
		{"C07", "expose-before-compare", "C07.a", lx, "\t\tcrc := crc32.ChecksumIEEE(l.uncompressedChunk[:uncompressedSize])\n", "\t\tl.setNoneDecoder(l.uncompressedChunk[:uncompressedSize])\n\t\tcrc := crc32.ChecksumIEEE(l.uncompressedChunk[:uncompressedSize])\n", "validated buffer becomes the active reader"},
		{"C07", "validation-off-with-invalid-chunk-tokens", "C07.o", lx, "validateChunkCRCs:        validateChunkCRCs,", "validateChunkCRCs:        validateChunkCRCs && !emitInvalidChunks,", "validation switch"},
		// C08
		{"C08", "double-count", "C08.a", w, "\t\tw.currentChunkMessageCount++\n", "\t\tw.currentChunkMessageCount++\n\t\tw.Statistics.MessageCount++\n", "Statistics.MessageCount"},
		{"C08", "info-omits-metadata-indexes", "C08.c", "go/mcap/reader.go", "\t\tMetadataIndexes:   it.metadataIndexes,\n", "", "Info.MetadataIndexes"},
		{"C08", "unguarded-chunk-fold", "C08.b", w, "if w.Statistics.MessageCount == 0 && (c.MessageStartTime != 0 || c.MessageEndTime != 0) {", "if w.Statistics.MessageCount == 0 {", "fold of chunk times"},
		{"C08", "flush-returns-early", "C08.t", w, "\t\t\terr := w.flushActiveChunk()\n\t\t\tif err != nil {\n\t\t\t\treturn err\n\t\t\t}\n\t\t}\n\t} else {", "\t\t\treturn w.flushActiveChunk()\n\t\t}\n\t} else {", "fold of the log time"},
		// C09
		{"C09", "raw-read-of-record", "C09.b", lx, "readLength, err = io.ReadFull(l.reader, record)", "readLength, err = l.reader.Read(record)", "with record"},
		{"C09", "short-chunk-read-tolerated", "C09.f", lx, "\t\t_, err := io.ReadFull(l.reader, l.uncompressedChunk[:uncompressedSize])\n\t\tif err != nil {", "\t\t_, err := io.ReadFull(l.reader, l.uncompressedChunk[:uncompressedSize])\n\t\tif err != nil && !errors.Is(err, io.ErrUnexpectedEOF) {", "consumers of Lexer.uncompressedChunk"},
		// C10
		{"C10", "makesafe-to-make", "C10.a", ix, "buf, err = makeSafe(recordLen)\n\t\tif err != nil {\n\t\t\treturn 0, nil, fmt.Errorf(\"failed to allocate record buffer: %w\", err)\n\t\t}", "buf = make([]byte, recordLen)", "mcap.readRecord"},
		{"C10", "parsechunk-guard-removed", "C10.a", pr, "\tif uint64(len(buf)-offset) < recordsLength {\n\t\treturn nil, fmt.Errorf(\"short chunk records: %w\", io.ErrShortBuffer)\n\t}\n", "", "mcap.ParseChunk"},
		{"C10", "panic-in-parser", "C10.e", pr, "\tif len(buf) < 17 {\n\t\treturn nil, io.ErrShortBuffer\n\t}", "\tif len(buf) < 17 {\n\t\tpanic(\"short summary offset\")\n\t}", "panic call"},
		// C11
		{"C11", "default-arm-errors", "C11.a", lx, "\t\tdefault:\n\t\t\tcontinue // skip unrecognized opcodes", "\t\tdefault:\n\t\t\treturn TokenError, nil, fmt.Errorf(\"unknown opcode\")", "default arm"},
		{"C11", "exact-length-summary-offset", "C11.b", pr, "\tif len(buf) < 17 {\n\t\treturn nil, io.ErrShortBuffer\n\t}", "\tif len(buf) != 17 {\n\t\treturn nil, io.ErrShortBuffer\n\t}", "SummaryOffset"}, // (S)
		// C12
		{"C12", "arm-order-dependence", "C12.a", ix, "\t\t\t\tit.chunkIndexes = append(it.chunkIndexes, idx)\n\t\t\t}\n\t\tcase TokenStatistics:", "\t\t\t\tif it.statistics != nil {\n\t\t\t\t\tit.chunkIndexes = append(it.chunkIndexes, idx)\n\t\t\t\t}\n\t\t\t}\n\t\tcase TokenStatistics:", "TokenChunkIndex reads it.statistics"},
		{"C12", "codec-set-mismatch", "C12.b", ix, "\tcase CompressionLZ4:\n\t\tif it.lz4Reader == nil {", "\tcase CompressionFormat(\"lz4hc\"):\n\t\tif it.lz4Reader == nil {", "compression sets"},
		{"C12", "lexer-looks-at-chunk-times", "C12.t", lx, "\t_, offset, err := getUint64(l.buf, 0) // start\n\tif err != nil {", "\tstartTime, offset, err := getUint64(l.buf, 0)\n\tif err == nil && startTime == math.MaxUint64 {\n\t\terr = io.ErrUnexpectedEOF\n\t}\n\tif err != nil {", "message_start_time"},
		// C13
		{"C13", "map-order-in-chunk-index", "C13.a", w, "\tfor _, chanID := range w.channelIDs {\n\t\tif v, ok := idx.MessageIndexOffsets[chanID]; ok {\n\t\t\toffset += putUint16(w.msg[offset:], chanID)\n\t\t\toffset += putUint64(w.msg[offset:], v)\n\t\t}\n\t}", "\tfor chanID, v := range idx.MessageIndexOffsets {\n\t\toffset += putUint16(w.msg[offset:], chanID)\n\t\toffset += putUint64(w.msg[offset:], v)\n\t}", "range over map"},
		{"C13", "header-argument-modified", "C13.m", w, "\t\tlibrary = header.Library\n\t}\n", "\t\tlibrary = header.Library\n\t}\n\theader.Library = library\n", "store to Header.Library"},
		// C14
		{"C14", "dropped-records-write-error", "C14.a", w, "\t_, err = w.w.Write(c.Records)\n\tif err != nil {\n\t\treturn err\n\t}", "\t_, _ = w.w.Write(c.Records)", "mcap.writeSizer.Write"}, // (S)
		{"C14", "size-check-weakened", "C14.b", w, "if uint64(bytesWritten) != a.DataSize {", "if uint64(bytesWritten) < a.DataSize {", "a.DataSize"},
		// C15
		{"C15", "readuint64-raw-read", "C15.a", "go/mcap/utils.go", "if _, err := io.ReadFull(r, buf[:8]); err != nil {", "if _, err := r.Read(buf[:8]); err != nil {", "raw invoke"}, // (S)
		{"C15", "error-to-eof", "C15.b", lx, "\t\tif err != nil {\n\t\t\treturn TokenError, nil, err\n\t\t}\n\n\t\tswitch opcode {", "\t\tif err != nil {\n\t\t\treturn TokenError, nil, io.EOF\n\t\t}\n\n\t\tswitch opcode {", "io.ReadFull"},
		// C16
		{"C16", "go-encoder-width", "C16.a", w, "offset += putUint32(w.msg[offset:], c.UncompressedCRC)", "offset += putUint64(w.msg[offset:], uint64(c.UncompressedCRC))", "layout of Chunk"},
		// C17
		{"C17", "feature-arm-wrong-option", "C17.a", "go/conformance/test-write-conformance/main.go", "\t\tcase UseChunkIndex:\n\t\t\toptions.SkipChunkIndex = false", "\t\tcase UseChunkIndex:\n\t\t\toptions.SkipMetadataIndex = false", "feature chx"},
		{"C17", "input-field-misrouted", "C17.b", "go/conformance/test-write-conformance/main.go", "\t\t\tmessage.PublishTime = publishTime", "\t\t\tmessage.LogTime = publishTime", "Message field publish_time"},
		{"C17", "opcode-printed-by-name", "C17.f", "go/conformance/test-read-conformance/main.go", "\tcase \"OpCode\":\n\t\tv = fmt.Sprintf(\"\\\"%d\\\"\", x.Value)", "\tcase \"OpCode\":\n\t\tv = fmt.Sprintf(\"\\\"%v\\\"\", x.Value)", "applied to the field value"},
		// C18
		{"C18", "log-fatal", "C18.a", "go/ros/bag2mcap.go", "\t\t\treturn errors.New(\"not a bag\")", "\t\t\tpanic(\"not a bag\")", "panic call"},
		{"C18", "field-length-guard-removed", "C18.b", "go/ros/bag2mcap.go", "\t\tif uint64(fieldlen) > uint64(len(header)-offset) {\n\t\t\treturn nil, fmt.Errorf(\"field length %d exceeds header\", fieldlen)\n\t\t}\n\t\tfield := header[offset : offset+int(fieldlen)]", "\t\tfield := header[offset : offset+int(fieldlen)]", "ros.extractHeaderValue"},
		{"C18", "rows-err-dropped", "C18.c", "go/ros/ros2db3_to_mcap.go", "\tif err := rows.Err(); err != nil {\n\t\treturn nil, err\n\t}\n\treturn topics, nil", "\treturn topics, nil", "rows.Err after rows.Next loop"},
		{"C18", "schema-name-from-deleted-key", "C18.u", "go/ros/bag2mcap.go", "\t\t\t\t\tName:     typ,\n", "\t\t\t\t\tName:     connectionDataHeader[\"type\"],\n", "lookups of"},
		{"C18", "qualify-with-stored-package", "C18.q", "go/ros/ros2db3_to_mcap.go", "qualifiedType := fieldToQualifiedROSType(fieldType, parentPackage)", "qualifiedType := fieldToQualifiedROSType(fieldType, subdefinition.parentPackage)", "package used to qualify"},
		// C19
		{"C19", "cycle-guard-removed", "C19.a", "go/ros/ros1msg/ros1msg_parser.go", "\t\t\tif resolving[dependencyName] {\n\t\t\t\treturn nil, fmt.Errorf(\"type %s refers to itself\", dependencyName)\n\t\t\t}\n", "", "recursive call"},
		{"C19", "bracket-order-guard-removed", "C19.b", "go/ros/ros1msg/ros1msg_parser.go", "\tif rightBracketIndex < leftBracketIndex {\n\t\treturn false, \"\", 0\n\t}\n", "", "slice s["},
		{"C19", "field-state-hoisted", "C19.l", "go/ros/ros1msg/ros1msg_parser.go", `	fields := []Field{}
	for i, line := range strings.Split(subdefinition, "\n") {
		line := strings.TrimSpace(line)
		// empty line
		if line == "" {
			continue
		}
		// comment
		if strings.HasPrefix(line, "#") {
			continue
		}
		// constant
		if strings.Contains(strings.Split(line, "#")[0], "=") {
			continue
		}

		// must be a field
		matches := fieldMatcher.FindStringSubmatch(line)
		if len(matches) < 3 {
			return nil, fmt.Errorf("malformed field on line %d: %s", i, line)
		}
		fieldType := matches[1]
		fieldName := matches[2]

		var isRecord bool
`, `	var isRecord bool
	fields := []Field{}
	for i, line := range strings.Split(subdefinition, "\n") {
		line := strings.TrimSpace(line)
		// empty line
		if line == "" {
			continue
		}
		// comment
		if strings.HasPrefix(line, "#") {
			continue
		}
		// constant
		if strings.Contains(strings.Split(line, "#")[0], "=") {
			continue
		}

		// must be a field
		matches := fieldMatcher.FindStringSubmatch(line)
		if len(matches) < 3 {
			return nil, fmt.Errorf("malformed field on line %d: %s", i, line)
		}
		fieldType := matches[1]
		fieldName := matches[2]

`, "Type.IsRecord built per field"},
		// C20
		{"C20", "attachment-sized-scratch", "C20.a", w, "\tw.ensureSized(bufferLen)\n", "\tw.ensureSized(bufferLen + int(a.DataSize))\n", "buffer size requested"},
		{"C20", "slot-reuse-needs-capacity", "C20.c", ix, "\t\tif chunkSlot.unreadMessages == 0 {\n", "\t\tif chunkSlot.unreadMessages == 0 && cap(chunkSlot.buf) > 0 {\n", "a slot is reusable"},
		{"C20", "decrement-removed", "C20.b", ix, "\t\tchunkSlot.unreadMessages--\n", "", "unreadMessages--"}, // (S)
		{"C20", "attachment-readall", "C20.a", w, "bytesWritten, err := io.Copy(crcWriter, a.Data)", "all, err := io.ReadAll(a.Data)\n\tif err != nil {\n\t\treturn err\n\t}\n\tn, err := crcWriter.Write(all)\n\tbytesWritten := int64(n)", "attachment source is only streamed"},
	} {
		addControl(c)
	}
}
