package main

import (
	"go/token"

	"golang.org/x/tools/go/ssa"
)

// C18.q: an unqualified field type inside a ROS 2 definition is qualified with the package of the definition it
// occurs in. Statically: at every call of the qualification helper (the function that joins <package>/msg/<type>)
// the package operand is data-dependent on the type name of the work item being scanned (its rosType), or it is the
// item's stored package and every item is queued with a package derived from the very type name queued with it.

// derivesFrom: some value in the backward slice of v (through phis, loads, indexing, slicing, conversions and the
// arguments of pure string/path helpers) satisfies pred.
func sliceReaches(v ssa.Value, pred func(ssa.Value) bool, seen map[ssa.Value]bool) bool {
	if v == nil || seen[v] {
		return false
	}
	seen[v] = true
	if pred(v) {
		return true
	}
	switch x := v.(type) {
	case *ssa.Phi:
		for _, e := range x.Edges {
			if sliceReaches(e, pred, seen) {
				return true
			}
		}
	case *ssa.UnOp:
		if x.Op == token.MUL {
			if ia, ok := x.X.(*ssa.IndexAddr); ok {
				return sliceReaches(ia.X, pred, seen)
			}
			if al, ok := x.X.(*ssa.Alloc); ok {
				for _, ref := range *al.Referrers() {
					if st, ok := ref.(*ssa.Store); ok && st.Addr == ssa.Value(al) && sliceReaches(st.Val, pred, seen) {
						return true
					}
				}
			}
			return false
		}
		return sliceReaches(x.X, pred, seen)
	case *ssa.Extract:
		return sliceReaches(x.Tuple, pred, seen)
	case *ssa.Index:
		return sliceReaches(x.X, pred, seen)
	case *ssa.Slice:
		return sliceReaches(x.X, pred, seen)
	case *ssa.Convert:
		return sliceReaches(x.X, pred, seen)
	case *ssa.ChangeType:
		return sliceReaches(x.X, pred, seen)
	case *ssa.BinOp:
		return sliceReaches(x.X, pred, seen) || sliceReaches(x.Y, pred, seen)
	case *ssa.Call:
		name := staticCalleeName(&x.Call)
		pure := false
		for _, pre := range []string{"strings.", "path.", "path/filepath.", "bytes."} {
			if len(name) > len(pre) && name[:len(pre)] == pre {
				pure = true
			}
		}
		if pure {
			for _, a := range x.Call.Args {
				if sliceReaches(a, pred, seen) {
					return true
				}
			}
		}
	}
	return false
}

func checkRos2Qualification(p *Program, r *Result, rule string) {
	// qualification helpers: functions whose string parameter is the first argument of path.Join(param, "msg", …)
	type qh struct {
		fn  *ssa.Function
		idx int
	}
	var helpers []qh
	for _, fn := range p.repoFunctions(pkgRos) {
		for _, ci := range callsIn(fn, func(ci ssa.CallInstruction) bool { return calleeIs(ci, "path.Join") }) {
			args := ci.Common().Args
			if len(args) != 1 {
				continue
			}
			// variadic: elements stored into a backing array
			sl, ok := args[0].(*ssa.Slice)
			if !ok {
				continue
			}
			al, ok := sl.X.(*ssa.Alloc)
			if !ok {
				continue
			}
			elems := map[int64]ssa.Value{}
			for _, ref := range *al.Referrers() {
				if ia, ok := ref.(*ssa.IndexAddr); ok {
					if k, ok := ia.Index.(*ssa.Const); ok {
						for _, r2 := range *ia.Referrers() {
							if st, ok := r2.(*ssa.Store); ok {
								elems[k.Int64()] = st.Val
							}
						}
					}
				}
			}
			if c, ok := elems[1].(*ssa.Const); !ok || c.Value == nil || c.Value.ExactString() != `"msg"` {
				continue
			}
			for i, prm := range fn.Params {
				if elems[0] == ssa.Value(prm) {
					helpers = append(helpers, qh{fn, i})
				}
			}
		}
	}
	if len(helpers) == 0 {
		r.note(rule, "ros", "qualification helper", "", "no function joining <package>/msg/<type> from a package parameter found: not judged")
		return
	}
	isTypeNameLoad := func(v ssa.Value) bool {
		u, ok := v.(*ssa.UnOp)
		if !ok || u.Op != token.MUL {
			return false
		}
		_, f, _, ok := fieldRef(u.X)
		return ok && f == "rosType"
	}
	for _, h := range helpers {
		for _, fn := range p.repoFunctions(pkgRos) {
			for _, ci := range callsIn(fn, func(ci ssa.CallInstruction) bool { return ci.Common().StaticCallee() == h.fn }) {
				pkgArg := ci.Common().Args[h.idx]
				construct := "package used to qualify a relative field type"
				pos := p.pos(ci.Pos())
				if sliceReaches(pkgArg, isTypeNameLoad, map[ssa.Value]bool{}) {
					r.held(rule, funcName(fn), construct, pos, "derived from the type name (rosType) of the definition being scanned")
					continue
				}
				// the item's stored package: fine if every queued item stores a package derived from the type name queued with it
				isPkgLoad := func(v ssa.Value) bool {
					u, ok := v.(*ssa.UnOp)
					if !ok || u.Op != token.MUL {
						return false
					}
					_, f, _, ok := fieldRef(u.X)
					return ok && f == "parentPackage"
				}
				if !sliceReaches(pkgArg, isPkgLoad, map[ssa.Value]bool{}) {
					r.note(rule, funcName(fn), construct, pos, "package operand "+valueLabel(pkgArg)+" is neither the scanned definition's type name nor its stored package: not judged")
					continue
				}
				bad := ""
				for _, in := range instrsOf(fn) {
					st, ok := in.(*ssa.Store)
					if !ok {
						continue
					}
					_, f, base, ok := fieldRef(st.Addr)
					if !ok || f != "parentPackage" {
						continue
					}
					// the type name stored on the same object
					var tn ssa.Value
					for _, in2 := range instrsOf(fn) {
						if st2, ok := in2.(*ssa.Store); ok {
							if _, f2, b2, ok := fieldRef(st2.Addr); ok && f2 == "rosType" && b2 == base {
								tn = st2.Val
							}
						}
					}
					if tn == nil || !sliceReaches(st.Val, func(v ssa.Value) bool { return v == tn }, map[ssa.Value]bool{}) {
						bad = p.pos(st.Pos())
					}
				}
				if bad == "" {
					r.held(rule, funcName(fn), construct, pos, "the item's stored package, which every queued item derives from its own type name")
				} else {
					r.violated(rule, funcName(fn), construct, pos,
						"the package comes from the work item's stored parentPackage, but the item queued at "+bad+" stores a package that is not derived from its own type name (it is inherited from the referring definition); "+
							"an unqualified field type inside a nested definition of another package is then looked up in the wrong package")
				}
			}
		}
	}
}
