package main

import (
	"go/types"
	"strings"

	"golang.org/x/tools/go/ssa"
)

// C17.f: the read tool renders numbers as decimal strings. Field.MarshalJSON formats the dynamically typed field value
// with fmt verbs; a value-dependent verb (%v, %s) applied to it prints named integer types that implement fmt.Stringer
// (mcap.OpCode, ...) by name instead of by number, while every other field still looks right. Numeric cases must use an
// explicit numeric verb.
func checkReadToolRendering(p *Program, r *Result, rule string) {
	fn := p.lookupFunc(pkgReadC, "Field.MarshalJSON")
	if fn == nil {
		r.note(rule, "test-read-conformance.Field.MarshalJSON", "rendering of field values", "", "function not found: not judged")
		return
	}
	// named integer types with a String method among the fields of the mcap record structs
	var stringers []string
	scope := p.Pkgs[pkgMcap].Types.Scope()
	seen := map[string]bool{}
	for _, name := range scope.Names() {
		tn, ok := scope.Lookup(name).(*types.TypeName)
		if !ok {
			continue
		}
		st, ok := tn.Type().Underlying().(*types.Struct)
		if !ok {
			continue
		}
		for i := 0; i < st.NumFields(); i++ {
			ft, ok := st.Field(i).Type().(*types.Named)
			if !ok || seen[ft.Obj().Name()] {
				continue
			}
			if b, ok := ft.Underlying().(*types.Basic); !ok || b.Info()&types.IsInteger == 0 {
				continue
			}
			if hasMethod(ft, "String") {
				seen[ft.Obj().Name()] = true
				stringers = append(stringers, ft.Obj().Name())
			}
		}
	}
	n := 0
	for _, ci := range callsIn(fn, func(ci ssa.CallInstruction) bool { return calleeIs(ci, "fmt.Sprintf") }) {
		args := ci.Common().Args
		c, ok := args[0].(*ssa.Const)
		if !ok || c.Value == nil {
			continue
		}
		format := c.Value.ExactString()
		// is Field.Value among the operands?
		usesValue := false
		if len(args) > 1 {
			if sl, ok := args[1].(*ssa.Slice); ok {
				if al, ok := sl.X.(*ssa.Alloc); ok {
					for _, ref := range *al.Referrers() {
						if ia, ok := ref.(*ssa.IndexAddr); ok {
							for _, r2 := range *ia.Referrers() {
								if st, ok := r2.(*ssa.Store); ok {
									v := st.Val
									if mi, ok := v.(*ssa.MakeInterface); ok {
										v = mi.X
									}
									if f, isF := v.(*ssa.Field); isF {
										if _, fname, _, ok := fieldRef(f); ok && fname == "Value" {
											usesValue = true
										}
									}
									if loadOfField(v, "Field", "Value") {
										usesValue = true
									}
								}
							}
						}
					}
				}
			}
		}
		if !usesValue {
			continue
		}
		n++
		construct := "format " + format + " applied to the field value"
		if (strings.Contains(format, "%v") || strings.Contains(format, "%s")) && len(stringers) > 0 {
			r.violated(rule, funcName(fn), construct, p.pos(ci.Pos()),
				"a value-dependent verb formats the dynamically typed field value; fields of type "+strings.Join(stringers, ", ")+" implement fmt.Stringer and would be printed by name where the expectations list the number")
		} else {
			r.held(rule, funcName(fn), construct, p.pos(ci.Pos()), "explicit verb")
		}
	}
	if n == 0 {
		r.note(rule, funcName(fn), "rendering of field values", p.pos(fn.Pos()), "no fmt.Sprintf over Field.Value found: not judged")
	}
}
