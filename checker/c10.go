package main

import (
	"fmt"
	"go/token"
	"strings"

	"golang.org/x/tools/go/ssa"
)

func init() { register("C10", true, checkC10) }

// emitBoundReports turns sink verdicts into obligations.
func emitBoundReports(p *Program, r *Result, ba *boundAnalysis, rule string, suppress map[string]string) {
	for _, sr := range ba.sortedReports() {
		fname := funcName(sr.fn)
		construct := fmt.Sprintf("%s(%s) <- %s", sr.kind, sr.target, valueLabel(sr.operand))
		pos := p.pos(sr.instr.Pos())
		if sr.ok && sr.hyp {
			r.held(rule, fname, construct, pos, "operand is a parameter: every call site passes a value that is bounded or not input-derived")
			continue
		}
		if sr.ok {
			r.held(rule, fname, construct, pos, "input-derived ("+sr.origin+"); an upper-bound check or validating call precedes it on every path")
			continue
		}
		key := rule + " | " + fname + " | " + construct
		if _, ok := suppress[key]; !ok && len(suppress) > 0 {
			// the suppressed construct may have moved into an unexported helper of NextInto (same operation, same argument)
			// - but never into the code that fills the slot: there the length is read for the first time and must be checked
			if ni := p.lookupFunc(pkgMcap, "indexedMessageIterator.NextInto"); ni != nil && !fillsChunkSlot(p, sr.fn) {
				for _, rf := range regionOf(p, ni, 3) {
					if rf == sr.fn {
						key = rule + " | mcap.indexedMessageIterator.NextInto | " + construct
					}
				}
			}
		}
		if why, ok := suppress[key]; ok {
			r.note(rule, fname, construct+" [suppressed]", pos, "named suppression: "+why)
			continue
		}
		r.violated(rule, fname, construct, pos,
			"input-derived value ("+sr.origin+") reaches a "+sr.kind+" with no upper-bound check on some path")
	}
}

func abortCallName(c *ssa.CallCommon) string {
	n := staticCalleeName(c)
	switch n {
	case "os.Exit", "log.Fatal", "log.Fatalf", "log.Fatalln", "log.Panic", "log.Panicf", "log.Panicln", "runtime.Goexit",
		"(*log.Logger).Fatal", "(*log.Logger).Fatalf", "(*log.Logger).Fatalln", "(*log.Logger).Panic", "(*log.Logger).Panicf", "(*log.Logger).Panicln":
		return n
	}
	return ""
}

// checkNoAbort: no explicit panic / process-exit call in the given functions.
func checkNoAbort(p *Program, r *Result, rule string, fns []*ssa.Function) {
	for _, fn := range fns {
		fname := funcName(fn)
		bad := false
		for _, in := range instrsOf(fn) {
			switch x := in.(type) {
			case *ssa.Panic:
				if x.Pos().IsValid() { // explicit panic(...) in source (compiler-inserted checks have no position)
					r.violated(rule, fname, "panic call", p.pos(x.Pos()), "explicit panic reachable from a decode entry point")
					bad = true
				}
			case ssa.CallInstruction:
				if n := abortCallName(x.Common()); n != "" {
					r.violated(rule, fname, "call "+n, p.pos(x.Pos()), "process-terminating call reachable from a decode/convert entry point; bad input must yield an error")
					bad = true
				}
			}
		}
		if !bad {
			r.held(rule, fname, "no abort call", p.pos(fn.Pos()), "no panic/log.Fatal/os.Exit/runtime.Goexit")
		}
	}
}

func checkC10(p *Program, r *Result) {
	r.Explanation = "Structural necessary conditions of 'no input can crash or exhaust the process', over every go/mcap function reachable from the decode entry points " +
		"(NewLexer, Lexer.Next, Parse*, NewReader, Reader.*, both message iterators, AttachmentReader.*): " +
		"(C10.a/b) every integer decoded from input (binary.LittleEndian.UintN, or carried through struct fields, parameters and results, field-based whole-program fixpoint) that reaches " +
		"a slice bound, an index or an allocation size is, on every CFG path, first compared against a bounded quantity on the branch that implies an upper bound, or validated by a callee " +
		"that returns nil only after such a comparison (makeSafe, seekTo); a guard that is itself conditional on configuration does not count on the path where the configuration is zero; " +
		"(C10.e) no panic/log.Fatal/os.Exit call; (C10.h) every decode error is consulted and propagated (same engine as C15.b, for calls that do not touch the source); " +
		"(C10.g) optional summary tables are nil-checked before dereference; (C10.w) the primitive readers' guard constant covers the width that is read. " +
		"Decides presence of a bound on every path, not its tightness."
	r.NotDecided = []string{
		"absence of every panic (nil dereferences outside C10.g, map writes, third-party code)",
		"termination in general; actual memory use",
		"tightness of the bounds that exist",
	}
	r.rule("C10.a", "input-derived integers are upper-bounded on every path before slice bounds, indexes and allocation sizes", 12)
	r.rule("C10.e", "no panic / process-exit call reachable from decode entry points", 40)

	scope := readerScope(p)
	ba := newBoundAnalysis(p, scope)
	ba.run()
	suppress := map[string]string{
		"C10.a | mcap.indexedMessageIterator.NextInto | slice-high(it.chunkSlots[·].buf) <- mcap.checkedAdd()#0": "the record length is re-read from the same 8 bytes that loadChunk validated against the slot size when it indexed the message; the slot buffer is not rewritten while unreadMessages > 0 (C20.b/c)",
	}
	emitBoundReports(p, r, ba, "C10.a", suppress)
	r.rule("C10.d", "fixed-position reads of a record buffer follow a minimum-length test", 1)
	checkParserMinLength(p, r, "C10.d")
	checkFixedWidthLoops(p, r, "C10.d", sortedFuncs(scope))
	r.rule("C10.k", "a checked value plus a constant still fits: the guard leaves room for what is added", 1)
	checkAdditiveBounds(p, r, "C10.k", sortedFuncs(scope), nil)
	checkSumBounds(p, r, "C10.k", sortedFuncs(scope))
	r.Extra["raw_fields"] = rawFieldList(ba)
	checkNoAbort(p, r, "C10.e", sortedFuncs(scope))

	// C10.h: decode errors that do not come from the source (parse helpers, validation) are consulted and
	// propagated; the source-reaching ones are C15.b's.
	r.rule("C10.h", "every decode/validation error is consulted on every path and returned non-nil", 80)
	srcSpec := sourceSpec()
	R := p.reachSet(srcSpec)
	srcScope := p.scopeFn(srcSpec, R)
	parseScope := func(site ssa.CallInstruction) (bool, string) {
		if ok, _ := srcScope(site); ok {
			return false, ""
		}
		f := site.Common().StaticCallee()
		if f == nil || !p.isRepoFunc(f) {
			return false, ""
		}
		if _, isErr := sigReturnsError(f.Signature); !isErr {
			return false, ""
		}
		return true, funcName(f)
	}
	cfg := errFlowCfg{rule: "C10.h", inScope: parseScope}
	for _, fn := range sortedFuncs(scope) {
		runErrFlow(p, r, fn, cfg)
	}
	checkLexerChunkState(p, r)
	checkSlotLength(p, r)
	rfns := sortedFuncs(scope)
	checkOptionalDeref(p, r, rfns)
	checkReadWidths(p, r, rfns)
	checkLoopProgress(p, r, rfns)
	checkNoUnguardedRecursion(p, r, scope)
	r.rule("C10.t", "constant-length tables have room for every value their index type admits", 1)
	checkConstTables(p, r, "C10.t", rfns)
	r.rule("C10.r", "the source is consumed only through full-read primitives (a hand-written Read loop can spin on (0, EOF))", 15)
	for _, fn := range rfns {
		checkRawReadsAs(p, r, fn, "C10.r")
	}
}

// checkSlotLength (C10.s): in the index-based loadChunk the record walk and NextInto bound every slice by the
// uncompressed size declared in the chunk header. That is only safe if the slot buffer really holds that many
// freshly decoded bytes: each way of filling the slot is either a full read into the exactly sized buffer, or is
// length-checked against the declared size with a returning mismatch branch. (This is also what makes the named
// suppression of the re-read record length in NextInto sound.)
func checkSlotLength(p *Program, r *Result) {
	r.rule("C10.s", "index-based reader: decoded chunk length is checked against the declared size", 2)
	fn := p.lookupFunc(pkgMcap, "indexedMessageIterator.loadChunk")
	if fn == nil {
		r.undecided("C10.s", "mcap.indexedMessageIterator.loadChunk", "anchor", "", "not found")
		return
	}
	anchor := fn
	n := 0
	for _, fn := range p.repoFunctions(pkgMcap) {
		fname := funcName(fn)
		isLenOf := func(v ssa.Value, pred func(ssa.Value) bool) bool {
			c, ok := stripConv(v).(*ssa.Call)
			if !ok {
				return false
			}
			b, isB := c.Call.Value.(*ssa.Builtin)
			return isB && b.Name() == "len" && pred(c.Call.Args[0])
		}
		// comparisons (==, !=) with a returning mismatch branch
		type lenCheck struct {
			iff  *ssa.If
			x, y ssa.Value
		}
		var checks []lenCheck
		for _, in := range instrsOf(fn) {
			b, ok := in.(*ssa.BinOp)
			if !ok || (b.Op != token.NEQ && b.Op != token.EQL) {
				continue
			}
			for _, ref := range *b.Referrers() {
				iff, ok := ref.(*ssa.If)
				if !ok {
					continue
				}
				mismatch := iff.Block().Succs[0]
				if b.Op == token.EQL {
					mismatch = iff.Block().Succs[1]
				}
				if returnsNonNilErrOnAllPaths(fn, mismatch) {
					checks = append(checks, lenCheck{iff, b.X, b.Y})
				}
			}
		}
		isSlotBuf := func(v ssa.Value) bool { return loadOfField(v, "chunkSlot", "buf") }
		isRecords := func(v ssa.Value) bool { return loadOfField(v, "Chunk", "Records") }
		for _, ci := range callsIn(fn, func(ssa.CallInstruction) bool { return true }) {
			c := ci.Common()
			pos := p.pos(ci.Pos())
			switch {
			case calleeIs(ci, "io.ReadFull") && len(c.Args) == 2 && isSlotBuf(c.Args[1]):
				n++
				r.held("C10.s", fname, "slot filled by a full read", pos, "io.ReadFull into the exactly sized slot buffer fails if the chunk decodes to fewer bytes")
			case func() bool { b, ok := c.Value.(*ssa.Builtin); return ok && b.Name() == "copy" && isSlotBuf(c.Args[0]) }():
				n++
				ok := false
				for _, lc := range checks {
					if (isLenOf(lc.x, isRecords) || isLenOf(lc.y, isRecords) || isLenOf(lc.x, func(v ssa.Value) bool { return v == c.Args[1] }) || isLenOf(lc.y, func(v ssa.Value) bool { return v == c.Args[1] })) &&
						(lc.iff.Block() == ci.Block() || lc.iff.Block().Dominates(ci.Block())) {
						ok = true
					}
				}
				if ok {
					r.held("C10.s", fname, "slot filled by copy, length checked", pos, "the source length is compared with the declared size before the copy")
				} else {
					r.violated("C10.s", fname, "slot filled by copy, length checked", pos,
						"an uncompressed chunk's records are copied into the slot without checking that there are as many bytes as the header declares; the record walk then reads stale bytes of the previous chunk in a re-used slot as records")
				}
			case strings.HasSuffix(trimPkg(staticCalleeName(c)), ".DecodeAll"):
				n++
				ok := false
				for _, lc := range checks {
					if (isLenOf(lc.x, isSlotBuf) || isLenOf(lc.y, isSlotBuf)) && reachableFromSuccs(ci.Block())[lc.iff.Block()] || (isLenOf(lc.x, isSlotBuf) || isLenOf(lc.y, isSlotBuf)) && lc.iff.Block() == ci.Block() {
						ok = true
					}
				}
				if ok {
					r.held("C10.s", fname, "slot filled by DecodeAll, length checked", pos, "the decoded length is compared with the declared size")
				} else {
					r.violated("C10.s", fname, "slot filled by DecodeAll, length checked", pos,
						"the decoder returns as many bytes as the frame holds; nothing compares that with the declared uncompressed size, which bounds the record walk and NextInto's slices (stale data read as records, slice beyond the buffer length)")
				}
			}
		}
	}
	fn = anchor
	fname := funcName(fn)
	if n < 2 {
		r.undecided("C10.s", fname, "ways of filling the slot", p.pos(fn.Pos()), "fewer than two fill sites recognised")
	}
}

// checkLexerChunkState (C10.n): in the lexer's loadChunk, once the active reader has been replaced by a chunk
// decoder, every way out of the function — error returns included — has set inChunk. Otherwise an error leaves
// the lexer reading from the decoder while believing it is outside a chunk: the nested-chunk rejection and the
// fall-back to the base reader at the decoder's EOF are disabled (unbounded recursion / no progress on crafted input).
func checkLexerChunkState(p *Program, r *Result) {
	r.rule("C10.n", "lexer: reader swap and inChunk flag change together on every exit", 1)
	fn := p.lookupFunc(pkgMcap, "loadChunk")
	if fn == nil {
		r.undecided("C10.n", "mcap.loadChunk", "anchor", "", "not found")
		return
	}
	var flag []*ssa.Store
	for _, st := range fieldStores(fn, "Lexer", "inChunk") {
		if c, ok := st.Val.(*ssa.Const); ok && c.Value != nil && c.Value.String() == "true" {
			flag = append(flag, st)
		}
	}
	// reader swaps: direct stores to Lexer.reader and calls of the set*Decoder helpers that store it
	var swaps []ssa.Instruction
	for _, st := range fieldStores(fn, "Lexer", "reader") {
		swaps = append(swaps, st)
	}
	for _, ci := range callsIn(fn, func(ci ssa.CallInstruction) bool {
		f := ci.Common().StaticCallee()
		return f != nil && p.isRepoFunc(f) && len(fieldStores(f, "Lexer", "reader")) > 0
	}) {
		// setNoneDecoder after validation re-installs a reader while already in the chunk: ignore calls dominated by a flag store
		swaps = append(swaps, ci)
	}
	if len(flag) == 0 || len(swaps) == 0 {
		r.undecided("C10.n", funcName(fn), "inChunk / reader stores", p.pos(fn.Pos()), "no store of inChunk = true or no reader swap found")
		return
	}
	bad := ""
	for _, in := range instrsOf(fn) {
		ret, ok := in.(*ssa.Return)
		if !ok {
			continue
		}
		for _, sw := range swaps {
			afterSwap := sw.Block() == ret.Block() || reachableFromSuccs(sw.Block())[ret.Block()]
			if !afterSwap {
				continue
			}
			// a return inside the swap helper's own error handling (err of the helper tested right after the call) is
			// before the swap took effect: helper returned an error => reader not replaced
			if ci, isCall := sw.(ssa.CallInstruction); isCall {
				if c, ok := ci.(*ssa.Call); ok && errorValueOf2(c) != nil && errKnownNonNil(ret, errorValueOf2(c)) {
					continue
				}
			}
			okFlag := false
			for _, fl := range flag {
				if instrDominates(fl, ret) {
					okFlag = true
				}
			}
			if !okFlag && bad == "" {
				bad = p.pos(ret.Pos())
			}
		}
	}
	if bad == "" {
		r.held("C10.n", funcName(fn), "inChunk set on every exit after the reader swap", p.pos(flag[0].Pos()), "every return reachable from a reader swap is dominated by inChunk = true")
	} else {
		r.violated("C10.n", funcName(fn), "inChunk set on every exit after the reader swap", bad,
			"a return (at "+bad+") leaves the lexer with a chunk decoder installed as its reader but inChunk still false; on crafted input the next chunk record makes the decoder wrap itself (deadlock / stack overflow) instead of being rejected as nested")
	}
}

func errorValueOf2(c *ssa.Call) ssa.Value {
	if _, ok := sigReturnsError(c.Common().Signature()); !ok {
		return nil
	}
	return errorValueOf(c)
}

func rawFieldList(ba *boundAnalysis) []string {
	var out []string
	for fv, why := range ba.rawField {
		out = append(out, fv.Name()+": "+why)
	}
	sortStrings(out)
	return out
}

func sortStrings(s []string) {
	for i := 1; i < len(s); i++ {
		for j := i; j > 0 && s[j-1] > s[j]; j-- {
			s[j-1], s[j] = s[j], s[j-1]
		}
	}
}

var _ = strings.HasPrefix

// fillsChunkSlot: fn, or a function of its call region, stores into the buffer field of a chunk slot or is the
// function that indexes a freshly loaded chunk (appends to the pending-message queue).
func fillsChunkSlot(p *Program, fn *ssa.Function) bool {
	for _, rf := range regionOf(p, fn, 3) {
		for _, in := range instrsOf(rf) {
			st, ok := in.(*ssa.Store)
			if !ok {
				continue
			}
			fa, ok := st.Addr.(*ssa.FieldAddr)
			if !ok {
				continue
			}
			nt, stt := structOf(fa.X.Type())
			if nt == nil || stt == nil {
				continue
			}
			if nt.Obj().Name() == "chunkSlot" && isByteSlice(stt.Field(fa.Field).Type()) {
				return true
			}
		}
	}
	return false
}
