package main

import (
	"fmt"
	"go/token"
	"go/types"
	"sort"
	"strings"

	"golang.org/x/tools/go/ssa"
)

func init() { register("C03", true, checkC03) }

var stableSorts = map[string]bool{"sort.SliceStable": true, "sort.Stable": true, "slices.SortStableFunc": true}
var unstableSorts = map[string]bool{"sort.Slice": true, "sort.Sort": true, "slices.SortFunc": true, "slices.Sort": true}

// orderConstOf: the ReadOrder constant (0,1,2) of the `it.order == K` test that dominates the instruction, or -1.
func orderConstOf(in ssa.Instruction) int {
	blk := in.Block()
	for d := blk; d != nil; d = d.Idom() {
		for _, pred := range d.Preds {
			iff, ok := pred.Instrs[len(pred.Instrs)-1].(*ssa.If)
			if !ok || pred.Succs[0] != d || len(d.Preds) != 1 {
				continue
			}
			if b, ok := iff.Cond.(*ssa.BinOp); ok && b.Op == token.EQL {
				var c *ssa.Const
				var other ssa.Value
				if cc, ok := b.Y.(*ssa.Const); ok {
					c, other = cc, b.X
				} else if cc, ok := b.X.(*ssa.Const); ok {
					c, other = cc, b.Y
				}
				if c != nil && c.Value != nil && loadOfField(other, "indexedMessageIterator", "order") {
					return int(c.Int64())
				}
				// the read order handed to a method of the queue type as a parameter
				if prm, ok := other.(*ssa.Parameter); ok && c != nil && c.Value != nil {
					if nt, ok := prm.Type().(*types.Named); ok && nt.Obj().Name() == "ReadOrder" {
						return int(c.Int64())
					}
				}
			}
		}
	}
	return -1
}

// closureOf returns the function literal passed as argument (MakeClosure or function value).
func closureOf(v ssa.Value) *ssa.Function {
	switch x := v.(type) {
	case *ssa.MakeClosure:
		f, _ := x.Fn.(*ssa.Function)
		return f
	case *ssa.Function:
		return x
	}
	return nil
}

// lessShape describes a `less(i, j)` closure: single comparison of the same field of the i-th and j-th element.
// It returns (field, op) with op "<" or ">" meaning element[i].field op element[j].field; tie is the secondary
// key if the closure has the `if a == b {return x OP y}; return a OP b` form.
func lessShape(fn *ssa.Function) (field, op string, why string) {
	if fn == nil || fn.Blocks == nil || len(fn.Params) != 2 {
		return "", "", "comparator is not a two-argument function literal"
	}
	// collect returns; the primary comparison is the one returned on the path where the keys differ
	var cmp *ssa.BinOp
	var all []*ssa.BinOp
	for _, in := range instrsOf(fn) {
		ret, ok := in.(*ssa.Return)
		if !ok {
			continue
		}
		b, ok := ret.Results[0].(*ssa.BinOp)
		if !ok {
			return "", "", "comparator returns " + describeVal(ret.Results[0]) + ", not a single comparison"
		}
		cmp = b // the last return in block order is the primary key in `if tie {...}; return primary`
		all = append(all, b)
	}
	if cmp == nil {
		return "", "", "no comparison returned"
	}
	// which return is the primary key: the one taken where the keys differ. `if a.K == b.K { return tie }; return a.K < b.K`
	// puts it last, `if a.K != b.K { return a.K < b.K }; return tie` puts it first.
	side := func(b *ssa.BinOp) string {
		blk := b.Block()
		if len(blk.Preds) != 1 {
			return ""
		}
		iff, ok := blk.Preds[0].Instrs[len(blk.Preds[0].Instrs)-1].(*ssa.If)
		if !ok {
			return ""
		}
		c, ok := iff.Cond.(*ssa.BinOp)
		if !ok || (c.Op != token.EQL && c.Op != token.NEQ) {
			return ""
		}
		kx, _ := elemField(c.X)
		ky, _ := elemField(c.Y)
		if kx == "" || kx != ky {
			return ""
		}
		onTrue := blk.Preds[0].Succs[0] == blk
		if (c.Op == token.EQL && onTrue) || (c.Op == token.NEQ && !onTrue) {
			return "equal:" + kx
		}
		return "differ:" + kx
	}
	differForm := false
	for _, b := range all {
		if s := side(b); strings.HasPrefix(s, "differ:") {
			if f, _ := elemField(b.X); f == strings.TrimPrefix(s, "differ:") {
				cmp = b
				differForm = true
			}
		}
	}
	// several returns on the same field in opposite strict directions, selected by a captured flag: the direction
	// is not decided here ("*"), strictness and key are
	if len(all) == 2 {
		f0, _ := elemField(all[0].X)
		f1, _ := elemField(all[1].X)
		strict := func(b *ssa.BinOp) bool { return b.Op == token.LSS || b.Op == token.GTR }
		if f0 != "" && f0 == f1 && strict(all[0]) && strict(all[1]) && all[0].Op != all[1].Op {
			if g0, _ := elemField(all[0].Y); g0 == f0 {
				return f0, "*", ""
			}
		}
	}
	fx, ix := elemField(cmp.X)
	fy, iy := elemField(cmp.Y)
	if fx == "" || fx != fy {
		return "", "", "comparison operands are not the same field of two elements"
	}
	// a tie-break (`if a.K == b.K { return a.T < b.T }; return a.K < b.K`) may only be taken when the primary keys are
	// equal: otherwise the secondary key decides between elements whose primary keys differ and the order is not by K
	for _, b := range all {
		if b == cmp {
			continue
		}
		blk := b.Block()
		if len(blk.Preds) != 1 {
			continue
		}
		iff, ok := blk.Preds[0].Instrs[len(blk.Preds[0].Instrs)-1].(*ssa.If)
		if !ok {
			continue
		}
		c, ok := iff.Cond.(*ssa.BinOp)
		if !ok {
			continue
		}
		kx, _ := elemField(c.X)
		ky, _ := elemField(c.Y)
		onTrue := blk.Preds[0].Succs[0] == blk
		eq := (c.Op == token.EQL && onTrue) || (c.Op == token.NEQ && !onTrue)
		if differForm && blk.Preds[0] == cmp.Block().Preds[0] {
			// the other side of the primary's own test: the keys are equal there
			eq = true
		}
		if kx == fx && ky == fx && !eq {
			return fx, "", "the tie-break on the secondary key is taken when the primary keys (" + fx + ") differ, so the order is not by " + fx
		}
	}
	pi, pj := ssa.Value(fn.Params[0]), ssa.Value(fn.Params[1])
	o := ""
	switch cmp.Op {
	case token.LSS:
		o = "<"
	case token.GTR:
		o = ">"
	case token.LEQ, token.GEQ:
		return fx, cmp.Op.String(), "non-strict comparison " + cmp.Op.String() + " breaks stability and the sort contract"
	default:
		return fx, "", "operator " + cmp.Op.String()
	}
	switch {
	case ix == pi && iy == pj:
	case ix == pj && iy == pi:
		if o == "<" {
			o = ">"
		} else {
			o = "<"
		}
	default:
		return fx, "", "elements are not indexed by the comparator's two arguments"
	}
	return fx, o, ""
}

// elemField: v = load(field f of element [idx] of some slice) -> (f, idx)
func elemField(v ssa.Value) (string, ssa.Value) {
	v = stripConv(v)
	u, ok := v.(*ssa.UnOp)
	if !ok || u.Op != token.MUL {
		return "", nil
	}
	fa, ok := u.X.(*ssa.FieldAddr)
	if !ok {
		return "", nil
	}
	_, f, base, _ := fieldRef(fa)
	// base: IndexAddr(slice, idx) or load of IndexAddr (slice of pointers)
	switch b := base.(type) {
	case *ssa.IndexAddr:
		return f, b.Index
	case *ssa.UnOp:
		if ia, ok := b.X.(*ssa.IndexAddr); ok {
			return f, ia.Index
		}
	case *ssa.Parameter:
		// comparator over two element pointers: func(a, b *T) bool
		return f, b
	}
	return "", nil
}

func checkC03(p *Program, r *Result) {
	r.Explanation = "Structural necessary conditions of 'time-ordered reads are exact sorts': in the indexed iterator " +
		"(C03.a) every sort of the pending message queue uses a stable API; (C03.b) its comparator is one strict comparison of the two elements' timestamp, '<' under LogTimeOrder and '>' under ReverseLogTimeOrder; " +
		"(C03.c) per order, the primary key of the chunk-index sort is the chunk field that NextInto compares with the head message before yielding (start time ascending / end time descending), with matching direction; " +
		"(C03.d) in reverse order the newly indexed segment is reversed before the stable sort; " +
		"(C03.g) the bytes NextInto hands to PopulateFrom are sliced from the chunk slot and offset of the queue entry at the cursor, and the load trigger compares that entry's timestamp; " +
		"(C03.e) after loading a chunk control returns to the head of the yield loop (the load trigger is re-evaluated) before any message is yielded."
	r.NotDecided = []string{"that the two-queue merge yields every selected message exactly once in order for every overlap pattern (run-time)"}
	r.rule("C03.a", "pending-message queue is sorted with a stable API", 1)
	r.rule("C03.b", "comparators are strict single-key comparisons with the direction of the read order", 1)
	r.rule("C03.c", "chunk-order key == load-trigger key, same direction", 2)
	r.rule("C03.d", "reverse order: new segment reversed before the stable sort", 1)
	r.rule("C03.e", "load trigger re-evaluated after every chunk load", 1)

	lc := p.lookupFunc(pkgMcap, "indexedMessageIterator.loadChunk")
	ps := p.lookupFunc(pkgMcap, "indexedMessageIterator.parseSummarySection")
	ni := p.lookupFunc(pkgMcap, "indexedMessageIterator.NextInto")
	if lc == nil || ps == nil || ni == nil {
		r.undecided("C03.a", "mcap.indexedMessageIterator", "anchors", "", "loadChunk / parseSummarySection / NextInto not found")
		return
	}
	oc := &originCtx{p: p}
	// ---- a, b, d: sorts / reversals of the message queue, in whichever iterator method they live
	type queueCall struct {
		m    *ssa.Function
		ci   ssa.CallInstruction
		name string
	}
	var queueCalls []queueCall
	var reverseCalls []ssa.Instruction
	for _, m := range iteratorAndQueueMethods(p) {
		if m.Blocks == nil {
			continue
		}
		for _, ci := range callsIn(m, func(ssa.CallInstruction) bool { return true }) {
			name := staticCalleeName(ci.Common())
			if f := ci.Common().StaticCallee(); f != nil && f.Origin() != nil {
				name = staticCalleeName2(f.Origin())
			}
			args := ci.Common().Args
			if len(args) == 0 || !(name == "slices.Reverse" || stableSorts[name] || unstableSorts[name]) {
				continue
			}
			onQueue := false
			arg0 := args[0]
			if mi, ok := arg0.(*ssa.MakeInterface); ok {
				arg0 = mi.X
			}
			for _, o := range oc.originsUp(arg0) {
				if o == p.roles().queueOrigin() {
					onQueue = true
				}
			}
			if !onQueue {
				continue
			}
			if name == "slices.Reverse" {
				reverseCalls = append(reverseCalls, ci)
				continue
			}
			queueCalls = append(queueCalls, queueCall{m, ci, name})
		}
	}
	// a reversal written as a swap loop: q[i], q[j] = q[j], q[i] on (a window of) the queue
	for _, m := range iteratorAndQueueMethods(p) {
		if m.Blocks == nil {
			continue
		}
		for _, b := range m.Blocks {
			var stores []*ssa.Store
			for _, in := range b.Instrs {
				if st, ok := in.(*ssa.Store); ok {
					if _, ok := st.Addr.(*ssa.IndexAddr); ok {
						stores = append(stores, st)
					}
				}
			}
			for i := 0; i < len(stores); i++ {
				for j := i + 1; j < len(stores); j++ {
					a, c := stores[i].Addr.(*ssa.IndexAddr), stores[j].Addr.(*ssa.IndexAddr)
					la, ok1 := stores[i].Val.(*ssa.UnOp)
					lc, ok2 := stores[j].Val.(*ssa.UnOp)
					sameSlice := func(x, y ssa.Value) bool {
						if x == y {
							return true
						}
						ux, okx := x.(*ssa.UnOp)
						uy, oky := y.(*ssa.UnOp)
						if !okx || !oky {
							return false
						}
						t1, f1, b1, k1 := fieldRef(ux.X)
						t2, f2, b2, k2 := fieldRef(uy.X)
						return k1 && k2 && t1 == t2 && f1 == f2 && b1 == b2
					}
					if !ok1 || !ok2 || !sameSlice(a.X, c.X) || a.Index == c.Index {
						continue
					}
					ia, ok1 := la.X.(*ssa.IndexAddr)
					ic, ok2 := lc.X.(*ssa.IndexAddr)
					if !ok1 || !ok2 || !sameSlice(ia.X, a.X) || !sameSlice(ic.X, a.X) || ia.Index != c.Index || ic.Index != a.Index {
						continue
					}
					for _, o := range oc.originsUp(a.X) {
						if o == p.roles().queueOrigin() {
							reverseCalls = append(reverseCalls, stores[i])
						}
					}
				}
			}
		}
	}
	for _, qc := range queueCalls {
		ci, name := qc.ci, qc.name
		args := ci.Common().Args
		fname := funcName(qc.m)
		pos := p.pos(ci.Pos())
		cases := comparatorCases(ci)
		orderLabel := "-1"
		if len(cases) == 1 {
			orderLabel = fmt.Sprint(cases[0].order)
		} else if len(cases) > 1 {
			orderLabel = "selected per order"
		}
		switch {
		case stableSorts[name]:
			r.held("C03.a", fname, fmt.Sprintf("sort of the message queue (order %s)", orderLabel), pos, name+" is stable")
		case unstableSorts[name]:
			r.violated("C03.a", fname, fmt.Sprintf("sort of the message queue (order %s)", orderLabel), pos,
				name+" is not stable: messages of one chunk that share a log time may be reordered (it is an insertion sort, stable by accident, only below 12 elements)")
		}
		if len(args) < 2 {
			continue
		}
		has2 := false
		for _, cs := range cases {
			order := cs.order
			if order == 2 || order == -1 {
				has2 = true
			}
			construct := fmt.Sprintf("comparator of the message-queue sort (order %d)", order)
			f, op, why := "", "", ""
			want := map[int]string{1: "<", 2: ">"}[order]
			if strings.HasPrefix(name, "slices.") {
				// cmp-style comparator: must be cmp.Compare of the two timestamps
				f, op, why = "timestamp", want, cmpShape(cs.fn, order)
			} else {
				f, op, why = lessShape(cs.fn)
			}
			switch {
			case why != "":
				r.violated("C03.b", fname, construct, pos, why)
			case f != "timestamp":
				r.violated("C03.b", fname, construct, pos, "sorts by field "+f+", not by the message timestamp")
			case want != "" && op != want && op != "*":
				r.violated("C03.b", fname, construct, pos, "comparator direction is "+op+" but the read order requires "+want)
			case want == "" && op != "*":
				r.undecided("C03.b", fname, construct, pos, "sort is not under a test of it.order")
			default:
				r.held("C03.b", fname, construct, pos, "element[i].timestamp "+op+" element[j].timestamp")
			}
		}
		// d: reverse order (also when one sort serves both time orders)
		if has2 {
			ok := false
			for _, rc := range reverseCalls {
				if orderConstOf(rc) == 2 && rc.Parent() == ci.Parent() && (instrDominates(rc, ci) || reachableFromSuccs(rc.Block())[ci.Block()]) {
					ok = true
				}
			}
			if ok {
				r.held("C03.d", fname, "reverse of the new segment before the reverse-order sort", pos, "slices.Reverse on the queue (under the reverse-order test) precedes the stable sort")
			} else {
				r.violated("C03.d", fname, "reverse of the new segment before the reverse-order sort", pos,
					"in reverse order, messages of one chunk with equal log time must come out in reverse file order; the newly indexed segment is not reversed before the stable sort")
			}
		}
	}
	// ---- f: the slice handed to the sort is the queue as it is at that moment: no store to it.messageIndexes or
	// it.curMessageIndex lies between taking the window and sorting it
	r.rule("C03.f", "the sorted window is the current pending queue (not taken before the queue was compacted)", 1)
	for _, qc := range queueCalls {
		ci := qc.ci
		lc := qc.m

		arg := ci.Common().Args[0]
		if mi, ok := arg.(*ssa.MakeInterface); ok {
			arg = mi.X
		}
		var winInstr ssa.Instruction
		if sl, ok := arg.(*ssa.Slice); ok {
			winInstr = sl
		} else if c, ok := arg.(*ssa.Call); ok && p.roles().pendingWindow(c, 0) {
			winInstr = c
		} else if u, ok := arg.(*ssa.UnOp); ok && u.Op == token.MUL {
			// the window variable is captured by the comparator closure: a heap cell; take the store that fills it
			if al, ok := u.X.(*ssa.Alloc); ok {
				for _, ref := range *al.Referrers() {
					if st, ok := ref.(*ssa.Store); ok && st.Addr == ssa.Value(al) {
						_, isSlice := st.Val.(*ssa.Slice)
						if c, ok := st.Val.(*ssa.Call); ok && p.roles().pendingWindow(c, 0) {
							isSlice = true
						}
						if isSlice && instrDominates(st, ci) {
							winInstr = st
						}
					}
				}
			}
		}
		// the window may be handed in by the caller (sort helper taking the pending window as a parameter): the window
		// is then taken at the call site, and "between taking and sorting" is between that and the call
		sortAt := ssa.Instruction(ci)
		if winInstr == nil {
			var prm *ssa.Parameter
			switch a := arg.(type) {
			case *ssa.Parameter:
				prm = a
			case *ssa.UnOp:
				if al, ok := a.X.(*ssa.Alloc); ok {
					for _, ref := range *al.Referrers() {
						if st, ok := ref.(*ssa.Store); ok && st.Addr == ssa.Value(al) {
							if q, ok := st.Val.(*ssa.Parameter); ok {
								prm = q
							}
						}
					}
				}
			}
			if prm != nil {
				idx := -1
				for i, q := range prm.Parent().Params {
					if q == prm {
						idx = i
					}
				}
				if sites := p.staticCallers(prm.Parent()); len(sites) == 1 && idx >= 0 {
					a := sites[0].Common().Args[idx]
					if sl, ok := a.(*ssa.Slice); ok {
						winInstr, sortAt, lc = sl, sites[0], sites[0].Parent()
					} else if c, ok := a.(*ssa.Call); ok && p.roles().pendingWindow(c, 0) {
						winInstr, sortAt, lc = c, sites[0], sites[0].Parent()
					}
				}
			}
		}
		if winInstr == nil {
			continue
		}
		win := winInstr
		stale := ""
		for _, tf := range [][2]string{{p.roles().qType, p.roles().qField}, {p.roles().cType, p.roles().cField}} {
			f := tf[1]
			// stores in the function itself, and calls of helpers that store
			var muts []ssa.Instruction
			for _, st := range fieldStores(lc, tf[0], f) {
				muts = append(muts, st)
			}
			for _, hc := range callsIn(lc, func(hc ssa.CallInstruction) bool {
				g := hc.Common().StaticCallee()
				return g != nil && p.transparent(g) && len(regionStores(regionOf(p, g, 3), tf[0], f)) > 0
			}) {
				muts = append(muts, hc)
			}
			for _, st := range muts {
				afterWin := st.Block() == win.Block() && blockIndexOf(st) > blockIndexOf(win) || st.Block() != win.Block() && reachableFromSuccs(win.Block())[st.Block()]
				beforeSort := st.Block() == sortAt.Block() && blockIndexOf(st) < blockIndexOf(sortAt) || st.Block() != sortAt.Block() && reachableFromSuccs(st.Block())[sortAt.Block()]
				if afterWin && beforeSort && instrDominates(win, st) {
					stale = "it." + f + " is modified at " + p.pos(st.Pos())
				}
			}
		}
		if stale == "" {
			r.held("C03.f", funcName(lc), "sorted window is current", p.pos(ci.Pos()), "no update of the queue between taking the window and sorting it")
		} else {
			r.violated("C03.f", funcName(lc), "sorted window is current", p.pos(ci.Pos()),
				"the window of pending messages is taken, then the queue is compacted ("+stale+"), then the old window is sorted: the live entries stay unsorted and messages come out in the wrong time order")
		}
	}
	// ---- c: chunk sort keys (parseSummarySection) vs trigger (NextInto)
	sortKey := map[int][2]string{}
	var sortSites []ssa.CallInstruction
	for _, m := range iteratorAndQueueMethods(p) {
		if m.Blocks == nil {
			continue
		}
		sortSites = append(sortSites, callsIn(m, func(ci ssa.CallInstruction) bool {
			n := staticCalleeName(ci.Common())
			return stableSorts[n] || unstableSorts[n]
		})...)
	}
	for _, ci := range sortSites {
		args := ci.Common().Args
		onChunks := false
		for _, o := range oc.originsUp(args[0]) {
			if o == "field:indexedMessageIterator.chunkIndexes" {
				onChunks = true
			}
		}
		if mi, ok := args[0].(*ssa.MakeInterface); ok {
			for _, o := range oc.originsUp(mi.X) {
				if o == "field:indexedMessageIterator.chunkIndexes" {
					onChunks = true
				}
			}
		}
		if !onChunks || len(args) < 2 {
			continue
		}
		for _, cs := range comparatorCases(ci) {
			order := cs.order
			f, op, why := lessShape(cs.fn)
			if why != "" {
				r.violated("C03.c", funcName(ps), fmt.Sprintf("chunk-index sort (order %d)", order), p.pos(ci.Pos()), why)
				continue
			}
			if cs.swapped {
				op = map[string]string{"<": ">", ">": "<"}[op]
			}
			sortKey[order] = [2]string{f, op}
		}
	}
	trigger := map[int][2]string{}
	var trigInstrs []ssa.Instruction
	for _, m := range iteratorAndQueueMethods(p) {
		if m.Blocks != nil {
			trigInstrs = append(trigInstrs, instrsOf(m)...)
		}
	}
	for _, in := range trigInstrs {
		b, ok := in.(*ssa.BinOp)
		if !ok {
			continue
		}
		var chunkField string
		dir := ""
		lx, ly := stripConv(b.X), stripConv(b.Y)
		isTs := func(v ssa.Value) bool {
			if loadOfField(v, "messageIndexWithChunkSlot", "timestamp") {
				return true
			}
			// a helper predicate taking the head message's time as a parameter
			if prm, ok := v.(*ssa.Parameter); ok {
				if b, ok := prm.Type().Underlying().(*types.Basic); ok && b.Kind() == types.Uint64 {
					return true
				}
			}
			return false
		}
		cf := func(v ssa.Value) string {
			if u, ok := v.(*ssa.UnOp); ok && u.Op == token.MUL {
				if tn, f, _, ok := fieldRef(u.X); ok && tn == "ChunkIndex" {
					return f
				}
			}
			return ""
		}
		switch {
		case cf(lx) != "" && isTs(ly):
			chunkField = cf(lx)
			dir = map[token.Token]string{token.LSS: "<", token.LEQ: "<", token.GTR: ">", token.GEQ: ">"}[b.Op]
		case cf(ly) != "" && isTs(lx):
			chunkField = cf(ly)
			dir = map[token.Token]string{token.LSS: ">", token.LEQ: ">", token.GTR: "<", token.GEQ: "<"}[b.Op]
		default:
			continue
		}
		// order constant: the comparison is evaluated only after `it.order == K` held
		order := orderConstOf(in)
		trigger[order] = [2]string{chunkField, dir}
	}
	for _, order := range []int{1, 2} {
		sk, okS := sortKey[order]
		tr, okT := trigger[order]
		construct := fmt.Sprintf("chunk order key vs load trigger (order %d)", order)
		wantField := map[int]string{1: "MessageStartTime", 2: "MessageEndTime"}[order]
		wantDir := map[int]string{1: "<", 2: ">"}[order]
		switch {
		case !okS || !okT:
			r.undecided("C03.c", funcName(ni), construct, p.pos(ni.Pos()), fmt.Sprintf("chunk sort found: %v, trigger found: %v", okS, okT))
		case sk[0] != tr[0]:
			r.violated("C03.c", funcName(ni), construct, p.pos(ni.Pos()), "chunks are ordered by "+sk[0]+" but the decision to load the next chunk before yielding compares "+tr[0]+"; a chunk holding an earlier message may be loaded too late")
		case sk[1] != tr[1] || sk[1] != wantDir || sk[0] != wantField:
			r.violated("C03.c", funcName(ni), construct, p.pos(ni.Pos()), fmt.Sprintf("sort key %s %s, trigger %s %s; the read order requires %s %s", sk[0], sk[1], tr[0], tr[1], wantField, wantDir))
		default:
			r.held("C03.c", funcName(ni), construct, p.pos(ni.Pos()), sk[0]+" "+sk[1]+" in both")
		}
	}
	// ---- e: after loadChunk, no yield without passing the loop head again
	checkReloopAfterLoad(p, r, ni)
	r.rule("C03.h", "repeating a read gives the same sequence: slices of the cached Info are never filtered or sorted in place", 1)
	checkInfoReadOnlyAs(p, r, "C03.h")
	r.rule("C03.i", "an in-place filter of an iterator field is stored back into the field", 1)
	checkInPlaceFilterStoredBack(p, r, "C03.i")
	r.rule("C03.k", "compaction of the pending queue moves, shortens and resets together", 0)
	checkCompactionAtomic(p, r, "C03.k")
	r.rule("C03.s", "the needs-sorting decision follows a running maximum of the chunk's log times", 0)
	checkSortingFlag(p, r, "C03.s")
	r.rule("C03.u", "the chunk load order does not depend on the sorting algorithm: stable sort, or a comparator with a tie-break", 0)
	checkChunkSortDeterministic(p, r, "C03.u")
	r.rule("C03.g", "the yielded record and the load trigger are those of the queue entry at the cursor", 0)
	checkCursorDiscipline(p, r, "C03.g")
}

func staticCalleeName2(f *ssa.Function) string {
	if f.Pkg != nil && f.Signature.Recv() == nil {
		return f.Pkg.Pkg.Path() + "." + f.Name()
	}
	return f.String()
}

// cmpShape: a cmp-style comparator func(a, b T) int must be cmp.Compare(a.timestamp, b.timestamp) (swapped for reverse).
func cmpShape(fn *ssa.Function, order int) string {
	if fn == nil || fn.Blocks == nil || len(fn.Params) != 2 {
		return "comparator is not a two-argument function literal"
	}
	for _, in := range instrsOf(fn) {
		ret, ok := in.(*ssa.Return)
		if !ok {
			continue
		}
		c, ok := ret.Results[0].(*ssa.Call)
		if !ok {
			return "comparator returns " + describeVal(ret.Results[0]) + ", not cmp.Compare of the two timestamps; a difference of unsigned timestamps converted to int wraps for keys more than 2^63 apart"
		}
		f := c.Call.StaticCallee()
		if f != nil && f.Origin() != nil {
			f = f.Origin()
		}
		if f == nil || f.Pkg == nil || f.Pkg.Pkg.Path() != "cmp" || f.Name() != "Compare" {
			return "comparator does not use cmp.Compare"
		}
		a, b := c.Call.Args[0], c.Call.Args[1]
		pa := fieldOfParam(a, fn)
		pb := fieldOfParam(b, fn)
		if pa[0] != "timestamp" || pb[0] != "timestamp" {
			return "comparator does not compare the timestamp fields"
		}
		asc := pa[1] == "0" && pb[1] == "1"
		desc := pa[1] == "1" && pb[1] == "0"
		if order == 1 && !asc || order == 2 && !desc {
			return "comparator direction does not match the read order"
		}
	}
	return ""
}

func fieldOfParam(v ssa.Value, fn *ssa.Function) [2]string {
	v = stripConv(v)
	if f, ok := v.(*ssa.Field); ok {
		_, name, base, _ := fieldRef(f)
		for i, prm := range fn.Params {
			if base == ssa.Value(prm) {
				return [2]string{name, fmt.Sprint(i)}
			}
		}
	}
	if u, ok := v.(*ssa.UnOp); ok && u.Op == token.MUL {
		if fa, ok := u.X.(*ssa.FieldAddr); ok {
			_, name, base, _ := fieldRef(fa)
			if al, ok := base.(*ssa.Alloc); ok {
				// spilled parameter
				for _, ref := range *al.Referrers() {
					if st, ok := ref.(*ssa.Store); ok {
						for i, prm := range fn.Params {
							if st.Val == ssa.Value(prm) {
								return [2]string{name, fmt.Sprint(i)}
							}
						}
					}
				}
			}
			for i, prm := range fn.Params {
				if base == ssa.Value(prm) {
					return [2]string{name, fmt.Sprint(i)}
				}
			}
		}
	}
	return [2]string{"", ""}
}

// escapesWithoutReloop: from the call ci, a "success exit" of fn (for NextInto: a return that yields a message; for a
// helper: a return that is not on the non-nil branch of an error test) is reachable without passing the header of
// the innermost loop enclosing ci. ok=false when ci sits in no loop at all.
func escapesWithoutReloop(fn *ssa.Function, ci ssa.CallInstruction, isYield func(*ssa.Return) bool) (escapes, inLoop bool) {
	blk := ci.Block()
	var header *ssa.BasicBlock
	for d := blk; d != nil; d = d.Idom() {
		for _, pr := range d.Preds {
			if d.Dominates(pr) {
				header = d
			}
		}
		if header != nil {
			break
		}
	}
	seen := map[*ssa.BasicBlock]bool{}
	if header != nil {
		seen[header] = true
	}
	var stack []*ssa.BasicBlock
	stack = append(stack, blk.Succs...)
	if ret, ok := blk.Instrs[len(blk.Instrs)-1].(*ssa.Return); ok && isYield(ret) {
		return true, header != nil
	}
	for len(stack) > 0 {
		b := stack[len(stack)-1]
		stack = stack[:len(stack)-1]
		if seen[b] {
			continue
		}
		seen[b] = true
		if ret, ok := b.Instrs[len(b.Instrs)-1].(*ssa.Return); ok {
			if isYield(ret) {
				return true, header != nil
			}
			continue
		}
		stack = append(stack, b.Succs...)
	}
	return false, header != nil
}

// loadSites: calls in fn that may load a chunk and come back normally without the load condition having been
// re-evaluated: direct calls of loadChunk, and calls of helpers in which a loadChunk (or such a helper) call can reach a
// normal return without passing the head of a loop that encloses it.
func loadSites(p *Program, fn *ssa.Function, depth int, memo map[*ssa.Function]bool) []ssa.CallInstruction {
	var out []ssa.CallInstruction
	for _, ci := range callsIn(fn, func(ssa.CallInstruction) bool { return true }) {
		f := ci.Common().StaticCallee()
		if f == nil || !p.isRepoFunc(f) {
			continue
		}
		if funcName(f) == "mcap.indexedMessageIterator.loadChunk" {
			out = append(out, ci)
			continue
		}
		if depth <= 0 || f.Blocks == nil || p.funcPkgPath(f) != pkgMcap {
			continue
		}
		leaky, done := memo[f]
		if !done {
			memo[f] = false
			for _, inner := range loadSites(p, f, depth-1, memo) {
				esc, _ := escapesWithoutReloop(f, inner, func(ret *ssa.Return) bool {
					n := len(ret.Results)
					if n == 0 {
						return true
					}
					e := ret.Results[n-1]
					if !types.Identical(e.Type(), types.Universe.Lookup("error").Type()) {
						return true
					}
					return isNilConst(e) || !errKnownNonNil(ret, e)
				})
				if esc {
					leaky = true
				}
			}
			memo[f] = leaky
		}
		if leaky {
			out = append(out, ci)
		}
	}
	return out
}

// checkReloopAfterLoad: from every chunk load in NextInto (a call of loadChunk, or of a helper that loads a chunk and
// returns without re-evaluating the load condition itself), no return of a message is reachable without passing
// through the header of the innermost enclosing loop.
func checkReloopAfterLoad(p *Program, r *Result, ni *ssa.Function) {
	checkReloopAfterLoadAs(p, r, ni, "C03.e")
}

func checkReloopAfterLoadAs(p *Program, r *Result, ni *ssa.Function, rule string) {
	fname := funcName(ni)
	calls := loadSites(p, ni, 3, map[*ssa.Function]bool{})
	if len(calls) == 0 {
		r.undecided(rule, fname, "loadChunk call", p.pos(ni.Pos()), "no chunk load reachable from NextInto")
		return
	}
	seen := map[string]int{}
	for _, ci := range calls {
		pos := p.pos(ci.Pos())
		what := "loadChunk"
		if n := calleeRepoName(ci); n != "mcap.indexedMessageIterator.loadChunk" {
			what = strings.TrimPrefix(n, "mcap.indexedMessageIterator.")
		}
		construct := "re-evaluation of the load trigger after " + what
		seen[construct]++
		if k := seen[construct]; k > 1 && what != "loadChunk" {
			construct += fmt.Sprintf("#%d", k-1)
		}
		esc, inLoop := escapesWithoutReloop(ni, ci, func(ret *ssa.Return) bool {
			return len(ret.Results) == 4 && !isNilConst(ret.Results[2])
		})
		switch {
		case !inLoop:
			r.violated(rule, fname, what+" call outside the yield loop", pos, "chunk loads must happen inside the yield loop so that the load condition is re-evaluated")
		case esc:
			r.violated(rule, fname, construct, pos,
				"after loading a chunk a message can be yielded without returning to the loop head: if the next chunk also starts before the new head message it is not loaded in time and messages come out of order")
		default:
			r.held(rule, fname, construct, pos, "every path from the load to a yield passes the loop head")
		}
	}
}

var _ = types.Typ

type cmpCase struct {
	order   int
	fn      *ssa.Function
	swapped bool // the sort's closure forwards (x[j], x[i]) to fn
}

// comparatorCases: the comparator function(s) a sort call can run with and the read order under which each is chosen.
// A function literal passed directly belongs to the order test that dominates the call; a comparator variable that is
// assigned in the arms of a switch over it.order (a phi of closures) yields one case per non-nil arm.
func comparatorCases(ci ssa.CallInstruction) []cmpCase {
	args := ci.Common().Args
	if len(args) < 2 {
		return nil
	}
	switch x := args[1].(type) {
	case *ssa.Phi:
		var out []cmpCase
		for i, e := range x.Edges {
			if isNilConst(e) {
				continue
			}
			pred := x.Block().Preds[i]
			out = append(out, cmpCase{order: orderConstOf(pred.Instrs[len(pred.Instrs)-1]), fn: closureOf(e)})
		}
		return out
	}
	if cs := factoryCases(closureOfValue(args[1])); len(cs) > 0 {
		return cs
	}
	return []cmpCase{{order: orderConstOf(ci), fn: closureOf(args[1])}}
}

func closureOfValue(v ssa.Value) *ssa.MakeClosure {
	mc, _ := v.(*ssa.MakeClosure)
	return mc
}

// factoryCases: the comparator closure only forwards to a function value obtained from a factory that is given the read
// order (less := chunkIndexLess(it.order); sort.Slice(x, func(i, j int) bool { return less(x[i], x[j]) })): one case per
// closure the factory returns, with the order constant its parameter is compared with on that path.
func factoryCases(mc *ssa.MakeClosure) []cmpCase {
	if mc == nil {
		return nil
	}
	c, _ := mc.Fn.(*ssa.Function)
	if c == nil || c.Blocks == nil {
		return nil
	}
	var fwd *ssa.Call
	for _, in := range instrsOf(c) {
		if ret, ok := in.(*ssa.Return); ok && len(ret.Results) == 1 {
			call, ok := ret.Results[0].(*ssa.Call)
			if !ok || call.Call.StaticCallee() != nil || call.Call.IsInvoke() || len(call.Call.Args) != 2 {
				return nil
			}
			fwd = call
		}
	}
	if fwd == nil {
		return nil
	}
	// the called value: a captured variable
	var bound ssa.Value
	callee := fwd.Call.Value
	if u, ok := callee.(*ssa.UnOp); ok {
		callee = u.X
	}
	for i, fv := range c.FreeVars {
		if ssa.Value(fv) == callee && i < len(mc.Bindings) {
			bound = mc.Bindings[i]
		}
	}
	if bound == nil {
		return nil
	}
	var src ssa.Value = bound
	if al, ok := bound.(*ssa.Alloc); ok {
		var stores []*ssa.Store
		for _, ref := range *al.Referrers() {
			if st, ok := ref.(*ssa.Store); ok && st.Addr == ssa.Value(al) {
				src = st.Val
				stores = append(stores, st)
			}
		}
		// a comparator variable assigned a function literal in each arm of a switch over the read order
		if len(stores) > 1 {
			swappedV := false
			if _, i0 := elemOf(fwd.Call.Args[0]); i0 == ssa.Value(c.Params[1]) {
				swappedV = true
			}
			var out []cmpCase
			for _, st := range stores {
				if isNilConst(st.Val) {
					continue
				}
				f := closureOf(st.Val)
				if f == nil {
					return nil
				}
				out = append(out, cmpCase{order: orderConstOf(st), fn: f, swapped: swappedV})
			}
			return out
		}
	}
	// orientation of the forwarding call: less(x[i], x[j]) or less(x[j], x[i])
	swapped0 := false
	if _, i0 := elemOf(fwd.Call.Args[0]); i0 == ssa.Value(c.Params[1]) {
		swapped0 = true
	}
	// less, ok := table[it.order]: a package-level table of comparators keyed by the read order
	if tg, key := tableLookupOf(src); tg != nil && loadOfField(key, "indexedMessageIterator", "order") {
		var out []cmpCase
		for k, f := range packageTableFuncs(tg) {
			out = append(out, cmpCase{order: int(k), fn: f, swapped: swapped0})
		}
		sort.Slice(out, func(i, j int) bool { return out[i].order < out[j].order })
		return out
	}
	fc, ok := src.(*ssa.Call)
	if !ok {
		return nil
	}
	g := fc.Call.StaticCallee()
	if g == nil || g.Blocks == nil {
		return nil
	}
	// which parameter of the factory receives it.order
	pidx := -1
	for i, a := range fc.Call.Args {
		if loadOfField(a, "indexedMessageIterator", "order") {
			pidx = i
		}
	}
	if pidx < 0 || pidx >= len(g.Params) {
		return nil
	}
	prm := g.Params[pidx]
	// orientation of the forwarding call: less(x[i], x[j]) or less(x[j], x[i])
	swapped := false
	if _, i0 := elemOf(fwd.Call.Args[0]); i0 == ssa.Value(c.Params[1]) {
		swapped = true
	}
	var out []cmpCase
	for _, in := range instrsOf(g) {
		ret, ok := in.(*ssa.Return)
		if !ok || len(ret.Results) != 1 || isNilConst(ret.Results[0]) {
			continue
		}
		inner := closureOf(ret.Results[0])
		if inner == nil {
			continue
		}
		out = append(out, cmpCase{order: paramConstOf(ret, prm), fn: inner, swapped: swapped})
	}
	return out
}

// elemOf: v = x[idx] (element value or element pointer) -> (x, idx)
func elemOf(v ssa.Value) (ssa.Value, ssa.Value) {
	v = stripConv(v)
	if u, ok := v.(*ssa.UnOp); ok && u.Op == token.MUL {
		if ia, ok := u.X.(*ssa.IndexAddr); ok {
			return ia.X, ia.Index
		}
	}
	if ia, ok := v.(*ssa.IndexAddr); ok {
		return ia.X, ia.Index
	}
	return nil, nil
}

// paramConstOf: the constant K of the `prm == K` test whose true branch dominates in, or -1.
func paramConstOf(in ssa.Instruction, prm ssa.Value) int {
	for d := in.Block(); d != nil; d = d.Idom() {
		for _, pred := range d.Preds {
			iff, ok := pred.Instrs[len(pred.Instrs)-1].(*ssa.If)
			if !ok || pred.Succs[0] != d || len(d.Preds) != 1 {
				continue
			}
			if b, ok := iff.Cond.(*ssa.BinOp); ok && b.Op == token.EQL {
				if c, ok := b.Y.(*ssa.Const); ok && stripConv(b.X) == prm && c.Value != nil {
					return int(c.Int64())
				}
				if c, ok := b.X.(*ssa.Const); ok && stripConv(b.Y) == prm && c.Value != nil {
					return int(c.Int64())
				}
			}
		}
	}
	return -1
}

// nilGuarded: the call is dominated by the true branch of `v != nil` (or the false branch of `v == nil`).
func nilGuarded(ci ssa.Instruction, v ssa.Value) bool {
	for d := ci.Block(); d != nil; d = d.Idom() {
		if len(d.Preds) != 1 {
			continue
		}
		pred := d.Preds[0]
		iff, ok := pred.Instrs[len(pred.Instrs)-1].(*ssa.If)
		if !ok {
			continue
		}
		conds := []ssa.Value{iff.Cond}
		for _, c := range conds {
			b, ok := c.(*ssa.BinOp)
			if !ok {
				continue
			}
			if (b.X == v && isNilConst(b.Y)) || (b.Y == v && isNilConst(b.X)) {
				if (b.Op == token.NEQ && pred.Succs[0] == d) || (b.Op == token.EQL && pred.Succs[1] == d) {
					return true
				}
			}
		}
	}
	return false
}
