package main

// E3: error-flow discipline. For every in-scope call that returns an error, a forward dataflow over
// the SSA control-flow graph tracks what is known about that error value:
//
//	U  not consulted yet        N  known non-nil, not classified
//	C  known non-nil and classified as end-of-input by errors.Is(err, io.EOF|io.ErrUnexpectedEOF)
//	Z  known nil
//
// and reports: the error result never bound; a return / next effectful call / loop re-entry reached
// in state U (not consulted); a return in state N whose error operand is the nil constant or
// (reader side) the io.EOF sentinel; continuing to the next effectful call in state N.

import (
	"fmt"
	"go/token"
	"go/types"
	"sort"
	"strings"

	"golang.org/x/tools/go/ssa"
)

type efState int

const (
	stZ efState = iota
	stC
	stN
	stU
)

func (s efState) String() string { return [...]string{"nil", "classified-EOF", "non-nil", "unchecked"}[s] }

type errFlowCfg struct {
	rule string
	// inScope decides whether the call is effectful for this rule; label names the callee line-free.
	inScope func(site ssa.CallInstruction) (ok bool, label string)
	// allowClassify: errors.Is(err, io.EOF / io.ErrUnexpectedEOF) is a recognised classification (reader side).
	allowClassify bool
	// forbidEOF: in state N a return of the io.EOF sentinel is a violation ("source error turned into clean EOF").
	forbidEOF bool
	// passThrough: effectful calls that only reposition or clean up (Seek back to a saved position, Close on an error
	// path); reaching one with a pending error is not "carrying on after a failure".
	passThrough func(site ssa.CallInstruction) bool
}

var errorType = types.Universe.Lookup("error").Type()

func isErrorType(t types.Type) bool { return types.Identical(t, errorType) }

func sigReturnsError(sig *types.Signature) (int, bool) {
	n := sig.Results().Len()
	if n == 0 {
		return -1, false
	}
	if isErrorType(sig.Results().At(n - 1).Type()) {
		return n - 1, true
	}
	return -1, false
}

func isNilConst(v ssa.Value) bool {
	c, ok := v.(*ssa.Const)
	return ok && c.IsNil()
}

// globalLoad returns "pkg.Name" if v is a load of a package-level variable.
func globalLoad(v ssa.Value) string {
	if u, ok := v.(*ssa.UnOp); ok && u.Op == token.MUL {
		if g, ok := u.X.(*ssa.Global); ok && g.Pkg != nil {
			return g.Pkg.Pkg.Path() + "." + g.Name()
		}
	}
	return ""
}

func staticCalleeName(c *ssa.CallCommon) string {
	if f := c.StaticCallee(); f != nil {
		if f.Pkg != nil && f.Signature.Recv() == nil {
			return f.Pkg.Pkg.Path() + "." + f.Name()
		}
		return funcFullName(f)
	}
	return ""
}

func funcFullName(f *ssa.Function) string {
	if f == nil {
		return ""
	}
	return f.String()
}

type errSite struct {
	site  ssa.CallInstruction
	label string
}

// runErrFlow analyses all in-scope error-returning call sites of fn.
func runErrFlow(p *Program, r *Result, fn *ssa.Function, cfg errFlowCfg) {
	var sites []errSite
	for _, b := range fn.Blocks {
		for _, in := range b.Instrs {
			ci, ok := in.(ssa.CallInstruction)
			if !ok {
				continue
			}
			if _, isErr := sigReturnsError(ci.Common().Signature()); !isErr {
				continue
			}
			if ok, label := cfg.inScope(ci); ok {
				sites = append(sites, errSite{ci, label})
			}
		}
	}
	sort.SliceStable(sites, func(i, j int) bool { return sites[i].site.Pos() < sites[j].site.Pos() })
	fname := funcName(fn)
	for _, s := range sites {
		r.CallSites++
		construct := "error of " + s.label
		pos := p.pos(s.site.Pos())
		switch in := s.site.(type) {
		case *ssa.Defer:
			r.violated(cfg.rule, fname, construct+" (deferred)", pos, "error result of a deferred effectful call is discarded")
			continue
		case *ssa.Go:
			r.violated(cfg.rule, fname, construct+" (go)", pos, "error result of a go statement is discarded")
			continue
		case *ssa.Call:
			e := errorValueOf(in)
			if e == nil {
				r.violated(cfg.rule, fname, construct, pos, "error result is not bound (dropped or assigned to _)")
				continue
			}
			problems := flowOne(p, fn, in, e, cfg)
			if len(problems) == 0 {
				r.held(cfg.rule, fname, construct, pos, "error is tested or returned on every path before the next effectful call")
			} else {
				r.violated(cfg.rule, fname, construct, pos, problems[0], problems[1:]...)
			}
		}
	}
}

func errorValueOf(c *ssa.Call) ssa.Value {
	sig := c.Common().Signature()
	idx, _ := sigReturnsError(sig)
	if sig.Results().Len() == 1 {
		if c.Referrers() == nil || len(*c.Referrers()) == 0 {
			return nil
		}
		return c
	}
	for _, ref := range *c.Referrers() {
		if ex, ok := ref.(*ssa.Extract); ok && ex.Index == idx {
			if ex.Referrers() == nil || len(*ex.Referrers()) == 0 {
				return nil
			}
			return ex
		}
	}
	return nil
}

// aliasSet: values that carry the tracked error (phis, interface changes, loads of locals it is stored to).
func aliasSet(fn *ssa.Function, e ssa.Value) map[ssa.Value]bool {
	A := map[ssa.Value]bool{e: true}
	cells := map[ssa.Value]bool{}
	for changed := true; changed; {
		changed = false
		for _, b := range fn.Blocks {
			for _, in := range b.Instrs {
				switch x := in.(type) {
				case *ssa.Phi:
					if !A[x] {
						for _, op := range x.Edges {
							if A[op] {
								A[x] = true
								changed = true
								break
							}
						}
					}
				case *ssa.ChangeInterface:
					if !A[x] && A[x.X] {
						A[x] = true
						changed = true
					}
				case *ssa.Store:
					if A[x.Val] && !cells[x.Addr] {
						if _, ok := x.Addr.(*ssa.Alloc); ok {
							cells[x.Addr] = true
							changed = true
						}
					}
				case *ssa.UnOp:
					if x.Op == token.MUL && cells[x.X] && !A[x] {
						A[x] = true
						changed = true
					}
				}
			}
		}
	}
	return A
}

// condEffect interprets an If condition with respect to the tracked error.
// It returns the states for the true and false successor given the incoming state.
func condEffect(cond ssa.Value, A map[ssa.Value]bool, in efState, cfg errFlowCfg) (t, f efState) {
	return condEffectD(cond, A, in, cfg, 0)
}

func boolConst(v ssa.Value) (bool, bool) {
	c, ok := v.(*ssa.Const)
	if !ok || c.Value == nil {
		return false, false
	}
	switch c.Value.String() {
	case "true":
		return true, true
	case "false":
		return false, true
	}
	return false, false
}

func condEffectD(cond ssa.Value, A map[ssa.Value]bool, in efState, cfg errFlowCfg, depth int) (t, f efState) {
	t, f = in, in
	if depth > 6 {
		return
	}
	switch c := cond.(type) {
	case *ssa.BinOp:
		if c.Op == token.NEQ || c.Op == token.EQL {
			// comparison of a boolean with a constant (tagless switch: `true == cond`)
			for _, pair := range [][2]ssa.Value{{c.X, c.Y}, {c.Y, c.X}} {
				if bv, ok := boolConst(pair[1]); ok {
					tt, ff := condEffectD(pair[0], A, in, cfg, depth+1)
					if (c.Op == token.EQL) == bv {
						return tt, ff
					}
					return ff, tt
				}
			}
			var isErr bool
			if A[c.X] && isNilConst(c.Y) || A[c.Y] && isNilConst(c.X) {
				isErr = true
			}
			if !isErr {
				// "first error wins": a captured/named error result of the enclosing function is tested;
				// where it is already non-nil the function is failing anyway and the tracked error may be dropped.
				var other ssa.Value
				if isNilConst(c.Y) {
					other = c.X
				} else if isNilConst(c.X) {
					other = c.Y
				}
				if other != nil && isOuterErrorLoad(other) {
					if c.Op == token.NEQ {
						return stZ, in
					}
					return in, stZ
				}
			}
			if isErr {
				nn := in
				if nn == stU {
					nn = stN
				}
				if c.Op == token.NEQ {
					return nn, stZ
				}
				return stZ, nn
			}
		}
	case *ssa.UnOp:
		if c.Op == token.NOT {
			f2, t2 := condEffectD(c.X, A, in, cfg, depth+1)
			return t2, f2
		}
	case *ssa.Phi:
		// value of a short-circuit expression: a && b -> phi(false, b); a || b -> phi(true, b).
		// When the phi is true it was reached through a constant-true edge (the controlling test on that
		// predecessor held) or through an operand that is itself true; the implied state is the weakest of those.
		best := efState(-1)
		known := true
		for i, e := range c.Edges {
			var st efState
			if bv, ok := boolConst(e); ok {
				if !bv {
					continue // this edge makes the phi false
				}
				// constant true: the predecessor's controlling condition decided it
				pr := c.Block().Preds[i]
				iff, isIf := pr.Instrs[len(pr.Instrs)-1].(*ssa.If)
				if !isIf {
					known = false
					break
				}
				tt, ff := condEffectD(iff.Cond, A, in, cfg, depth+1)
				if pr.Succs[0] == c.Block() {
					st = tt
				} else {
					st = ff
				}
			} else {
				st, _ = condEffectD(e, A, in, cfg, depth+1)
				// the operand is only evaluated when the earlier operands of the && chain held: conditions whose
				// true edge dominates the predecessor block are known there
				pr := c.Block().Preds[i]
				for d := pr; d != nil && d.Idom() != nil; d = d.Idom() {
					id := d.Idom()
					iff, isIf := id.Instrs[len(id.Instrs)-1].(*ssa.If)
					if !isIf || len(d.Preds) != 1 {
						continue
					}
					tt, ff := condEffectD(iff.Cond, A, in, cfg, depth+1)
					k := ff
					if id.Succs[0] == d {
						k = tt
					}
					if k < st {
						st = k
					}
				}
			}
			if st > best {
				best = st
			}
		}
		if known && best >= 0 {
			t = best
		}
		return t, in
	case *ssa.Call:
		name := staticCalleeName(c.Common())
		// a repo helper that is handed the tracked error and answers with a boolean: what is known about the error
		// where the helper returned true is what the helper itself established on its true-returning paths
		if g := c.Call.StaticCallee(); g != nil && g.Blocks != nil && g.Pkg != nil && strings.Contains(g.Pkg.Pkg.Path(), "foxglove/mcap") && depth < 4 {
			if res := g.Signature.Results(); res.Len() == 1 && types.Identical(res.At(0).Type().Underlying(), types.Typ[types.Bool]) {
				for i, a := range c.Call.Args {
					if A[a] && i < len(g.Params) {
						if in == stZ {
							return stZ, stZ
						}
						return helperTrueState(g, g.Params[i], in, cfg, depth+1), in
					}
				}
			}
		}
		if (name == "errors.Is" || name == "errors.As") && len(c.Call.Args) == 2 && A[c.Call.Args[0]] {
			if in == stZ {
				return stZ, stZ
			}
			if name == "errors.Is" && cfg.allowClassify {
				g := globalLoad(c.Call.Args[1])
				if g == "io.EOF" || g == "io.ErrUnexpectedEOF" {
					return stC, in
				}
			}
			// a successful Is/As proves the error non-nil
			tt := in
			if tt == stU {
				tt = stN
			}
			return tt, in
		}
	}
	return
}

// helperTrueState: the weakest knowledge about parameter prm (entering in state in) over all paths of g that may
// return true.
func helperTrueState(g *ssa.Function, prm ssa.Value, in efState, cfg errFlowCfg, depth int) efState {
	best := efState(-1)
	A := aliasSet(g, prm)
	helperReturns(g, A, in, cfg, depth, func(x *ssa.Return, st0 efState) {
		st := st0
		if bv, ok := boolConst(x.Results[0]); ok {
			if !bv {
				return
			}
		} else {
			t, _ := condEffectD(x.Results[0], A, st0, cfg, depth)
			st = t
		}
		if st > best {
			best = st
		}
	})
	if best < 0 {
		return in
	}
	return best
}

// helperConversion: g is handed the tracked error (state in) and returns an error; a description if on some path it
// answers a non-nil, unclassified error with nil or (reader side) io.EOF.
func helperConversion(g *ssa.Function, prm ssa.Value, in efState, cfg errFlowCfg) string {
	A := aliasSet(g, prm)
	idx, ok := sigReturnsError(g.Signature)
	if !ok {
		return ""
	}
	msg := ""
	helperReturns(g, A, in, cfg, 1, func(x *ssa.Return, st efState) {
		if st != stN && st != stU {
			return
		}
		rv := x.Results[idx]
		if isNilConst(rv) {
			msg = "helper " + funcName(g) + " answers a non-nil error with nil"
		} else if cfg.forbidEOF && globalLoad(rv) == "io.EOF" {
			msg = "helper " + funcName(g) + " converts a non-nil, unclassified error to a clean io.EOF"
		}
	})
	return msg
}

// helperReturns walks g forward from its entry with the tracked parameter in state in and calls visit at every return
// with the state reached there (weakest over the paths explored).
func helperReturns(g *ssa.Function, A map[ssa.Value]bool, in efState, cfg errFlowCfg, depth int, visit func(*ssa.Return, efState)) {
	entry := map[*ssa.BasicBlock]efState{}
	seen := map[*ssa.BasicBlock]bool{}
	type item struct {
		b  *ssa.BasicBlock
		st efState
	}
	work := []item{{g.Blocks[0], in}}
	seen[g.Blocks[0]] = true
	entry[g.Blocks[0]] = in
	push := func(b *ssa.BasicBlock, st efState) {
		if seen[b] && entry[b] >= st {
			return
		}
		seen[b] = true
		if st > entry[b] {
			entry[b] = st
		}
		work = append(work, item{b, entry[b]})
	}
	for len(work) > 0 {
		it := work[len(work)-1]
		work = work[:len(work)-1]
		switch x := it.b.Instrs[len(it.b.Instrs)-1].(type) {
		case *ssa.If:
			t, f := condEffectD(x.Cond, A, it.st, cfg, depth)
			push(it.b.Succs[0], t)
			push(it.b.Succs[1], f)
		case *ssa.Jump:
			push(it.b.Succs[0], it.st)
		case *ssa.Return:
			visit(x, it.st)
		}
	}
}

func isAbortCall(c *ssa.CallCommon) bool {
	switch staticCalleeName(c) {
	case "os.Exit", "log.Fatal", "log.Fatalf", "log.Fatalln", "log.Panic", "log.Panicf", "log.Panicln", "runtime.Goexit":
		return true
	}
	return false
}

// isOuterErrorLoad: load of an error-typed free variable (a named result captured by a deferred closure).
func isOuterErrorLoad(v ssa.Value) bool {
	u, ok := v.(*ssa.UnOp)
	if !ok || u.Op != token.MUL || !isErrorType(u.Type()) {
		return false
	}
	_, isFree := u.X.(*ssa.FreeVar)
	return isFree
}

// flowOne runs the dataflow for one call site; returns nil if the discipline holds, else a
// description followed by a path.
func flowOne(p *Program, fn *ssa.Function, site *ssa.Call, e ssa.Value, cfg errFlowCfg) []string {
	A := aliasSet(fn, e)
	errIdx := -1
	if fn.Signature.Results() != nil {
		for i := 0; i < fn.Signature.Results().Len(); i++ {
			if isErrorType(fn.Signature.Results().At(i).Type()) {
				errIdx = i
			}
		}
	}
	type item struct {
		b     *ssa.BasicBlock
		start int
		st    efState
		facts string // outcomes of nil tests of OTHER error values met on the way (infeasible-path pruning)
		from  *ssa.BasicBlock // predecessor the block was entered from (resolves the phi of a short-circuit condition)
	}
	type entryKey struct {
		b     *ssa.BasicBlock
		facts string
		from  *ssa.BasicBlock
	}
	entry := map[entryKey]efState{}
	seenEntry := map[entryKey]bool{}
	var problems []string
	reported := map[ssa.Instruction]bool{}
	report := func(in ssa.Instruction, msg string) {
		if reported[in] {
			return
		}
		reported[in] = true
		if len(problems) == 0 {
			problems = append(problems, msg)
		}
		problems = append(problems, fmt.Sprintf("%s: %s", p.pos(in.Pos()), msg))
	}
	// find index of site in its block
	sb := site.Block()
	si := 0
	for i, in := range sb.Instrs {
		if in == ssa.Instruction(site) {
			si = i
		}
	}
	work := []item{{sb, si + 1, stU, "", nil}}
	curFacts := ""
	var curBlock *ssa.BasicBlock
	pushF := func(b *ssa.BasicBlock, st efState, facts string) {
		if st == stZ {
			return
		}
		// facts speak about values computed on the way; round a loop they are recomputed
		if curBlock != nil && b.Dominates(curBlock) {
			facts = ""
		}
		// the predecessor matters only where the block merges a short-circuit condition
		var from *ssa.BasicBlock
		if len(b.Instrs) > 0 {
			if _, isPhi := b.Instrs[0].(*ssa.Phi); isPhi {
				from = curBlock
			}
		}
		k := entryKey{b, facts, from}
		if seenEntry[k] && entry[k] >= st {
			return
		}
		if !seenEntry[k] || st > entry[k] {
			entry[k] = st
		}
		seenEntry[k] = true
		work = append(work, item{b, 0, entry[k], facts, from})
	}
	push := func(b *ssa.BasicBlock, st efState) { pushF(b, st, curFacts) }
	// nil test of an error value other than the tracked one: (key, value is nil on the true side)
	otherNilTest := func(cond ssa.Value) (string, bool, bool) {
		b, ok := cond.(*ssa.BinOp)
		if !ok || (b.Op != token.EQL && b.Op != token.NEQ) {
			return "", false, false
		}
		var v ssa.Value
		if isNilConst(b.Y) {
			v = b.X
		} else if isNilConst(b.X) {
			v = b.Y
		}
		if v == nil || !isErrorType(v.Type()) || A[v] {
			return "", false, false
		}
		return fmt.Sprintf("%p", v), b.Op == token.EQL, true
	}
	for len(work) > 0 {
		it := work[len(work)-1]
		work = work[:len(work)-1]
		st := it.st
		curFacts, curBlock = it.facts, it.b
		stop := false
		for i := it.start; i < len(it.b.Instrs) && !stop; i++ {
			in := it.b.Instrs[i]
			switch x := in.(type) {
			case ssa.CallInstruction:
				if isAbortCall(x.Common()) {
					stop = true
					break
				}
				name := staticCalleeName(x.Common())
				if name == "errors.Is" || name == "errors.As" || strings.HasPrefix(name, "fmt.") || name == "errors.New" {
					break
				}
				if ok, label := cfg.inScope(x); ok || in == ssa.Instruction(site) {
					if in != ssa.Instruction(site) && cfg.passThrough != nil && cfg.passThrough(x) {
						break
					}
					// a package function that is handed the pending error (a wrapping / annotating helper) is where the
					// error goes next, not a sign that it was forgotten; what the helper answers is judged at the return
					if in != ssa.Instruction(site) {
						handed := false
						for _, a := range x.Common().Args {
							if A[a] || wrapsAlias(a, A) {
								handed = true
							}
						}
						if g := x.Common().StaticCallee(); handed && g != nil && p.isRepoFunc(g) {
							break
						}
					}
					if in == ssa.Instruction(site) {
						label = "the same call (loop)"
					}
					if st == stU {
						report(in, fmt.Sprintf("error is not consulted before the next effectful call (%s)", label))
					} else if st == stN {
						report(in, fmt.Sprintf("error is known non-nil but control continues to the next effectful call (%s)", label))
					}
					stop = true
				}
			case *ssa.Store:
				if _, isFree := x.Addr.(*ssa.FreeVar); isFree && isErrorType(x.Val.Type()) && (A[x.Val] || wrapsAlias(x.Val, A)) {
					// error handed to the enclosing function's named result
					st = stZ
					stop = true
				}
			case *ssa.Panic:
				stop = true
			case *ssa.Return:
				stop = true
				if st == stC || st == stZ {
					break
				}
				if errIdx < 0 {
					report(in, fmt.Sprintf("function returns (no error result) with the error in state %s", st))
					break
				}
				rv := x.Results[errIdx]
				switch st {
				case stU:
					if !A[rv] && !wrapsAlias(rv, A) {
						report(in, "returns without consulting the error (error result is "+describeVal(rv)+")")
					}
				case stN:
					if isNilConst(rv) {
						report(in, "non-nil error is converted to success (returns nil error)")
					} else if cfg.forbidEOF && globalLoad(rv) == "io.EOF" {
						report(in, "non-nil, unclassified error is converted to a clean io.EOF")
					}
				}
				if st == stU || st == stN {
					// the error is handed to a repo helper whose result is returned: the helper must not lose it either
					if hc, ok := rv.(*ssa.Call); ok {
						if g := hc.Call.StaticCallee(); g != nil && g.Blocks != nil && p.isRepoFunc(g) {
							for i, a := range hc.Call.Args {
								if A[a] && i < len(g.Params) {
									if msg := helperConversion(g, g.Params[i], stN, cfg); msg != "" {
										report(in, msg)
									}
								}
							}
						}
					}
				}
			case *ssa.If:
				cond := x.Cond
				// the value of `a && b` / `a || b` on the edge this block was entered from
				if ph, ok := cond.(*ssa.Phi); ok && ph.Block() == it.b && it.from != nil {
					for pi, pr := range it.b.Preds {
						if pr == it.from && pi < len(ph.Edges) {
							cond = ph.Edges[pi]
						}
					}
					if bv, isConst := boolConst(cond); isConst {
						if bv {
							push(it.b.Succs[0], st)
						} else {
							push(it.b.Succs[1], st)
						}
						stop = true
						break
					}
				}
				t, f := condEffect(cond, A, st, cfg)
				// a boolean result of the same call that the callee only ever sets together with a nil error
				// (`opcode, n, chunkEnded, err := l.readRecordPrefix(); if chunkEnded { continue }`): on its true side the
				// error is known nil
				if st == stU {
					if ex, ok := x.Cond.(*ssa.Extract); ok && ex.Tuple == ssa.Value(site) {
						if g := site.Call.StaticCallee(); g != nil {
							if ei, has := sigReturnsError(g.Signature); has && boolImpliesNilErr(p, g, ex.Index, ei, 3) {
								t = stZ
							}
						}
					}
				}
				if key, nilOnTrue, ok := otherNilTest(cond); ok && len(curFacts) < 200 {
					isNil, notNil := key+"=nil;", key+"!=nil;"
					trueFact, falseFact := notNil, isNil
					if nilOnTrue {
						trueFact, falseFact = isNil, notNil
					}
					// a test whose outcome is already known on this path has one feasible side
					if !strings.Contains(curFacts, falseFact) {
						f2 := curFacts
						if !strings.Contains(f2, trueFact) {
							f2 += trueFact
						}
						pushF(it.b.Succs[0], t, f2)
					}
					if !strings.Contains(curFacts, trueFact) {
						f2 := curFacts
						if !strings.Contains(f2, falseFact) {
							f2 += falseFact
						}
						pushF(it.b.Succs[1], f, f2)
					}
					stop = true
					break
				}
				push(it.b.Succs[0], t)
				push(it.b.Succs[1], f)
				stop = true
			case *ssa.Jump:
				push(it.b.Succs[0], st)
				stop = true
			}
		}
	}
	return problems
}

func wrapsAlias(v ssa.Value, A map[ssa.Value]bool) bool {
	switch x := v.(type) {
	case *ssa.Call:
		for _, a := range x.Call.Args {
			if A[a] {
				return true
			}
			// variadic: slice of interface values built from the alias
			if sl, ok := a.(*ssa.Slice); ok {
				if al, ok := sl.X.(*ssa.Alloc); ok {
					for _, ref := range *al.Referrers() {
						if ia, ok := ref.(*ssa.IndexAddr); ok {
							for _, r2 := range *ia.Referrers() {
								if st, ok := r2.(*ssa.Store); ok {
									if A[st.Val] {
										return true
									}
									if mi, ok := st.Val.(*ssa.MakeInterface); ok && A[mi.X] {
										return true
									}
								}
							}
						}
					}
				}
			}
		}
	case *ssa.Phi:
		for _, e := range x.Edges {
			if A[e] || wrapsAlias(e, A) {
				return true
			}
		}
	}
	return false
}

func describeVal(v ssa.Value) string {
	if isNilConst(v) {
		return "the nil constant"
	}
	if g := globalLoad(v); g != "" {
		return g
	}
	return v.Name() + " (" + strings.SplitN(v.String(), "\n", 2)[0] + ")"
}

// ---- effect roots and reach sets ----

type effectSpec struct {
	name       string
	stdFuncs   map[string]bool                   // fully qualified static callees that are roots
	ifaceMeth  func(recv types.Type, m string) bool // interface invokes that are roots
	concrete   func(f *ssa.Function) bool          // non-repo static callees that are roots (by receiver/type)
	dynamicAll bool                               // calls of func values with no resolved repo callee are in scope
}

func hasMethod(t types.Type, name string) bool {
	ms := types.NewMethodSet(t)
	for i := 0; i < ms.Len(); i++ {
		if ms.At(i).Obj().Name() == name {
			return true
		}
	}
	return false
}

// isRoot reports whether the call is itself an effect root.
func (s *effectSpec) isRoot(c *ssa.CallCommon) (bool, string) {
	if c.IsInvoke() {
		if s.ifaceMeth != nil && s.ifaceMeth(c.Value.Type(), c.Method.Name()) {
			return true, "invoke " + types.TypeString(c.Value.Type(), shortQual) + "." + c.Method.Name()
		}
		return false, ""
	}
	if f := c.StaticCallee(); f != nil {
		n := staticCalleeName(c)
		if s.stdFuncs[n] {
			return true, n
		}
		if s.concrete != nil && s.concrete(f) {
			return true, n
		}
	}
	return false, ""
}

func shortQual(p *types.Package) string { return p.Name() }

// reachSet computes the repo functions from which an effect root is reachable.
func (p *Program) reachSet(s *effectSpec) map[*ssa.Function]bool {
	R := map[*ssa.Function]bool{}
	fns := []*ssa.Function{}
	for fn := range p.allFuncs {
		if p.isRepoFunc(fn) && fn.Blocks != nil {
			fns = append(fns, fn)
		}
	}
	for changed := true; changed; {
		changed = false
		for _, fn := range fns {
			if R[fn] {
				continue
			}
			hit := false
			for _, b := range fn.Blocks {
				for _, in := range b.Instrs {
					ci, ok := in.(ssa.CallInstruction)
					if !ok {
						continue
					}
					if ok, _ := s.isRoot(ci.Common()); ok {
						hit = true
					} else {
						for _, cal := range p.callees(ci) {
							if R[cal] {
								hit = true
								break
							}
						}
					}
					if hit {
						break
					}
				}
				if hit {
					break
				}
			}
			if hit {
				R[fn] = true
				changed = true
			}
		}
	}
	return R
}

// scopeFn builds the inScope predicate for a spec and its reach set.
func (p *Program) scopeFn(s *effectSpec, R map[*ssa.Function]bool) func(ssa.CallInstruction) (bool, string) {
	return func(site ssa.CallInstruction) (bool, string) {
		c := site.Common()
		if ok, label := s.isRoot(c); ok {
			return true, label
		}
		cals := p.callees(site)
		for _, cal := range cals {
			if R[cal] {
				if c.StaticCallee() != nil {
					return true, funcName(cal)
				}
				if c.IsInvoke() {
					return true, "invoke " + types.TypeString(c.Value.Type(), shortQual) + "." + c.Method.Name()
				}
				return true, "func value " + valueLabel(c.Value)
			}
		}
		if s.dynamicAll && c.StaticCallee() == nil && !c.IsInvoke() {
			if _, isBuiltin := c.Value.(*ssa.Builtin); isBuiltin {
				return false, ""
			}
			repoCallee := false
			for _, cal := range cals {
				if p.isRepoFunc(cal) {
					repoCallee = true
				}
			}
			if !repoCallee {
				return true, "func value " + valueLabel(c.Value)
			}
		}
		return false, ""
	}
}

// valueLabel gives a line-free label for a value: field path, parameter or variable name.
func valueLabel(v ssa.Value) string {
	switch x := v.(type) {
	case *ssa.UnOp:
		if x.Op == token.MUL {
			return valueLabel(x.X)
		}
	case *ssa.FieldAddr:
		return valueLabel(x.X) + "." + fieldName(x.X.Type(), x.Field)
	case *ssa.Field:
		return valueLabel(x.X) + "." + fieldName(x.X.Type(), x.Field)
	case *ssa.Parameter:
		return x.Name()
	case *ssa.FreeVar:
		return x.Name()
	case *ssa.Global:
		return x.Name()
	case *ssa.Alloc:
		if x.Comment != "" {
			return x.Comment
		}
	case *ssa.Phi:
		if x.Comment != "" {
			return x.Comment
		}
	case *ssa.MakeInterface:
		return valueLabel(x.X)
	case *ssa.ChangeType:
		return valueLabel(x.X)
	case *ssa.Convert:
		return valueLabel(x.X)
	case *ssa.TypeAssert:
		return valueLabel(x.X)
	case *ssa.Extract:
		return fmt.Sprintf("%s#%d", valueLabel(x.Tuple), x.Index)
	case *ssa.Call:
		if n := staticCalleeName(x.Common()); n != "" {
			if i := strings.LastIndex(n, "/"); i >= 0 {
				n = n[i+1:]
			}
			return n + "()"
		}
		if x.Call.IsInvoke() {
			return valueLabel(x.Call.Value) + "." + x.Call.Method.Name() + "()"
		}
	case *ssa.IndexAddr:
		return valueLabel(x.X) + "[·]"
	case *ssa.Index:
		return valueLabel(x.X) + "[·]"
	case *ssa.Lookup:
		return valueLabel(x.X) + "[·]"
	case *ssa.Slice:
		return valueLabel(x.X) + "[:]"
	case *ssa.Const:
		if x.Value != nil {
			return x.Value.ExactString()
		}
		return "nil"
	case *ssa.BinOp:
		return valueLabel(x.X) + x.Op.String() + valueLabel(x.Y)
	}
	return "?"
}

func fieldName(t types.Type, idx int) string {
	if pt, ok := t.Underlying().(*types.Pointer); ok {
		t = pt.Elem()
	}
	if st, ok := t.Underlying().(*types.Struct); ok && idx < st.NumFields() {
		return st.Field(idx).Name()
	}
	return fmt.Sprintf("f%d", idx)
}

// repositioningCall: an absolute Seek on a ReadSeeker (or the iterator's seekTo): moves the stream, consumes nothing.
func repositioningCall(ci ssa.CallInstruction) bool {
	c := ci.Common()
	if c.IsInvoke() && c.Method.Name() == "Seek" {
		return true
	}
	return calleeRepoName(ci) == "mcap.indexedMessageIterator.seekTo"
}

// boolImpliesNilErr: every return of g that sets result bIdx to something other than the constant false carries a nil
// error result - directly, or because both values are results of one call to a package function with the same property.
func boolImpliesNilErr(p *Program, g *ssa.Function, bIdx, errIdx int, depth int) bool {
	if g == nil || g.Blocks == nil || depth <= 0 || !p.isRepoFunc(g) {
		return false
	}
	found := false
	for _, in := range instrsOf(g) {
		ret, ok := in.(*ssa.Return)
		if !ok || bIdx >= len(ret.Results) || errIdx >= len(ret.Results) {
			continue
		}
		found = true
		bv, ev := ret.Results[bIdx], ret.Results[errIdx]
		if isNilConst(ev) {
			continue
		}
		if c, ok := bv.(*ssa.Const); ok && c.Value != nil && c.Value.ExactString() == "false" {
			continue
		}
		bx, ok1 := bv.(*ssa.Extract)
		exx, ok2 := ev.(*ssa.Extract)
		if ok1 && ok2 && bx.Tuple == exx.Tuple {
			if call, ok := bx.Tuple.(*ssa.Call); ok {
				if boolImpliesNilErr(p, call.Call.StaticCallee(), bx.Index, exx.Index, depth-1) {
					continue
				}
			}
		}
		return false
	}
	return found
}
