package main

import (
	"go/token"
	"go/types"

	"golang.org/x/tools/go/ssa"
)

// C11.w: no read path accepts only a closed list of opcodes. Records with opcodes this version does not know may
// appear anywhere a record may (data section, inside chunks, summary); a test "is this one of the known opcodes?"
// whose negative outcome is an error turns such a file into an unreadable one. Detected as: three or more equality
// tests of one OpCode-typed value against constants - inline, or inside a predicate func(OpCode) bool - where the
// path on which none matched returns a non-nil error. (Testing for one expected opcode at an indexed offset, and
// rejecting the reserved opcode 0, are different things and are not matched.)
func isOpCodeType(t types.Type) bool {
	nt, ok := t.(*types.Named)
	return ok && nt.Obj().Name() == "OpCode"
}

// opcodeTests: per tested value, the equality tests against OpCode constants in fn.
func opcodeTests(fn *ssa.Function) map[ssa.Value][]*ssa.BinOp {
	out := map[ssa.Value][]*ssa.BinOp{}
	for _, in := range instrsOf(fn) {
		b, ok := in.(*ssa.BinOp)
		if !ok || b.Op != token.EQL {
			continue
		}
		var v ssa.Value
		if _, isC := b.Y.(*ssa.Const); isC && isOpCodeType(b.X.Type()) {
			v = b.X
		} else if _, isC := b.X.(*ssa.Const); isC && isOpCodeType(b.Y.Type()) {
			v = b.Y
		}
		if v != nil {
			out[v] = append(out[v], b)
		}
	}
	return out
}

// whitelistPredicate: g is func(OpCode) bool that answers false exactly when its argument equals none of >= 3 constants.
func whitelistPredicate(g *ssa.Function) bool {
	if g == nil || g.Blocks == nil || len(g.Params) != 1 || !isOpCodeType(g.Params[0].Type()) {
		return false
	}
	res := g.Signature.Results()
	if res.Len() != 1 || !types.Identical(res.At(0).Type().Underlying(), types.Typ[types.Bool]) {
		return false
	}
	return len(opcodeTests(g)[g.Params[0]]) >= 3
}

func checkNoOpcodeWhitelist(p *Program, r *Result, rule string, fns []*ssa.Function) {
	bad := 0
	for _, fn := range fns {
		// (1) a predicate call whose false outcome is an error
		for _, in := range instrsOf(fn) {
			iff, ok := in.(*ssa.If)
			if !ok {
				continue
			}
			cond := iff.Cond
			neg := false
			if u, ok := cond.(*ssa.UnOp); ok && u.Op == token.NOT {
				cond, neg = u.X, true
			}
			c, ok := cond.(*ssa.Call)
			if !ok || !whitelistPredicate(c.Call.StaticCallee()) {
				continue
			}
			falseSucc := iff.Block().Succs[1]
			if neg {
				falseSucc = iff.Block().Succs[0]
			}
			if returnsNonNilErrOnAllPaths(fn, falseSucc) {
				bad++
				r.violated(rule, funcName(fn), "opcode whitelist "+calleeRepoName(c), p.pos(iff.Pos()),
					"a record whose opcode is not in the list accepted by "+calleeRepoName(c)+" makes this read fail; unknown opcodes must be skipped by their length, wherever they appear")
			}
		}
		// (2) an inline chain of tests whose all-false exit is an error
		if fn.Name() == "Next" && funcName(fn) == "mcap.Lexer.Next" {
			continue // decided arm by arm by C11.a
		}
		for v, tests := range opcodeTests(fn) {
			if len(tests) < 3 {
				continue
			}
			// the last test in the chain: its false successor is the "none matched" path
			var last *ssa.BinOp
			for _, t := range tests {
				if last == nil || t.Pos() > last.Pos() {
					last = t
				}
			}
			for _, ref := range *last.Referrers() {
				if iff, ok := ref.(*ssa.If); ok && returnsNonNilErrOnAllPaths(fn, iff.Block().Succs[1]) {
					bad++
					r.violated(rule, funcName(fn), "inline opcode whitelist on "+valueLabel(v), p.pos(iff.Pos()),
						"when the opcode equals none of the "+itoa(len(tests))+" listed constants the read fails; unknown opcodes must be skipped by their length")
				}
			}
		}
	}
	if bad == 0 {
		r.held(rule, "mcap (reader side)", "no closed list of accepted opcodes", "", "no test of an opcode against a list of known values ends in an error")
	}
}
