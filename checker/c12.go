package main

import (
	"go/ast"
	"go/token"
	"go/types"
	"sort"
	"strings"
)

func init() { register("C12", true, checkC12) }

// armAccess: per case clause of a switch, receiver fields read and written.
type armAccess struct {
	label  string
	reads  map[string]bool
	writes map[string]bool
	pos    ast.Node
}

// switchArms analyses the case clauses of the token switch in fd, or - when fd has none - in an unexported method it
// calls (two levels). What an arm reads and writes includes what the unexported methods it calls on the same receiver read
// and write (one level), so an arm that is a single call `it.addChunkIndex(record)` is seen through.
func switchArms(g *goLayouts, fd *ast.FuncDecl, recv string) []armAccess {
	var arms []armAccess
	hosts := []*ast.FuncDecl{fd}
	seenHost := map[*ast.FuncDecl]bool{fd: true}
	for i := 0; i < len(hosts) && i < 8; i++ {
		ast.Inspect(hosts[i].Body, func(n ast.Node) bool {
			if ce, ok := n.(*ast.CallExpr); ok {
				if fn := g.calleeOf(ce); fn != nil && !fn.Exported() {
					if hd := g.decls[fn]; hd != nil && hd.Body != nil && hd.Recv != nil && !seenHost[hd] && recvTypeName(g, hd) == recvTypeName(g, fd) {
						seenHost[hd] = true
						hosts = append(hosts, hd)
					}
				}
			}
			return true
		})
	}
	// accesses of a node, looking one level into methods called on the receiver
	var collect func(node ast.Node, recv string, a *armAccess, depth int)
	collect = func(node ast.Node, recv string, a *armAccess, depth int) {
		written := map[ast.Node]bool{}
		ast.Inspect(node, func(m ast.Node) bool {
			switch x := m.(type) {
			case *ast.AssignStmt:
				for _, l := range x.Lhs {
					if f := recvField(l, recv); f != "" {
						a.writes[f] = true
						written[l] = true
					}
				}
			case *ast.CallExpr:
				if sel, ok := x.Fun.(*ast.SelectorExpr); ok {
					if f := recvField(sel.X, recv); f != "" && (sel.Sel.Name == "Set" || sel.Sel.Name == "Reset") {
						a.writes[f] = true
						written[sel.X] = true
					}
				}
				if depth > 0 {
					if fn := g.calleeOf(x); fn != nil && !fn.Exported() {
						if hd := g.decls[fn]; hd != nil && hd.Body != nil && hd.Recv != nil {
							if sel, ok := x.Fun.(*ast.SelectorExpr); ok {
								if id, ok := sel.X.(*ast.Ident); ok && id.Name == recv {
									collect(hd.Body, recvName(hd), a, depth-1)
								}
							}
						}
					}
				}
			}
			return true
		})
		ast.Inspect(node, func(m ast.Node) bool {
			if written[m] {
				return false
			}
			if se, ok := m.(*ast.SelectorExpr); ok {
				if f := recvField(se, recv); f != "" {
					a.reads[f] = true
				}
			}
			return true
		})
		// the self-read inside `it.x = append(it.x, v)` is not an inter-arm dependency
		ast.Inspect(node, func(m ast.Node) bool {
			as, ok := m.(*ast.AssignStmt)
			if !ok || len(as.Lhs) != 1 || len(as.Rhs) != 1 {
				return true
			}
			ce, ok := as.Rhs[0].(*ast.CallExpr)
			if !ok || !g.isBuiltin(ce, "append") || len(ce.Args) == 0 {
				return true
			}
			lf, rf := recvField(as.Lhs[0], recv), recvField(ce.Args[0], recv)
			if lf != "" && lf == rf {
				count := 0
				ast.Inspect(node, func(k ast.Node) bool {
					if se, ok := k.(*ast.SelectorExpr); ok && recvField(se, recv) == lf {
						count++
					}
					return true
				})
				if count <= 2 {
					delete(a.reads, lf)
				}
			}
			return true
		})
	}
	for _, host := range hosts {
		hrecv := recvName(host)
		ast.Inspect(host.Body, func(n ast.Node) bool {
			if len(arms) > 0 {
				return false
			}
			sw, ok := n.(*ast.SwitchStmt)
			if !ok || sw.Tag == nil || !strings.Contains(strings.ToLower(types.ExprString(sw.Tag)), "token") {
				return true
			}
			for _, st := range sw.Body.List {
				cc := st.(*ast.CaseClause)
				a := armAccess{reads: map[string]bool{}, writes: map[string]bool{}, pos: cc}
				var labels []string
				for _, e := range cc.List {
					labels = append(labels, types.ExprString(e))
				}
				a.label = strings.Join(labels, ",")
				if a.label == "" {
					a.label = "default"
				}
				collect(cc, hrecv, &a, 1)
				arms = append(arms, a)
			}
			return false
		})
		if len(arms) > 0 {
			break
		}
	}
	return arms
}

func recvField(e ast.Expr, recv string) string {
	for {
		switch x := e.(type) {
		case *ast.ParenExpr:
			e = x.X
		case *ast.IndexExpr:
			e = x.X
		case *ast.SliceExpr:
			e = x.X
		case *ast.StarExpr:
			e = x.X
		case *ast.SelectorExpr:
			if id, ok := x.X.(*ast.Ident); ok && id.Name == recv {
				return x.Sel.Name
			}
			e = x.X
		default:
			return ""
		}
	}
}

func recvName(fd *ast.FuncDecl) string {
	if fd.Recv != nil && len(fd.Recv.List) == 1 && len(fd.Recv.List[0].Names) == 1 {
		return fd.Recv.List[0].Names[0].Name
	}
	return ""
}

// compressionCases: the set of CompressionFormat constants (by value) a function switches over.
func compressionCases(g *goLayouts, fd *ast.FuncDecl) map[string]bool {
	out := map[string]bool{}
	note := func(e ast.Expr) {
		ast.Inspect(e, func(m ast.Node) bool {
			if id, ok := m.(*ast.Ident); ok {
				if c, ok := g.info.ObjectOf(id).(*types.Const); ok {
					if nt, ok := c.Type().(*types.Named); ok && nt.Obj().Name() == "CompressionFormat" {
						out[c.Val().ExactString()] = true
					}
				}
			}
			return true
		})
	}
	ast.Inspect(fd.Body, func(n ast.Node) bool {
		switch x := n.(type) {
		case *ast.CaseClause:
			for _, e := range x.List {
				note(e)
			}
		case *ast.BinaryExpr:
			// if/else chains: compression == CompressionZSTD
			if x.Op == token.EQL {
				note(x.X)
				note(x.Y)
			}
		}
		return true
	})
	return out
}

// compressionCasesDeep: compressionCases of fd and of the package functions it calls (the decoder selection may live in
// a helper).
func compressionCasesDeep(g *goLayouts, fd *ast.FuncDecl, depth int, seen map[*ast.FuncDecl]bool) map[string]bool {
	out := compressionCases(g, fd)
	seen[fd] = true
	if depth <= 0 {
		return out
	}
	ast.Inspect(fd.Body, func(n ast.Node) bool {
		if ce, ok := n.(*ast.CallExpr); ok {
			if fn := g.calleeOf(ce); fn != nil {
				if d := g.decls[fn]; d != nil && d.Body != nil && !seen[d] {
					for k := range compressionCasesDeep(g, d, depth-1, seen) {
						out[k] = true
					}
				}
			}
		}
		return true
	})
	return out
}

func checkC12(p *Program, r *Result) {
	r.Explanation = "Structural necessary conditions of 'readers return the same content for every legal layout of it': " +
		"(C12.a) the handlers of the single-pass summary interpretation commute: no arm of the token switch (other than the terminal Footer arm, which the lexer guarantees to be last) reads or " +
		"overwrites an iterator table that another arm writes, so the order of summary groups cannot change the outcome; " +
		"(C12.b) the streaming lexer and the index-based iterator accept the same set of chunk compressions; " +
		"(C12.o) a chunk slot owns its decompressed bytes regardless of the chunk's compression (no aliasing of the shared read buffer for the uncompressed case); " +
		"(C12.e) after a chunk load the yield loop re-evaluates the load condition before yielding, directly or through helpers (otherwise the result depends on how the writer partitioned messages into chunks); " +
		"(C12.c) optional summary parts (statistics, attachment/metadata indexes, summary offsets) are not dereferenced on the message path."
	r.NotDecided = []string{"equality of content across chunk partitions, schema/channel placement and CRC presence (run-time)"}
	r.rule("C12.a", "summary handlers commute", 6)
	r.rule("C12.b", "both chunk decoders accept the same compressions", 1)
	r.rule("C12.o", "chunk slot buffers own their bytes", 2)
	r.rule("C12.e", "how messages are partitioned into chunks does not affect ordered reads: load trigger re-evaluated after every chunk load", 1)
	r.rule("C12.t", "sequential reading expands every chunk regardless of its time range", 1)
	checkChunkTimesUnused(p, r, "C12.t")
	r.rule("C12.n", "a chunk index without message indexes (an optional part) is never dropped by the channel filter", 0)
	checkKeepWithoutMessageIndexes(p, r, "C12.n")
	r.rule("C12.u", "chunks with equal times load in an order that does not depend on the layout: stable sort of the chunk indexes, or a comparator with a tie-break", 0)
	checkChunkSortDeterministic(p, r, "C12.u")
	r.rule("C12.c", "optional summary parts are not required on the message path", 1)

	g := newGoLayouts(p, pkgMcap)
	fd := methodDecl(g, "indexedMessageIterator", "parseSummarySection")
	if fd == nil {
		r.undecided("C12.a", "mcap.indexedMessageIterator.parseSummarySection", "anchor", "", "not found")
		return
	}
	fname := "mcap.indexedMessageIterator.parseSummarySection"
	arms := switchArms(g, fd, recvName(fd))
	if len(arms) == 0 {
		r.undecided("C12.a", fname, "token switch", p.pos(fd.Pos()), "no switch over the token type found")
	}
	terminal := func(a armAccess) bool { return strings.HasSuffix(a.label, "TokenFooter") }
	for _, a := range arms {
		if terminal(a) {
			r.held("C12.a", fname, "case "+a.label+" (terminal)", p.pos(a.pos.Pos()), "runs after every summary record; may read any table")
			continue
		}
		bad := ""
		for _, b := range arms {
			if b.label == a.label || terminal(b) {
				continue
			}
			var fs []string
			for f := range b.writes {
				fs = append(fs, f)
			}
			sort.Strings(fs)
			for _, f := range fs {
				if a.reads[f] && bad == "" {
					bad = "case " + a.label + " reads it." + f + " written by case " + b.label
				}
				if a.writes[f] && bad == "" && a.label < b.label {
					bad = "case " + a.label + " and case " + b.label + " both write it." + f
				}
			}
		}
		if bad != "" {
			r.violated("C12.a", fname, bad, p.pos(a.pos.Pos()),
				"the result of the summary pass depends on the order in which summary groups appear in the file, which the specification leaves to the writer")
		} else {
			r.held("C12.a", fname, "case "+a.label, p.pos(a.pos.Pos()), "reads/writes no table written by another arm")
		}
	}
	// ---- b
	lfd := func() *ast.FuncDecl {
		for fn, d := range g.decls {
			if fn.Name() == "loadChunk" && (d.Recv == nil || recvTypeName(g, d) == "Lexer") {
				return d
			}
		}
		return nil
	}()
	ifd := methodDecl(g, "indexedMessageIterator", "loadChunk")
	if lfd == nil || ifd == nil {
		r.undecided("C12.b", "mcap.loadChunk", "anchors", "", "one of the loadChunk functions not found")
	} else {
		a, b := compressionCasesDeep(g, lfd, 3, map[*ast.FuncDecl]bool{}), compressionCasesDeep(g, ifd, 3, map[*ast.FuncDecl]bool{})
		var onlyA, onlyB []string
		for k := range a {
			if !b[k] {
				onlyA = append(onlyA, k)
			}
		}
		for k := range b {
			if !a[k] {
				onlyB = append(onlyB, k)
			}
		}
		sort.Strings(onlyA)
		sort.Strings(onlyB)
		if len(onlyA)+len(onlyB) == 0 && len(a) >= 3 {
			r.held("C12.b", "mcap.loadChunk / mcap.indexedMessageIterator.loadChunk", "compression sets", p.pos(ifd.Pos()), "both accept the same compression identifiers")
		} else {
			r.violated("C12.b", "mcap.loadChunk / mcap.indexedMessageIterator.loadChunk", "compression sets", p.pos(ifd.Pos()),
				"lexer only: ["+strings.Join(onlyA, ",")+"], indexed iterator only: ["+strings.Join(onlyB, ",")+"]; the same file would read through one path and fail through the other")
		}
	}
	checkSlotOwnership(p, r, "C12.o")
	if ni := p.lookupFunc(pkgMcap, "indexedMessageIterator.NextInto"); ni != nil {
		checkReloopAfterLoadAs(p, r, ni, "C12.e")
	} else {
		r.undecided("C12.e", "mcap.indexedMessageIterator.NextInto", "anchor", "", "not found")
	}
	// ---- c: optional parts on the message path
	bad := 0
	for _, name := range []string{"indexedMessageIterator.loadChunk", "indexedMessageIterator.NextInto"} {
		if md := methodDecl(g, "indexedMessageIterator", strings.Split(name, ".")[1]); md != nil {
			rv := recvName(md)
			ast.Inspect(md.Body, func(n ast.Node) bool {
				if se, ok := n.(*ast.SelectorExpr); ok {
					if inner, ok := se.X.(*ast.SelectorExpr); ok {
						if f := recvField(inner, rv); f == "statistics" || f == "footer" {
							bad++
							r.violated("C12.c", "mcap."+name, "use of optional it."+f, p.pos(se.Pos()), "the message path dereferences an optional summary part; a file without it would crash or read differently")
						}
					}
				}
				return true
			})
		}
	}
	if bad == 0 {
		r.held("C12.c", "mcap.indexedMessageIterator", "optional summary parts", "", "statistics and footer are not dereferenced by loadChunk/NextInto")
	}
}
