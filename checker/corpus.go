package main

// Thorough tier, part 3: the regression corpus. Every confirmed seeded change of this property (seeded/<Prop>-*/patch.diff)
// and every behaviour-preserving refactoring (benign/*/patch.diff) is applied IN MEMORY to /repo's current source
// (packages.Config.Overlay; a scratch copy of only the touched files is patched under the system temp directory and removed
// at once; nothing is written into /repo or /verif) and the property's rules are run on the result, one sub-process per
// patch. Expected: a seeded change that the check caught when it was imported fires; a refactoring stays quiet. The
// outcome is recorded in the evidence (coverage.corpus) and printed; it does not change the exit status of the check,
// because on a tree that differs from the one the patches were written for an outcome may legitimately differ
// ("stale": the patch no longer applies).

import (
	"encoding/json"
	"fmt"
	"os"
	"os/exec"
	"path/filepath"
	"sort"
	"strings"
	"sync"
)

type corpusResult struct {
	ID       string `json:"id"`
	Kind     string `json:"kind"`     // seeded | refactoring
	Expected string `json:"expected"` // fires | quiet | known-miss
	Outcome  string `json:"outcome"`  // fired | quiet | alarm | silent | stale | skipped | error
	Detail   string `json:"detail,omitempty"`
}

// patchOverlay applies a unified diff to copies of the files it touches and returns path-in-repo -> patched content.
func patchOverlay(repo, patchFile string) (map[string][]byte, string) {
	b, err := os.ReadFile(patchFile)
	if err != nil {
		return nil, "cannot read patch"
	}
	var paths []string
	seen := map[string]bool{}
	for _, l := range strings.Split(string(b), "\n") {
		if strings.HasPrefix(l, "+++ b/") || strings.HasPrefix(l, "--- a/") {
			pth := strings.TrimSpace(l[6:])
			if i := strings.IndexByte(pth, '\t'); i >= 0 {
				pth = pth[:i]
			}
			if !seen[pth] {
				seen[pth] = true
				paths = append(paths, pth)
			}
		}
		if strings.HasPrefix(l, "+++ /dev/null") {
			return nil, "patch deletes a file (not expressible as an overlay)"
		}
	}
	for _, pth := range paths {
		if !strings.HasSuffix(pth, ".go") {
			return nil, "patch touches non-Go file " + pth
		}
	}
	tmp, err := os.MkdirTemp("", "mcapvet-corpus-")
	if err != nil {
		return nil, "no temp dir"
	}
	defer os.RemoveAll(tmp)
	for _, pth := range paths {
		dst := filepath.Join(tmp, pth)
		_ = os.MkdirAll(filepath.Dir(dst), 0o755)
		if src, err := os.ReadFile(filepath.Join(repo, pth)); err == nil {
			_ = os.WriteFile(dst, src, 0o644)
		}
	}
	cmd := exec.Command("patch", "-p1", "-s", "-f", "--no-backup-if-mismatch", "-d", tmp, "-i", patchFile)
	if out, err := cmd.CombinedOutput(); err != nil {
		return nil, "patch does not apply: " + lastLine(string(out))
	}
	ov := map[string][]byte{}
	for _, pth := range paths {
		c, err := os.ReadFile(filepath.Join(tmp, pth))
		if err != nil {
			continue
		}
		ov[filepath.Join(repo, pth)] = c
	}
	return ov, ""
}

// runCorpusChild: `mcapvet <prop> --corpus <dir>`: one line "CORPUS <outcome> <detail>".
func runCorpusChild(def *propDef, dir, repo string) int {
	ov, why := patchOverlay(repo, filepath.Join(dir, "patch.diff"))
	if ov == nil {
		if strings.HasPrefix(why, "patch touches non-Go") || strings.HasPrefix(why, "patch deletes") {
			fmt.Println("CORPUS skipped " + why)
		} else {
			fmt.Println("CORPUS stale " + why)
		}
		return 0
	}
	p, err := loadProgram(loadOpts{repo: repo, needSSA: true, overlay: ov})
	if err != nil {
		fmt.Println("CORPUS stale patched program does not load: " + strings.SplitN(err.Error(), "\n", 2)[0])
		return 0
	}
	r := newResult(def.id, "corpus")
	def.fn(p, r)
	var viol []string
	und := 0
	per := map[string]int{}
	for _, o := range r.Obls {
		if o.Status == Violated {
			viol = append(viol, o.Key)
		}
		if o.Status == Undecided {
			und++
		}
		if o.Status != Note || o.Located {
			per[o.Rule]++
		}
	}
	for rule, floor := range r.Floors {
		if per[rule] < floor {
			und++
		}
	}
	sort.Strings(viol)
	switch {
	case len(viol) > 0:
		fmt.Println("CORPUS violated " + viol[0])
	case und > 0:
		fmt.Println("CORPUS undecided")
	default:
		fmt.Println("CORPUS clean")
	}
	return 0
}

func runCorpus(def *propDef, r *Result, repo, verif string) {
	type job struct {
		id, kind, dir, expect string
	}
	var jobs []job
	caught := map[string]bool{}
	if b, err := os.ReadFile(filepath.Join(verif, "seeded", "MATRIX.json")); err == nil {
		var m map[string]struct {
			Own bool `json:"caught_by_own"`
		}
		if json.Unmarshal(b, &m) == nil {
			for id, e := range m {
				caught[id] = e.Own
			}
		}
	}
	dirs, _ := filepath.Glob(filepath.Join(verif, "seeded", def.id+"-*"))
	sort.Strings(dirs)
	for _, d := range dirs {
		if _, err := os.Stat(filepath.Join(d, "patch.diff")); err != nil {
			continue
		}
		id := filepath.Base(d)
		exp := "known-miss"
		if caught[id] {
			exp = "fires"
		}
		jobs = append(jobs, job{id, "seeded", d, exp})
	}
	dirs, _ = filepath.Glob(filepath.Join(verif, "benign", "C*"))
	sort.Strings(dirs)
	for _, d := range dirs {
		if _, err := os.Stat(filepath.Join(d, "patch.diff")); err != nil {
			continue
		}
		jobs = append(jobs, job{filepath.Base(d), "refactoring", d, "quiet"})
	}
	if len(jobs) == 0 {
		return
	}
	self, _ := os.Executable()
	results := make([]corpusResult, len(jobs))
	sem := make(chan struct{}, 8)
	var wg sync.WaitGroup
	for i, j := range jobs {
		wg.Add(1)
		go func(i int, j job) {
			defer wg.Done()
			sem <- struct{}{}
			defer func() { <-sem }()
			out, _ := exec.Command(self, def.id, "--corpus", j.dir, "--repo", repo).CombinedOutput()
			last := lastLine(string(out))
			cr := corpusResult{ID: j.id, Kind: j.kind, Expected: j.expect}
			switch {
			case strings.HasPrefix(last, "CORPUS violated"):
				cr.Detail = strings.TrimPrefix(last, "CORPUS violated ")
				if j.kind == "seeded" {
					cr.Outcome = "fired"
				} else {
					cr.Outcome = "alarm"
				}
			case strings.HasPrefix(last, "CORPUS clean"):
				if j.kind == "seeded" {
					cr.Outcome = "silent"
				} else {
					cr.Outcome = "quiet"
				}
			case strings.HasPrefix(last, "CORPUS undecided"):
				cr.Outcome = "undecided"
			case strings.HasPrefix(last, "CORPUS stale"):
				cr.Outcome, cr.Detail = "stale", strings.TrimPrefix(last, "CORPUS stale ")
			case strings.HasPrefix(last, "CORPUS skipped"):
				cr.Outcome, cr.Detail = "skipped", strings.TrimPrefix(last, "CORPUS skipped ")
			default:
				cr.Outcome, cr.Detail = "error", last
			}
			results[i] = cr
		}(i, j)
	}
	wg.Wait()
	sum := map[string]int{}
	var mismatches []string
	for _, c := range results {
		sum[c.Kind+":"+c.Outcome]++
		switch {
		case c.Kind == "seeded" && c.Expected == "fires" && c.Outcome != "fired" && c.Outcome != "stale" && c.Outcome != "skipped":
			mismatches = append(mismatches, c.ID+" (seeded change, expected to fire): "+c.Outcome)
		case c.Kind == "refactoring" && (c.Outcome == "alarm" || c.Outcome == "undecided"):
			mismatches = append(mismatches, c.ID+" (refactoring, expected quiet): "+c.Outcome+" "+c.Detail)
		}
	}
	r.Extra["corpus"] = map[string]any{"results": results, "summary": sum, "mismatches": mismatches,
		"rule": "each patch applied in memory to the current source; the property's rules run on the result; informational (does not change the exit status)"}
	fmt.Printf("   corpus: %d patches applied in memory: %v\n", len(results), sum)
	for _, m := range mismatches {
		fmt.Println("   CORPUS-MISMATCH: " + m)
	}
}
