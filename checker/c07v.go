package main

import (
	"go/token"

	"golang.org/x/tools/go/ssa"
)

// C07.v: no view of the lexer's scratch buffer survives a refill. The lexer decodes record and chunk headers out of one
// small scratch buffer that it fills several times per chunk (fixed header fields, then compression string and records
// length). A slice (or a typed view) of that buffer taken before one of the fills and consulted after it reads whatever
// the later fill left there: with a long compression identifier the stored chunk CRC is overwritten by the records length
// - and a stored CRC of 0 switches validation off. Statically: a value that aliases Lexer.buf (slice / re-slice /
// conversion of a load of the field) and is defined before a full read into Lexer.buf must not be used after that read
// (other than as the destination of the read itself).
func checkScratchViews(p *Program, r *Result, rule string) {
	var fns []*ssa.Function
	for _, name := range []string{"loadChunk", "Lexer.Next"} {
		if fn := p.lookupFunc(pkgMcap, name); fn != nil {
			fns = append(fns, regionOf(p, fn, 3)...)
		}
	}
	seenFn := map[*ssa.Function]bool{}
	n, bad := 0, 0
	for _, fn := range fns {
		if seenFn[fn] {
			continue
		}
		seenFn[fn] = true
		rootIsScratch := func(v ssa.Value) bool {
			for i := 0; i < 8 && v != nil; i++ {
				switch x := v.(type) {
				case *ssa.Slice:
					v = x.X
				case *ssa.ChangeType:
					v = x.X
				case *ssa.Convert:
					// []byte -> string copies; only slice-to-slice conversions alias
					if isByteSlice(x.Type()) {
						v = x.X
					} else {
						return false
					}
				case *ssa.UnOp:
					if x.Op != token.MUL {
						return false
					}
					tn, f, _, ok := fieldRef(x.X)
					return ok && tn == "Lexer" && f == "buf"
				default:
					return false
				}
			}
			return false
		}
		var fills []ssa.CallInstruction
		for _, ci := range callsIn(fn, isFullRead) {
			if rootIsScratch(ci.Common().Args[1]) {
				fills = append(fills, ci)
			}
		}
		if len(fills) == 0 {
			continue
		}
		for _, in := range instrsOf(fn) {
			v, ok := in.(ssa.Value)
			if !ok {
				continue
			}
			switch in.(type) {
			case *ssa.Slice, *ssa.ChangeType:
			default:
				continue
			}
			if !rootIsScratch(v) || v.Referrers() == nil {
				continue
			}
			n++
			for _, f := range fills {
				if !instrDominates(in, f) {
					continue // the view is taken after this fill (or on another path)
				}
				// a fill THROUGH this view (io.ReadFull(r, view), or into a re-slice of it) refreshes the view: what is
				// read through it afterwards are the new bytes, as intended (header := l.buf[:9]; for { ReadFull(r, header); header[0] ... })
				through := false
				for d, i := f.Common().Args[1], 0; d != nil && i < 6; i++ {
					if d == v {
						through = true
						break
					}
					switch x := d.(type) {
					case *ssa.Slice:
						d = x.X
					case *ssa.ChangeType:
						d = x.X
					default:
						d = nil
					}
				}
				if through {
					continue
				}
				for _, ref := range *v.Referrers() {
					if ref == ssa.Instruction(f) {
						continue
					}
					if _, isDbg := ref.(*ssa.DebugRef); isDbg {
						continue
					}
					after := ref.Block() == f.Block() && blockIndexOf(ref) > blockIndexOf(f) || ref.Block() != f.Block() && reachableFromSuccs(f.Block())[ref.Block()]
					if !after || !instrDominates(f, ref) {
						continue
					}
					// re-slicing the view is not a use of its bytes; the derived view is examined on its own
					switch ref.(type) {
					case *ssa.Slice, *ssa.ChangeType:
						continue
					}
					bad++
					r.violated(rule, funcName(fn), "view of the scratch buffer used across a refill", p.pos(ref.Pos()),
						"a view of the lexer's scratch buffer taken at "+p.pos(in.Pos())+" is used after the buffer was filled again at "+p.pos(f.Pos())+"; it no longer shows the bytes it was taken for (a header field read this way is whatever the later read left there)")
				}
			}
		}
	}
	if bad == 0 {
		r.held(rule, "mcap.Lexer", "views of the scratch buffer", "", itoa(n)+" views examined: none is used after a later fill of the buffer")
	}
}
