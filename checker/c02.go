package main

import (
	"go/token"
	"sort"
	"strings"

	"golang.org/x/tools/go/ssa"
)

func init() { register("C02", true, checkC02) }

func checkC02(p *Program, r *Result) {
	r.Explanation = "Structural necessary conditions of 'index-based access finds exactly what a sequential scan finds': " +
		"(C02.a) every summary-derived table on which the index-based path silently skips messages (a lookup whose nil result does not lead to an error) is consulted by the predicate that decides whether " +
		"the index may be used (Info.CanReadMessagesUsingIndex reads the Info field that Reader.Info fills from that table); " +
		"(C02.c) with a metadata callback installed, every iteration over the metadata indexes either returns an error or invokes the callback on the record parsed from that entry's offset, and the sequential iterator invokes it for every metadata token; " +
		"(C02.d) GetAttachmentReader seeks to offset+9 and GetMetadata to offset, the convention under which the writer records index offsets (position of the opcode byte); " +
		"(C02.e) Reader.Messages returns the index-based iterator only on the branch where the gate is true; " +
		"(C02.p) Reader.Info saves the position of the shared stream before it reads the summary and restores it on every path afterwards (the sequential fallback continues from wherever the stream stands); " +
		"(C02.m) between the construction of the iterator that Reader.Messages returns and the return, nothing sets the shared lexer's emitChunks switch to the other mode; " +
		"(C02.g) the record NextInto yields is sliced from the chunk slot and offset of the queue entry at the cursor; " +
		"(C02.f) when it.order can be FileOrder, chunks are sorted by ascending ChunkStartOffset and no sort/reverse of the pending-message queue can execute; " +
		"(C02.k) every read the index-based path issues on the Reader's shared io.ReadSeeker is preceded on every path, in the same function, by an absolute seek (the stream position is not private to an iterator); " +
		"(C02.o) a chunk slot's buffer owns its bytes (never a view of the shared read buffer); (C02.b) both iterators bind message, channel and schema by id (C01.d)."
	r.NotDecided = []string{"element-wise equality of the indexed and sequential sequences (run-time)", "order of file-order reads"}
	r.rule("C02.a", "silently skipped tables are consulted by the index gate", 1)
	r.rule("C02.q", "every way the index gate says yes (with chunk indexes present) has tested each silently skipped table", 1)
	r.rule("C02.c", "metadata callback invoked for every (indexed) metadata record", 2)
	r.rule("C02.d", "random-access offset conventions", 2)
	r.rule("C02.e", "indexed iterator only behind a true gate", 1)
	r.rule("C02.o", "chunk slot buffers own their bytes", 2)
	r.rule("C02.b", "binding keys", 4)
	r.rule("C02.k", "reads of the shared stream are positioned", 5)

	checkIndexGate(p, r)
	checkMetadataCallback(p, r)
	checkRandomAccessOffsets(p, r)
	checkFallbackShape(p, r)
	checkSlotOwnership(p, r, "C02.o")
	checkBindingKeys(p, r, "C02.b")
	checkPositionedReads(p, r)
	r.rule("C02.p", "Reader.Info leaves the shared stream where it found it", 1)
	checkInfoRestoresPosition(p, r, "C02.p")
	r.rule("C02.n", "a chunk index without message indexes is never dropped by the channel filter", 0)
	checkKeepWithoutMessageIndexes(p, r, "C02.n")
	r.rule("C02.s", "the chunk cursor only moves past a chunk that was loaded", 0)
	checkCursorAdvancesAfterLoad(p, r, "C02.s")
	r.rule("C02.m", "the shared lexer is in the mode of the iterator that Messages returns", 2)
	checkLexerMode(p, r)
	r.rule("C02.g", "the yielded record is the one designated by the queue entry at the cursor", 0)
	checkCursorDiscipline(p, r, "C02.g")
	r.rule("C02.f", "file order: chunks by ascending offset, message queue never reordered", 3)
	checkFileOrder(p, r)
}

// silentTables: iterator fields (slicemaps) whose Get(...) == nil test does not lead to an error on every path.
func silentTables(p *Program) map[string]string {
	out := map[string]string{}
	// every method of the index-based iterator (the walk and the filters may be split into helpers)
	for _, fn := range sortedFuncs(func() map[*ssa.Function]bool {
		m := map[*ssa.Function]bool{}
		for _, f := range methodsOf(p, pkgMcap, "indexedMessageIterator") {
			if f.Blocks != nil {
				m[f] = true
			}
		}
		return m
	}()) {
		for _, in := range instrsOf(fn) {
			c, ok := in.(*ssa.Call)
			if !ok {
				continue
			}
			f := c.Call.StaticCallee()
			if f == nil {
				continue
			}
			if f.Origin() != nil {
				f = f.Origin()
			}
			if f.Name() != "Get" || len(c.Call.Args) != 2 {
				continue
			}
			_, table, _, ok := fieldRef(c.Call.Args[0])
			if !ok {
				continue
			}
			for _, ref := range *c.Referrers() {
				b, ok := ref.(*ssa.BinOp)
				if !ok || (b.Op != token.EQL && b.Op != token.NEQ) || !(isNilConst(b.X) || isNilConst(b.Y)) {
					continue
				}
				for _, r2 := range *b.Referrers() {
					iff, ok := r2.(*ssa.If)
					if !ok {
						continue
					}
					nilSucc := iff.Block().Succs[0]
					if b.Op == token.NEQ {
						nilSucc = iff.Block().Succs[1]
					}
					if skipsSilently(nilSucc) {
						if _, had := out[table]; !had {
							out[table] = funcName(fn) + " at " + p.pos(c.Pos())
						}
					}
				}
			}
		}
	}
	return out
}

// skipsSilently: from b some path goes round a loop (back edge) or returns nil error with nothing yielded —
// the message is dropped without an error. Paths ending in an error return or in a return that yields a
// message are not silent.
func skipsSilently(b *ssa.BasicBlock) bool {
	seen := map[*ssa.BasicBlock]bool{}
	var walk func(x *ssa.BasicBlock) bool
	walk = func(x *ssa.BasicBlock) bool {
		if seen[x] {
			return false
		}
		seen[x] = true
		if ret, ok := x.Instrs[len(x.Instrs)-1].(*ssa.Return); ok {
			n := len(ret.Results)
			if n == 0 {
				return true
			}
			if !isNilConst(ret.Results[n-1]) {
				return false // error (or EOF) reported
			}
			for _, rv := range ret.Results[:n-1] {
				if !isNilConst(rv) {
					return false // something is yielded
				}
			}
			return n == 1 // a bare `return nil` drops the message silently
		}
		for _, s := range x.Succs {
			if s.Dominates(x) {
				return true // back edge: the loop goes on to the next record
			}
			if walk(s) {
				return true
			}
		}
		return false
	}
	return walk(b)
}

func checkIndexGate(p *Program, r *Result) {
	silent := silentTables(p)
	// table -> Info field, from Reader.Info's literal
	infoFn := p.lookupFunc(pkgMcap, "Reader.Info")
	gate := p.lookupFunc(pkgMcap, "Info.CanReadMessagesUsingIndex")
	if infoFn == nil || gate == nil {
		r.undecided("C02.a", "mcap.Info.CanReadMessagesUsingIndex", "anchors", "", "Reader.Info or the gate not found")
		return
	}
	tableToInfo := map[string]string{}
	oc := &originCtx{p: p}
	// (the literal may be built in an unexported helper Info delegates to: Reader.summaryInfo, iterator.info(header))
	var infoInstrs []ssa.Instruction
	for _, rf := range regionOf(p, infoFn, 3) {
		infoInstrs = append(infoInstrs, instrsOf(rf)...)
	}
	for _, in := range infoInstrs {
		st, ok := in.(*ssa.Store)
		if !ok {
			continue
		}
		tn, f, _, ok := fieldRef(st.Addr)
		if !ok || tn != "Info" {
			continue
		}
		// value derives from it.<table> (direct load, or ToMap() call on it)
		v := st.Val
		if c, ok := v.(*ssa.Call); ok && len(c.Call.Args) > 0 {
			v = c.Call.Args[0]
		}
		if _, t, _, ok := fieldRef(v); ok {
			tableToInfo[t] = f
		} else if u, ok := v.(*ssa.UnOp); ok {
			if _, t, _, ok := fieldRef(u.X); ok {
				tableToInfo[t] = f
			}
		}
	}
	_ = oc
	gateReads := map[string]bool{}
	for _, rf := range regionOf(p, gate, 2) { // the gate may ask helper predicates of Info
		for _, in := range instrsOf(rf) {
			if u, ok := in.(*ssa.UnOp); ok && u.Op == token.MUL {
				if tn, f, _, ok := fieldRef(u.X); ok && tn == "Info" {
					gateReads[f] = true
				}
			}
		}
	}
	var tables []string
	for t := range silent {
		tables = append(tables, t)
	}
	sort.Strings(tables)
	if len(tables) == 0 {
		r.held("C02.a", funcName(gate), "no silently skipped table", p.pos(gate.Pos()), "every failed table lookup on the index-based path returns an error")
		return
	}
	for _, t := range tables {
		inf := tableToInfo[t]
		construct := "gate consults Info." + inf + " (table " + t + ")"
		if inf == "" {
			r.undecided("C02.a", funcName(gate), "table "+t, p.pos(gate.Pos()), "table "+t+" (silently skipped in "+silent[t]+") is not exposed through Info")
			continue
		}
		if gateReads[inf] {
			r.held("C02.a", funcName(gate), construct, p.pos(gate.Pos()), "messages whose "+t+" entry is missing are skipped silently ("+silent[t]+"), and the gate requires the table")
			// ... and requires it on every way of saying yes: a path to `true` (with chunk indexes present) that never tests
			// the table admits a summary without those records
			if at := gateYesWithoutTest(p, gate, inf); at != nil {
				r.violated("C02.q", funcName(gate), "every 'yes' of the gate has tested Info."+inf, p.pos(at.Pos()),
					"the predicate that allows index-based reading can answer yes, for a file that has chunk indexes, on a path that never tests Info."+inf+
						" (a loop over entries that may be empty is not a test); the index-based path silently skips messages whose "+t+" entry is missing ("+silent[t]+"), so such a file reads as empty instead of falling back to a scan")
			} else {
				r.held("C02.q", funcName(gate), "every 'yes' of the gate has tested Info."+inf, p.pos(gate.Pos()), "no path to a true result avoids a test of the table")
			}
		} else {
			r.violated("C02.a", funcName(gate), "gate does not consult Info."+inf, p.pos(gate.Pos()),
				"the index-based path silently skips messages whose entry is missing from it."+t+" ("+silent[t]+"), but the predicate that allows index-based reading never looks at Info."+inf+
					"; a file with chunk indexes and no such summary records reads as empty instead of falling back to a scan")
		}
	}
}

func checkMetadataCallback(p *Program, r *Result) {
	// indexed
	if fn := p.lookupFunc(pkgMcap, "indexedMessageIterator.NextInto"); fn != nil {
		// the walk may live in an unexported helper of NextInto: judge the function that indexes it.metadataIndexes
		for _, rf := range regionOf(p, fn, 3) {
			found := false
			for _, in := range instrsOf(rf) {
				if ia, ok := in.(*ssa.IndexAddr); ok && loadOfField(ia.X, "indexedMessageIterator", "metadataIndexes") {
					found = true
				}
			}
			if found {
				fn = rf
				break
			}
		}
		fname := funcName(fn)
		var cbCalls []ssa.CallInstruction
		for _, ci := range callsIn(fn, func(ci ssa.CallInstruction) bool {
			return ci.Common().StaticCallee() == nil && !ci.Common().IsInvoke() && loadOfField(ci.Common().Value, "indexedMessageIterator", "metadataCallback")
		}) {
			cbCalls = append(cbCalls, ci)
		}
		// the loop over it.metadataIndexes: a Range/index loop whose body reads it.metadataIndexes[i]
		var loopHeader *ssa.BasicBlock
		for _, in := range instrsOf(fn) {
			if ia, ok := in.(*ssa.IndexAddr); ok && loadOfField(ia.X, "indexedMessageIterator", "metadataIndexes") {
				for d := ia.Block(); d != nil; d = d.Idom() {
					for _, pr := range d.Preds {
						if d.Dominates(pr) {
							loopHeader = d
						}
					}
					if loopHeader != nil {
						break
					}
				}
			}
		}
		switch {
		case loopHeader == nil:
			r.violated("C02.c", fname, "loop over the metadata indexes", p.pos(fn.Pos()), "the index-based iterator does not walk it.metadataIndexes; indexed metadata records never reach the callback")
		case len(cbCalls) == 0:
			r.violated("C02.c", fname, "metadata callback call", p.pos(fn.Pos()), "the metadata callback is never invoked by the index-based iterator")
		default:
			// every path around the loop (header -> ... -> header) passes a callback call or returns an error
			body := loopBodyEntry(loopHeader)
			ok := body != nil && allPathsHitBefore(body, loopHeader, fn, func(in ssa.Instruction) bool {
				for _, c := range cbCalls {
					if ssa.Instruction(c) == in {
						return true
					}
				}
				return false
			})
			// the loop must not be nested in a condition on the number of metadata indexes
			extra := ""
			for d := loopHeader.Idom(); d != nil; d = d.Idom() {
				if iff, ok := d.Instrs[len(d.Instrs)-1].(*ssa.If); ok {
					if b, ok := iff.Cond.(*ssa.BinOp); ok {
						for _, v := range []ssa.Value{b.X, b.Y} {
							if c, ok := v.(*ssa.Call); ok {
								if bi, ok := c.Call.Value.(*ssa.Builtin); ok && bi.Name() == "len" && loadOfField(c.Call.Args[0], "indexedMessageIterator", "metadataIndexes") {
									if k, ok := otherConst(b, v); ok && k != "0" {
										extra = "the loop is guarded by a condition on len(metadataIndexes) (" + b.String() + ")"
									}
								}
							}
						}
					}
				}
			}
			if ok && extra == "" {
				r.held("C02.c", fname, "callback on every indexed metadata record", p.pos(cbCalls[0].Pos()), "each iteration calls the callback or returns an error")
			} else {
				if extra == "" {
					extra = "an iteration over the metadata indexes can complete without invoking the callback"
				}
				r.violated("C02.c", fname, "callback on every indexed metadata record", p.pos(cbCalls[0].Pos()), extra)
			}
			// the record handed to the callback is parsed from the bytes read at idx.Offset
			seekOK := false
			for _, ci := range callsIn(fn, func(ci ssa.CallInstruction) bool { return calleeRepoName(ci) == "mcap.indexedMessageIterator.seekTo" }) {
				if loadOfField(ci.Common().Args[1], "MetadataIndex", "Offset") {
					seekOK = true
				}
			}
			if !seekOK {
				r.violated("C02.c", fname, "metadata record located by its index offset", p.pos(fn.Pos()), "no seek to MetadataIndex.Offset before the metadata record is read")
			}
		}
	}
	// sequential
	if fn := p.lookupFunc(pkgMcap, "unindexedMessageIterator.NextInto"); fn != nil {
		n := 0
		for _, rf := range regionOf(p, fn, 3) { // the arm may hand the record to an unexported helper (deliverMetadata)
			n += len(callsIn(rf, func(ci ssa.CallInstruction) bool {
				return ci.Common().StaticCallee() == nil && !ci.Common().IsInvoke() && loadOfField(ci.Common().Value, "unindexedMessageIterator", "metadataCallback")
			}))
		}
		if n > 0 {
			r.held("C02.c", funcName(fn), "callback on every metadata token", p.pos(fn.Pos()), "TokenMetadata arm calls the callback when installed")
		} else {
			r.violated("C02.c", funcName(fn), "callback on every metadata token", p.pos(fn.Pos()), "the sequential iterator never invokes the metadata callback")
		}
	}
}

func otherConst(b *ssa.BinOp, v ssa.Value) (string, bool) {
	o := b.X
	if o == v {
		o = b.Y
	}
	if c, ok := o.(*ssa.Const); ok && c.Value != nil {
		return c.Value.String(), true
	}
	return "", false
}

// loopBodyEntry: the successor of the header that stays in the loop.
func loopBodyEntry(h *ssa.BasicBlock) *ssa.BasicBlock {
	for _, s := range h.Succs {
		if reachableBlocks(s)[h] {
			return s
		}
	}
	return nil
}

// allPathsHitBefore: every path from start that comes back to stop executes an instruction satisfying pred
// first; paths that leave by returning a non-nil error are fine, paths returning nil error without a hit are not.
func allPathsHitBefore(start, stop *ssa.BasicBlock, fn *ssa.Function, pred func(ssa.Instruction) bool) bool {
	seen := map[*ssa.BasicBlock]bool{}
	var walk func(b *ssa.BasicBlock) bool
	walk = func(b *ssa.BasicBlock) bool {
		if b == stop {
			return false
		}
		if seen[b] {
			return true
		}
		seen[b] = true
		for _, in := range b.Instrs {
			if pred(in) {
				return true
			}
			if ret, ok := in.(*ssa.Return); ok {
				n := len(ret.Results)
				return n > 0 && !isNilConst(ret.Results[n-1])
			}
		}
		for _, s := range b.Succs {
			if !walk(s) {
				return false
			}
		}
		return true
	}
	return walk(start)
}

func checkRandomAccessOffsets(p *Program, r *Result) {
	for _, c := range []struct {
		fn   string
		plus string
	}{{"Reader.GetAttachmentReader", "9"}, {"Reader.GetMetadata", "0"}} {
		fn := p.lookupFunc(pkgMcap, c.fn)
		if fn == nil {
			r.undecided("C02.d", "mcap."+c.fn, "anchor", "", "not found")
			continue
		}
		ok := false
		detail := "no Seek on the source"
		for _, ci := range callsIn(fn, func(ci ssa.CallInstruction) bool { return ci.Common().IsInvoke() && ci.Common().Method.Name() == "Seek" }) {
			off := stripConv(ci.Common().Args[0])
			prm := ssa.Value(fn.Params[1])
			switch {
			case c.plus == "0" && off == prm:
				ok = true
			case c.plus != "0":
				if b, isB := off.(*ssa.BinOp); isB && b.Op == token.ADD && b.X == prm {
					if k, isK := b.Y.(*ssa.Const); isK && k.Value != nil && k.Value.String() == c.plus {
						ok = true
					} else {
						detail = "seeks to offset + " + valueLabel(b.Y)
					}
				} else {
					detail = "seeks to " + valueLabel(off)
				}
			default:
				detail = "seeks to " + valueLabel(off)
			}
			if wh, isK := ci.Common().Args[1].(*ssa.Const); !isK || wh.Value == nil || wh.Value.String() != "0" {
				ok = false
				detail = "seek is not relative to the start of the file"
			}
		}
		construct := "seek to index offset + " + c.plus
		if ok {
			r.held("C02.d", funcName(fn), construct, p.pos(fn.Pos()), "matches the writer's convention (index offsets designate the opcode byte)")
		} else {
			r.violated("C02.d", funcName(fn), construct, p.pos(fn.Pos()), "the record located by an index entry is read from the wrong position: "+detail)
		}
	}
}

func checkFallbackShape(p *Program, r *Result) {
	fn := p.lookupFunc(pkgMcap, "Reader.Messages")
	if fn == nil {
		r.undecided("C02.e", "mcap.Reader.Messages", "anchor", "", "not found")
		return
	}
	var gateCall *ssa.Call
	for _, ci := range callsIn(fn, func(ci ssa.CallInstruction) bool { return calleeRepoName(ci) == "mcap.Info.CanReadMessagesUsingIndex" }) {
		gateCall, _ = ci.(*ssa.Call)
	}
	idxCalls := callsIn(fn, func(ci ssa.CallInstruction) bool { return calleeRepoName(ci) == "mcap.Reader.indexedMessageIterator" })
	if gateCall == nil {
		r.violated("C02.e", funcName(fn), "index gate", p.pos(fn.Pos()), "Messages does not consult Info.CanReadMessagesUsingIndex before choosing the index-based iterator")
		return
	}
	var iff *ssa.If
	for _, ref := range *gateCall.Referrers() {
		if i, ok := ref.(*ssa.If); ok {
			iff = i
		}
		if u, ok := ref.(*ssa.UnOp); ok && u.Op == token.NOT {
			for _, r2 := range *u.Referrers() {
				if i, ok := r2.(*ssa.If); ok {
					iff = i
				}
			}
		}
	}
	if iff == nil || len(idxCalls) == 0 {
		r.undecided("C02.e", funcName(fn), "index gate", p.pos(gateCall.Pos()), "gate result does not drive a branch, or no indexed iterator is constructed")
		return
	}
	trueSucc := iff.Block().Succs[0]
	if _, neg := iff.Cond.(*ssa.UnOp); neg {
		trueSucc = iff.Block().Succs[1]
	}
	for _, ic := range idxCalls {
		if trueSucc == ic.Block() || trueSucc.Dominates(ic.Block()) {
			r.held("C02.e", funcName(fn), "indexed iterator behind the gate", p.pos(ic.Pos()), "constructed only where CanReadMessagesUsingIndex() is true")
		} else {
			r.violated("C02.e", funcName(fn), "indexed iterator behind the gate", p.pos(ic.Pos()), "the index-based iterator can be returned although the gate is false; such files read as empty or partial instead of falling back to the scan")
		}
	}
	_ = strings.TrimSpace
}

// gateYesWithoutTest: a return of the gate that can yield true, with chunk indexes present, on a path along which no
// branch condition (and not the returned value itself) depends on Info.<field>. nil if there is none.
func gateYesWithoutTest(p *Program, gate *ssa.Function, field string) ssa.Instruction {
	var depends func(v ssa.Value, depth int, seen map[ssa.Value]bool) bool
	depends = func(v ssa.Value, depth int, seen map[ssa.Value]bool) bool {
		if v == nil || depth > 12 || seen[v] {
			return false
		}
		seen[v] = true
		switch x := v.(type) {
		case *ssa.UnOp:
			if x.Op == token.MUL {
				if tn, f, _, ok := fieldRef(x.X); ok && tn == "Info" && f == field {
					return true
				}
			}
			return depends(x.X, depth+1, seen)
		case *ssa.BinOp:
			if vacuousLenCompare(x) {
				return false // len(t) >= 0 and its like say nothing about t
			}
			return depends(x.X, depth+1, seen) || depends(x.Y, depth+1, seen)
		case *ssa.Convert:
			return depends(x.X, depth+1, seen)
		case *ssa.ChangeType:
			return depends(x.X, depth+1, seen)
		case *ssa.Extract:
			return depends(x.Tuple, depth+1, seen)
		case *ssa.Lookup:
			return depends(x.X, depth+1, seen)
		case *ssa.Index:
			return depends(x.X, depth+1, seen)
		case *ssa.IndexAddr:
			return depends(x.X, depth+1, seen)
		case *ssa.FieldAddr:
			return depends(x.X, depth+1, seen)
		case *ssa.Field:
			return depends(x.X, depth+1, seen)
		case *ssa.Phi:
			for _, e := range x.Edges {
				if depends(e, depth+1, seen) {
					return true
				}
			}
		case *ssa.Call:
			for _, a := range x.Call.Args {
				if depends(a, depth+1, seen) {
					return true
				}
			}
			// a predicate of the package that looks at the table itself
			if g := x.Call.StaticCallee(); g != nil && g.Blocks != nil && p.isRepoFunc(g) {
				for _, in := range instrsOf(g) {
					if u, ok := in.(*ssa.UnOp); ok && u.Op == token.MUL {
						if tn, f, _, ok := fieldRef(u.X); ok && tn == "Info" && f == field {
							return true
						}
					}
				}
			}
		}
		return false
	}
	dep := func(v ssa.Value) bool { return depends(v, 0, map[ssa.Value]bool{}) }
	// successor on which the chunk index list is known to be empty
	emptySide := func(b *ssa.BasicBlock) *ssa.BasicBlock {
		iff, ok := b.Instrs[len(b.Instrs)-1].(*ssa.If)
		if !ok {
			return nil
		}
		c, ok := iff.Cond.(*ssa.BinOp)
		if !ok {
			return nil
		}
		isLen := func(v ssa.Value) bool {
			call, ok := stripConv(v).(*ssa.Call)
			if !ok {
				return false
			}
			bi, ok := call.Call.Value.(*ssa.Builtin)
			return ok && bi.Name() == "len" && loadOfField(call.Call.Args[0], "Info", "ChunkIndexes")
		}
		konst := func(v ssa.Value) (int64, bool) {
			k, ok := v.(*ssa.Const)
			if !ok || k.Value == nil {
				return 0, false
			}
			return k.Int64(), true
		}
		op := c.Op
		var k int64
		switch {
		case isLen(c.X):
			v, ok := konst(c.Y)
			if !ok {
				return nil
			}
			k = v
		case isLen(c.Y):
			v, ok := konst(c.X)
			if !ok {
				return nil
			}
			k = v
			op = map[token.Token]token.Token{token.LSS: token.GTR, token.GTR: token.LSS, token.LEQ: token.GEQ, token.GEQ: token.LEQ, token.EQL: token.EQL, token.NEQ: token.NEQ}[op]
		default:
			return nil
		}
		switch {
		case op == token.EQL && k == 0, op == token.LSS && k == 1, op == token.LEQ && k == 0:
			return b.Succs[0]
		case op == token.NEQ && k == 0, op == token.GTR && k == 0, op == token.GEQ && k == 1:
			return b.Succs[1]
		}
		return nil
	}
	// blocks reachable from the entry without passing a test of the table and without entering the empty side
	reach := map[*ssa.BasicBlock]bool{}
	var walk func(b *ssa.BasicBlock)
	walk = func(b *ssa.BasicBlock) {
		if reach[b] {
			return
		}
		reach[b] = true
		if iff, ok := b.Instrs[len(b.Instrs)-1].(*ssa.If); ok && dep(iff.Cond) {
			return
		}
		es := emptySide(b)
		for _, s := range b.Succs {
			if s != es {
				walk(s)
			}
		}
	}
	if len(gate.Blocks) == 0 {
		return nil
	}
	walk(gate.Blocks[0])
	var offender ssa.Instruction
	var classify func(v ssa.Value, at *ssa.BasicBlock, ret ssa.Instruction, depth int)
	classify = func(v ssa.Value, at *ssa.BasicBlock, ret ssa.Instruction, depth int) {
		if offender != nil || depth > 6 {
			return
		}
		if k, ok := v.(*ssa.Const); ok {
			if k.Value != nil && k.Value.String() == "true" && reach[at] {
				offender = ret
			}
			return
		}
		if dep(v) {
			return
		}
		if phi, ok := v.(*ssa.Phi); ok {
			for i, e := range phi.Edges {
				classify(e, phi.Block().Preds[i], ret, depth+1)
			}
			return
		}
		if reach[at] {
			offender = ret
		}
	}
	for _, in := range instrsOf(gate) {
		if ret, ok := in.(*ssa.Return); ok && len(ret.Results) == 1 {
			classify(ret.Results[0], ret.Block(), ret, 0)
		}
	}
	return offender
}

// vacuousLenCompare: a comparison of len(x) with a constant that has the same outcome for every x
// (len(x) >= 0, len(x) < 0, 0 <= len(x), 0 > len(x), len(x) > -1 ...).
func vacuousLenCompare(b *ssa.BinOp) bool {
	isLen := func(v ssa.Value) bool {
		c, ok := stripConv(v).(*ssa.Call)
		if !ok {
			return false
		}
		bi, ok := c.Call.Value.(*ssa.Builtin)
		return ok && (bi.Name() == "len" || bi.Name() == "cap")
	}
	konst := func(v ssa.Value) (int64, bool) {
		c, ok := v.(*ssa.Const)
		if !ok || c.Value == nil || !isIntegerType(c.Type()) {
			return 0, false
		}
		return c.Int64(), true
	}
	op := b.Op
	var k int64
	switch {
	case isLen(b.X):
		kk, ok := konst(b.Y)
		if !ok {
			return false
		}
		k = kk
	case isLen(b.Y):
		kk, ok := konst(b.X)
		if !ok {
			return false
		}
		k = kk
		op = map[token.Token]token.Token{token.LSS: token.GTR, token.LEQ: token.GEQ, token.GTR: token.LSS, token.GEQ: token.LEQ, token.EQL: token.EQL, token.NEQ: token.NEQ}[op]
	default:
		return false
	}
	// len REL k
	switch op {
	case token.GEQ:
		return k <= 0
	case token.GTR:
		return k < 0
	case token.LSS:
		return k <= 0
	case token.LEQ:
		return k < 0
	case token.EQL, token.NEQ:
		return k < 0
	}
	return false
}
