package main

import (
	"go/token"

	"golang.org/x/tools/go/ssa"
)

// C09.l / C15.l: a full read reads as many bytes as its destination is long, so the destination has to be cut to the
// number of bytes wanted on every path: `if cap(buf) < n { buf = make([]byte, n) } else { buf = buf[:n] }` is right, the
// same without the else arm reads len(buf) bytes - whatever the caller's buffer happened to hold - and frames the
// following records wrongly. Statically: where the destination of io.ReadFull is a phi, either every alternative has an
// explicit length (a slice expression with a high bound, a make, an allocation helper) or none has; a mixture means one
// path forgot to cut the buffer.
func checkFullReadLength(p *Program, r *Result, rule string, fns []*ssa.Function) {
	n := 0
	for _, fn := range fns {
		k := 0
		for _, ci := range callsIn(fn, isFullRead) {
			dst := ci.Common().Args[1]
			var explicit, bare int
			seen := map[ssa.Value]bool{}
			var walk func(v ssa.Value, depth int)
			walk = func(v ssa.Value, depth int) {
				if v == nil || seen[v] || depth > 6 {
					return
				}
				seen[v] = true
				switch x := v.(type) {
				case *ssa.Phi:
					for _, e := range x.Edges {
						walk(e, depth+1)
					}
				case *ssa.Slice:
					if x.High != nil {
						explicit++
					} else {
						walk(x.X, depth+1)
					}
				case *ssa.MakeSlice:
					explicit++
				case *ssa.Extract:
					explicit++ // result of an allocation helper (makeSafe)
				case *ssa.Call:
					explicit++
				case *ssa.Parameter:
					bare++
				case *ssa.UnOp:
					if x.Op == token.MUL {
						bare++
					}
				default:
					bare++
				}
			}
			if _, isPhi := dst.(*ssa.Phi); !isPhi {
				continue
			}
			walk(dst, 0)
			n++
			k++
			construct := "destination of " + trimPkg(staticCalleeName(ci.Common())) + " has an explicit length on every path"
			if k > 1 {
				construct += " #" + itoa(k-1)
			}
			if explicit > 0 && bare > 0 {
				r.violated(rule, funcName(fn), construct, p.pos(ci.Pos()),
					"on one path the destination is cut (or allocated) to the number of bytes wanted, on another it is used as it came in: the read then covers len(buffer) bytes instead of the record, and the records that follow are framed wrongly")
			} else {
				r.held(rule, funcName(fn), construct, p.pos(ci.Pos()), "every alternative is cut or allocated to size")
			}
		}
	}
	if n == 0 {
		r.held(rule, "mcap", "full-read destinations", "", "no full read takes a destination that differs between paths")
	}
}
