package main

import (
	"go/token"

	"golang.org/x/tools/go/ssa"
)

// C02.s: the chunk cursor only moves past a chunk that was loaded. Every `it.curChunkIndex++` in the indexed iterator
// is dominated by a call that reaches loadChunk: a path that advances the cursor without loading drops the chunk's
// messages from the index-based read while the scan still returns them. A skip decided by the time window
// (it.start / it.end) is pruning, which C04.b judges; it is located here, not judged.
func checkCursorAdvancesAfterLoad(p *Program, r *Result, rule string) {
	lc := p.lookupFunc(pkgMcap, "indexedMessageIterator.loadChunk")
	if lc == nil {
		r.note(rule, "mcap.indexedMessageIterator", "chunk cursor", "", "loadChunk not found: not judged")
		return
	}
	// functions from which loadChunk is reached through static calls
	reaches := map[*ssa.Function]bool{lc: true}
	for changed := true; changed; {
		changed = false
		for _, m := range iteratorAndQueueMethods(p) {
			if m.Blocks == nil || reaches[m] {
				continue
			}
			for _, ci := range callsIn(m, func(ssa.CallInstruction) bool { return true }) {
				if f := ci.Common().StaticCallee(); f != nil && reaches[f] {
					reaches[m] = true
					changed = true
					break
				}
			}
		}
	}
	found := 0
	for _, m := range iteratorAndQueueMethods(p) {
		if m.Blocks == nil || m == lc {
			continue
		}
		for _, in := range instrsOf(m) {
			st, ok := in.(*ssa.Store)
			if !ok {
				continue
			}
			tn, f, _, ok := fieldRef(st.Addr)
			if !ok || tn != "indexedMessageIterator" || f != "curChunkIndex" {
				continue
			}
			b, ok := st.Val.(*ssa.BinOp)
			if !ok || b.Op != token.ADD || !(loadOfField(b.X, "indexedMessageIterator", "curChunkIndex") || loadOfField(b.Y, "indexedMessageIterator", "curChunkIndex")) {
				continue
			}
			found++
			construct := "advance of the chunk cursor follows a load of the chunk"
			// a dominating call that reaches loadChunk (same block before the store, or a dominator block)
			dominated := false
			window := false
			for blk := st.Block(); blk != nil; blk = blk.Idom() {
				for _, x := range blk.Instrs {
					if blk == st.Block() && x == ssa.Instruction(st) {
						break
					}
					if ci, ok := x.(ssa.CallInstruction); ok {
						if f := ci.Common().StaticCallee(); f != nil && reaches[f] {
							dominated = true
						}
					}
				}
				if iff, ok := blk.Instrs[len(blk.Instrs)-1].(*ssa.If); ok && blk != st.Block() {
					if mentionsField(iff.Cond, "indexedMessageIterator", map[string]bool{"start": true, "end": true}, map[ssa.Value]bool{}) {
						window = true
					}
				}
			}
			switch {
			case dominated:
				r.held(rule, funcName(m), construct, p.pos(st.Pos()), "dominated by a call that reaches loadChunk")
			case window:
				r.abstain(rule, funcName(m), construct, p.pos(st.Pos()), "the cursor moves on without a load under a test of the time window (pruning, see C04.b): located, not judged")
			default:
				r.violated(rule, funcName(m), construct, p.pos(st.Pos()),
					"it.curChunkIndex is incremented on a path on which the chunk at the cursor was not loaded: its messages are missing from the index-based read while a sequential scan returns them (what a chunk index says about times or message indexes does not show that the chunk holds no messages)")
			}
		}
	}
	if found == 0 {
		r.note(rule, "mcap.indexedMessageIterator", "chunk cursor", "", "no increment of it.curChunkIndex found: not judged")
	}
}

func mentionsField(v ssa.Value, tn string, fields map[string]bool, seen map[ssa.Value]bool) bool {
	if v == nil || seen[v] {
		return false
	}
	seen[v] = true
	switch x := v.(type) {
	case *ssa.UnOp:
		if t, f, _, ok := fieldRef(x.X); ok && t == tn && fields[f] {
			return true
		}
		return mentionsField(x.X, tn, fields, seen)
	case *ssa.BinOp:
		return mentionsField(x.X, tn, fields, seen) || mentionsField(x.Y, tn, fields, seen)
	case *ssa.Phi:
		for _, e := range x.Edges {
			if mentionsField(e, tn, fields, seen) {
				return true
			}
		}
	case *ssa.Convert:
		return mentionsField(x.X, tn, fields, seen)
	case *ssa.ChangeType:
		return mentionsField(x.X, tn, fields, seen)
	case *ssa.Call:
		for _, a := range x.Call.Args {
			if mentionsField(a, tn, fields, seen) {
				return true
			}
		}
	}
	return false
}
