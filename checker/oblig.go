package main

// Obligations, results, evidence files, known findings.

import (
	"bufio"
	"encoding/json"
	"fmt"
	"os"
	"path/filepath"
	"sort"
	"strings"
	"time"
)

type Status string

const (
	Held      Status = "held"
	Violated  Status = "violated"
	Undecided Status = "undecided"
	Note      Status = "note"
)

// Obligation is one decided instance of a rule on a concrete construct.
type Obligation struct {
	Rule   string   `json:"rule"`   // e.g. "C14.a"
	Key    string   `json:"key"`    // rule | pkg.func | normalised construct (no line numbers)
	Pos    string   `json:"pos"`    // file:line (diagnostic only)
	Status Status   `json:"status"` //
	Detail string   `json:"detail,omitempty"`
	Path   []string `json:"path,omitempty"` // for path rules: entry, blocks, offending exit
	// Located: a note for an instance the rule found and examined but does not judge (the code is written in a form the
	// rule has no model of). It counts towards the rule's floor - the anchor is there - and is neither held nor violated.
	Located bool `json:"located,omitempty"`
}

// Result collects what one property check decided.
type Result struct {
	Prop        string
	Tier        string
	Obls        []Obligation
	Floors      map[string]int // rule -> minimum number of matched instances confirmed by reading
	Explanation string
	RuleText    map[string]string // rule -> one-line statement of the rule applied
	NotDecided  []string
	Assumptions []string
	Funcs       map[string]bool // functions analysed
	CallSites   int
	Controls    []ControlResult
	Extra       map[string]any
	keyCount    map[string]int
}

type ControlResult struct {
	Name   string `json:"name"`
	Rule   string `json:"rule"`
	Fired  bool   `json:"fired"`
	Status string `json:"status"` // fired | silent | stale | error
	Detail string `json:"detail,omitempty"`
}

func newResult(prop, tier string) *Result {
	return &Result{Prop: prop, Tier: tier, Floors: map[string]int{}, RuleText: map[string]string{},
		Funcs: map[string]bool{}, Extra: map[string]any{}, keyCount: map[string]int{}}
}

func (r *Result) rule(id, text string, floor int) {
	r.RuleText[id] = text
	r.Floors[id] = floor
}

// add records an obligation. construct must be line-free. Duplicate keys get an ordinal suffix
// in order of insertion (callers insert in source order).
func (r *Result) add(rule, fn, construct string, st Status, pos, detail string, path ...string) *Obligation {
	key := rule + " | " + fn + " | " + construct
	r.keyCount[key]++
	if n := r.keyCount[key]; n > 1 {
		key = fmt.Sprintf("%s #%d", key, n)
	}
	r.Obls = append(r.Obls, Obligation{Rule: rule, Key: key, Pos: pos, Status: st, Detail: detail, Path: path})
	if fn != "" {
		r.Funcs[fn] = true
	}
	return &r.Obls[len(r.Obls)-1]
}

func (r *Result) held(rule, fn, construct, pos, detail string) {
	r.add(rule, fn, construct, Held, pos, detail)
}
func (r *Result) violated(rule, fn, construct, pos, detail string, path ...string) {
	r.add(rule, fn, construct, Violated, pos, detail, path...)
}
func (r *Result) undecided(rule, fn, construct, pos, detail string) {
	r.add(rule, fn, construct, Undecided, pos, detail)
}
func (r *Result) note(rule, fn, construct, pos, detail string) {
	r.add(rule, fn, construct, Note, pos, detail)
}

// abstain: the instance was located but is written in a form the rule does not model: reported as a note, counted for the floor.
func (r *Result) abstain(rule, fn, construct, pos, detail string) {
	r.add(rule, fn, construct, Note, pos, "not judged: "+detail).Located = true
}

// ---- known findings ----

type knownFinding struct {
	Kind   string // "finding" or "fixed"
	Prop   string
	Key    string
	What   string
	Commit string
}

func loadKnownFindings(path string) ([]knownFinding, error) {
	f, err := os.Open(path)
	if err != nil {
		if os.IsNotExist(err) {
			return nil, nil
		}
		return nil, err
	}
	defer f.Close()
	var out []knownFinding
	sc := bufio.NewScanner(f)
	sc.Buffer(make([]byte, 1<<20), 1<<20)
	for sc.Scan() {
		line := strings.TrimSpace(sc.Text())
		if line == "" || strings.HasPrefix(line, "#") {
			continue
		}
		kf := knownFinding{}
		switch {
		case strings.HasPrefix(line, "finding:"):
			kf.Kind = "finding"
			line = strings.TrimSpace(strings.TrimPrefix(line, "finding:"))
		case strings.HasPrefix(line, "fixed:"):
			kf.Kind = "fixed"
			line = strings.TrimSpace(strings.TrimPrefix(line, "fixed:"))
		default:
			return nil, fmt.Errorf("known_findings: unparsable line %q", line)
		}
		// property=<id> [commit] key="<key>" :: what
		parts := strings.SplitN(line, "::", 2)
		if len(parts) == 2 {
			kf.What = strings.TrimSpace(parts[1])
		}
		head := parts[0]
		if i := strings.Index(head, `key="`); i >= 0 {
			rest := head[i+5:]
			if j := strings.LastIndex(rest, `"`); j >= 0 {
				kf.Key = rest[:j]
			}
			head = head[:i]
		}
		for _, tok := range strings.Fields(head) {
			if strings.HasPrefix(tok, "property=") {
				kf.Prop = strings.TrimPrefix(tok, "property=")
			} else {
				kf.Commit = tok
			}
		}
		out = append(out, kf)
	}
	return out, sc.Err()
}

// ---- evidence ----

type evidence struct {
	PropertyID  string         `json:"property_id"`
	Tier        string         `json:"tier"`
	Seed        int            `json:"seed"`
	Level       string         `json:"level"`
	Coverage    map[string]any `json:"coverage"`
	Assumptions []string       `json:"assumptions"`
	WallS       float64        `json:"wall_s"`
	Violations  int            `json:"violations"`
}

type outcome struct {
	exit       int
	violations []Obligation
	known      []Obligation
	undecided  []string
}

// finish evaluates floors / known findings, prints the report, writes evidence and replay files.
func (r *Result) finish(p *Program, verifDir string, start time.Time, seed int, loadErr error) int {
	evDir := filepath.Join(verifDir, "evidence")
	_ = os.MkdirAll(filepath.Join(evDir, "replay"), 0o755)
	// clear stale replay files of this property
	old, _ := filepath.Glob(filepath.Join(evDir, "replay", r.Prop+"-*.json"))
	for _, f := range old {
		_ = os.Remove(f)
	}
	kfs, kerr := loadKnownFindings(filepath.Join(verifDir, "known_findings.txt"))
	known := map[string]knownFinding{}
	for _, k := range kfs {
		if k.Kind == "finding" && k.Prop == r.Prop {
			known[k.Key] = k
		}
	}

	var undec []string
	if loadErr != nil {
		undec = append(undec, "load: "+loadErr.Error())
	}
	if kerr != nil {
		undec = append(undec, kerr.Error())
	}
	perRule := map[string]map[Status]int{}
	located := map[string]int{}
	for _, o := range r.Obls {
		if perRule[o.Rule] == nil {
			perRule[o.Rule] = map[Status]int{}
		}
		perRule[o.Rule][o.Status]++
		if o.Status == Note && o.Located {
			located[o.Rule]++
		}
	}
	var rules []string
	for id := range r.RuleText {
		rules = append(rules, id)
	}
	sort.Strings(rules)
	ruleRows := []map[string]any{}
	for _, id := range rules {
		c := perRule[id]
		n := c[Held] + c[Violated] + c[Undecided] + located[id]
		if loadErr == nil && n < r.Floors[id] {
			undec = append(undec, fmt.Sprintf("rule %s matched %d instances, below the floor %d confirmed by reading (anchor moved or extractor blind) — undecided", id, n, r.Floors[id]))
		}
		ruleRows = append(ruleRows, map[string]any{"rule": id, "text": r.RuleText[id], "instances": n, "floor": r.Floors[id],
			"held": c[Held], "violated": c[Violated], "undecided": c[Undecided], "notes": c[Note]})
	}
	var viol, knownHit []Obligation
	obligations, discharged := 0, 0
	distinct := map[string]bool{}
	for _, o := range r.Obls {
		switch o.Status {
		case Held:
			obligations++
			discharged++
			distinct[o.Key] = true
		case Violated:
			obligations++
			distinct[o.Key] = true
			if _, ok := known[o.Key]; ok {
				knownHit = append(knownHit, o)
			} else {
				viol = append(viol, o)
			}
		case Undecided:
			obligations++
			undec = append(undec, fmt.Sprintf("%s: %s: %s", o.Pos, o.Key, o.Detail))
		}
	}
	for _, c := range r.Controls {
		if c.Status == "silent" || c.Status == "error" {
			undec = append(undec, fmt.Sprintf("positive control %s (%s) %s: %s", c.Name, c.Rule, c.Status, c.Detail))
		}
	}

	// ---- report ----
	fmt.Printf("== %s (%s tier): %d obligations over %d functions; %d held, %d violated (%d known), %d undecided\n",
		r.Prop, r.Tier, obligations, len(r.Funcs), discharged, len(viol)+len(knownHit), len(knownHit), len(undec))
	for _, row := range ruleRows {
		fmt.Printf("   rule %-7s instances=%-3d floor=%-3d held=%-3d violated=%-2d  %s\n", row["rule"], row["instances"], row["floor"], row["held"], row["violated"], row["text"])
	}
	for _, o := range r.Obls {
		if o.Status == Note {
			fmt.Printf("   note: %s: %s: %s\n", o.Pos, o.Key, o.Detail)
		}
	}
	for _, o := range knownHit {
		fmt.Printf("KNOWN-FINDING: property=%s %s: %s (%s)\n", r.Prop, o.Key, known[o.Key].What, o.Pos)
	}
	for _, u := range undec {
		fmt.Printf("UNDECIDED: %s\n", u)
	}
	for i, o := range viol {
		fmt.Printf("%s: %s: %s\n", o.Pos, o.Key, o.Detail)
		for _, s := range o.Path {
			fmt.Printf("      %s\n", s)
		}
		rp := filepath.Join(evDir, "replay", fmt.Sprintf("%s-%d.json", r.Prop, i+1))
		b, _ := json.MarshalIndent(map[string]any{"property_id": r.Prop, "obligation": o, "rule_text": r.RuleText[o.Rule]}, "", " ")
		_ = os.WriteFile(rp, b, 0o644)
		fmt.Printf("VIOLATION property=%s replay=%s\n", r.Prop, rp)
	}

	// ---- evidence ----
	samples := []any{}
	add := func(o Obligation) {
		if len(samples) < 16 {
			samples = append(samples, o)
		}
	}
	for _, o := range viol {
		add(o)
	}
	for _, o := range knownHit {
		add(o)
	}
	seenRule := map[string]int{}
	for _, o := range r.Obls {
		if o.Status == Held && seenRule[o.Rule] < 2 {
			seenRule[o.Rule]++
			add(o)
		}
	}
	if len(samples) == 0 {
		samples = append(samples, map[string]string{"note": "no obligation was produced", "load_error": fmt.Sprint(loadErr)})
	}
	funcs := make([]string, 0, len(r.Funcs))
	for f := range r.Funcs {
		funcs = append(funcs, f)
	}
	sort.Strings(funcs)
	knownKeys := []string{}
	for _, o := range knownHit {
		knownKeys = append(knownKeys, o.Key)
	}
	cov := map[string]any{
		"explanation":         r.Explanation,
		"obligations":         obligations,
		"discharged":          discharged,
		"evaluations":         obligations,
		"distinct_nontrivial": len(distinct),
		"rule":                "one obligation per (rule, function, construct) matched in /repo's type-checked source; distinct = distinct obligation keys; non-trivial = the rule matched a real construct (held or violated), notes excluded",
		"samples":             samples,
		"rules":               ruleRows,
		"functions_analysed":  funcs,
		"call_sites":          r.CallSites,
		"checker_cmd":         strings.Join(os.Args, " "),
		"trusted_base":        []string{"go/types type checker", "golang.org/x/tools v0.29.0 go/packages, go/ssa, callgraph/vta", "this checker (/verif/checker)", "third-party codecs and the Go runtime are not analysed"},
		"known_findings":      knownKeys,
		"undecided":           undec,
		"not_decided":         r.NotDecided,
		"exhaustive":          false,
	}
	if p != nil {
		var pk []string
		for path := range p.Pkgs {
			pk = append(pk, path)
		}
		sort.Strings(pk)
		cov["packages"] = pk
		cov["goarch"] = p.GOARCH
		cov["build_tags"] = p.Tags
	}
	if len(r.Controls) > 0 {
		cov["positive_controls"] = r.Controls
	}
	for k, v := range r.Extra {
		cov[k] = v
	}
	ev := evidence{PropertyID: r.Prop, Tier: r.Tier, Seed: seed, Level: "other", Coverage: cov,
		Assumptions: append(append([]string{}, r.Assumptions...), r.NotDecided...), WallS: time.Since(start).Seconds(), Violations: len(viol)}
	if ev.Assumptions == nil {
		ev.Assumptions = []string{}
	}
	b, _ := json.MarshalIndent(ev, "", " ")
	if err := os.WriteFile(filepath.Join(evDir, r.Prop+".json"), b, 0o644); err != nil {
		fmt.Printf("UNDECIDED: cannot write evidence: %v\n", err)
		return 2
	}
	switch {
	case len(viol) > 0:
		return 1
	case len(undec) > 0:
		return 2
	}
	return 0
}

// importRule runs a sibling rule and files its obligations under a rule of this property: a structural condition that
// two properties both depend on is decided once and reported under each (keys become "<into>[<rule>] | ...").
func importRule(p *Program, r *Result, into string, run func(sub *Result), keep func(o *Obligation) bool) {
	sub := newResult(r.Prop, "sub")
	run(sub)
	for _, o := range sub.Obls {
		if o.Status == Note || (keep != nil && !keep(&o)) {
			continue
		}
		o.Key = strings.Replace(o.Key, o.Rule+" |", into+"["+o.Rule+"] |", 1)
		o.Rule = into
		r.Obls = append(r.Obls, o)
	}
}
