package main

import (
	"go/token"
	"encoding/json"
	"go/ast"
	"go/constant"
	"go/types"
	"os"
	"path/filepath"
	"regexp"
	"sort"
	"strings"
)

func init() { register("C17", true, checkC17) }

type vectorFacts struct {
	features   map[string]bool
	inputTypes map[string]bool            // record types before DataEnd (incl. DataEnd)
	fields     map[string]map[string]bool // type -> field names
	orders     [][]string                 // collapsed record-type sequences after DataEnd
	n          int
}

func loadVectors(root string) (*vectorFacts, error) {
	files, _ := filepath.Glob(filepath.Join(root, "tests/conformance/data/*/*.json"))
	vf := &vectorFacts{features: map[string]bool{}, inputTypes: map[string]bool{}, fields: map[string]map[string]bool{}}
	seenOrder := map[string]bool{}
	for _, f := range files {
		b, err := os.ReadFile(f)
		if err != nil {
			return nil, err
		}
		var d struct {
			Records []struct {
				Type   string  `json:"type"`
				Fields [][]any `json:"fields"`
			} `json:"records"`
			Meta struct {
				Variant struct {
					Features []string `json:"features"`
				} `json:"variant"`
			} `json:"meta"`
		}
		if err := json.Unmarshal(b, &d); err != nil {
			return nil, err
		}
		vf.n++
		for _, x := range d.Meta.Variant.Features {
			vf.features[x] = true
		}
		after := false
		var seq []string
		for _, r := range d.Records {
			if vf.fields[r.Type] == nil {
				vf.fields[r.Type] = map[string]bool{}
			}
			for _, fl := range r.Fields {
				if len(fl) > 0 {
					if s, ok := fl[0].(string); ok {
						vf.fields[r.Type][s] = true
					}
				}
			}
			if !after {
				vf.inputTypes[r.Type] = true
			} else if len(seq) == 0 || seq[len(seq)-1] != r.Type {
				seq = append(seq, r.Type)
			}
			if r.Type == "DataEnd" {
				after = true
			}
		}
		k := strings.Join(seq, ",")
		if !seenOrder[k] {
			seenOrder[k] = true
			vf.orders = append(vf.orders, seq)
		}
	}
	if vf.n == 0 {
		return nil, os.ErrNotExist
	}
	return vf, nil
}

func tsFeatures(root string) (map[string]string, error) {
	b, err := os.ReadFile(filepath.Join(root, "tests/conformance/variants/types.ts"))
	if err != nil {
		return nil, err
	}
	m := regexp.MustCompile(`(?s)export const TestFeatures\s*=\s*\{(.*?)\}`).FindStringSubmatch(string(b))
	if m == nil {
		return nil, os.ErrInvalid
	}
	out := map[string]string{}
	for _, kv := range regexp.MustCompile(`(\w+)\s*:\s*"([^"]*)"`).FindAllStringSubmatch(m[1], -1) {
		out[kv[2]] = kv[1]
	}
	return out, nil
}

// expected option effect per feature key of the reference matrix (confirmed by reading types.ts and WriterOptions)
var featureEffect = map[string][2]string{
	"UseChunks": {"Chunked", "true"}, "UseMessageIndex": {"SkipMessageIndexing", "false"}, "UseStatistics": {"SkipStatistics", "false"},
	"UseRepeatedSchemas": {"SkipRepeatedSchemas", "false"}, "UseRepeatedChannelInfos": {"SkipRepeatedChannelInfos", "false"},
	"UseAttachmentIndex": {"SkipAttachmentIndex", "false"}, "UseMetadataIndex": {"SkipMetadataIndex", "false"}, "UseChunkIndex": {"SkipChunkIndex", "false"},
	"UseSummaryOffset": {"SkipSummaryOffsets", "false"}, "AddExtraDataToRecords": {"", ""},
}

func constString(info *types.Info, e ast.Expr) (string, bool) {
	if tv, ok := info.Types[e]; ok && tv.Value != nil && tv.Value.Kind() == constant.String {
		return constant.StringVal(tv.Value), true
	}
	return "", false
}

func checkC17(p *Program, r *Result) {
	r.Explanation = "Structural necessary conditions of 'the Go tools reproduce the cross-language conformance expectations': " +
		"(C17.a) the write tool's feature switch has an arm for exactly the features of the matrix (tests/conformance/variants/types.ts and the features used by the vectors), each arm performs the option change the feature names, " +
		"and the initial options enable CRCs, override the library string and skip every optional part; (C17.b) every record type and field name that occurs in the input part of the vectors has a handler that stores into the field of the same name; " +
		"(C17.c) for each record kind the read tool emits, the snake_cased exported fields of the Go struct it marshals (minus the tool's exclusions) are exactly the field names the vectors list for that type, and the type names agree; " +
		"(C17.d) the writer emits summary groups in an order consistent with every expectation vector; " +
		"(C17.o) the bytes Lexer.Next returns are a slice of the caller's buffer or freshly allocated (the read tool calls Next(nil) and keeps what it parsed from the result); " +
		"(C17.e) the writer/parser rules that the expected offsets, lengths, statistics and padded records depend on (C05 layout and pointers, C06 checksum scopes, C08 counters, C11 parser tolerance) hold."
	r.NotDecided = []string{"byte equality of the produced files and of the printed record streams (run-time)", "CRC values listed in the expectations"}
	r.rule("C17.a", "feature -> writer option table is total and correct", 10)
	r.rule("C17.b", "every input record type and field has a handler", 20)
	r.rule("C17.c", "output field names and type names equal the vectors'", 12)
	r.rule("C17.d", "summary group order is consistent with the vectors", 1)
	r.rule("C17.e", "writer layout, pointers, counters and parser tolerance", 60)

	vf, err := loadVectors(p.RepoRoot)
	if err != nil {
		r.undecided("C17.a", "tests/conformance/data", "vectors", "", "cannot read the expectation vectors: "+err.Error())
		return
	}
	r.Extra["vectors"] = vf.n
	ts, err := tsFeatures(p.RepoRoot)
	if err != nil {
		r.undecided("C17.a", "tests/conformance/variants/types.ts", "TestFeatures", "", "cannot read the feature table")
		return
	}
	gw := newGoLayouts(p, pkgWriteC)
	checkFeatureTable(p, r, gw, vf, ts)
	checkInputHandlers(p, r, gw, vf)
	gr := newGoLayouts(p, pkgReadC)
	checkOutputNames(p, r, gr, vf)
	checkSummaryOrder(p, r, vf)
	r.rule("C17.g", "every Skip* writer option suppresses the part it names", 1)
	checkSkipOptionsEffective(p, r, "C17.g")
	r.rule("C17.f", "read tool: numeric field values are rendered with numeric verbs", 2)
	checkReadToolRendering(p, r, "C17.f")
	r.rule("C17.m", "the writer emits records and index entries in the order and form it was handed them", 1)
	checkWriterDoesNotMutateInputs(p, r, "C17.m")
	r.rule("C17.o", "token bytes returned by Lexer.Next are the caller's or fresh (the read tool keeps records parsed from Next(nil))", 1)
	checkLexerTokenOwnership(p, r, "C17.o")

	// ---- e
	lf, err := gatherLayouts(p)
	if err == nil {
		lf.checkEncVsSpec(p, r, "C17.e")
		lf.checkDecVsSpec(p, r, "C17.e")
	}
	sub := newResult("C17", "sub")
	checkC05(p, sub)
	checkC08(p, sub)
	checkC06(p, sub)
	g := newGoLayouts(p, pkgMcap)
	checkParserTolerance(p, sub, g)
	for _, o := range sub.Obls {
		if o.Status == Note || strings.HasPrefix(o.Rule, "C05.a") {
			continue
		}
		o.Key = strings.Replace(o.Key, o.Rule+" |", "C17.e["+o.Rule+"] |", 1)
		o.Rule = "C17.e"
		r.Obls = append(r.Obls, o)
	}
}

func checkFeatureTable(p *Program, r *Result, g *goLayouts, vf *vectorFacts, ts map[string]string) {
	fd := findFuncDecl(g, "parseOptions")
	fname := "test-write-conformance.parseOptions"
	if fd == nil {
		r.undecided("C17.a", fname, "anchor", "", "not found")
		return
	}
	// initial literal
	init := map[string]string{}
	ast.Inspect(fd.Body, func(n ast.Node) bool {
		cl, ok := n.(*ast.CompositeLit)
		if !ok {
			return true
		}
		if nt, _ := structOf(g.info.TypeOf(cl)); nt == nil || nt.Obj().Name() != "WriterOptions" {
			return true
		}
		for _, el := range cl.Elts {
			if kv, ok := el.(*ast.KeyValueExpr); ok {
				if k, ok := kv.Key.(*ast.Ident); ok {
					init[k.Name] = types.ExprString(kv.Value)
				}
			}
		}
		return false
	})
	wantInit := map[string]string{"IncludeCRC": "true", "OverrideLibrary": "true", "SkipMessageIndexing": "true", "SkipStatistics": "true", "SkipRepeatedSchemas": "true",
		"SkipRepeatedChannelInfos": "true", "SkipAttachmentIndex": "true", "SkipMetadataIndex": "true", "SkipChunkIndex": "true", "SkipSummaryOffsets": "true"}
	var ks []string
	for k := range wantInit {
		ks = append(ks, k)
	}
	sort.Strings(ks)
	badInit := ""
	for _, k := range ks {
		if init[k] != wantInit[k] {
			badInit += k + " "
		}
	}
	if v, ok := init["Chunked"]; ok && v != "false" {
		badInit += "Chunked "
	}
	if badInit == "" {
		r.held("C17.a", fname, "initial options", p.pos(fd.Pos()), "CRCs on, library overridden, every optional part skipped, not chunked")
	} else {
		r.violated("C17.a", fname, "initial options", p.pos(fd.Pos()), "baseline options differ from what the matrix assumes for a vector without features: "+badInit)
	}
	// arms
	arms := map[string][2]string{}
	has := map[string]bool{}
	ast.Inspect(fd.Body, func(n ast.Node) bool {
		cc, ok := n.(*ast.CaseClause)
		if !ok {
			return true
		}
		for _, e := range cc.List {
			s, ok := constString(g.info, e)
			if !ok {
				continue
			}
			has[s] = true
			eff := [2]string{"", ""}
			for _, st := range cc.Body {
				if as, ok := st.(*ast.AssignStmt); ok && len(as.Lhs) == 1 && len(as.Rhs) == 1 {
					if sel, ok := as.Lhs[0].(*ast.SelectorExpr); ok {
						eff = [2]string{sel.Sel.Name, types.ExprString(as.Rhs[0])}
					}
				}
			}
			arms[s] = eff
		}
		return true
	})
	// table form: parseOptions looks the feature up in a package-level map from feature string to a function literal
	// that sets the option
	ast.Inspect(fd.Body, func(n ast.Node) bool {
		ix, ok := n.(*ast.IndexExpr)
		if !ok {
			return true
		}
		tid, ok := ix.X.(*ast.Ident)
		if !ok {
			return true
		}
		lit := packageMapLiteral(g, tid)
		if lit == nil {
			return true
		}
		for _, el := range lit.Elts {
			kv, ok := el.(*ast.KeyValueExpr)
			if !ok {
				continue
			}
			s, ok := constString(g.info, kv.Key)
			if !ok {
				continue
			}
			fl, ok := kv.Value.(*ast.FuncLit)
			if !ok {
				continue
			}
			has[s] = true
			eff := [2]string{"", ""}
			for _, st := range fl.Body.List {
				if as, ok := st.(*ast.AssignStmt); ok && len(as.Lhs) == 1 && len(as.Rhs) == 1 {
					if sel, ok := as.Lhs[0].(*ast.SelectorExpr); ok {
						eff = [2]string{sel.Sel.Name, types.ExprString(as.Rhs[0])}
					}
				}
			}
			arms[s] = eff
		}
		return true
	})
	all := map[string]bool{}
	for f := range ts {
		all[f] = true
	}
	for f := range vf.features {
		all[f] = true
	}
	var fs []string
	for f := range all {
		fs = append(fs, f)
	}
	sort.Strings(fs)
	for _, f := range fs {
		construct := "feature " + f
		key := ts[f]
		want, known := featureEffect[key]
		switch {
		case !has[f]:
			r.violated("C17.a", fname, construct, p.pos(fd.Pos()), "the matrix uses feature \""+f+"\" but the write tool has no arm for it (it would fail with 'unknown field')")
		case !known:
			r.undecided("C17.a", fname, construct, p.pos(fd.Pos()), "feature key "+key+" is not in the checker's table")
		case arms[f] != want:
			r.violated("C17.a", fname, construct, p.pos(fd.Pos()), "feature "+key+" must set "+want[0]+" = "+want[1]+"; the arm sets "+arms[f][0]+" = "+arms[f][1])
		default:
			r.held("C17.a", fname, construct, p.pos(fd.Pos()), key+": "+want[0]+" = "+want[1])
		}
	}
	for f := range has {
		if !all[f] {
			r.note("C17.a", fname, "extra feature arm "+f, p.pos(fd.Pos()), "the tool accepts a feature the matrix does not define")
		}
	}
}

func checkInputHandlers(p *Program, r *Result, g *goLayouts, vf *vectorFacts) {
	fd := findFuncDecl(g, "jsonToMCAP")
	fname := "test-write-conformance.jsonToMCAP"
	if fd == nil {
		r.undecided("C17.b", fname, "anchor", "", "not found")
		return
	}
	cases := map[string]bool{}
	// the record-type switch may live in an unexported helper of jsonToMCAP
	bodies := []*ast.FuncDecl{fd}
	seenD := map[*ast.FuncDecl]bool{fd: true}
	for i := 0; i < len(bodies) && i < 8; i++ {
		ast.Inspect(bodies[i].Body, func(n ast.Node) bool {
			if ce, ok := n.(*ast.CallExpr); ok {
				if fn := g.calleeOf(ce); fn != nil && !fn.Exported() && !strings.HasPrefix(fn.Name(), "parse") {
					if hd := g.decls[fn]; hd != nil && hd.Body != nil && !seenD[hd] {
						seenD[hd] = true
						bodies = append(bodies, hd)
					}
				}
			}
			return true
		})
	}
	for _, bd := range bodies {
		ast.Inspect(bd.Body, func(n ast.Node) bool {
			if cc, ok := n.(*ast.CaseClause); ok {
				for _, e := range cc.List {
					if s, ok := constString(g.info, e); ok {
						cases[s] = true
					}
				}
			}
			return true
		})
	}
	var tys []string
	for t := range vf.inputTypes {
		tys = append(tys, t)
	}
	sort.Strings(tys)
	for _, t := range tys {
		if cases[t] {
			r.held("C17.b", fname, "record type "+t, p.pos(fd.Pos()), "handled")
		} else {
			r.violated("C17.b", fname, "record type "+t, p.pos(fd.Pos()), "the vectors contain "+t+" records in their input part but the write tool has no arm for them")
		}
		if t == "DataEnd" {
			continue
		}
		pf := findFuncDecl(g, "parse"+t)
		if pf == nil {
			r.violated("C17.b", "test-write-conformance.parse"+t, "field handlers", p.pos(fd.Pos()), "no parse"+t+" function")
			continue
		}
		arms := map[string]string{}
		ast.Inspect(pf.Body, func(n ast.Node) bool {
			cc, ok := n.(*ast.CaseClause)
			if !ok {
				return true
			}
			for _, e := range cc.List {
				s, ok := constString(g.info, e)
				if !ok {
					continue
				}
				target := ""
				ast.Inspect(cc, func(m ast.Node) bool {
					if as, ok := m.(*ast.AssignStmt); ok {
						for _, l := range as.Lhs {
							if sel, ok := l.(*ast.SelectorExpr); ok {
								if sl, ok := g.info.Selections[sel]; ok && sl.Kind() == types.FieldVal && target == "" {
									target = sel.Sel.Name
								}
							}
						}
					}
					return true
				})
				arms[s] = target
			}
			return true
		})
		var fls []string
		for f := range vf.fields[t] {
			fls = append(fls, f)
		}
		sort.Strings(fls)
		for _, f := range fls {
			target, ok := arms[f]
			construct := t + " field " + f
			switch {
			case !ok:
				r.violated("C17.b", "test-write-conformance.parse"+t, construct, p.pos(pf.Pos()), "the vectors give this field but the tool ignores or rejects it")
			case snake(target) != f && !(t == "Attachment" && f == "data"):
				r.violated("C17.b", "test-write-conformance.parse"+t, construct, p.pos(pf.Pos()), "field \""+f+"\" is stored into "+target)
			default:
				r.held("C17.b", "test-write-conformance.parse"+t, construct, p.pos(pf.Pos()), "stored into "+target)
			}
		}
	}
}

func checkOutputNames(p *Program, r *Result, g *goLayouts, vf *vectorFacts) {
	fname := "test-read-conformance.readStreamed"
	fd := findFuncDecl(g, "readStreamed")
	if fd == nil {
		r.undecided("C17.c", fname, "anchor", "", "not found")
		return
	}
	// the tool's own snake-casing: two regular expressions applied in order, then lower-casing
	var pats []string
	for _, f := range p.Pkgs[pkgReadC].Syntax {
		ast.Inspect(f, func(n ast.Node) bool {
			ce, ok := n.(*ast.CallExpr)
			if !ok {
				return true
			}
			if fn := g.calleeOf(ce); fn != nil && fn.Pkg() != nil && fn.Pkg().Path() == "regexp" && fn.Name() == "MustCompile" && len(ce.Args) == 1 {
				if s, ok := constString(g.info, ce.Args[0]); ok {
					pats = append(pats, s)
				}
			}
			return true
		})
	}
	if len(pats) != 2 {
		r.undecided("C17.c", "test-read-conformance.toSnakeCase", "snake-casing", "", "expected two regular expressions, found "+strings.Join(pats, " | "))
		return
	}
	re1, err1 := regexp.Compile(pats[0])
	re2, err2 := regexp.Compile(pats[1])
	if err1 != nil || err2 != nil {
		r.undecided("C17.c", "test-read-conformance.toSnakeCase", "snake-casing", "", "patterns do not compile")
		return
	}
	toolSnake := func(s string) string {
		s = re1.ReplaceAllString(s, "${1}_${2}")
		s = re2.ReplaceAllString(s, "${1}_${2}")
		return strings.ToLower(s)
	}
	// struct types wrapped in Record{...}: in readStreamed or the unexported helpers it calls; a generic helper
	// (Record{*parsed} with parsed *T) contributes the type arguments it is instantiated with
	seen := map[string]bool{}
	judge := func(t types.Type, pos token.Pos) {
		nt, st := structOf(t)
		if nt == nil || st == nil || seen[nt.Obj().Name()] {
			return
		}
		seen[nt.Obj().Name()] = true
		name := nt.Obj().Name()
		want := vf.fields[name]
		construct := "fields of " + name
		if want == nil {
			r.note("C17.c", fname, construct, p.pos(pos), "the tool can emit records of type "+name+" (only when chunks are not de-chunked); no vector lists that type")
			return
		}
		got := map[string]bool{}
		for i := 0; i < st.NumFields(); i++ {
			f := st.Field(i)
			if !f.Exported() {
				continue
			}
			sn := toolSnake(f.Name())
			if sn == "crc" {
				continue
			}
			got[sn] = true
		}
		var missing, extra []string
		for f := range want {
			if !got[f] {
				missing = append(missing, f)
			}
		}
		for f := range got {
			if !want[f] {
				extra = append(extra, f)
			}
		}
		sort.Strings(missing)
		sort.Strings(extra)
		if len(missing)+len(extra) == 0 {
			r.held("C17.c", fname, construct, p.pos(pos), "snake-cased exported fields equal the vectors' field names")
		} else {
			r.violated("C17.c", fname, construct, p.pos(pos), "expected by the vectors but not printed: ["+strings.Join(missing, ",")+"]; printed but not expected: ["+strings.Join(extra, ",")+"]")
		}
	}
	bodies := []*ast.FuncDecl{fd}
	seenD := map[*ast.FuncDecl]bool{fd: true}
	for i := 0; i < len(bodies) && i < 10; i++ {
		ast.Inspect(bodies[i].Body, func(n ast.Node) bool {
			if ce, ok := n.(*ast.CallExpr); ok {
				if fn := g.calleeOf(ce); fn != nil && !fn.Exported() && fn.Pkg() != nil && fn.Pkg().Path() == pkgReadC {
					if hd := g.decls[fn]; hd != nil && hd.Body != nil && !seenD[hd] {
						seenD[hd] = true
						bodies = append(bodies, hd)
					}
				}
			}
			return true
		})
	}
	for _, bd := range bodies {
		ast.Inspect(bd, func(n ast.Node) bool {
			cl, ok := n.(*ast.CompositeLit)
			if !ok || len(cl.Elts) != 1 {
				return true
			}
			if nt, _ := structOf(g.info.TypeOf(cl)); nt == nil || nt.Obj().Name() != "Record" {
				return true
			}
			t := g.info.TypeOf(cl.Elts[0])
			if tp, ok := t.(*types.TypeParam); ok {
				// instantiations of the enclosing generic helper
				for _, b2 := range bodies {
					ast.Inspect(b2.Body, func(m ast.Node) bool {
						ce, ok := m.(*ast.CallExpr)
						if !ok {
							return true
						}
						var id *ast.Ident
						switch f := ce.Fun.(type) {
						case *ast.Ident:
							id = f
						case *ast.IndexExpr:
							id, _ = f.X.(*ast.Ident)
						}
						if id == nil || id.Name != bd.Name.Name {
							return true
						}
						if inst, ok := g.info.Instances[id]; ok && inst.TypeArgs != nil && tp.Index() < inst.TypeArgs.Len() {
							judge(inst.TypeArgs.At(tp.Index()), ce.Pos())
						}
						return true
					})
				}
				return true
			}
			judge(t, cl.Pos())
			return true
		})
	}
	var tys []string
	for t := range vf.fields {
		tys = append(tys, t)
	}
	sort.Strings(tys)
	for _, t := range tys {
		if !seen[t] {
			r.violated("C17.c", fname, "record type "+t, p.pos(fd.Pos()), "the vectors expect "+t+" records in the printed stream, but the tool never emits that type")
		}
	}
}

func checkSummaryOrder(p *Program, r *Result, vf *vectorFacts) {
	g := newGoLayouts(p, pkgMcap)
	fd := methodDecl(g, "Writer", "writeSummarySection")
	if fd == nil {
		r.undecided("C17.d", "mcap.Writer.writeSummarySection", "anchor", "", "not found")
		return
	}
	// order of GroupOpcode constants in source order
	var order []string
	ast.Inspect(fd.Body, func(n ast.Node) bool {
		kv, ok := n.(*ast.KeyValueExpr)
		if !ok {
			return true
		}
		if k, ok := kv.Key.(*ast.Ident); ok && k.Name == "GroupOpcode" {
			if id, ok := kv.Value.(*ast.Ident); ok {
				if _, isConst := g.info.ObjectOf(id).(*types.Const); isConst {
					order = append(order, strings.TrimPrefix(id.Name, "Op"))
				}
			}
		}
		return true
	})
	if len(order) == 0 {
		// helper-closure form: opcodes appear as arguments
		ast.Inspect(fd.Body, func(n ast.Node) bool {
			if id, ok := n.(*ast.Ident); ok && strings.HasPrefix(id.Name, "Op") {
				if c, ok := g.info.ObjectOf(id).(*types.Const); ok {
					if nt, ok := c.Type().(*types.Named); ok && nt.Obj().Name() == "OpCode" {
						name := strings.TrimPrefix(id.Name, "Op")
						if len(order) == 0 || order[len(order)-1] != name {
							order = append(order, name)
						}
					}
				}
			}
			return true
		})
	}
	if len(order) == 0 {
		// table-driven form: the groups are listed by an unexported helper the section writer iterates over
		var scan func(d *ast.FuncDecl, depth int)
		scan = func(d *ast.FuncDecl, depth int) {
			ast.Inspect(d.Body, func(n ast.Node) bool {
				switch x := n.(type) {
				case *ast.Ident:
					if strings.HasPrefix(x.Name, "Op") {
						if c, ok := g.info.ObjectOf(x).(*types.Const); ok {
							if nt, ok := c.Type().(*types.Named); ok && nt.Obj().Name() == "OpCode" {
								name := strings.TrimPrefix(x.Name, "Op")
								if len(order) == 0 || order[len(order)-1] != name {
									order = append(order, name)
								}
							}
						}
					}
				case *ast.CallExpr:
					if depth > 0 {
						if fn := g.calleeOf(x); fn != nil && !fn.Exported() {
							if hd := g.decls[fn]; hd != nil && hd.Body != nil && hd != d {
								scan(hd, depth-1)
							}
						}
					}
				}
				return true
			})
		}
		scan(fd, 2)
	}
	pos := map[string]int{}
	for i, o := range order {
		if _, had := pos[o]; !had {
			pos[o] = i
		}
	}
	pos["SummaryOffset"] = len(order)
	pos["Footer"] = len(order) + 1
	bad := ""
	for _, seq := range vf.orders {
		last := -1
		for _, t := range seq {
			pi, ok := pos[t]
			if !ok {
				bad = "the vectors have " + t + " records in the summary but the writer has no such group"
				break
			}
			if pi < last {
				bad = "vector order " + strings.Join(seq, ",") + " contradicts the writer's group order " + strings.Join(order, ",")
			}
			last = pi
		}
	}
	if bad == "" {
		r.held("C17.d", "mcap.Writer.writeSummarySection", "summary group order", p.pos(fd.Pos()), strings.Join(order, ",")+" is consistent with all "+itoa(len(vf.orders))+" distinct summary layouts in the vectors")
	} else {
		r.violated("C17.d", "mcap.Writer.writeSummarySection", "summary group order", p.pos(fd.Pos()), bad)
	}
}

func itoa(n int) string { return strings.TrimSpace(strings.Replace(strings.Repeat(" ", 0)+fmtInt(n), " ", "", -1)) }

func fmtInt(n int) string {
	if n == 0 {
		return "0"
	}
	s := ""
	for n > 0 {
		s = string(rune('0'+n%10)) + s
		n /= 10
	}
	return s
}
