package main

import (
	"go/ast"
	"strings"

	"golang.org/x/tools/go/ssa"
)

// C10.d: a record parser that reads its input at a fixed position - buf[k], buf[k:], binary.LittleEndian.UintN(buf[k:]) -
// has first established that the record is that long. The record buffer of the exported Parse* functions (and of
// Message.PopulateFrom) is as long as the input says; an empty or short record must yield an error, not an index panic.
// (Reads through the bounds-checked getUintN / getPrefixed* helpers need no such test; those are C10.a/w's.)
func checkParserMinLength(p *Program, r *Result, rule string) {
	n := 0
	for _, fn := range p.repoFunctions(pkgMcap) {
		if fn.Parent() != nil || fn.Blocks == nil {
			continue
		}
		name := fn.Name()
		if !(strings.HasPrefix(name, "Parse") && ast.IsExported(name)) && funcName(fn) != "mcap.Message.PopulateFrom" {
			continue
		}
		var buf *ssa.Parameter
		for _, prm := range fn.Params {
			if isByteSlice(prm.Type()) {
				buf = prm
				break
			}
		}
		if buf == nil {
			continue
		}
		k := 0
		judge := func(need int64, what string, at ssa.Instruction) {
			n++
			k++
			construct := what + " of the record buffer"
			if k > 1 {
				construct += " #" + itoa(k-1)
			}
			if lenGuarded(buf, need, at) {
				r.held(rule, funcName(fn), construct, p.pos(at.Pos()), "dominated by a len() test covering the access")
			} else {
				r.violated(rule, funcName(fn), construct, p.pos(at.Pos()),
					"the record buffer is read at a fixed position without a dominating test that it is at least "+itoa(int(need))+" bytes long; an empty or short record panics instead of returning an error")
			}
		}
		for _, in := range instrsOf(fn) {
			switch x := in.(type) {
			case *ssa.IndexAddr:
				if c, ok := x.Index.(*ssa.Const); ok && c.Value != nil && x.X == ssa.Value(buf) {
					judge(c.Int64()+1, "index["+c.Value.ExactString()+"]", in)
				}
			case *ssa.Slice:
				if x.X != ssa.Value(buf) {
					continue
				}
				if c, ok := x.Low.(*ssa.Const); ok && c.Value != nil && c.Int64() > 0 {
					judge(c.Int64(), "slice["+c.Value.ExactString()+":]", in)
				}
				if c, ok := x.High.(*ssa.Const); ok && c.Value != nil && c.Int64() > 0 {
					judge(c.Int64(), "slice[:"+c.Value.ExactString()+"]", in)
				}
			case *ssa.Call:
				if isDecodeCall(x) && len(x.Call.Args) >= 2 && x.Call.Args[1] == ssa.Value(buf) {
					w := int64(8)
					if strings.HasSuffix(staticCalleeName(x.Common()), "Uint32") {
						w = 4
					} else if strings.HasSuffix(staticCalleeName(x.Common()), "Uint16") {
						w = 2
					}
					judge(w, trimPkg(staticCalleeName(x.Common())), in)
				}
			}
		}
	}
	if n == 0 {
		r.held(rule, "mcap.Parse*", "fixed-position reads", "", "no parser reads its record buffer at a fixed position outside the bounds-checked helpers")
	}
}
