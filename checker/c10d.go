package main

import (
	"go/token"
	"go/ast"
	"strings"

	"golang.org/x/tools/go/ssa"
)

// C10.d: a record parser that reads its input at a fixed position - buf[k], buf[k:], binary.LittleEndian.UintN(buf[k:]) -
// has first established that the record is that long. The record buffer of the exported Parse* functions (and of
// Message.PopulateFrom) is as long as the input says; an empty or short record must yield an error, not an index panic.
// (Reads through the bounds-checked getUintN / getPrefixed* helpers need no such test; those are C10.a/w's.)
func checkParserMinLength(p *Program, r *Result, rule string) {
	n := 0
	for _, fn := range p.repoFunctions(pkgMcap) {
		if fn.Parent() != nil || fn.Blocks == nil {
			continue
		}
		name := fn.Name()
		if !(strings.HasPrefix(name, "Parse") && ast.IsExported(name)) && funcName(fn) != "mcap.Message.PopulateFrom" {
			continue
		}
		var buf *ssa.Parameter
		for _, prm := range fn.Params {
			if isByteSlice(prm.Type()) {
				buf = prm
				break
			}
		}
		if buf == nil {
			continue
		}
		k := 0
		judge := func(need int64, what string, at ssa.Instruction) {
			n++
			k++
			construct := what + " of the record buffer"
			if k > 1 {
				construct += " #" + itoa(k-1)
			}
			if lenGuarded(buf, need, at) {
				r.held(rule, funcName(fn), construct, p.pos(at.Pos()), "dominated by a len() test covering the access")
			} else {
				r.violated(rule, funcName(fn), construct, p.pos(at.Pos()),
					"the record buffer is read at a fixed position without a dominating test that it is at least "+itoa(int(need))+" bytes long; an empty or short record panics instead of returning an error")
			}
		}
		for _, in := range instrsOf(fn) {
			switch x := in.(type) {
			case *ssa.IndexAddr:
				if c, ok := x.Index.(*ssa.Const); ok && c.Value != nil && x.X == ssa.Value(buf) {
					judge(c.Int64()+1, "index["+c.Value.ExactString()+"]", in)
				}
			case *ssa.Slice:
				if x.X != ssa.Value(buf) {
					continue
				}
				if c, ok := x.Low.(*ssa.Const); ok && c.Value != nil && c.Int64() > 0 {
					judge(c.Int64(), "slice["+c.Value.ExactString()+":]", in)
				}
				if c, ok := x.High.(*ssa.Const); ok && c.Value != nil && c.Int64() > 0 {
					judge(c.Int64(), "slice[:"+c.Value.ExactString()+"]", in)
				}
			case *ssa.Call:
				if isDecodeCall(x) && len(x.Call.Args) >= 2 && x.Call.Args[1] == ssa.Value(buf) {
					w := int64(8)
					if strings.HasSuffix(staticCalleeName(x.Common()), "Uint32") {
						w = 4
					} else if strings.HasSuffix(staticCalleeName(x.Common()), "Uint16") {
						w = 2
					}
					judge(w, trimPkg(staticCalleeName(x.Common())), in)
				}
			}
		}
	}
	if n == 0 {
		r.held(rule, "mcap.Parse*", "fixed-position reads", "", "no parser reads its record buffer at a fixed position outside the bounds-checked helpers")
	}
}

// C10.d (second form): a loop that eats a fixed-width entry per iteration from a byte slice (x = x[k:] round the loop, k a
// constant) must know that a whole entry is left: a test len(x) >= k (or > k-1, != 0 after a divisibility test) has to
// guard the iteration. `for len(x) > 0 { ... x = x[16:] }` over a slice whose length comes from the input panics on the last,
// partial entry - one bounds check for the whole array is not one per entry unless the length is a multiple of the width.
func checkFixedWidthLoops(p *Program, r *Result, rule string, fns []*ssa.Function) {
	for _, fn := range fns {
		for _, b := range fn.Blocks {
			for _, in := range b.Instrs {
				phi, ok := in.(*ssa.Phi)
				if !ok {
					break
				}
				if !isByteSlice(phi.Type()) {
					continue
				}
				// a back edge carrying phi[k:]
				var k int64
				for i, e := range phi.Edges {
					if !b.Dominates(b.Preds[i]) {
						continue
					}
					if sl, ok := e.(*ssa.Slice); ok && sl.X == ssa.Value(phi) && sl.High == nil {
						if c, ok := sl.Low.(*ssa.Const); ok && c.Value != nil && c.Int64() > 1 {
							k = c.Int64()
						}
					}
				}
				if k == 0 {
					continue
				}
				construct := "a whole entry of " + itoa(int(k)) + " bytes is left in " + valueLabel(phi) + " when the loop body runs"
				// the guard(s) on len(phi) that dominate the re-slice
				ok = false
				modChecked := false
				for _, in2 := range instrsOf(fn) {
					bo, isB := in2.(*ssa.BinOp)
					if !isB {
						continue
					}
					// len(x) % k == 0 tested anywhere on the entry value of the phi
					if bo.Op == token.REM {
						if c, isC := bo.Y.(*ssa.Const); isC && c.Value != nil && c.Int64() == k {
							modChecked = true
						}
					}
				}
				if iff, isIf := b.Instrs[len(b.Instrs)-1].(*ssa.If); isIf {
					if c, isB := iff.Cond.(*ssa.BinOp); isB {
						isLen := func(v ssa.Value) bool {
							call, ok := stripConv(v).(*ssa.Call)
							if !ok {
								return false
							}
							bi, ok := call.Call.Value.(*ssa.Builtin)
							return ok && bi.Name() == "len" && call.Call.Args[0] == ssa.Value(phi)
						}
						kc := func(v ssa.Value) (int64, bool) {
							c, ok := v.(*ssa.Const)
							if !ok || c.Value == nil {
								return 0, false
							}
							return c.Int64(), true
						}
						// the in-loop side is Succs[0] for `for cond {}`
						switch {
						case isLen(c.X):
							if n, has := kc(c.Y); has {
								ok = (c.Op == token.GEQ && n >= k) || (c.Op == token.GTR && n >= k-1) || (modChecked && ((c.Op == token.GTR && n >= 0) || (c.Op == token.NEQ && n == 0)))
							}
						case isLen(c.Y):
							if n, has := kc(c.X); has {
								ok = (c.Op == token.LEQ && n >= k) || (c.Op == token.LSS && n >= k-1) || (modChecked && ((c.Op == token.LSS && n >= 0) || (c.Op == token.NEQ && n == 0)))
							}
						}
					}
				}
				if ok {
					r.held(rule, funcName(fn), construct, p.pos(phi.Pos()), "the loop condition guarantees the entry width (or the length was tested to be a multiple of it)")
				} else {
					r.violated(rule, funcName(fn), construct, p.pos(phi.Pos()),
						"the loop takes "+itoa(int(k))+" bytes per iteration but only tests that the slice is not empty: a length that is not a multiple of the entry width makes the last iteration read or slice past the end (panic)")
				}
			}
		}
	}
}
