package main

import (
	"go/token"
	"go/types"
	"strings"

	"golang.org/x/tools/go/ssa"
)

func init() { register("C19", true, checkC19) }

var positionFuncs = map[string]bool{
	"strings.Index": true, "strings.IndexByte": true, "strings.IndexRune": true, "strings.IndexAny": true, "strings.LastIndex": true,
	"strings.LastIndexByte": true, "strings.LastIndexAny": true, "strings.IndexFunc": true,
	"bytes.Index": true, "bytes.IndexByte": true, "bytes.IndexRune": true, "bytes.IndexAny": true, "bytes.LastIndex": true, "bytes.LastIndexByte": true,
}

func checkC19(p *Program, r *Result) {
	r.Explanation = "Structural necessary conditions of 'ROS 1 message definitions always parse in bounded time and stack, never crash', over go/ros/ros1msg functions reachable from ParseMessageDefinition: " +
		"(C19.a) every call-graph cycle carries a termination guard — a map/set parameter that is looked up (hit => return) and updated before the recursive call, or an integer parameter that changes by a constant and is compared against a bound that returns; " +
		"(C19.b) a slice expression whose two bounds come from independent substring searches is dominated by a comparison that orders them; " +
		"(C19.c) pattern matching uses only package regexp (RE2, linear time); (C19.e) no panic/exit call; (C19.h) errors of the recursive resolution are propagated; " +
		"and of 'the returned tree is the one described': (C19.k) type names are matched verbatim, (C19.l) no loop-carried value flows into the Field/Type built for a line (each field is classified from its own line alone)."
	r.NotDecided = []string{"that the returned field tree is the one the definition describes (run-time)", "output size (a DAG-shaped definition expands to a tree)"}
	r.rule("C19.a", "recursion over untrusted definitions carries a cycle/depth guard", 1)
	r.rule("C19.b", "slice bounds from independent searches are ordered by a dominating comparison", 1)
	r.rule("C19.c", "only RE2 regular expressions are used", 1)
	r.rule("C19.e", "no panic / process-exit call", 3)
	r.rule("C19.h", "errors of nested resolution are consulted and propagated", 1)

	scope := rosScope(p, pkgRos1msg, "ParseMessageDefinition")
	fns := sortedFuncs(scope)
	checkNoAbort(p, r, "C19.e", fns)
	r.rule("C19.m", "a memo is keyed by everything its values depend on", 1)
	checkMemoKeys(p, r, "C19.m", fns)

	// ---- C19.a
	inCycle := recursiveFuncs(p, scope)
	// a cycle through several functions is guarded when it passes through one guarded call: collect the call edges of
	// the cycles, take the guarded ones out, and see which of the others still lie on a cycle
	type cedge struct {
		from, to *ssa.Function
		ci       ssa.CallInstruction
		why      string
	}
	var cedges []cedge
	for _, fn := range fns {
		if !inCycle[fn] {
			continue
		}
		for _, ci := range callsIn(fn, func(ssa.CallInstruction) bool { return true }) {
			for _, cal := range p.callees(ci) {
				if inCycle[cal] && sameSCC(p, scope, fn, cal) {
					why := recursionGuard(fn, ci)
					if why == "" {
						why = activeListGuard(p, fn, ci)
					}
					cedges = append(cedges, cedge{fn, cal, ci, why})
				}
			}
		}
	}
	onUnguardedCycle := func(e cedge) bool {
		// is e.from reachable from e.to using unguarded edges only?
		seen := map[*ssa.Function]bool{}
		stack := []*ssa.Function{e.to}
		for len(stack) > 0 {
			f := stack[len(stack)-1]
			stack = stack[:len(stack)-1]
			if f == e.from {
				return true
			}
			if seen[f] {
				continue
			}
			seen[f] = true
			for _, e2 := range cedges {
				if e2.from == f && e2.why == "" {
					stack = append(stack, e2.to)
				}
			}
		}
		return false
	}
	guardOf := map[ssa.CallInstruction]string{}
	for _, e := range cedges {
		switch {
		case e.why != "":
			guardOf[e.ci] = e.why
		case !onUnguardedCycle(e):
			if guardOf[e.ci] == "" {
				guardOf[e.ci] = "every cycle through this call passes a guarded call elsewhere in the cycle"
			}
		default:
			guardOf[e.ci] = ""
		}
	}
	for _, fn := range fns {
		if !inCycle[fn] {
			continue
		}
		fname := funcName(fn)
		for _, ci := range callsIn(fn, func(ci ssa.CallInstruction) bool {
			for _, cal := range p.callees(ci) {
				if inCycle[cal] && sameSCC(p, scope, fn, cal) {
					return true
				}
			}
			return false
		}) {
			why := guardOf[ci]
			construct := "recursive call to " + calleeLabel(p, ci)
			if why == "" {
				extra := ""
				if keyMismatch != "" {
					extra = " — " + keyMismatch
				}
				r.violated("C19.a", fname, construct, p.pos(ci.Pos()),
					"recursion driven by input (type references in the definition) has no visited-set or depth guard; a self- or mutually-referential definition overflows the stack (fatal, not recoverable)"+extra)
			} else {
				r.held("C19.a", fname, construct, p.pos(ci.Pos()), why)
			}
		}
	}
	if len(inCycle) == 0 {
		r.held("C19.a", "ros1msg", "no recursion", "", "the call graph reachable from ParseMessageDefinition is acyclic")
	}

	// ---- C19.b
	for _, fn := range fns {
		checkOrderedBounds(p, r, fn)
	}
	// ---- C19.c
	for _, fn := range p.repoFunctions(pkgRos1msg) {
		for _, ci := range callsIn(fn, func(ssa.CallInstruction) bool { return true }) {
			f := ci.Common().StaticCallee()
			if f == nil || f.Pkg == nil {
				continue
			}
			pk := f.Pkg.Pkg.Path()
			if pk == "regexp" {
				r.held("C19.c", funcName(fn), "call "+trimPkg(f.String()), p.pos(ci.Pos()), "package regexp is RE2-based (linear time)")
			} else if strings.Contains(pk, "regexp") || strings.Contains(pk, "pcre") {
				r.violated("C19.c", funcName(fn), "call "+trimPkg(f.String()), p.pos(ci.Pos()), "non-RE2 regular expression engine may backtrack exponentially on hostile input")
			}
		}
	}
	// bufio.Scanner stops silently at a token longer than its buffer (64 KiB by default): Err() has to be consulted
	r.rule("C19.s", "scanner loops consult Err()", 0)
	nScan := 0
	for _, fn := range fns {
		before := len(r.Obls)
		checkIterErr(p, r, fn, "C19.s", "(*bufio.Scanner).Scan", "(*bufio.Scanner).Err", "scanner.Scan", "scanner.Err", "an over-long line or a read error")
		nScan += len(r.Obls) - before
	}
	if nScan == 0 {
		r.held("C19.s", "ros1msg", "no bufio.Scanner", "", "the parser splits in memory (strings.Split); no token-size limit applies")
	}
	r.rule("C19.l", "per-field state does not survive from one field line to the next", 1)
	checkPerFieldState(p, r, fns)
	// ---- C19.k: type names are looked up exactly: a literal prefix is removed with TrimPrefix/CutPrefix, never with
	// a cutset function (which removes characters, eating the first letters of the name).
	r.rule("C19.k", "dependency names are taken verbatim (prefix removal, not cutset trimming)", 1)
	nk := 0
	for _, fn := range fns {
		for _, ci := range callsIn(fn, func(ssa.CallInstruction) bool { return true }) {
			switch n := staticCalleeName(ci.Common()); n {
			case "strings.TrimPrefix", "strings.CutPrefix":
				nk++
				r.held("C19.k", funcName(fn), "call "+trimPkg(n), p.pos(ci.Pos()), "removes a literal prefix")
			case "strings.TrimLeft", "strings.TrimRight", "strings.Trim":
				if c, ok := ci.Common().Args[1].(*ssa.Const); ok && c.Value != nil {
					cut := c.Value.ExactString()
					if regexpHasAlnum(cut) {
						nk++
						r.violated("C19.k", funcName(fn), "call "+trimPkg(n), p.pos(ci.Pos()),
							"a cutset function with cutset "+cut+" is applied to a type name: it strips every leading/trailing character of the set, so names beginning with those letters are mangled and no longer match their definition")
					}
				}
			}
		}
	}
	if nk == 0 {
		r.held("C19.k", "ros1msg", "no prefix handling by cutset", "", "no Trim*/TrimPrefix call on names")
	}
	// ---- C19.h
	cfg := errFlowCfg{rule: "C19.h", inScope: func(site ssa.CallInstruction) (bool, string) {
		f := site.Common().StaticCallee()
		if f == nil || !p.isRepoFunc(f) {
			return false, ""
		}
		if _, isErr := sigReturnsError(f.Signature); !isErr {
			return false, ""
		}
		return true, funcName(f)
	}}
	for _, fn := range fns {
		runErrFlow(p, r, fn, cfg)
	}
}

func regexpHasAlnum(s string) bool {
	for _, c := range s {
		if c >= 'a' && c <= 'z' || c >= 'A' && c <= 'Z' || c >= '0' && c <= '9' {
			return true
		}
	}
	return false
}

func calleeLabel(p *Program, ci ssa.CallInstruction) string {
	if f := ci.Common().StaticCallee(); f != nil {
		return funcName(f)
	}
	return valueLabel(ci.Common().Value)
}

// recursiveFuncs: functions of scope that lie on a call-graph cycle (within scope).
func recursiveFuncs(p *Program, scope map[*ssa.Function]bool) map[*ssa.Function]bool {
	out := map[*ssa.Function]bool{}
	for fn := range scope {
		if reachesWithin(p, scope, fn, fn) {
			out[fn] = true
		}
	}
	return out
}

func succsWithin(p *Program, scope map[*ssa.Function]bool, fn *ssa.Function) []*ssa.Function {
	var out []*ssa.Function
	n := p.CG.Nodes[fn]
	if n == nil {
		return nil
	}
	for _, e := range n.Out {
		if scope[e.Callee.Func] {
			out = append(out, e.Callee.Func)
		}
	}
	return out
}

// reachesWithin: is `to` reachable from `from` by at least one call edge inside scope?
func reachesWithin(p *Program, scope map[*ssa.Function]bool, from, to *ssa.Function) bool {
	seen := map[*ssa.Function]bool{}
	stack := succsWithin(p, scope, from)
	for len(stack) > 0 {
		f := stack[len(stack)-1]
		stack = stack[:len(stack)-1]
		if f == to {
			return true
		}
		if seen[f] {
			continue
		}
		seen[f] = true
		stack = append(stack, succsWithin(p, scope, f)...)
	}
	return false
}

func sameSCC(p *Program, scope map[*ssa.Function]bool, a, b *ssa.Function) bool {
	if a == b {
		return true
	}
	return reachesWithin(p, scope, a, b) && reachesWithin(p, scope, b, a)
}

// recursionGuard returns a description of the guard protecting the recursive call, or "".
var keyMismatch string

func recursionGuard(fn *ssa.Function, ci ssa.CallInstruction) string {
	keyMismatch = ""
	args := ci.Common().Args
	for i, prm := range fn.Params {
		if i >= len(args) {
			break
		}
		arg := args[i]
		switch prm.Type().Underlying().(type) {
		case *types.Map:
			if arg != ssa.Value(prm) {
				continue
			}
			// an update of the set dominates the call ...
			var upd *ssa.MapUpdate
			for _, ref := range *prm.Referrers() {
				if mu, ok := ref.(*ssa.MapUpdate); ok && mu.Map == ssa.Value(prm) && instrDominates(mu, ci) {
					upd = mu
				}
			}
			if upd == nil {
				continue
			}
			// ... and a lookup in it, tested with a returning branch, dominates the update
			for _, ref := range *prm.Referrers() {
				lk, ok := ref.(*ssa.Lookup)
				if !ok || lk.X != ssa.Value(prm) || !instrDominates(lk, upd) {
					continue
				}
				// the key that is tested must be the key that is recorded: a test on the name as spelled and a record
				// under the resolved name never meet
				if lk.Index != upd.Key {
					keyMismatch = "the visited set is tested with " + valueLabel(lk.Index) + " but updated with " + valueLabel(upd.Key) + " (a different value: the name before / after resolution)"
					continue
				}
				if guardReturns(fn, lk, upd) {
					return "visited-set guard: " + prm.Name() + " is looked up (hit returns) and updated before the recursive call"
				}
			}
		case *types.Basic:
			if !isIntegerType(prm.Type()) {
				continue
			}
			b, ok := arg.(*ssa.BinOp)
			if !ok || (b.Op != token.ADD && b.Op != token.SUB) {
				continue
			}
			_, cx := b.Y.(*ssa.Const)
			if b.X != ssa.Value(prm) || !cx {
				continue
			}
			for _, ref := range *prm.Referrers() {
				cmp, ok := ref.(*ssa.BinOp)
				if !ok {
					continue
				}
				switch cmp.Op {
				case token.LSS, token.LEQ, token.GTR, token.GEQ, token.EQL, token.NEQ:
					if guardReturns(fn, cmp, ci) {
						return "depth guard: " + prm.Name() + " changes by a constant and is compared with a bound that returns"
					}
				}
			}
		}
	}
	return ""
}

// guardReturns: value v (a lookup / comparison) drives an If (possibly via extract / comparison) that dominates
// `before` and one of whose successors returns without reaching `before`.
func guardReturns(fn *ssa.Function, v ssa.Value, before ssa.Instruction) bool {
	seen := map[ssa.Value]bool{}
	var walk func(v ssa.Value) bool
	walk = func(v ssa.Value) bool {
		if seen[v] || v.Referrers() == nil {
			return false
		}
		seen[v] = true
		for _, ref := range *v.Referrers() {
			switch x := ref.(type) {
			case *ssa.If:
				if !x.Block().Dominates(before.Block()) {
					continue
				}
				for _, s := range x.Block().Succs {
					if !reachableBlocks(s)[before.Block()] && returnsNonNilErrOnAllPaths(fn, s) {
						return true
					}
				}
			case *ssa.Extract:
				if walk(x) {
					return true
				}
			case *ssa.BinOp:
				if walk(x) {
					return true
				}
			case *ssa.UnOp:
				if walk(x) {
					return true
				}
			}
		}
		return false
	}
	return walk(v)
}

// positionRoots: the substring-search calls a value derives from (through +/- constants, conversions, phis).
func positionRoots(v ssa.Value, seen map[ssa.Value]bool) []*ssa.Call {
	if seen[v] {
		return nil
	}
	seen[v] = true
	switch x := v.(type) {
	case *ssa.Call:
		if positionFuncs[staticCalleeName(x.Common())] {
			return []*ssa.Call{x}
		}
	case *ssa.BinOp:
		if x.Op == token.ADD || x.Op == token.SUB {
			return append(positionRoots(x.X, seen), positionRoots(x.Y, seen)...)
		}
	case *ssa.Convert:
		return positionRoots(x.X, seen)
	case *ssa.Phi:
		var out []*ssa.Call
		for _, e := range x.Edges {
			out = append(out, positionRoots(e, seen)...)
		}
		return out
	}
	return nil
}

func checkOrderedBounds(p *Program, r *Result, fn *ssa.Function) {
	fname := funcName(fn)
	for _, in := range instrsOf(fn) {
		sl, ok := in.(*ssa.Slice)
		if !ok || sl.Low == nil || sl.High == nil {
			continue
		}
		lo := positionRoots(sl.Low, map[ssa.Value]bool{})
		hi := positionRoots(sl.High, map[ssa.Value]bool{})
		if len(lo) == 0 || len(hi) == 0 {
			continue
		}
		same := len(lo) == 1 && len(hi) == 1 && lo[0] == hi[0]
		if same {
			continue
		}
		construct := "slice " + valueLabel(sl.X) + "[" + valueLabel(sl.Low) + ":" + valueLabel(sl.High) + "]"
		// a comparison between a lo-derived and a hi-derived value must dominate the slice
		ordered := false
		for _, in2 := range instrsOf(fn) {
			cmp, ok := in2.(*ssa.BinOp)
			if !ok {
				continue
			}
			switch cmp.Op {
			case token.LSS, token.LEQ, token.GTR, token.GEQ:
			default:
				continue
			}
			xl := positionRoots(cmp.X, map[ssa.Value]bool{})
			yl := positionRoots(cmp.Y, map[ssa.Value]bool{})
			if !(overlap(xl, lo) && overlap(yl, hi) || overlap(xl, hi) && overlap(yl, lo)) {
				continue
			}
			for _, ref := range *cmp.Referrers() {
				if iff, ok := ref.(*ssa.If); ok {
					for _, s := range iff.Block().Succs {
						if len(s.Preds) == 1 && (s == sl.Block() || s.Dominates(sl.Block())) {
							ordered = true
						}
					}
				}
			}
		}
		if ordered {
			r.held("C19.b", fname, construct, p.pos(sl.Pos()), "bounds from independent searches are ordered by a dominating comparison")
		} else {
			r.violated("C19.b", fname, construct, p.pos(sl.Pos()),
				"low and high bounds come from independent substring searches and nothing orders them; input with the delimiters in the other order panics (slice bounds out of range)")
		}
	}
}

func overlap(a, b []*ssa.Call) bool {
	for _, x := range a {
		for _, y := range b {
			if x == y {
				return true
			}
		}
	}
	return false
}

// activeListGuard: the recursion is guarded by a list of the names being expanded, kept in a field: before the call the
// key is searched in the list by a helper (a hit returns an error), then appended to it. The key searched must be the key
// appended.
func activeListGuard(p *Program, fn *ssa.Function, ci ssa.CallInstruction) string {
	for _, in := range instrsOf(fn) {
		st, ok := in.(*ssa.Store)
		if !ok || !instrDominates(st, ci) {
			continue
		}
		tn, fld, _, ok := fieldRef(st.Addr)
		if !ok {
			continue
		}
		app, ok := st.Val.(*ssa.Call)
		if !ok {
			continue
		}
		if b, isB := app.Call.Value.(*ssa.Builtin); !isB || b.Name() != "append" || len(app.Call.Args) != 2 || !loadOfField(app.Call.Args[0], tn, fld) {
			continue
		}
		// the appended key: append(list, []T{k}...) - find the single element store of the varargs array
		var key ssa.Value
		if sl, ok := app.Call.Args[1].(*ssa.Slice); ok {
			if al, ok := sl.X.(*ssa.Alloc); ok {
				for _, ref := range *al.Referrers() {
					if ia, ok := ref.(*ssa.IndexAddr); ok {
						for _, r2 := range *ia.Referrers() {
							if s2, ok := r2.(*ssa.Store); ok && s2.Addr == ssa.Value(ia) {
								key = s2.Val
							}
						}
					}
				}
			}
		}
		if key == nil {
			continue
		}
		// a membership test on the same key, through a helper that walks the same field, dominating the append
		for _, c2 := range callsIn(fn, func(c2 ssa.CallInstruction) bool { return instrDominates(c2, st) }) {
			h := c2.Common().StaticCallee()
			call, isCall := c2.(*ssa.Call)
			if h == nil || !isCall || h.Blocks == nil || !p.isRepoFunc(h) {
				continue
			}
			if b, ok := h.Signature.Results().At(0).Type().Underlying().(*types.Basic); h.Signature.Results().Len() != 1 || !ok || b.Kind() != types.Bool {
				continue
			}
			hasKey := false
			for _, a := range c2.Common().Args {
				if a == key {
					hasKey = true
				}
			}
			if !hasKey {
				keyMismatch = "the list of names being expanded is searched with a different value than the one appended to it"
				continue
			}
			walksField, compares := false, false
			for _, hin := range instrsOf(h) {
				if u, ok := hin.(*ssa.UnOp); ok && loadOfField(u, tn, fld) {
					walksField = true
				}
				if b, ok := hin.(*ssa.BinOp); ok && b.Op == token.EQL {
					for _, prm := range h.Params {
						if b.X == ssa.Value(prm) || b.Y == ssa.Value(prm) {
							compares = true
						}
					}
				}
			}
			if walksField && compares && guardReturns(fn, call, st) {
				return "active-list guard: " + tn + "." + fld + " is searched for the key (a hit returns) and the key is appended before the recursive call"
			}
		}
	}
	return ""
}
