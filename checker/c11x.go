package main

import (
	"go/token"

	"golang.org/x/tools/go/ssa"
)

// C11.x: a record that ends exactly at the end of its buffer is accepted. For a guard `if E ⋈ len(X) { return error }`
// whose error side includes E == len(X), and where E is afterwards used as the upper bound of a slice of X (never as an
// index), the guard rejects an exact fit: the last record of a chunk, or a record whose content is empty, becomes an
// error although every byte it needs is there.
func lenOfValue(v ssa.Value) ssa.Value {
	v = stripConv(v)
	if c, ok := v.(*ssa.Call); ok {
		if b, ok := c.Call.Value.(*ssa.Builtin); ok && b.Name() == "len" {
			return c.Call.Args[0]
		}
	}
	return nil
}

func checkExactFit(p *Program, r *Result, rule string, fns []*ssa.Function) {
	n, bad := 0, 0
	for _, fn := range fns {
		for _, in := range instrsOf(fn) {
			iff, ok := in.(*ssa.If)
			if !ok {
				continue
			}
			b, ok := iff.Cond.(*ssa.BinOp)
			if !ok {
				continue
			}
			var e ssa.Value
			var x ssa.Value
			op := b.Op
			if lx := lenOfValue(b.Y); lx != nil {
				e, x = b.X, lx
			} else if lx := lenOfValue(b.X); lx != nil {
				e, x = b.Y, lx
				// mirror: len ⋈ E  ==  E ⋈' len
				op = map[token.Token]token.Token{token.LSS: token.GTR, token.GTR: token.LSS, token.LEQ: token.GEQ, token.GEQ: token.LEQ}[op]
			} else {
				continue
			}
			if op == 0 {
				continue
			}
			errT := returnsNonNilErrOnAllPaths(fn, iff.Block().Succs[0])
			errF := returnsNonNilErrOnAllPaths(fn, iff.Block().Succs[1])
			if errT == errF {
				continue
			}
			// does the error side contain E == len(X)?
			errorWhenEqual := false
			switch op {
			case token.GEQ: // E >= len
				errorWhenEqual = errT
			case token.LSS: // E < len ; error on the false side means E >= len
				errorWhenEqual = errF
			case token.LEQ: // E <= len; error on the true side would include equality
				errorWhenEqual = errT
			case token.GTR: // E > len; error on the false side (E <= len) includes equality
				errorWhenEqual = errF
			default:
				continue
			}
			okSucc := iff.Block().Succs[1]
			if errF {
				okSucc = iff.Block().Succs[0]
			}
			// uses of E on the accepted side
			asHigh, asIndex := false, false
			es := stripConv(e)
			for _, in2 := range instrsOf(fn) {
				if !(okSucc == in2.Block() || okSucc.Dominates(in2.Block())) {
					continue
				}
				switch y := in2.(type) {
				case *ssa.Slice:
					if sameBase(y.X, x) && y.High != nil && stripConv(y.High) == es {
						asHigh = true
					}
				case *ssa.IndexAddr:
					if sameBase(y.X, x) && stripConv(y.Index) == es {
						asIndex = true
					}
				case *ssa.Index:
					if sameBase(y.X, x) && stripConv(y.Index) == es {
						asIndex = true
					}
				}
			}
			if !asHigh || asIndex {
				continue
			}
			n++
			construct := "bounds guard in front of " + valueLabel(x) + "[… : " + valueLabel(e) + "]"
			if errorWhenEqual {
				bad++
				r.violated(rule, funcName(fn), construct, p.pos(iff.Pos()),
					"the guard reports an error when the slice's end equals the length of the buffer, although such a slice is in range: a record (or header) that ends exactly where the buffer ends - the last record of a chunk, a record with empty content - is rejected")
			} else {
				r.held(rule, funcName(fn), construct, p.pos(iff.Pos()), "an end equal to the buffer's length is accepted")
			}
		}
	}
	if n == 0 {
		r.held(rule, "mcap (reader side)", "bounds guards", "", "no guard of the form `end ⋈ len(buffer)` in front of a slice up to that end")
	}
	_ = bad
}

func sameBase(a, b ssa.Value) bool {
	return a == b || sameFieldLoad(a, b)
}
