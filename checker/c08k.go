package main

import (
	"go/token"
	"go/types"

	"golang.org/x/tools/go/ssa"
)

// C08.k: Info lists every chunk. The summary pass that fills Info is the one index-based reads use, and it drops chunk
// indexes none of whose channels is selected. "Selected" is decided by looking the channel up in the table of the channel
// records the summary repeats (filled under the topic selection); a file whose summary repeats no channel records
// (SkipRepeatedChannelInfos) then loses every chunk that has message indexes - although nothing was selected at all.
// Statically: inside the summary pass, the table of selected channels is consulted (read) only under a test of the topic
// selection of the read - in the function itself or at every call site of the helper that does it. Populating the table is
// not a read. Which iterator fields carry the topic selection is taken from the iterator's constructor (fields whose value
// derives from ReadOptions.Topics).
func checkSummaryKeepsChunks(p *Program, r *Result, rule string) {
	ctor := p.lookupFunc(pkgMcap, "Reader.indexedMessageIterator")
	pass := p.lookupFunc(pkgMcap, "indexedMessageIterator.parseSummarySection")
	if ctor == nil || pass == nil {
		r.undecided(rule, "mcap.indexedMessageIterator.parseSummarySection", "anchor", "", "constructor or summary pass not found")
		return
	}
	// topic-selection fields
	topicFields := map[string]bool{} // "Type.field" of every struct field of the package filled from ReadOptions.Topics
	var derives func(v ssa.Value, depth int, seen map[ssa.Value]bool) bool
	derives = func(v ssa.Value, depth int, seen map[ssa.Value]bool) bool {
		if v == nil || depth > 12 || seen[v] {
			return false
		}
		seen[v] = true
		switch x := v.(type) {
		case *ssa.UnOp:
			if x.Op == token.MUL {
				if tn, f, _, ok := fieldRef(x.X); ok && tn == "ReadOptions" && f == "Topics" {
					return true
				}
			}
			return derives(x.X, depth+1, seen)
		case *ssa.MakeMap, *ssa.Alloc, *ssa.MakeSlice:
			for _, ref := range refsOf(x.(ssa.Value)) {
				switch y := ref.(type) {
				case *ssa.MapUpdate:
					if derives(y.Key, depth+1, seen) || derives(y.Value, depth+1, seen) {
						return true
					}
				case *ssa.Store:
					if y.Addr == v && derives(y.Val, depth+1, seen) {
						return true
					}
				}
			}
		case *ssa.Extract:
			return derives(x.Tuple, depth+1, seen)
		case *ssa.Next:
			return derives(x.Iter, depth+1, seen)
		case *ssa.Range:
			return derives(x.X, depth+1, seen)
		case *ssa.Index:
			return derives(x.X, depth+1, seen)
		case *ssa.IndexAddr:
			return derives(x.X, depth+1, seen)
		case *ssa.Lookup:
			return derives(x.X, depth+1, seen)
		case *ssa.Convert:
			return derives(x.X, depth+1, seen)
		case *ssa.ChangeType:
			return derives(x.X, depth+1, seen)
		case *ssa.Slice:
			return derives(x.X, depth+1, seen)
		case *ssa.Phi:
			for _, e := range x.Edges {
				if derives(e, depth+1, seen) {
					return true
				}
			}
		case *ssa.Call:
			for _, a := range x.Call.Args {
				if derives(a, depth+1, seen) {
					return true
				}
			}
		}
		return false
	}
	for _, rf := range regionOf(p, ctor, 3) {
		for _, in := range instrsOf(rf) {
			st, ok := in.(*ssa.Store)
			if !ok {
				continue
			}
			if tn, f, _, ok := fieldRef(st.Addr); ok && tn != "" && tn != "ReadOptions" && derives(st.Val, 0, map[ssa.Value]bool{}) {
				topicFields[tn+"."+f] = true
			}
		}
	}
	if len(topicFields) == 0 {
		r.undecided(rule, funcName(ctor), "topic selection of the iterator", p.pos(ctor.Pos()), "no iterator field is filled from ReadOptions.Topics")
		return
	}
	// the table of selected channels: the iterator field Info.Channels is filled from; fall back to the field whose element type is Channel
	isChannelTable := func(addr ssa.Value) bool {
		tn, _, _, ok := fieldRef(addr)
		if !ok || tn != "indexedMessageIterator" {
			return false
		}
		fa := addr.(*ssa.FieldAddr)
		return mentionsNamed(fa.Type(), "Channel", 0)
	}
	// does v depend on a topic field of the iterator
	var onTopics func(v ssa.Value, depth int, seen map[ssa.Value]bool) bool
	onTopics = func(v ssa.Value, depth int, seen map[ssa.Value]bool) bool {
		if v == nil || depth > 12 || seen[v] {
			return false
		}
		seen[v] = true
		switch x := v.(type) {
		case *ssa.UnOp:
			if x.Op == token.MUL {
				if tn, f, _, ok := fieldRef(x.X); ok && topicFields[tn+"."+f] {
					return true
				}
			}
			return onTopics(x.X, depth+1, seen)
		case *ssa.BinOp:
			return onTopics(x.X, depth+1, seen) || onTopics(x.Y, depth+1, seen)
		case *ssa.Lookup:
			return onTopics(x.X, depth+1, seen)
		case *ssa.Extract:
			return onTopics(x.Tuple, depth+1, seen)
		case *ssa.Convert:
			return onTopics(x.X, depth+1, seen)
		case *ssa.ChangeType:
			return onTopics(x.X, depth+1, seen)
		case *ssa.Phi:
			for _, e := range x.Edges {
				if onTopics(e, depth+1, seen) {
					return true
				}
			}
		case *ssa.Call:
			for _, a := range x.Call.Args {
				if onTopics(a, depth+1, seen) {
					return true
				}
			}
			// a predicate method of the iterator that looks at the topic selection
			if g := x.Call.StaticCallee(); g != nil && g.Blocks != nil && p.isRepoFunc(g) && depth < 3 {
				for _, in := range instrsOf(g) {
					if u, ok := in.(*ssa.UnOp); ok && u.Op == token.MUL {
						if tn, f, _, ok := fieldRef(u.X); ok && topicFields[tn+"."+f] {
							return true
						}
					}
				}
			}
		}
		return false
	}
	region := regionOf(p, pass, 3)
	inRegion := map[*ssa.Function]bool{}
	for _, f := range region {
		inRegion[f] = true
	}
	var guarded func(at ssa.Instruction, depth int) bool
	guarded = func(at ssa.Instruction, depth int) bool {
		blk := at.Block()
		for d := blk.Idom(); d != nil; d = d.Idom() {
			iff, ok := d.Instrs[len(d.Instrs)-1].(*ssa.If)
			if !ok {
				continue
			}
			inside := false
			for _, s := range d.Succs {
				if len(s.Preds) == 1 && (s == blk || s.Dominates(blk)) {
					inside = true
				}
			}
			if inside && onTopics(iff.Cond, 0, map[ssa.Value]bool{}) {
				return true
			}
		}
		fn := at.Parent()
		if fn == pass || depth <= 0 {
			return false
		}
		sites := p.staticCallers(fn)
		n := 0
		for _, s := range sites {
			if !inRegion[s.Parent()] {
				continue
			}
			n++
			if !guarded(s, depth-1) {
				return false
			}
		}
		return n > 0
	}
	n := 0
	for _, fn := range region {
		k := 0
		for _, in := range instrsOf(fn) {
			var read bool
			switch x := in.(type) {
			case *ssa.Call:
				// a method of the table that returns something, called on the iterator's table
				if len(x.Call.Args) > 0 && isChannelTable(x.Call.Args[0]) && x.Call.Signature().Results().Len() > 0 {
					read = true
				}
			case *ssa.Lookup:
				if u, ok := x.X.(*ssa.UnOp); ok && u.Op == token.MUL && isChannelTable(u.X) {
					read = true
				}
			}
			if !read {
				continue
			}
			n++
			k++
			construct := "the table of selected channels is consulted under a test of the topic selection"
			if k > 1 {
				construct += " #" + itoa(k-1)
			}
			if guarded(in, 3) {
				r.held(rule, funcName(fn), construct, p.pos(in.Pos()), "dominated by a branch on the iterator's topic selection")
			} else {
				r.violated(rule, funcName(fn), construct, p.pos(in.Pos()),
					"the summary pass decides from the channel records repeated in the summary which chunk indexes to keep, without having tested that the read selects topics at all: for a file whose summary repeats no channel records, Info lists none of the chunks that have message indexes")
			}
		}
	}
	if n == 0 {
		r.held(rule, funcName(pass), "the table of selected channels is not consulted in the summary pass", p.pos(pass.Pos()), "no chunk index can be dropped on its account")
	}
}

// mentionsNamed: the type refers (through pointers, slices, maps, type arguments, struct fields one level deep) to a named type of that name.
func mentionsNamed(t types.Type, name string, depth int) bool {
	if depth > 4 {
		return false
	}
	switch x := t.(type) {
	case *types.Pointer:
		return mentionsNamed(x.Elem(), name, depth+1)
	case *types.Slice:
		return mentionsNamed(x.Elem(), name, depth+1)
	case *types.Map:
		return mentionsNamed(x.Elem(), name, depth+1)
	case *types.Named:
		if x.Obj().Name() == name {
			return true
		}
		if ta := x.TypeArgs(); ta != nil {
			for i := 0; i < ta.Len(); i++ {
				if mentionsNamed(ta.At(i), name, depth+1) {
					return true
				}
			}
		}
	}
	return false
}
