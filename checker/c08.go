package main

import (
	"go/ast"
	"go/token"
	"go/types"
	"sort"
	"strings"

	"golang.org/x/tools/go/ssa"
)

func init() { register("C08", true, checkC08) }

// incrementStores: stores of the form X = X + 1 to a Statistics field (or map element of ChannelMessageCounts).
type incSite struct {
	fn    *ssa.Function
	st    ssa.Instruction
	field string
}

func statisticsIncrements(p *Program) []incSite {
	var out []incSite
	for _, fn := range sortedFuncs(writerScope(p)) {
		for _, in := range instrsOf(fn) {
			switch x := in.(type) {
			case *ssa.Store:
				tn, f, _, ok := fieldRef(x.Addr)
				if !ok || tn != "Statistics" {
					continue
				}
				if b, ok := x.Val.(*ssa.BinOp); ok && b.Op == token.ADD {
					if c, ok := b.Y.(*ssa.Const); ok && c.Value != nil && c.Value.String() == "1" && loadOfField(b.X, "Statistics", f) {
						out = append(out, incSite{fn, in, f})
					}
				}
			case *ssa.MapUpdate:
				if loadOfField(x.Map, "Statistics", "ChannelMessageCounts") {
					if b, ok := x.Value.(*ssa.BinOp); ok && b.Op == token.ADD {
						if c, ok := b.Y.(*ssa.Const); ok && c.Value != nil && c.Value.String() == "1" {
							out = append(out, incSite{fn, in, "ChannelMessageCounts[·]"})
						}
					}
				}
			}
		}
	}
	return out
}

func checkC08(p *Program, r *Result) {
	r.Explanation = "Structural necessary conditions of 'statistics and Info describe exactly the recorded content': " +
		"(C08.a) each counter of Statistics has exactly one increment-by-one site, in the function that emits that record kind, outside any loop, and every successful return that follows the record's sink writes is dominated by it; " +
		"(C08.m) WriteMessage's 'first message' test reads MessageCount after the increment; (C08.b) the fold of a chunk's time range into the statistics is guarded by a has-messages test and disabled while per-message accounting is active " +
		"(0 is the spec's no-message sentinel and a legal log time); (C08.c) Reader.Info fills every field of Info from the summary table of the same kind, and the summary pass has an arm for every record kind allowed in the summary, " +
		"each storing into its table; (C08.t) every possibly successful return of WriteMessage that follows the write of the message record has passed the comparisons of the log time with Statistics.MessageStartTime/MessageEndTime; (C08.d) the Statistics record layout equals the specification (E1)."
	r.NotDecided = []string{"the numeric aggregates on concrete workloads"}
	r.rule("C08.a", "one increment site per counter, executed once per successfully written record", 7)
	r.rule("C08.m", "first-message test evaluated after the message is counted", 1)
	r.rule("C08.b", "chunk time-range fold is guarded (has messages, direct-chunk mode only)", 2)
	r.rule("C08.c", "Info is populated from every summary table; every summary record kind has a handler", 14)
	r.rule("C08.d", "Statistics record layout equals the spec", 3)
	r.rule("C08.t", "every successfully written message is folded into the statistics time range", 2)
	// Info is read from the summary, which readers find through the footer: Close derives "no summary" from an empty
	// offsets list
	r.rule("C08.o", "a summary that was written is reachable: a summary offset is recorded whenever summary records were written (C05.e)", 1)
	{
		spec := sinkSpec()
		isSink := p.scopeFn(spec, p.reachSet(spec))
		importRule(p, r, "C08.o", func(sub *Result) { checkSummaryOffsetsComplete(p, sub, isSink) }, nil)
	}
	checkTimeFoldOnEveryPath(p, r, "C08.t")
	r.rule("C08.k", "the summary pass consults the table of selected channels only under a test of the topic selection (Info lists every chunk)", 1)
	checkSummaryKeepsChunks(p, r, "C08.k")
	r.rule("C08.u", "Info is built from an iterator that restricts nothing", 1)
	checkInfoFromUnrestrictedIterator(p, r, "C08.u")
	r.rule("C08.h", "the cached Info is never filtered, sorted or appended to in place by a read (C03.h)", 1)
	checkInfoReadOnlyAs(p, r, "C08.h")
	r.rule("C08.s", "the statistics time range is updated exactly when a log time extends it", 2)
	checkTimeFoldExact(p, r, "C08.s")

	spec := sinkSpec()
	R := p.reachSet(spec)
	isSink := p.scopeFn(spec, R)

	// ---- a
	want := map[string]string{
		"MessageCount": "mcap.Writer.WriteMessage", "ChannelMessageCounts[·]": "mcap.Writer.WriteMessage",
		"SchemaCount": "mcap.Writer.AddSchema", "ChannelCount": "mcap.Writer.AddChannel",
		"AttachmentCount": "mcap.Writer.WriteAttachment", "MetadataCount": "mcap.Writer.WriteMetadata", "ChunkCount": "mcap.Writer.WriteChunkWithIndexes",
	}
	sites := statisticsIncrements(p)
	byField := map[string][]incSite{}
	for _, s := range sites {
		byField[s.field] = append(byField[s.field], s)
	}
	var fields []string
	for f := range want {
		fields = append(fields, f)
	}
	sort.Strings(fields)
	lifted := map[string]ssa.Instruction{}
	for _, f := range fields {
		ss := byField[f]
		construct := "increment of Statistics." + f
		switch {
		case len(ss) == 0:
			r.violated("C08.a", want[f], construct, "", "no increment-by-one site for this counter; the statistic would stay at 0 or be computed differently from the records emitted")
			continue
		case len(ss) > 1:
			var where []string
			for _, s := range ss {
				where = append(where, p.pos(s.st.Pos()))
			}
			r.violated("C08.a", want[f], construct, p.pos(ss[0].st.Pos()), "counter is incremented at "+strings.Join(where, " and ")+"; a record would be counted twice on some path")
			continue
		}
		s := ss[0]
		// an increment inside an unexported accounting helper counts as sitting at the helper's call site, provided the
		// helper increments on every path and has a single caller
		var at ssa.Instruction = s.st
		for lift := 0; lift < 3 && funcName(s.fn) != want[f] && p.transparent(s.fn); lift++ {
			sites := p.staticCallers(s.fn)
			if len(sites) != 1 {
				break
			}
			always := true
			for _, in := range instrsOf(s.fn) {
				if ret, ok := in.(*ssa.Return); ok && !(at.Block() == ret.Block() || at.Block().Dominates(ret.Block())) {
					always = false
				}
			}
			if !always || inLoop(at.Block()) {
				break
			}
			at = sites[0]
			s.fn = sites[0].Parent()
		}
		lifted[f] = at
		fname := funcName(s.fn)
		pos := p.pos(s.st.Pos())
		if fname != want[f] {
			r.violated("C08.a", fname, construct, pos, "counter is incremented in "+fname+", not in "+want[f]+" which emits that record kind")
			continue
		}
		if inLoop(at.Block()) {
			r.violated("C08.a", fname, construct, pos, "increment sits in a loop")
			continue
		}
		// every successful return after the record's sink writes is dominated by the increment
		bad := ""
		var sinkBlocks []*ssa.BasicBlock
		for _, ci := range callsIn(s.fn, func(ci ssa.CallInstruction) bool { ok, _ := isSink(ci); return ok }) {
			sinkBlocks = append(sinkBlocks, ci.Block())
		}
		for _, in := range instrsOf(s.fn) {
			ret, ok := in.(*ssa.Return)
			if !ok {
				continue
			}
			n := len(ret.Results)
			if n > 0 && isErrorType(s.fn.Signature.Results().At(n-1).Type()) && !isNilConst(ret.Results[n-1]) {
				if _, isCall := ret.Results[n-1].(*ssa.Call); isCall {
					continue // returns a freshly built error
				}
				if !mayBeNilError(ret.Results[n-1]) || errKnownNonNil(ret, ret.Results[n-1]) {
					continue
				}
			}
			afterWrite := false
			for _, sb := range sinkBlocks {
				if sb == ret.Block() || reachableBlocks(sb)[ret.Block()] {
					afterWrite = true
				}
			}
			if len(sinkBlocks) == 0 {
				afterWrite = true // Add* functions: every return
			}
			if afterWrite && !(at.Block() == ret.Block() || at.Block().Dominates(ret.Block())) {
				// Add*: the not-yet-known branch is the only place; returns on the already-known path are fine
				if len(sinkBlocks) == 0 {
					continue
				}
				bad = p.pos(ret.Pos())
			}
		}
		if bad != "" {
			r.violated("C08.a", fname, construct, pos, "a successful return at "+bad+" follows the record's writes but bypasses the increment; the record is in the file and missing from the statistics")
		} else {
			r.held("C08.a", fname, construct, pos, "single site, not in a loop, dominates every successful return after the writes")
		}
	}
	// ---- m
	if wm := p.lookupFunc(pkgMcap, "Writer.WriteMessage"); wm != nil {
		var inc ssa.Instruction
		if at := lifted["MessageCount"]; at != nil && at.Parent() == wm {
			inc = at
		}
		n := 0
		for _, in := range instrsOf(wm) {
			b, ok := in.(*ssa.BinOp)
			if !ok {
				continue
			}
			switch b.Op {
			case token.LSS, token.LEQ, token.GTR, token.GEQ, token.EQL, token.NEQ:
			default:
				continue
			}
			if !(loadOfField(b.X, "Statistics", "MessageCount") || loadOfField(b.Y, "Statistics", "MessageCount")) {
				continue
			}
			n++
			if inc != nil && instrDominates(inc, in) {
				r.held("C08.m", funcName(wm), "first-message test on MessageCount", p.pos(b.Pos()), "evaluated after the increment")
			} else {
				r.violated("C08.m", funcName(wm), "first-message test on MessageCount", p.pos(b.Pos()),
					"MessageCount is compared before the message is counted, so the test also holds for the second message, whose log time then overwrites MessageStartTime")
			}
		}
		if n == 0 {
			r.held("C08.m", funcName(wm), "first-message test on MessageCount", p.pos(wm.Pos()), "no MessageCount comparison (start time not derived from a count)")
		}
	}
	checkChunkFold(p, r)
	checkInfoCompleteness(p, r)
	// ---- d
	if lf, err := gatherLayouts(p); err == nil {
		k := recordKind{"Statistics", "Statistics", "WriteStatistics", "ParseStatistics", "OpStatistics"}
		enc, dec, sp := lf.enc[k.Spec], lf.dec[k.Spec], lf.spec[k.Spec]
		if enc != nil {
			if d := layoutDiff(enc.toks, sp.Toks, nil, false); d != "" {
				if why := lf.g.encoderBlind(findFuncDecl(lf.g, k.Encoder)); why != "" {
					r.abstain("C08.d", "mcap.Writer.WriteStatistics", "layout of Statistics", p.pos(enc.pos), "the encoder moves its bytes through a form the layout extractor does not model ("+why+")")
				} else {
					r.violated("C08.d", "mcap.Writer.WriteStatistics", "layout of Statistics", p.pos(enc.pos), d)
				}
			} else {
				r.held("C08.d", "mcap.Writer.WriteStatistics", "layout of Statistics", p.pos(enc.pos), layoutString(enc.toks))
			}
			if why := enc.ctx.sizeShortfall(enc.sized, enc.sizes); why != "" {
				r.violated("C08.d", "mcap.Writer.WriteStatistics", "buffer size of Statistics", p.pos(enc.sizedPos), why)
			} else {
				r.held("C08.d", "mcap.Writer.WriteStatistics", "buffer size of Statistics", p.pos(enc.sizedPos), "reserved size covers the record")
			}
		}
		if dec != nil {
			if d := layoutDiff(dec.toks, sp.Toks, nil, false); d != "" {
				if hasUnnamed(dec.toks) && layoutDiff(blankNames(dec.toks), blankNames(sp.Toks), nil, false) == "" {
					r.abstain("C08.d", "mcap.ParseStatistics", "layout of Statistics", p.pos(dec.pos), "widths and order equal the table; which result field each value reaches could not be traced")
				} else if why := lf.g.decoderBlind(findFuncDecl(lf.g, k.Decoder)); why != "" {
					r.abstain("C08.d", "mcap.ParseStatistics", "layout of Statistics", p.pos(dec.pos), "the decoder reads the record through a form the layout extractor does not model ("+why+")")
				} else {
					r.violated("C08.d", "mcap.ParseStatistics", "layout of Statistics", p.pos(dec.pos), d)
				}
			} else {
				r.held("C08.d", "mcap.ParseStatistics", "layout of Statistics", p.pos(dec.pos), layoutString(dec.toks))
			}
		}
	}
}

// errKnownNonNil: the return sits on the non-nil branch of a test of the returned error value.
func errKnownNonNil(ret *ssa.Return, e ssa.Value) bool {
	for d := ret.Block(); d != nil; d = d.Idom() {
		for _, pr := range d.Preds {
			iff, ok := pr.Instrs[len(pr.Instrs)-1].(*ssa.If)
			if !ok || len(d.Preds) != 1 {
				continue
			}
			c, ok := iff.Cond.(*ssa.BinOp)
			if !ok {
				continue
			}
			isE := func(v ssa.Value) bool {
				if v == e {
					return true
				}
				if phi, ok := e.(*ssa.Phi); ok {
					for _, ed := range phi.Edges {
						if ed == v {
							return true
						}
					}
				}
				return false
			}
			if (isE(c.X) && isNilConst(c.Y)) || (isE(c.Y) && isNilConst(c.X)) {
				if (c.Op == token.NEQ && pr.Succs[0] == d) || (c.Op == token.EQL && pr.Succs[1] == d) {
					return true
				}
			}
		}
	}
	return false
}

func mayBeNilError(v ssa.Value) bool {
	switch v.(type) {
	case *ssa.MakeInterface, *ssa.Alloc:
		return false
	}
	if globalLoad(v) != "" {
		return false
	}
	return true
}

func inLoop(b *ssa.BasicBlock) bool {
	return reachableFromSuccs(b)[b]
}

func reachableFromSuccs(b *ssa.BasicBlock) map[*ssa.BasicBlock]bool {
	seen := map[*ssa.BasicBlock]bool{}
	st := append([]*ssa.BasicBlock{}, b.Succs...)
	for len(st) > 0 {
		x := st[len(st)-1]
		st = st[:len(st)-1]
		if seen[x] {
			continue
		}
		seen[x] = true
		st = append(st, x.Succs...)
	}
	return seen
}

// checkChunkFold: stores to Statistics.MessageStartTime/EndTime whose value comes from a Chunk's time fields.
func checkChunkFold(p *Program, r *Result) {
	n := 0
	for _, fn := range sortedFuncs(writerScope(p)) {
		for _, tf := range []string{"MessageStartTime", "MessageEndTime"} {
			for _, st := range fieldStores(fn, "Statistics", tf) {
				fromChunk := loadOfField(st.Val, "Chunk", tf)
				if c, ok := stripConv(st.Val).(*ssa.Call); ok && !fromChunk {
					// min/max(running, chunk time)
					if b, ok := c.Call.Value.(*ssa.Builtin); ok && (b.Name() == "min" || b.Name() == "max") {
						for _, a := range c.Call.Args {
							if loadOfField(a, "Chunk", tf) {
								fromChunk = true
							}
						}
					}
				}
				if !fromChunk {
					continue
				}
				n++
				// dominating conditions
				hasMsgs, directOnly := false, false
				for d := st.Block(); d != nil; d = d.Idom() {
					for _, pr := range d.Preds {
						iff, ok := pr.Instrs[len(pr.Instrs)-1].(*ssa.If)
						if !ok || !(len(d.Preds) == 1 || pr.Dominates(d)) {
							continue
						}
						c, ok := iff.Cond.(*ssa.BinOp)
						if !ok {
							continue
						}
						onTrue := pr.Succs[0] == d
						zero := func(v ssa.Value) bool { k, ok := v.(*ssa.Const); return ok && k.Value != nil && k.Value.String() == "0" }
						var chunkTime func(v ssa.Value) bool
						chunkTime = func(v ssa.Value) bool {
							if loadOfField(v, "Chunk", "MessageStartTime") || loadOfField(v, "Chunk", "MessageEndTime") {
								return true
							}
							// start|end != 0: non-zero iff one of them is
							if b, ok := v.(*ssa.BinOp); ok && b.Op == token.OR {
								return chunkTime(b.X) && chunkTime(b.Y)
							}
							return false
						}
						if ((c.Op == token.NEQ && onTrue) || (c.Op == token.EQL && !onTrue)) && (chunkTime(c.X) && zero(c.Y) || chunkTime(c.Y) && zero(c.X)) {
							hasMsgs = true
						}
						if p.chunkAcc().isCountLoad(c.X) || p.chunkAcc().isCountLoad(c.Y) {
							hasMsgs = true
						}
						if ((c.Op == token.EQL && onTrue) || (c.Op == token.NEQ && !onTrue)) && (loadOfField(c.X, "Statistics", "MessageCount") && zero(c.Y) || loadOfField(c.Y, "Statistics", "MessageCount") && zero(c.X)) {
							directOnly = true
						}
						// MessageCount > 0 failing, 0 < MessageCount failing
						if !onTrue && ((c.Op == token.GTR && loadOfField(c.X, "Statistics", "MessageCount") && zero(c.Y)) || (c.Op == token.LSS && loadOfField(c.Y, "Statistics", "MessageCount") && zero(c.X))) {
							directOnly = true
						}
					}
				}
				// `a != 0 || b != 0` lowers to two blocks: the second test's block is reached only when the first failed; accept
				// a has-messages verdict found on any dominating short-circuit chain
				if !hasMsgs {
					hasMsgs = orChainTestsChunkTimes(st.Block())
				}
				construct := "fold of chunk times into Statistics." + tf
				switch {
				case !hasMsgs:
					r.violated("C08.b", funcName(fn), construct, p.pos(st.Pos()),
						"a chunk's time range is folded into the statistics without a has-messages test: a chunk holding only schema/channel records carries the zero sentinel and resets the file's earliest time to 0")
				case !directOnly:
					r.violated("C08.b", funcName(fn), construct, p.pos(st.Pos()),
						"the fold treats Statistics.MessageStartTime == 0 as 'unset' while WriteMessage already accounts for every message; after a message with log time 0 a later chunk overwrites the earliest time (the fold must be limited to directly written chunks, MessageCount == 0)")
				default:
					r.held("C08.b", funcName(fn), construct, p.pos(st.Pos()), "guarded by has-messages and MessageCount == 0")
				}
			}
		}
	}
	if n == 0 {
		r.held("C08.b", "mcap.Writer", "no chunk time-range fold", "", "statistics times are maintained per message only")
		r.held("C08.b", "mcap.Writer", "no chunk time-range fold #2", "", "statistics times are maintained per message only")
	}
}

func orChainTestsChunkTimes(b *ssa.BasicBlock) bool {
	seen := map[*ssa.BasicBlock]bool{}
	var walk func(x *ssa.BasicBlock, depth int) bool
	walk = func(x *ssa.BasicBlock, depth int) bool {
		if x == nil || seen[x] || depth > 6 {
			return false
		}
		seen[x] = true
		for _, pr := range x.Preds {
			if iff, ok := pr.Instrs[len(pr.Instrs)-1].(*ssa.If); ok {
				if c, ok := iff.Cond.(*ssa.BinOp); ok && (c.Op == token.NEQ || c.Op == token.EQL) {
					if loadOfField(c.X, "Chunk", "MessageStartTime") || loadOfField(c.X, "Chunk", "MessageEndTime") || loadOfField(c.Y, "Chunk", "MessageStartTime") || loadOfField(c.Y, "Chunk", "MessageEndTime") {
						return true
					}
				}
			}
			if walk(pr, depth+1) {
				return true
			}
		}
		return false
	}
	return walk(b, 0)
}

// checkInfoCompleteness: Reader.Info sets every exported field of Info from the iterator table of the same kind;
// parseSummarySection has an arm for each summary record kind and each arm stores into its table.
func checkInfoCompleteness(p *Program, r *Result) {
	g := newGoLayouts(p, pkgMcap)
	fd := methodDecl(g, "Reader", "Info")
	infoT, _ := p.Pkgs[pkgMcap].Types.Scope().Lookup("Info").Type().Underlying().(*types.Struct)
	if fd == nil || infoT == nil {
		r.undecided("C08.c", "mcap.Reader.Info", "anchor", "", "not found")
		return
	}
	source := map[string]string{"Statistics": "statistics", "Channels": "channels", "Schemas": "schemas", "ChunkIndexes": "chunkIndexes",
		"MetadataIndexes": "metadataIndexes", "AttachmentIndexes": "attachmentIndexes", "Footer": "footer", "Header": "header"}
	set := map[string]string{}
	// the literal may live in an unexported method of Reader that Info delegates to
	infoBodies := []*ast.FuncDecl{fd}
	for fn, d := range g.decls {
		if d.Recv != nil && d.Body != nil && !fn.Exported() && (recvTypeName(g, d) == "Reader" || recvTypeName(g, d) == "indexedMessageIterator") {
			infoBodies = append(infoBodies, d)
		}
	}
	// ... or be replaced by field-by-field assignments to an Info value
	for _, bd := range infoBodies {
		ast.Inspect(bd.Body, func(n ast.Node) bool {
			as, ok := n.(*ast.AssignStmt)
			if !ok || len(as.Lhs) != 1 || len(as.Rhs) != 1 {
				return true
			}
			sel, ok := as.Lhs[0].(*ast.SelectorExpr)
			if !ok {
				return true
			}
			if nt, _ := structOf(g.info.TypeOf(sel.X)); nt == nil || nt.Obj().Name() != "Info" {
				return true
			}
			set[sel.Sel.Name] = types.ExprString(as.Rhs[0])
			return true
		})
	}
	for _, bd := range infoBodies {
		ast.Inspect(bd.Body, func(n ast.Node) bool {
			cl, ok := n.(*ast.CompositeLit)
			if !ok {
				return true
			}
			if nt, _ := structOf(g.info.TypeOf(cl)); nt == nil || nt.Obj().Name() != "Info" {
				return true
			}
			for _, el := range cl.Elts {
				if kv, ok := el.(*ast.KeyValueExpr); ok {
					if k, ok := kv.Key.(*ast.Ident); ok {
						set[k.Name] = types.ExprString(kv.Value)
					}
				}
			}
			return true
		})
	}
	for i := 0; i < infoT.NumFields(); i++ {
		f := infoT.Field(i).Name()
		val, ok := set[f]
		construct := "Info." + f
		switch {
		case !ok:
			r.violated("C08.c", "mcap.Reader.Info", construct, p.pos(fd.Pos()), "field is not populated; Info would not list the file's "+f)
		case !strings.Contains(val, "."+source[f]) && val != source[f]:
			r.violated("C08.c", "mcap.Reader.Info", construct, p.pos(fd.Pos()), "field is populated from "+val+", expected the summary table "+source[f])
		default:
			r.held("C08.c", "mcap.Reader.Info", construct, p.pos(fd.Pos()), "= "+val)
		}
	}
	// summary arms
	ps := methodDecl(g, "indexedMessageIterator", "parseSummarySection")
	if ps == nil {
		return
	}
	arms := map[string]*ast.CaseClause{}
	// the token switch may live in an unexported helper of the summary pass (addSummaryRecord, ...); an arm may store
	// through a helper method of the iterator
	armBodies := []*ast.FuncDecl{ps}
	{
		seenD := map[*ast.FuncDecl]bool{ps: true}
		frontier := []*ast.FuncDecl{ps}
		for depth := 0; depth < 2 && len(frontier) > 0; depth++ {
			var next []*ast.FuncDecl
			for _, d := range frontier {
				ast.Inspect(d.Body, func(n ast.Node) bool {
					if ce, ok := n.(*ast.CallExpr); ok {
						if fn := g.calleeOf(ce); fn != nil && !fn.Exported() {
							if hd := g.decls[fn]; hd != nil && hd.Body != nil && hd.Recv != nil && !seenD[hd] {
								seenD[hd] = true
								next = append(next, hd)
								armBodies = append(armBodies, hd)
							}
						}
					}
					return true
				})
			}
			frontier = next
		}
	}
	armScope := &ast.BlockStmt{}
	for _, d := range armBodies {
		armScope.List = append(armScope.List, d.Body)
	}
	ast.Inspect(armScope, func(n ast.Node) bool {
		if cc, ok := n.(*ast.CaseClause); ok {
			for _, e := range cc.List {
				arms[strings.TrimPrefix(types.ExprString(e), "mcap.")] = cc
			}
		}
		return true
	})
	table := map[string]string{"TokenSchema": "schemas", "TokenChannel": "channels", "TokenChunkIndex": "chunkIndexes", "TokenAttachmentIndex": "attachmentIndexes",
		"TokenMetadataIndex": "metadataIndexes", "TokenStatistics": "statistics"}
	var toks []string
	for t := range table {
		toks = append(toks, t)
	}
	sort.Strings(toks)
	for _, t := range toks {
		cc := arms[t]
		construct := "summary arm " + t
		if cc == nil {
			r.violated("C08.c", "mcap.indexedMessageIterator.parseSummarySection", construct, p.pos(ps.Pos()), "no handler for this summary record kind; Info would omit it")
			continue
		}
		writes := false
		ast.Inspect(cc, func(n ast.Node) bool {
			switch x := n.(type) {
			case *ast.AssignStmt:
				for _, l := range x.Lhs {
					if strings.HasSuffix(types.ExprString(l), "."+table[t]) {
						writes = true
					}
				}
			case *ast.CallExpr:
				if sel, ok := x.Fun.(*ast.SelectorExpr); ok && sel.Sel.Name == "Set" && strings.HasSuffix(types.ExprString(sel.X), "."+table[t]) {
					writes = true
				}
			}
			return true
		})
		if writes {
			r.held("C08.c", "mcap.indexedMessageIterator.parseSummarySection", construct, p.pos(cc.Pos()), "stores into it."+table[t])
		} else {
			r.violated("C08.c", "mcap.indexedMessageIterator.parseSummarySection", construct, p.pos(cc.Pos()), "the arm does not store into it."+table[t])
		}
	}
}

// C08.u: Info describes the file, not a selection. The iterator whose summary tables fill the Info literal is created
// from options that restrict nothing: a ReadOptions literal that sets no topic list and no time bound. When the
// function that builds Info receives the iterator as a parameter, every call site must pass such an iterator. An Info
// built (and cached) from the iterator of a filtered read lists only the selected channels and the chunks inside the window.
func checkInfoFromUnrestrictedIterator(p *Program, r *Result, rule string) {
	restricting := map[string]bool{"Topics": true, "Start": true, "End": true, "StartNanos": true, "EndNanos": true}
	var judge func(itv ssa.Value, depth int) (ok bool, why string)
	judge = func(itv ssa.Value, depth int) (bool, string) {
		if depth > 3 {
			return false, "iterator origin too deep"
		}
		switch x := itv.(type) {
		case *ssa.Extract:
			// it, err := r.scanSummary(): judge what the callee returns in that position
			if c, ok := x.Tuple.(*ssa.Call); ok {
				if g := c.Call.StaticCallee(); g != nil && g.Blocks != nil && p.isRepoFunc(g) {
					n := 0
					for _, in := range instrsOf(g) {
						if ret, ok := in.(*ssa.Return); ok && x.Index < len(ret.Results) {
							if isNilConst(ret.Results[x.Index]) {
								continue
							}
							n++
							if ok, why := judge(ret.Results[x.Index], depth+1); !ok {
								return false, why
							}
						}
					}
					if n > 0 {
						return true, ""
					}
				}
			}
			return false, "iterator origin not recognised (" + valueLabel(itv) + ")"
		case *ssa.Call:
			if calleeRepoName(x) != "mcap.Reader.indexedMessageIterator" || len(x.Call.Args) < 2 {
				return false, "iterator is not created by Reader.indexedMessageIterator"
			}
			opts := x.Call.Args[1]
			al, ok := opts.(*ssa.Alloc)
			if !ok {
				return false, "the iterator is created from " + valueLabel(opts) + ", not from a fresh ReadOptions literal"
			}
			for _, ref := range *al.Referrers() {
				switch y := ref.(type) {
				case *ssa.FieldAddr:
					_, f, _, _ := fieldRef(y)
					for _, r2 := range *y.Referrers() {
						if _, isSt := r2.(*ssa.Store); isSt && restricting[f] {
							return false, "the options of the iterator set " + f
						}
					}
				case *ssa.Store:
					if y.Addr == ssa.Value(al) {
						return false, "the options of the iterator are copied from " + valueLabel(y.Val)
					}
				case ssa.CallInstruction:
					if y != ssa.CallInstruction(x) {
						return false, "the options are handed to " + trimPkg(staticCalleeName(y.Common())) + " before the iterator is created"
					}
				}
			}
			return true, ""
		case *ssa.Parameter:
			sites := p.staticCallers(x.Parent())
			if len(sites) == 0 {
				return false, "no caller found"
			}
			idx := -1
			for i, q := range x.Parent().Params {
				if q == x {
					idx = i
				}
			}
			for _, s := range sites {
				if idx < 0 || idx >= len(s.Common().Args) {
					return false, "argument not found"
				}
				if ok, why := judge(s.Common().Args[idx], depth+1); !ok {
					return false, why + " (call at " + p.pos(s.Pos()) + ")"
				}
			}
			return true, ""
		case *ssa.Phi:
			for _, e := range x.Edges {
				if ok, why := judge(e, depth+1); !ok {
					return false, why
				}
			}
			return true, ""
		}
		return false, "iterator origin not recognised (" + valueLabel(itv) + ")"
	}
	n := 0
	for _, fn := range append(methodsOf(p, pkgMcap, "Reader"), methodsOf(p, pkgMcap, "indexedMessageIterator")...) {
		if fn.Blocks == nil {
			continue
		}
		var its []ssa.Value
		seen := map[ssa.Value]bool{}
		for _, in := range instrsOf(fn) {
			st, ok := in.(*ssa.Store)
			if !ok {
				continue
			}
			if tn, _, _, ok := fieldRef(st.Addr); !ok || tn != "Info" {
				continue
			}
			// the value comes from a field of an iterator (directly or through ToMap())
			v := st.Val
			if c, ok := v.(*ssa.Call); ok && len(c.Call.Args) > 0 {
				v = c.Call.Args[0]
			}
			var base ssa.Value
			if u, ok := v.(*ssa.UnOp); ok {
				if tn, _, b, ok := fieldRef(u.X); ok && tn == "indexedMessageIterator" {
					base = b
				}
			} else if tn, _, b, ok := fieldRef(v); ok && tn == "indexedMessageIterator" {
				base = b
			}
			if base != nil && !seen[base] {
				seen[base] = true
				its = append(its, base)
			}
		}
		for _, itv := range its {
			n++
			ok, why := judge(itv, 0)
			construct := "Info is built from an iterator that restricts nothing"
			if ok {
				r.held(rule, funcName(fn), construct, p.pos(fn.Pos()), "the summary tables come from an iterator created with a ReadOptions literal that sets no topics and no time bound")
			} else {
				r.violated(rule, funcName(fn), construct, p.pos(fn.Pos()),
					why+"; the Info that is built and cached would list only the channels, chunks and counts the selection of one read let through")
			}
		}
	}
	if n == 0 {
		r.undecided(rule, "mcap.Reader", "Info literal", "", "no Reader method fills an Info from an iterator's tables")
	}
}
