package main

import (
	"go/types"
	"fmt"
	"go/token"

	"golang.org/x/tools/go/ssa"
)

// C02.f: in file order the index-based read must reproduce the scan's sequence: chunks are visited by ascending
// file offset and the per-chunk message queue is left in the order of the record walk (no sort can execute when
// it.order == FileOrder).

// ordersAt: the ReadOrder values it.order can have when in executes, from the dominating tests of it.order.
func ordersAt(in ssa.Instruction) map[int]bool {
	poss := map[int]bool{0: true, 1: true, 2: true}
	for d := in.Block(); d != nil; d = d.Idom() {
		if len(d.Preds) != 1 {
			continue
		}
		pred := d.Preds[0]
		iff, ok := pred.Instrs[len(pred.Instrs)-1].(*ssa.If)
		if !ok {
			continue
		}
		b, ok := iff.Cond.(*ssa.BinOp)
		if !ok || (b.Op != token.EQL && b.Op != token.NEQ) {
			continue
		}
		var c *ssa.Const
		var other ssa.Value
		if cc, ok := b.Y.(*ssa.Const); ok {
			c, other = cc, b.X
		} else if cc, ok := b.X.(*ssa.Const); ok {
			c, other = cc, b.Y
		}
		isOrder := loadOfField(other, "indexedMessageIterator", "order")
		if prm, ok := other.(*ssa.Parameter); ok && !isOrder {
			// the read order handed to a method of the queue type
			if nt, ok := prm.Type().(*types.Named); ok && nt.Obj().Name() == "ReadOrder" {
				isOrder = true
			}
		}
		if c == nil || c.Value == nil || !isOrder {
			continue
		}
		k := int(c.Int64())
		onTrue := pred.Succs[0] == d
		if (b.Op == token.EQL) == onTrue {
			for o := range poss {
				if o != k {
					delete(poss, o)
				}
			}
		} else {
			delete(poss, k)
		}
	}
	return poss
}

func checkFileOrder(p *Program, r *Result) {
	oc := &originCtx{p: p}
	onField := func(v ssa.Value, field string) bool {
		if mi, ok := v.(*ssa.MakeInterface); ok {
			v = mi.X
		}
		for _, o := range oc.originsUp(v) {
			if o == "field:indexedMessageIterator."+field {
				return true
			}
		}
		return false
	}
	onQueue := func(v ssa.Value) bool {
		if mi, ok := v.(*ssa.MakeInterface); ok {
			v = mi.X
		}
		for _, o := range oc.originsUp(v) {
			if o == p.roles().queueOrigin() {
				return true
			}
		}
		return false
	}
	nChunkSort, nQueueSort := 0, 0
	fileOrderChunkSort := false
	for _, m := range iteratorAndQueueMethods(p) {
		if m.Blocks == nil {
			continue
		}
		for _, ci := range callsIn(m, func(ci ssa.CallInstruction) bool {
			n := staticCalleeName(ci.Common())
			if f := ci.Common().StaticCallee(); f != nil && f.Origin() != nil {
				n = staticCalleeName2(f.Origin())
			}
			return stableSorts[n] || unstableSorts[n] || n == "slices.Reverse"
		}) {
			args := ci.Common().Args
			if len(args) == 0 {
				continue
			}
			poss := ordersAt(ci)
			// a comparator chosen per order (variable assigned in the arms of a switch over it.order, nil where no sort
			// applies) and a call guarded by `cmp != nil`: the call runs only under the orders of the non-nil arms
			if len(args) >= 2 {
				if phi, ok := args[1].(*ssa.Phi); ok && nilGuarded(ci, phi) {
					u := map[int]bool{}
					for i, e := range phi.Edges {
						if isNilConst(e) {
							continue
						}
						pred := phi.Block().Preds[i]
						for o := range ordersAt(pred.Instrs[len(pred.Instrs)-1]) {
							u[o] = true
						}
					}
					for o := range poss {
						if !u[o] {
							delete(poss, o)
						}
					}
				}
			}
			switch {
			case onQueue(args[0]):
				nQueueSort++
				construct := fmt.Sprintf("reordering of the message queue: %s", trimPkg(staticCalleeName(ci.Common())))
				if poss[0] {
					r.violated("C02.f", funcName(m), construct, p.pos(ci.Pos()),
						"this reordering of the pending messages can execute when it.order is FileOrder; a file-order read through the index must return messages in the order of the record walk, as the sequential scan does")
				} else {
					r.held("C02.f", funcName(m), construct, p.pos(ci.Pos()), "only reachable under a time order")
				}
			case onField(args[0], "chunkIndexes") && len(args) >= 2 && poss[0]:
				nChunkSort++
				var cfn *ssa.Function = closureOf(args[1])
				swapped := false
				if _, isPhi := args[1].(*ssa.Phi); isPhi {
					// a comparator variable assigned per read order: take the FileOrder arm
					cfn = nil
					for _, c := range comparatorCases(ci) {
						if c.order == 0 {
							cfn, swapped = c.fn, c.swapped
						}
					}
					if cfn == nil {
						r.violated("C02.f", funcName(m), "chunk order in file order", p.pos(ci.Pos()), "no comparator is selected for FileOrder; in file order chunks would be visited in summary order")
						continue
					}
				} else if cs := factoryCases(closureOfValue(args[1])); len(cs) > 0 {
					cfn = nil
					for _, c := range cs {
						if c.order == 0 {
							cfn, swapped = c.fn, c.swapped
						}
					}
					if cfn == nil {
						r.violated("C02.f", funcName(m), "chunk order in file order", p.pos(ci.Pos()), "the comparator factory has no case for FileOrder; in file order chunks would be visited in summary order")
						continue
					}
				}
				f, op, why := lessShape(cfn)
				if swapped {
					op = map[string]string{"<": ">", ">": "<"}[op]
				}
				construct := "chunk order in file order"
				switch {
				case why != "":
					r.violated("C02.f", funcName(m), construct, p.pos(ci.Pos()), why)
				case f != "ChunkStartOffset" || op != "<":
					r.violated("C02.f", funcName(m), construct, p.pos(ci.Pos()), "in file order chunks are visited by "+f+" "+op+", not by ascending file offset; the index-based sequence differs from the scan's when chunks are not written in time order")
				default:
					fileOrderChunkSort = true
					r.held("C02.f", funcName(m), construct, p.pos(ci.Pos()), "chunks sorted by ascending ChunkStartOffset")
				}
			}
		}
	}
	if !fileOrderChunkSort && nChunkSort == 0 {
		r.violated("C02.f", "mcap.indexedMessageIterator", "chunk order in file order", "", "no sort of the chunk indexes by file offset applies in file order; the summary may list chunk indexes in any order")
	}
	_ = nQueueSort
}
