package main

import (
	"go/types"
	"sort"
	"strings"

	"golang.org/x/tools/go/ssa"
)

// C19.m: a memo must be keyed by everything the memoised value depends on. In a function that both looks a map up and
// stores into it (value type other than bool: a cache, not a visited set), the parameters of the function that the
// stored value is computed from must also be parameters the key is computed from - parameters that every recursive
// call passes on unchanged (the dependency table, the memo itself) excepted. A cache of resolved types keyed by the
// type name as written, while resolution also depends on the package of the enclosing message, returns one package's
// type for another's.

func paramSlice(fn *ssa.Function, v ssa.Value) map[*ssa.Parameter]bool {
	out := map[*ssa.Parameter]bool{}
	seen := map[ssa.Value]bool{}
	var walk func(v ssa.Value, depth int)
	walk = func(v ssa.Value, depth int) {
		if v == nil || seen[v] || depth > 60 {
			return
		}
		seen[v] = true
		switch x := v.(type) {
		case *ssa.Parameter:
			out[x] = true
			return
		case *ssa.Const, *ssa.Global, *ssa.Function, *ssa.Builtin:
			return
		case *ssa.FreeVar:
			return
		case *ssa.Alloc:
			for _, ref := range *x.Referrers() {
				switch y := ref.(type) {
				case *ssa.Store:
					if y.Addr == ssa.Value(x) {
						walk(y.Val, depth+1)
					}
				case *ssa.FieldAddr, *ssa.IndexAddr:
					for _, r2 := range *y.(ssa.Value).Referrers() {
						if st, ok := r2.(*ssa.Store); ok && st.Addr == y.(ssa.Value) {
							walk(st.Val, depth+1)
						}
					}
				}
			}
			return
		}
		if in, ok := v.(ssa.Instruction); ok {
			var ops []*ssa.Value
			for _, op := range in.Operands(ops) {
				if op != nil && *op != nil {
					walk(*op, depth+1)
				}
			}
		}
	}
	walk(v, 0)
	return out
}

func checkMemoKeys(p *Program, r *Result, rule string, fns []*ssa.Function) {
	n := 0
	for _, fn := range fns {
		type upd struct {
			mu *ssa.MapUpdate
		}
		looked := map[ssa.Value]bool{}
		for _, in := range instrsOf(fn) {
			if lk, ok := in.(*ssa.Lookup); ok {
				if _, isMap := lk.X.Type().Underlying().(*types.Map); isMap {
					looked[lk.X] = true
				}
			}
		}
		// parameters handed on unchanged by every recursive (same-function) call
		invariant := map[*ssa.Parameter]bool{}
		for _, prm := range fn.Params {
			invariant[prm] = true
		}
		for _, ci := range callsIn(fn, func(ci ssa.CallInstruction) bool { return ci.Common().StaticCallee() == fn }) {
			for i, a := range ci.Common().Args {
				if i < len(fn.Params) && a != ssa.Value(fn.Params[i]) {
					invariant[fn.Params[i]] = false
				}
			}
		}
		k := 0
		for _, in := range instrsOf(fn) {
			mu, ok := in.(*ssa.MapUpdate)
			if !ok || !looked[mu.Map] {
				continue
			}
			mt, _ := mu.Map.Type().Underlying().(*types.Map)
			if mt == nil {
				continue
			}
			if b, ok := mt.Elem().Underlying().(*types.Basic); ok && b.Kind() == types.Bool {
				continue // visited set
			}
			if _, isParam := mu.Map.(*ssa.Parameter); !isParam {
				continue // a table built and consumed locally is not a memo across calls
			}
			n++
			k++
			vdeps, kdeps := paramSlice(fn, mu.Value), paramSlice(fn, mu.Key)
			var missing []string
			for prm := range vdeps {
				if !kdeps[prm] && !invariant[prm] && ssa.Value(prm) != mu.Map {
					missing = append(missing, prm.Name())
				}
			}
			sort.Strings(missing)
			construct := "memo " + valueLabel(mu.Map) + " keyed by what its values depend on"
			if k > 1 {
				construct += " #" + itoa(k-1)
			}
			if len(missing) == 0 {
				r.held(rule, funcName(fn), construct, p.pos(mu.Pos()), "every varying parameter the stored value is computed from also enters the key")
			} else {
				r.violated(rule, funcName(fn), construct, p.pos(mu.Pos()),
					"the value stored in the memo is computed from "+strings.Join(missing, ", ")+", which changes from call to call, but the key is not: a later lookup with the same key under a different "+strings.Join(missing, "/")+" returns a result computed for another context")
			}
		}
	}
	if n == 0 {
		r.held(rule, "ros1msg", "no memo across calls", "", "no function looks up and fills a map parameter (other than visited sets)")
	}
}
