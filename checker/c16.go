package main

import (
	"fmt"
	"go/ast"
	"go/constant"
	"go/types"
	"os"
	"path/filepath"
	"regexp"
	"sort"
	"strings"
)

func init() { register("C16", true, checkC16) }

// pyKinds: spec record name -> Python class name in records.py
var pyClass = map[string]string{
	"Header": "Header", "Footer": "Footer", "Schema": "Schema", "Channel": "Channel", "Message": "Message", "Chunk": "Chunk",
	"MessageIndex": "MessageIndex", "ChunkIndex": "ChunkIndex", "Attachment": "Attachment", "Metadata": "Metadata", "DataEnd": "DataEnd",
	"AttachmentIndex": "AttachmentIndex", "MetadataIndex": "MetadataIndex", "Statistics": "Statistics", "SummaryOffset": "SummaryOffset",
}

func pyAliases(kind string) map[string]string {
	switch kind {
	case "Chunk":
		return map[string]string{"data": "records"} // py Chunk.data is the spec's records field
	}
	return nil
}

func pyOpName(goConst string) string {
	// OpAttachmentIndex -> ATTACHMENT_INDEX
	return strings.ToUpper(snake(strings.TrimPrefix(goConst, "Op")))
}

func checkC16(p *Program, r *Result) {
	r.Explanation = "Structural necessary conditions of 'Go and Python implementations read each other's files identically': " +
		"(C16.a) for each of the 15 record kinds, the Go encoder, the Go decoder, the Python write() and the Python read() (Python sources parsed with ast, never imported or run) all have the layout of the specification's table, " +
		"hence agree with each other; the attachment CRC covers the same byte range on both sides; " +
		"(C16.b) the Go Op* constants, the Python Opcode members and the spec headings carry the same values, and the magic bytes agree; " +
		"(C16.c) both sides use the same offset conventions: the Python writer records stream.tell() before the record it indexes; the Python seeking reader reads chunks at chunk_start_offset and " +
		"attachments/metadata at their index offset."
	r.NotDecided = []string{"summary handling, filters, CRC validation logic, UTF-8 handling and time-ordered reads of either reader (run-time)"}
	r.rule("C16.a", "Go encoder/decoder and Python write/read layouts all equal the spec table", 60)
	r.rule("C16.b", "opcode values and magic agree across Go, Python and the spec", 16)
	r.rule("C16.c", "offset conventions of the Python writer/reader match the Go writer's", 3)

	lf, err := gatherLayouts(p)
	if err != nil {
		r.undecided("C16.a", "spec", "record tables", "", err.Error())
		return
	}
	lf.checkEncVsSpec(p, r, "C16.a")
	lf.checkDecVsSpec(p, r, "C16.a")
	py, err := runPyLayout(p)
	if err != nil {
		r.undecided("C16.a", "python", "records.py", "", err.Error())
		return
	}
	for _, pr := range py.Problems {
		r.undecided("C16.a", "python", "extractor", "", pr)
	}
	for _, k := range recordKinds {
		cls := pyClass[k.Spec]
		rec, ok := py.Records[cls]
		sp := lf.spec[k.Spec]
		fname := "python:records." + cls
		if !ok {
			r.undecided("C16.a", fname, "class", "", "record class not found in python/mcap/mcap/records.py")
			continue
		}
		for _, side := range []struct {
			name string
			toks []Tok
		}{{"write", toToks(rec.Write)}, {"read", toToks(rec.Read)}} {
			if d := layoutDiff(side.toks, sp.Toks, pyAliases(k.Spec), false); d != "" {
				r.violated("C16.a", fname+"."+side.name, "layout of "+k.Spec, "python/mcap/mcap/records.py", "Python "+side.name+"() disagrees with the specification: "+d+" | python: "+layoutString(side.toks)+" | spec: "+layoutString(sp.Toks))
			} else {
				r.held("C16.a", fname+"."+side.name, "layout of "+k.Spec, "python/mcap/mcap/records.py", layoutString(side.toks))
			}
		}
		// opcodes
		gv, gok := opConstValue(p, k.OpConst)
		pv, pok := py.Opcodes[pyOpName(k.OpConst)]
		switch {
		case !gok || !pok:
			r.violated("C16.b", "opcode "+k.Spec, "value", "", fmt.Sprintf("opcode missing on one side (go %v, python %v)", gok, pok))
		case gv != pv || gv != sp.Opcode:
			r.violated("C16.b", "opcode "+k.Spec, "value", "", fmt.Sprintf("Go 0x%02x, Python 0x%02x, spec 0x%02x", gv, pv, sp.Opcode))
		default:
			r.held("C16.b", "opcode "+k.Spec, "value", "", fmt.Sprintf("0x%02x on all three sides", gv))
		}
		if rec.Opcode != nil && *rec.Opcode != pyOpName(k.OpConst) {
			r.violated("C16.b", fname+".write", "framing opcode", "python/mcap/mcap/records.py", "record is framed with Opcode."+*rec.Opcode)
		}
	}
	// attachment CRC scope: python crc32(data[9:-4]) == Go: first 9 bytes outside the crc writer, crc bytes written after Checksum()
	if a, ok := py.Records["Attachment"]; ok {
		if len(a.CRCScope) == 2 && fmt.Sprint(a.CRCScope[0]) == "9" && fmt.Sprint(a.CRCScope[1]) == "-4" {
			r.held("C16.a", "python:records.Attachment.write", "attachment crc scope", "python/mcap/mcap/records.py", "crc32 over record[9:-4] (everything after the record length, before the crc)")
		} else {
			r.violated("C16.a", "python:records.Attachment.write", "attachment crc scope", "python/mcap/mcap/records.py", fmt.Sprintf("crc32 scope is %v, the specification says all fields after the record length and before the crc", a.CRCScope))
		}
	}
	// magic
	goMagic := goMagicBytes(p)
	specMagic := specMagicBytes(p)
	if fmt.Sprint(goMagic) == fmt.Sprint(py.Magic) && (specMagic == nil || fmt.Sprint(goMagic) == fmt.Sprint(specMagic)) && len(goMagic) == 8 {
		r.held("C16.b", "magic", "bytes", "", fmt.Sprint(goMagic))
	} else {
		r.violated("C16.b", "magic", "bytes", "", fmt.Sprintf("Go %v, Python %v, spec %v", goMagic, py.Magic, specMagic))
	}
	checkPyOffsets(p, r)
	// Go-side conditions the Python readers / Python-written files depend on
	r.rule("C16.o", "Go indexed reader: chunk slots own their bytes (Python writes uncompressed, overlapping chunks)", 2)
	r.rule("C16.p", "Go writer: a length prefix is computed from the quantity the following loop emits", 2)
	checkPrefixLoops(p, r, "C16.p", pkgMcap)
	r.rule("C16.e", "Go writer: footer summary_start is 0 only when no summary record was written (Python readers locate the summary through it)", 1)
	checkSlotOwnership(p, r, "C16.o")
	// the Python readers validate the CRCs of Go-written files: the Go writer's checksum scopes (C06) are conditions of C16
	r.rule("C16.q", "Go writer: checksum scopes (C06) - validated by the Python readers", 10)
	{
		sub6 := newResult("C16", "sub")
		checkC06(p, sub6)
		for _, o := range sub6.Obls {
			if o.Status == Note {
				continue
			}
			o.Key = strings.Replace(o.Key, o.Rule+" |", "C16.q["+o.Rule+"] |", 1)
			o.Rule = "C16.q"
			r.Obls = append(r.Obls, o)
		}
	}
	spec := sinkSpec()
	R := p.reachSet(spec)
	sub := newResult("C16", "sub")
	checkSummaryOffsetsComplete(p, sub, p.scopeFn(spec, R))
	for _, o := range sub.Obls {
		o.Key = strings.Replace(o.Key, "C05.e |", "C16.e |", 1)
		o.Rule = "C16.e"
		r.Obls = append(r.Obls, o)
	}
}

func goMagicBytes(p *Program) []int {
	for _, f := range p.Pkgs[pkgMcap].Syntax {
		for _, d := range f.Decls {
			gd, ok := d.(*ast.GenDecl)
			if !ok {
				continue
			}
			for _, sp := range gd.Specs {
				vs, ok := sp.(*ast.ValueSpec)
				if !ok || len(vs.Names) != 1 || vs.Names[0].Name != "Magic" || len(vs.Values) != 1 {
					continue
				}
				cl, ok := vs.Values[0].(*ast.CompositeLit)
				if !ok {
					continue
				}
				var out []int
				for _, e := range cl.Elts {
					tv := p.Pkgs[pkgMcap].TypesInfo.Types[e]
					if tv.Value == nil {
						return nil
					}
					v, _ := constant.Int64Val(constant.ToInt(tv.Value))
					out = append(out, int(v))
				}
				return out
			}
		}
	}
	return nil
}

func specMagicBytes(p *Program) []int {
	b, err := os.ReadFile(filepath.Join(p.RepoRoot, "website/docs/spec/index.md"))
	if err != nil {
		return nil
	}
	m := regexp.MustCompile("`0x89, M, C, A, P, 0x30, \\\\r, \\\\n`").FindString(string(b))
	if m == "" {
		return nil
	}
	return []int{0x89, 'M', 'C', 'A', 'P', 0x30, '\r', '\n'}
}

// checkPyOffsets reads writer.py / reader.py structurally (via a tiny helper run of python ast) — kept in Go by
// scanning for the statements we need is brittle, so this uses the same pylayout helper's companion mode.
func checkPyOffsets(p *Program, r *Result) {
	out, err := runPyOffsets(p)
	if err != nil {
		r.undecided("C16.c", "python", "writer.py/reader.py", "", err.Error())
		return
	}
	keys := make([]string, 0, len(out))
	for k := range out {
		keys = append(keys, k)
	}
	sort.Strings(keys)
	for _, k := range keys {
		v := out[k]
		if v.OK {
			r.held("C16.c", "python:"+v.Where, k, v.Where, v.Detail)
		} else {
			r.violated("C16.c", "python:"+v.Where, k, v.Where, v.Detail)
		}
	}
}

var _ = types.Typ
