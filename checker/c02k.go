package main

import (
	"go/types"

	"golang.org/x/tools/go/ssa"
)

// C02.k: positioned reads. The Reader's io.ReadSeeker is shared by every iterator the Reader hands out and by
// GetAttachmentReader/GetMetadata, so its position is not private state of any of them. Every read that a function
// of the index-based path issues on that stream must therefore be preceded, on every path, by an absolute
// positioning (Seek relative to start or end, or a helper that always performs one) in the same function.

// isSharedStream: v is (an interface conversion of) a load of a field named rs of type io.ReadSeeker.
func isSharedStream(v ssa.Value) bool {
	for {
		switch x := v.(type) {
		case *ssa.MakeInterface:
			v = x.X
			continue
		case *ssa.ChangeInterface:
			v = x.X
			continue
		}
		break
	}
	return loadOfField(v, "indexedMessageIterator", "rs") || loadOfField(v, "Reader", "rs")
}

// absoluteSeek: ci is rs.Seek(_, io.SeekStart|io.SeekEnd) on the shared stream.
func absoluteSeek(ci ssa.CallInstruction) bool {
	c := ci.Common()
	if !c.IsInvoke() || c.Method.Name() != "Seek" || len(c.Args) != 2 || !isSharedStream(c.Value) {
		return false
	}
	k, ok := c.Args[1].(*ssa.Const)
	return ok && k.Value != nil && (k.Value.String() == "0" || k.Value.String() == "2")
}

// positioners: repo functions all of whose nil-error returns are preceded by an absolute seek.
func positioners(p *Program) map[*ssa.Function]bool {
	out := map[*ssa.Function]bool{}
	for _, fn := range p.repoFunctions(pkgMcap) {
		if len(fn.Blocks) == 0 {
			continue
		}
		has := false
		for _, in := range instrsOf(fn) {
			if ci, ok := in.(ssa.CallInstruction); ok && absoluteSeek(ci) {
				has = true
			}
		}
		if !has {
			continue
		}
		res := fn.Signature.Results()
		if res.Len() == 0 || !types.Identical(res.At(res.Len()-1).Type(), types.Universe.Lookup("error").Type()) {
			continue
		}
		if allPathsHitBefore(fn.Blocks[0], nil, fn, func(in ssa.Instruction) bool {
			ci, ok := in.(ssa.CallInstruction)
			return ok && absoluteSeek(ci)
		}) {
			out[fn] = true
		}
	}
	return out
}

func checkPositionedReads(p *Program, r *Result) {
	pos := positioners(p)
	isPositioning := func(in ssa.Instruction) bool {
		ci, ok := in.(ssa.CallInstruction)
		if !ok {
			return false
		}
		if absoluteSeek(ci) {
			return true
		}
		f := ci.Common().StaticCallee()
		return f != nil && pos[f]
	}
	n := 0
	for _, fn := range p.repoFunctions(pkgMcap) {
		var seeks []ssa.Instruction
		for _, in := range instrsOf(fn) {
			if isPositioning(in) {
				seeks = append(seeks, in)
			}
		}
		seen := map[string]int{}
		for _, in := range instrsOf(fn) {
			ci, ok := in.(ssa.CallInstruction)
			if !ok {
				continue
			}
			c := ci.Common()
			use := ""
			if c.IsInvoke() && isSharedStream(c.Value) && c.Method.Name() != "Seek" {
				use = "rs." + c.Method.Name()
			}
			for _, a := range c.Args {
				if isSharedStream(a) && !(c.IsInvoke() && c.Method.Name() == "Seek") {
					use = staticCalleeName(c) + "(rs)"
					if use == "(rs)" {
						use = "call(rs)"
					}
				}
			}
			if use == "" {
				continue
			}
			n++
			construct := "read of the shared stream: " + use
			seen[construct]++
			if k := seen[construct]; k > 1 {
				construct += "#" + itoa(k-1)
			}
			ok = false
			for _, s := range seeks {
				if instrDominates(s, in) {
					ok = true
				}
			}
			if !ok && p.transparent(fn) {
				// the positioning may be the caller's job: an unexported helper is fine when every one of its call sites is
				// preceded by one
				ok = precededBy(p, in, func(c2 ssa.CallInstruction) bool { return isPositioning(c2) }, 2)
			}
			if ok {
				r.held("C02.k", funcName(fn), construct, p.pos(in.Pos()), "preceded on every path by an absolute seek of the shared stream")
			} else {
				r.violated("C02.k", funcName(fn), construct, p.pos(in.Pos()),
					"this read of the Reader's shared io.ReadSeeker is not preceded on every path by an absolute seek in this function; the stream position is shared with other iterators, "+
						"GetAttachmentReader and GetMetadata (and is left mid-record by a failed read), so the bytes read here need not be the record the index entry designates")
			}
		}
	}
	if n == 0 {
		r.undecided("C02.k", "mcap", "reads of the shared stream", "", "no read of an rs field found; the rule's anchor moved")
	}
}
