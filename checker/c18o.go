package main

import (
	"go/types"

	"golang.org/x/tools/go/ssa"
)

// C18.o: the MCAP writer keeps the *Channel (and *Schema) records it is handed and writes them again in the summary
// when the file is closed. A map or slice placed in such a record inside a loop must therefore be created in that
// iteration; one container allocated before the loop and refilled per topic ends up, at Close, in every channel with
// the last topic's contents.
func checkPerIterationContainers(p *Program, r *Result, rule string, fns []*ssa.Function) {
	n := 0
	for _, fn := range fns {
		hdr := loopHeaders(fn)
		if len(hdr) == 0 {
			continue
		}
		for _, in := range instrsOf(fn) {
			st, ok := in.(*ssa.Store)
			if !ok {
				continue
			}
			tn, f, _, ok := fieldRef(st.Addr)
			if !ok || (tn != "Channel" && tn != "Schema" && tn != "Metadata" && tn != "Attachment") {
				continue
			}
			switch st.Val.Type().Underlying().(type) {
			case *types.Map, *types.Slice:
			default:
				continue
			}
			// loops that contain the store
			var loops []*ssa.BasicBlock
			for h := range hdr {
				if h.Dominates(st.Block()) && reachableFromSuccs(st.Block())[h] {
					loops = append(loops, h)
				}
			}
			if len(loops) == 0 {
				continue
			}
			n++
			construct := "container stored into " + tn + "." + f + " inside a loop"
			var mk ssa.Instruction
			switch x := st.Val.(type) {
			case *ssa.MakeMap:
				mk = x
			case *ssa.MakeSlice:
				mk = x
			}
			if mk == nil {
				r.held(rule, funcName(fn), construct, p.pos(st.Pos()), "not a container made in this function (call result / input data)")
				continue
			}
			outside := false
			for _, h := range loops {
				if !h.Dominates(mk.Block()) || mk.Block() == h && false {
					outside = true
				}
			}
			if outside {
				r.violated(rule, funcName(fn), construct, p.pos(st.Pos()),
					"the container is allocated once, before the loop, and reused for every record; the writer retains the records and re-emits them at Close, when they all share the last iteration's contents")
			} else {
				r.held(rule, funcName(fn), construct, p.pos(st.Pos()), "allocated in the same iteration")
			}
		}
	}
	if n == 0 {
		r.held(rule, "ros", "records built in loops", "", "no map/slice made by the converter is stored into a retained record inside a loop")
	}
}
