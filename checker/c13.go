package main

import (
	"go/ast"
	"go/token"
	"go/types"
	"strings"

	"golang.org/x/tools/go/ssa"
)

func init() { register("C13", true, checkC13) }

var ambientCalls = map[string]string{
	"time.Now": "wall clock", "time.Since": "wall clock", "time.Until": "wall clock",
	"os.Getenv": "environment", "os.LookupEnv": "environment", "os.Environ": "environment", "os.Hostname": "host name",
	"os.Getpid": "process id", "os.Getppid": "process id", "os.Getuid": "user id",
	"runtime.NumCPU": "CPU count", "runtime.GOMAXPROCS": "scheduler width", "runtime.NumGoroutine": "goroutine count",
}

func pkgOfCallee(f *ssa.Function) string {
	if f == nil || f.Pkg == nil {
		return ""
	}
	return f.Pkg.Pkg.Path()
}

func checkC13(p *Program, r *Result) {
	r.Explanation = "Structural necessary conditions of 'writer output is a deterministic function of options and calls', over every go/mcap function reachable from NewWriter and the Writer methods: " +
		"(C13.a) the body of every range over a map performs only order-insensitive work (commutative integer accumulation, collecting keys into a local slice that is sorted before any other use, " +
		"insertion into another map, reset-like calls on the iterated value) and calls nothing else; " +
		"(C13.b) no clock, randomness, environment, CPU/goroutine count, goroutine start or select is used; " +
		"(C13.c) no function of go/mcap stores to a package-level variable or through the backing array of one, and no package-level variable is used other than by plain load. " +
		"Decided on typed ASTs and go/ssa."
	r.NotDecided = []string{
		"determinism of klauspost/compress (zstd) and pierrec/lz4 encoders (third-party, trusted)",
		"data races between independent instances beyond shared package state (no points-to analysis available)",
	}
	r.rule("C13.a", "map iteration order never reaches writer output", 2)
	r.rule("C13.b", "no ambient input (clock, randomness, environment, CPU count, goroutines, select) in writer code", 30)
	r.rule("C13.c", "no shared mutable package state in go/mcap", 5)
	r.rule("C13.d", "(note) option aliasing", 0)

	scope := writerScope(p)
	info := p.Pkgs[pkgMcap].TypesInfo
	for _, fn := range sortedFuncs(scope) {
		fname := funcName(fn)
		r.Funcs[fname] = true
		// ---- C13.b
		bad := false
		for _, in := range instrsOf(fn) {
			switch x := in.(type) {
			case *ssa.Go:
				r.violated("C13.b", fname, "go statement", p.pos(x.Pos()), "writer code starts a goroutine; output may depend on scheduling")
				bad = true
			case *ssa.Select:
				r.violated("C13.b", fname, "select statement", p.pos(x.Pos()), "writer code selects on channels; output may depend on scheduling")
				bad = true
			case ssa.CallInstruction:
				name := staticCalleeName(x.Common())
				if why, ok := ambientCalls[name]; ok {
					r.violated("C13.b", fname, "call "+name, p.pos(x.Pos()), "writer code reads an ambient input ("+why+")")
					bad = true
				}
				pk := pkgOfCallee(x.Common().StaticCallee())
				if pk == "math/rand" || pk == "math/rand/v2" || pk == "crypto/rand" {
					r.violated("C13.b", fname, "call "+name, p.pos(x.Pos()), "writer code uses randomness")
					bad = true
				}
				if pk == "maps" && (strings.HasSuffix(name, ".Keys") || strings.HasSuffix(name, ".Values") || strings.HasSuffix(name, ".All")) {
					r.violated("C13.a", fname, "call "+name, p.pos(x.Pos()), "map iteration through package maps yields keys in random order")
					bad = true
				}
			case *ssa.Convert:
				if b, ok := x.Type().Underlying().(*types.Basic); ok && b.Kind() == types.Uintptr {
					if _, isPtr := x.X.Type().Underlying().(*types.Basic); isPtr && x.X.Type().Underlying().(*types.Basic).Kind() == types.UnsafePointer {
						r.violated("C13.b", fname, "pointer to integer conversion", p.pos(x.Pos()), "an address flows into a value")
						bad = true
					}
				}
			}
		}
		if !bad {
			r.held("C13.b", fname, "no ambient input", p.pos(fn.Pos()), "no clock/randomness/environment/CPU-count call, go statement or select")
		}
		// ---- C13.a
		syn := fn.Syntax()
		if syn == nil {
			continue
		}
		var body *ast.BlockStmt
		switch d := syn.(type) {
		case *ast.FuncDecl:
			body = d.Body
		case *ast.FuncLit:
			body = d.Body
		}
		if body == nil {
			continue
		}
		ast.Inspect(body, func(n ast.Node) bool {
			if _, isLit := n.(*ast.FuncLit); isLit && n != syn {
				return false // closures are analysed as their own functions
			}
			rs, ok := n.(*ast.RangeStmt)
			if !ok {
				return true
			}
			tv, ok := info.Types[rs.X]
			if !ok {
				return true
			}
			if _, isMap := tv.Type.Underlying().(*types.Map); !isMap {
				return true
			}
			construct := "range over map " + types.ExprString(rs.X)
			if why := mapRangeOrderSensitive(p, info, body, rs); why != "" {
				r.violated("C13.a", fname, construct, p.pos(rs.Pos()), "map iteration order can reach the output: "+why)
			} else {
				r.held("C13.a", fname, construct, p.pos(rs.Pos()), "loop body is order-insensitive (accumulation / collect-then-sort / reset-like calls only)")
			}
			return true
		})
	}

	// ---- C13.c over the whole package (readers and writers share the process)
	nGlobals := 0
	for _, m := range p.SSAPkgs[pkgMcap].Members {
		if g, ok := m.(*ssa.Global); ok && !strings.HasPrefix(g.Name(), "init$") {
			nGlobals++
			_ = g
		}
	}
	r.Extra["package_level_variables"] = nGlobals
	for _, fn := range p.repoFunctions(pkgMcap) {
		fname := funcName(fn)
		if fn.Name() == "init" || strings.HasPrefix(fn.Name(), "init#") {
			continue
		}
		for _, in := range instrsOf(fn) {
			for _, opp := range in.Operands(nil) {
				g, ok := (*opp).(*ssa.Global)
				if !ok || g.Pkg == nil || g.Pkg.Pkg.Path() != pkgMcap {
					continue
				}
				construct := "use of package variable " + g.Name()
				if u, ok := in.(*ssa.UnOp); ok && u.Op == token.MUL {
					if why := globalValueMutated(u); why != "" {
						r.violated("C13.c", fname, construct, p.pos(in.Pos()), "the value loaded from package variable "+g.Name()+" is mutated: "+why)
					} else {
						r.held("C13.c", fname, construct, p.pos(in.Pos()), "plain load; the loaded value is only read")
					}
					continue
				}
				if st, ok := in.(*ssa.Store); ok && st.Addr == ssa.Value(g) {
					r.violated("C13.c", fname, "store to package variable "+g.Name(), p.pos(in.Pos()), "package-level state is written at run time; independent writers/readers in one process would share it")
					continue
				}
				if onlyReadThrough(in) {
					r.held("C13.c", fname, construct, p.pos(in.Pos()), "element/field address used for loads only")
					continue
				}
				r.violated("C13.c", fname, construct+" by address", p.pos(in.Pos()), "address of a package-level variable escapes into "+strings.SplitN(in.String(), "\n", 2)[0]+"; shared mutable state")
			}
		}
	}

	// ---- C13.e: the compressor's output buffer is only looked at after the compressor was closed (flush). zstd
	// compresses blocks on background goroutines; the amount already emitted into the buffer at any earlier moment
	// depends on GOMAXPROCS and scheduling.
	r.rule("C13.m", "Writer methods do not modify or reorder the records they are handed", 1)
	checkWriterDoesNotMutateInputs(p, r, "C13.m")
	r.rule("C13.e", "compressor output is only observed after Close", 1)
	nObs, nBad := 0, 0
	for _, fn := range sortedFuncs(scope) {
		for _, ci := range callsIn(fn, func(ssa.CallInstruction) bool { return true }) {
			if recvFieldOfCall(ci) != "Writer.compressed" {
				continue
			}
			name := calleeRepoName(ci)
			if !(strings.HasSuffix(name, ".Len") || strings.HasSuffix(name, ".Bytes") || strings.HasSuffix(name, ".Cap") || strings.HasSuffix(name, ".String") || strings.HasSuffix(name, ".Available")) {
				continue
			}
			nObs++
			closed := precededBy(p, ci, func(c ssa.CallInstruction) bool { return calleeRepoName(c) == "mcap.countingCRCWriter.Close" }, 3)
			if closed {
				r.held("C13.e", funcName(fn), "observation of the compressed buffer ("+trimPkg(name)+")", p.pos(ci.Pos()), "after the compressor was closed")
			} else {
				nBad++
				r.violated("C13.e", funcName(fn), "observation of the compressed buffer ("+trimPkg(name)+")", p.pos(ci.Pos()),
					"the compressor's output buffer is inspected while the compressor is still open; how much has been emitted so far depends on the encoder's background goroutines (GOMAXPROCS, scheduling) — and it is an unsynchronised read")
			}
		}
	}
	if nObs == 0 {
		r.undecided("C13.e", "mcap.Writer", "observation of the compressed buffer", "", "no read of Writer.compressed found")
	}
	// ---- C13.d note
	if nw := p.lookupFunc(pkgMcap, "NewWriter"); nw != nil {
		for _, st := range fieldStores(nw, "WriterOptions", "Compression") {
			r.note("C13.d", funcName(nw), "store to *opts", p.pos(st.Pos()), "NewWriter mutates the caller's options value; independent instances must own their options")
		}
	}
}

// globalValueMutated: the loaded slice/map/pointer is written through.
func globalValueMutated(load *ssa.UnOp) string {
	seen := map[ssa.Value]bool{}
	why := ""
	var walk func(v ssa.Value)
	walk = func(v ssa.Value) {
		if seen[v] || why != "" || v.Referrers() == nil {
			return
		}
		seen[v] = true
		for _, ref := range *v.Referrers() {
			switch x := ref.(type) {
			case *ssa.IndexAddr:
				if x.X == v {
					walk(x)
				}
			case *ssa.Slice:
				if x.X == v {
					walk(x)
				}
			case *ssa.FieldAddr:
				if x.X == v {
					walk(x)
				}
			case *ssa.Store:
				if x.Addr == v {
					why = "store through it"
				}
			case *ssa.MapUpdate:
				if x.Map == v {
					why = "map update"
				}
			case ssa.CallInstruction:
				if b, ok := x.Common().Value.(*ssa.Builtin); ok && b.Name() == "copy" && len(x.Common().Args) > 0 && x.Common().Args[0] == v {
					why = "copy into it"
				}
			}
		}
	}
	walk(load)
	return why
}

// mapRangeOrderSensitive returns "" if the loop body is order-insensitive, else the reason.
func mapRangeOrderSensitive(p *Program, info *types.Info, fnBody *ast.BlockStmt, rs *ast.RangeStmt) string {
	var valObj types.Object
	if id, ok := rs.Value.(*ast.Ident); ok && id.Name != "_" {
		valObj = info.ObjectOf(id)
	}
	collected := map[types.Object]bool{}
	reason := ""
	var checkStmt func(s ast.Stmt)
	checkExprCalls := func(e ast.Expr) {
		ast.Inspect(e, func(n ast.Node) bool {
			ce, ok := n.(*ast.CallExpr)
			if !ok || reason != "" {
				return true
			}
			if tv, ok := info.Types[ce.Fun]; ok && tv.IsType() {
				return true // conversion
			}
			if id, ok := ce.Fun.(*ast.Ident); ok {
				if _, isB := info.ObjectOf(id).(*types.Builtin); isB {
					switch id.Name {
					case "len", "cap", "append", "delete", "min", "max":
						return true
					}
				}
			}
			// reset-like method on the iterated value
			if sel, ok := ce.Fun.(*ast.SelectorExpr); ok && valObj != nil {
				if id, ok := sel.X.(*ast.Ident); ok && info.ObjectOf(id) == valObj {
					if fobj, ok := info.ObjectOf(sel.Sel).(*types.Func); ok && resetLike(p, fobj) {
						return true
					}
				}
			}
			// ... or on the element looked up by the iterated key: m[k].Reset()
			if sel, ok := ce.Fun.(*ast.SelectorExpr); ok {
				if ix, ok := sel.X.(*ast.IndexExpr); ok && types.ExprString(ix.X) == types.ExprString(rs.X) {
					if kid, ok := ix.Index.(*ast.Ident); ok && rs.Key != nil {
						if rk, ok := rs.Key.(*ast.Ident); ok && info.ObjectOf(kid) == info.ObjectOf(rk) {
							if fobj, ok := info.ObjectOf(sel.Sel).(*types.Func); ok && resetLike(p, fobj) {
								return true
							}
						}
					}
				}
			}
			reason = "the loop body calls " + types.ExprString(ce.Fun) + ", which is not known to be order-insensitive"
			return false
		})
	}
	checkStmt = func(s ast.Stmt) {
		if reason != "" {
			return
		}
		switch x := s.(type) {
		case *ast.AssignStmt:
			for _, e := range x.Rhs {
				checkExprCalls(e)
			}
			switch x.Tok {
			case token.ADD_ASSIGN, token.OR_ASSIGN, token.AND_ASSIGN, token.XOR_ASSIGN, token.MUL_ASSIGN:
				if len(x.Lhs) == 1 {
					if b, ok := info.TypeOf(x.Lhs[0]).Underlying().(*types.Basic); ok && b.Info()&types.IsInteger != 0 {
						return
					}
				}
				reason = "non-integer accumulation " + types.ExprString(x.Lhs[0])
			case token.ASSIGN, token.DEFINE:
				for i, lhs := range x.Lhs {
					// m2[k] = v : building another map
					if ix, ok := lhs.(*ast.IndexExpr); ok {
						if _, isMap := info.TypeOf(ix.X).Underlying().(*types.Map); isMap {
							continue
						}
					}
					// s = append(s, key-or-value)
					if i < len(x.Rhs) {
						if ce, ok := x.Rhs[i].(*ast.CallExpr); ok {
							if id, ok := ce.Fun.(*ast.Ident); ok && id.Name == "append" && len(ce.Args) >= 1 {
								if lid, ok := lhs.(*ast.Ident); ok {
									if aid, ok := ce.Args[0].(*ast.Ident); ok && info.ObjectOf(aid) == info.ObjectOf(lid) {
										collected[info.ObjectOf(lid)] = true
										continue
									}
								}
							}
						}
					}
					if x.Tok == token.DEFINE {
						continue // fresh per-iteration local
					}
					if id, ok := lhs.(*ast.Ident); ok && id.Name == "_" {
						continue
					}
					reason = "assignment to " + types.ExprString(lhs) + " depends on which entry is visited last"
				}
			default:
				reason = "assignment " + x.Tok.String() + " to " + types.ExprString(x.Lhs[0])
			}
		case *ast.IncDecStmt:
			return
		case *ast.ExprStmt:
			checkExprCalls(x.X)
		case *ast.IfStmt:
			if x.Init != nil {
				checkStmt(x.Init)
			}
			checkExprCalls(x.Cond)
			for _, s := range x.Body.List {
				checkStmt(s)
			}
			if x.Else != nil {
				checkStmt(x.Else)
			}
		case *ast.BlockStmt:
			for _, s := range x.List {
				checkStmt(s)
			}
		case *ast.BranchStmt:
			if x.Tok == token.BREAK || x.Tok == token.GOTO {
				reason = "early exit from the loop selects an arbitrary entry"
			}
		case *ast.ReturnStmt:
			reason = "return inside the loop selects an arbitrary entry"
		case *ast.DeclStmt, *ast.EmptyStmt:
		default:
			reason = "statement form not recognised as order-insensitive"
		}
	}
	for _, s := range rs.Body.List {
		checkStmt(s)
	}
	if reason != "" {
		return reason
	}
	// every collected slice must be sorted before any other use after the loop
	for obj := range collected {
		if why := sortedBeforeUse(info, fnBody, rs, obj); why != "" {
			return why
		}
	}
	return ""
}

var sortAPIs = map[string]bool{
	"sort.Strings": true, "sort.Ints": true, "sort.Slice": true, "sort.SliceStable": true, "sort.Sort": true, "sort.Stable": true,
	"slices.Sort": true, "slices.SortFunc": true, "slices.SortStableFunc": true,
}

func sortedBeforeUse(info *types.Info, fnBody *ast.BlockStmt, rs *ast.RangeStmt, obj types.Object) string {
	firstUse := ""
	done := false
	ast.Inspect(fnBody, func(n ast.Node) bool {
		if done || n == nil {
			return false
		}
		if n.Pos() >= rs.Pos() && n.End() <= rs.End() {
			return false
		}
		if n.End() <= rs.End() {
			return true
		}
		if ce, ok := n.(*ast.CallExpr); ok {
			if sel, ok := ce.Fun.(*ast.SelectorExpr); ok {
				if pk, ok := sel.X.(*ast.Ident); ok {
					if pn, ok := info.ObjectOf(pk).(*types.PkgName); ok && sortAPIs[pn.Imported().Path()+"."+sel.Sel.Name] && len(ce.Args) > 0 {
						if id, ok := ce.Args[0].(*ast.Ident); ok && info.ObjectOf(id) == obj {
							done = true
							return false
						}
					}
				}
			}
			if id, ok := ce.Fun.(*ast.Ident); ok && (id.Name == "len" || id.Name == "cap") {
				return false
			}
		}
		if id, ok := n.(*ast.Ident); ok && info.ObjectOf(id) == obj && n.Pos() > rs.End() {
			firstUse = "slice " + obj.Name() + " collected from the map is used before being sorted"
			done = true
		}
		return true
	})
	return firstUse
}

// resetLike: the method's body only stores constants into fields of its receiver and calls nothing.
func resetLike(p *Program, fobj *types.Func) bool {
	fn := p.SSA.FuncValue(fobj)
	if fn == nil || fn.Blocks == nil {
		return false
	}
	for _, in := range instrsOf(fn) {
		switch x := in.(type) {
		case *ssa.Store:
			if _, ok := x.Val.(*ssa.Const); !ok {
				return false
			}
			fa, ok := x.Addr.(*ssa.FieldAddr)
			if !ok || len(fn.Params) == 0 || fa.X != ssa.Value(fn.Params[0]) {
				return false
			}
		case ssa.CallInstruction:
			return false
		case *ssa.MapUpdate, *ssa.Send, *ssa.Go, *ssa.Defer:
			return false
		}
	}
	return true
}

// onlyReadThrough: in computes an element or field address (of a package variable) that is only ever loaded from.
func onlyReadThrough(in ssa.Instruction) bool {
	var ok func(v ssa.Value, depth int) bool
	ok = func(v ssa.Value, depth int) bool {
		if depth > 4 || v.Referrers() == nil {
			return false
		}
		for _, ref := range *v.Referrers() {
			switch x := ref.(type) {
			case *ssa.UnOp:
				if x.Op != token.MUL {
					return false
				}
			case *ssa.IndexAddr:
				if x.X != v || !ok(x, depth+1) {
					return false
				}
			case *ssa.FieldAddr:
				if !ok(x, depth+1) {
					return false
				}
			case *ssa.DebugRef:
			default:
				return false
			}
		}
		return true
	}
	switch x := in.(type) {
	case *ssa.IndexAddr:
		return ok(x, 0)
	case *ssa.FieldAddr:
		return ok(x, 0)
	}
	return false
}
