#!/usr/bin/env python3
"""Extract record layouts from the repository's Python sources WITHOUT importing or running them
(ast.parse only). Output: JSON on stdout.

  {"records": {"Schema": {"opcode": "SCHEMA", "write": [tok...], "read": [tok...]}, ...},
   "opcodes": {"SCHEMA": 3, ...}, "magic": [137, 77, ...], "problems": [...]}

tok = {"kind": "u8|u16|u32|u64|raw|seq", "field": "<name>|#len(name)|#bytelen(name)|#skip|#derived", "sub": [tok...]}
"""
import ast, json, os, sys

root = sys.argv[1] if len(sys.argv) > 1 else "/repo"
base = os.path.join(root, "python/mcap/mcap")
problems = []


def parse(name):
    with open(os.path.join(base, name)) as f:
        return ast.parse(f.read(), name)


# ---- widths of the stream primitives, from the struct format strings in data_stream.py
FMT = {"B": "u8", "H": "u16", "I": "u32", "Q": "u64", "b": "u8", "h": "u16", "i": "u32", "q": "u64"}
ds = parse("data_stream.py")
prim = {}  # method name -> kind ("u32") for fixed-width; handled methods with bodies are inlined
methods = {}
for node in ast.walk(ds):
    if isinstance(node, ast.ClassDef):
        for fn in node.body:
            if isinstance(fn, ast.FunctionDef):
                methods[fn.name] = fn
                fmts = [c.args[0].value for c in ast.walk(fn) if isinstance(c, ast.Call) and isinstance(c.func, ast.Attribute)
                        and c.func.attr in ("pack", "unpack") and c.args and isinstance(c.args[0], ast.Constant) and isinstance(c.args[0].value, str)]
                if len(fmts) == 1 and len(fn.body) <= 3:
                    f = fmts[0]
                    if len(f) == 2 and f[0] == "<" and f[1] in FMT:
                        prim[fn.name] = FMT[f[1]]
                    elif f[0] != "<":
                        problems.append(f"data_stream.{fn.name}: struct format {f!r} is not little-endian")


modfuncs = {}  # module-level helper functions of records.py that take the stream as first parameter


def subst_field(f, sub):
    if f in sub:
        return sub[f]
    for pre in ("#len(", "#bytelen("):
        if f.startswith(pre) and f[len(pre):-1] in sub:
            return pre + sub[f[len(pre):-1]] + ")"
    return f


def subst_toks(toks, sub):
    out_ = []
    for t in toks:
        nt = dict(t)
        nt["field"] = subst_field(t["field"], sub)
        if "len" in t:
            nt["len"] = sub.get(t["len"], t["len"])
        if "sub" in t:
            nt["sub"] = subst_toks(t["sub"], sub)
        out_.append(nt)
    return out_


def mod_call(e, recv_names):
    """returns (funcdef, args) if e is helper(<stream>, args...) for a module-level helper"""
    if isinstance(e, ast.Call) and isinstance(e.func, ast.Name) and e.func.id in modfuncs and e.args \
            and isinstance(e.args[0], ast.Name) and e.args[0].id in recv_names:
        return modfuncs[e.func.id], e.args
    return None, None


def name_of(e):
    """self.x -> x ; x -> x ; len(self.x) -> #len(x)"""
    if isinstance(e, ast.Attribute) and isinstance(e.value, ast.Name) and e.value.id == "self":
        return e.attr
    if isinstance(e, ast.Name):
        return e.id
    if isinstance(e, ast.Call) and isinstance(e.func, ast.Name) and e.func.id == "len" and e.args:
        inner = name_of(e.args[0])
        if inner and not inner.startswith("#"):
            return f"#len({inner})"
    if isinstance(e, ast.Call) and isinstance(e.func, ast.Attribute) and e.func.attr in ("encode", "items", "keys", "values"):
        return name_of(e.func.value)
    if isinstance(e, ast.Call) and isinstance(e.func, ast.Name) and e.func.id in ("str", "bytes", "memoryview", "int") and e.args:
        return name_of(e.args[0])
    return "#derived"


def stream_call(e, recv_names):
    """returns (method, args) if e is <stream>.<method>(args)"""
    if isinstance(e, ast.Call) and isinstance(e.func, ast.Attribute) and isinstance(e.func.value, ast.Name) and e.func.value.id in recv_names:
        return e.func.attr, e.args
    return None, None


def write_toks(stmts, recv_names, subst=None):
    toks = []
    for st in stmts:
        if isinstance(st, ast.Expr):
            hf, hargs = mod_call(st.value, recv_names)
            if hf is not None:
                params = [a.arg for a in hf.args.args]
                sub = {p_: name_of(a) for p_, a in zip(params[1:], hargs[1:])}
                inner = write_toks(hf.body, {params[0]}, None)
                # a length local written before the repetition is named by normalise() at the end; keep it as it is
                toks += subst_toks(inner, sub)
                continue
            m, args = stream_call(st.value, recv_names)
            if m is None:
                continue
            if m in prim:
                f = name_of(args[0]) if args else "#derived"
                if subst and f in subst:
                    f = subst[f]
                toks.append({"kind": prim[m], "field": f})
            elif m == "write":
                f = name_of(args[0]) if args else "#derived"
                if subst and f in subst:
                    f = subst[f]
                toks.append({"kind": "raw", "field": f})
            elif m in ("start_record", "finish_record", "end"):
                if m == "start_record" and args and isinstance(args[0], ast.Attribute):
                    toks.append({"kind": "opcode", "field": args[0].attr})
            elif m in methods:
                # inline a composite helper (write_prefixed_string): parameters substituted by the argument's name
                fn = methods[m]
                params = [a.arg for a in fn.args.args[1:]]
                sub = {}
                for p_, a in zip(params, args):
                    sub[p_] = name_of(a)
                # locals assigned from a parameter (encoded = value.encode())
                for s2 in fn.body:
                    if isinstance(s2, ast.Assign) and len(s2.targets) == 1 and isinstance(s2.targets[0], ast.Name):
                        src = name_of(s2.value)
                        if src in sub:
                            sub[s2.targets[0].id] = sub[src]
                        elif src.startswith("#len(") and src[5:-1] in sub:
                            sub[s2.targets[0].id] = f"#len({sub[src[5:-1]]})"
                inner = write_toks(fn.body, {"self"}, None)
                for t in inner:
                    f = t["field"]
                    if f in sub:
                        f = sub[f]
                    elif f.startswith("#len(") and f[5:-1] in sub:
                        f = f"#len({sub[f[5:-1]]})"
                    toks.append({"kind": t["kind"], "field": f})
            else:
                problems.append(f"unrecognised stream call {m}")
        elif isinstance(st, ast.For):
            inner = write_toks(st.body, recv_names)
            if inner:
                toks.append({"kind": "seq", "field": name_of(st.iter), "sub": inner})
        elif isinstance(st, (ast.If, ast.With)):
            toks += write_toks(st.body, recv_names)
    return toks


def normalise(toks):
    for i in range(len(toks) - 1):
        a, b = toks[i], toks[i + 1]
        if b["kind"] == "seq" and a["kind"] not in ("seq", "raw", "opcode"):
            a["field"] = f"#bytelen({b['field']})"
        if b["kind"] == "raw" and a["kind"] not in ("seq", "raw", "opcode") and a["field"].startswith("#") and not a["field"].startswith("#len("):
            a["field"] = f"#len({b['field']})"
    return toks


def read_toks(fn, stream_name="stream"):
    """sequence of reads; variable -> field through the constructor call in the return statement"""
    toks, binds = [], {}

    def walk(stmts, toks):
        for st in stmts:
            if isinstance(st, (ast.Assign, ast.AnnAssign)):
                tgt = st.targets[0] if isinstance(st, ast.Assign) else st.target
                val = st.value
                if val is None:
                    continue
                hf, hargs = mod_call(val, {stream_name})
                if hf is not None and isinstance(tgt, ast.Name):
                    params = [a.arg for a in hf.args.args]
                    itoks, ibinds, _ = read_toks(hf, params[0])
                    ret = None
                    for s2 in hf.body:
                        if isinstance(s2, ast.Return) and isinstance(s2.value, ast.Name):
                            ret = s2.value.id
                    sub = {}
                    if ret:
                        sub[ret] = tgt.id
                    for k_, v_ in ibinds.items():
                        if v_ == ret:
                            sub[k_] = tgt.id
                    toks += subst_toks(itoks, sub)
                    continue
                calls = [c for c in ast.walk(val) if isinstance(c, ast.Call)]
                hit = False
                for c in calls:
                    m, args = stream_call(c, {stream_name})
                    if m is None:
                        continue
                    hit = True
                    var = tgt.id if isinstance(tgt, ast.Name) else "#derived"
                    if m in prim.values() or m in rprim:
                        toks.append({"kind": rprim[m], "field": var})
                    elif m == "read":
                        toks.append({"kind": "raw", "field": var, "len": name_of(args[0]) if args else ""})
                    elif m in rcomposite:
                        for t in rcomposite[m]:
                            toks.append({"kind": t["kind"], "field": t["field"].replace("$v", var)})
                    else:
                        problems.append(f"unrecognised stream read {m}")
                if not hit and isinstance(tgt, ast.Name) and isinstance(val, ast.Name):
                    binds[tgt.id] = val.id
            elif isinstance(st, ast.Expr):
                m, args = stream_call(st.value, {stream_name})
                if m in rprim:
                    toks.append({"kind": rprim[m], "field": "#skip"})
            elif isinstance(st, ast.While):
                inner = []
                walk(st.body, inner)
                coll = "#derived"
                for s2 in ast.walk(st):
                    if isinstance(s2, ast.Assign) and isinstance(s2.targets[0], ast.Subscript) and isinstance(s2.targets[0].value, ast.Name):
                        coll = s2.targets[0].value.id
                    if isinstance(s2, ast.Call) and isinstance(s2.func, ast.Attribute) and s2.func.attr == "append" and isinstance(s2.func.value, ast.Name):
                        coll = s2.func.value.id
                if inner:
                    toks.append({"kind": "seq", "field": coll, "sub": inner})
            elif isinstance(st, ast.Return) and isinstance(st.value, ast.Call):
                call = st.value
                for kw in call.keywords:
                    if isinstance(kw.value, ast.Name):
                        binds[kw.value.id] = kw.arg
                ret_pos.extend([a.id if isinstance(a, ast.Name) else None for a in call.args])

    ret_pos = []
    walk(fn.body, toks)
    return toks, binds, ret_pos


# reader primitives from ReadDataStream
rprim = {n: k for n, k in prim.items() if n.startswith("read")}
rcomposite = {}
for n, fn in methods.items():
    if n.startswith("read_") and n not in rprim:
        # read_prefixed_string: length = self.read4(); return str(self.read(length), "utf-8")
        kinds = []
        for c in ast.walk(fn):
            m, _ = stream_call(c, {"self"})
            if m in rprim:
                kinds.append(rprim[m])
        if len(kinds) == 1:
            rcomposite[n] = [{"kind": kinds[0], "field": "#len($v)"}, {"kind": "raw", "field": "$v"}]

rec = parse("records.py")
for node in rec.body:
    if isinstance(node, ast.FunctionDef) and node.args.args:
        modfuncs[node.name] = node
out = {}
for node in rec.body:
    if not isinstance(node, ast.ClassDef):
        continue
    fields = [s.target.id for s in node.body if isinstance(s, ast.AnnAssign) and isinstance(s.target, ast.Name)]
    entry = {}
    for fn in node.body:
        if not isinstance(fn, ast.FunctionDef):
            continue
        if fn.name == "write":
            recv = {fn.args.args[1].arg} if len(fn.args.args) > 1 else {"stream"}
            # a record assembled in a local RecordBuilder (Attachment): the builder's calls are the record
            for s2 in fn.body:
                if isinstance(s2, ast.Assign) and isinstance(s2.value, ast.Call) and isinstance(s2.value.func, ast.Name) and s2.value.func.id == "RecordBuilder":
                    recv = {s2.targets[0].id}
            for c in ast.walk(fn):
                if isinstance(c, ast.Call) and isinstance(c.func, ast.Attribute) and c.func.attr == "crc32" and c.args and isinstance(c.args[0], ast.Subscript):
                    sl = c.args[0].slice
                    if isinstance(sl, ast.Slice):
                        def cv(e):
                            if e is None: return None
                            if isinstance(e, ast.Constant): return e.value
                            if isinstance(e, ast.UnaryOp) and isinstance(e.op, ast.USub) and isinstance(e.operand, ast.Constant): return -e.operand.value
                            return "?"
                        entry["crc_scope"] = [cv(sl.lower), cv(sl.upper)]
            toks = normalise(write_toks(fn.body, recv))
            ops = [t["field"] for t in toks if t["kind"] == "opcode"]
            entry["opcode"] = ops[0] if ops else None
            entry["write"] = [t for t in toks if t["kind"] != "opcode"]
        if fn.name == "read":
            toks, binds, ret_pos = read_toks(fn)
            for i, v in enumerate(ret_pos):
                if v and i < len(fields):
                    binds[v] = fields[i]
            # resolve chains a -> b -> field
            def resolve(v):
                seen = set()
                while v in binds and v not in seen:
                    seen.add(v)
                    v = binds[v]
                return v
            named = []
            lens = {}
            for t in toks:
                f = t["field"]
                if t["kind"] == "raw" and t.get("len"):
                    lens[t["len"]] = resolve(f)
            for t in toks:
                f = t["field"]
                if f.startswith("#len("):
                    f = f"#len({resolve(f[5:-1])})"
                elif f in lens and t["kind"] not in ("raw", "seq"):
                    f = f"#len({lens[f]})"
                elif not f.startswith("#"):
                    f = resolve(f)
                nt = {"kind": t["kind"], "field": f}
                if "sub" in t:
                    nt["sub"] = t["sub"]
                named.append(nt)
            entry["read"] = normalise(named)
    if entry:
        entry["fields"] = fields
        out[node.name] = entry

opc = {}
for node in ast.walk(parse("opcode.py")):
    if isinstance(node, ast.ClassDef):
        for s in node.body:
            if isinstance(s, ast.Assign) and isinstance(s.targets[0], ast.Name) and isinstance(s.value, ast.Constant):
                opc[s.targets[0].id] = s.value.value

magic = None
for fname in ("stream_reader.py", "writer.py", "reader.py", "_magic.py", "records.py"):
    try:
        tree = parse(fname)
    except OSError:
        continue
    for node in ast.walk(tree):
        if isinstance(node, ast.Assign) and isinstance(node.targets[0], ast.Name) and "MAGIC" in node.targets[0].id.upper():
            v = node.value
            if isinstance(v, ast.Call) and len(v.args) > 1 and isinstance(v.args[0], ast.Constant) and all(isinstance(a, ast.Constant) for a in v.args[1:]):
                magic = [a.value for a in v.args[1:]]
            elif isinstance(v, ast.Call) and v.args and isinstance(v.args[0], ast.List):
                try:
                    magic = [e.value if isinstance(e, ast.Constant) else (ord(e.args[0].value) if isinstance(e, ast.Call) else None) for e in v.args[0].elts]
                except Exception:
                    pass
            elif isinstance(v, ast.Constant) and isinstance(v.value, bytes):
                magic = list(v.value)
            if magic:
                break
    if magic:
        break

json.dump({"records": out, "opcodes": opc, "magic": magic, "prim": prim, "problems": problems}, sys.stdout, indent=1)
