package main

import (
	"go/token"
	"go/types"

	"golang.org/x/tools/go/ssa"
)

// Roles instead of names. Rules about the index-based iterator's queue of pending messages speak about "the queue" and
// "the cursor"; which struct owns them and what they are called is read off the tree: the queue is the one struct
// field of go/mcap whose type is a slice of messageIndexWithChunkSlot, the cursor is the one integer struct field that
// indexes or re-slices a load of the queue. When the tree does not determine them uniquely the historical names are used.

type queueRoles struct {
	qType, qField string // struct type and field holding the queue
	cType, cField string // struct type and field holding the cursor
	resolved      bool
}

var rolesMemo = map[*Program]*queueRoles{}

func (p *Program) roles() *queueRoles {
	if r, ok := rolesMemo[p]; ok {
		return r
	}
	r := &queueRoles{qType: "indexedMessageIterator", qField: "messageIndexes", cType: "indexedMessageIterator", cField: "curMessageIndex"}
	rolesMemo[p] = r
	pk := p.Pkgs[pkgMcap]
	if pk == nil || pk.Types == nil {
		return r
	}
	elem := pk.Types.Scope().Lookup("messageIndexWithChunkSlot")
	if elem == nil {
		return r
	}
	type cand struct{ t, f string }
	var qs []cand
	for _, name := range pk.Types.Scope().Names() {
		tn, ok := pk.Types.Scope().Lookup(name).(*types.TypeName)
		if !ok {
			continue
		}
		st, ok := tn.Type().Underlying().(*types.Struct)
		if !ok {
			continue
		}
		for i := 0; i < st.NumFields(); i++ {
			if sl, ok := st.Field(i).Type().Underlying().(*types.Slice); ok && types.Identical(sl.Elem(), elem.Type()) {
				qs = append(qs, cand{name, st.Field(i).Name()})
			}
		}
	}
	if len(qs) != 1 {
		return r
	}
	r.qType, r.qField = qs[0].t, qs[0].f
	if p.SSA == nil {
		return r
	}
	cs := map[cand]bool{}
	for _, fn := range p.repoFunctions(pkgMcap) {
		for _, in := range instrsOf(fn) {
			var x, idx ssa.Value
			switch y := in.(type) {
			case *ssa.IndexAddr:
				x, idx = y.X, y.Index
			case *ssa.Slice:
				x, idx = y.X, y.Low
			}
			if x == nil || idx == nil || !loadOfField(x, r.qType, r.qField) {
				continue
			}
			if u, ok := stripConv(idx).(*ssa.UnOp); ok && u.Op == token.MUL {
				if tn, f, _, ok := fieldRef(u.X); ok {
					cs[cand{tn, f}] = true
				}
			}
		}
	}
	if len(cs) == 1 {
		for c := range cs {
			r.cType, r.cField = c.t, c.f
		}
		r.resolved = true
	}
	return r
}

func (q *queueRoles) isQueueLoad(v ssa.Value) bool  { return loadOfField(v, q.qType, q.qField) }
func (q *queueRoles) isCursorLoad(v ssa.Value) bool { return loadOfField(v, q.cType, q.cField) }
func (q *queueRoles) queueOrigin() string           { return "field:" + q.qType + "." + q.qField }

// pendingWindow: v is the queue from the cursor on - queue[cursor:] taken directly, or the result of a helper whose
// every return is that expression over its own receiver.
func (q *queueRoles) pendingWindow(v ssa.Value, depth int) bool {
	switch x := v.(type) {
	case *ssa.Slice:
		return q.isQueueLoad(x.X) && x.Low != nil && q.isCursorLoad(x.Low) && x.High == nil
	case *ssa.Call:
		g := x.Call.StaticCallee()
		if g == nil || g.Blocks == nil || depth > 2 {
			return false
		}
		n := 0
		for _, in := range instrsOf(g) {
			if ret, ok := in.(*ssa.Return); ok {
				if len(ret.Results) != 1 || !q.pendingWindow(ret.Results[0], depth+1) {
					return false
				}
				n++
			}
		}
		return n > 0
	}
	return false
}

// cursorElemAddr: a is the address of the queue entry at the cursor: &queue[cursor], or &window[0] for a pending window.
func (q *queueRoles) cursorElemAddr(a ssa.Value) bool {
	ia, ok := a.(*ssa.IndexAddr)
	if !ok {
		return false
	}
	if q.isQueueLoad(ia.X) && q.isCursorLoad(ia.Index) {
		return true
	}
	if c, ok := ia.Index.(*ssa.Const); ok && c.Value != nil && c.Int64() == 0 && q.pendingWindow(ia.X, 0) {
		return true
	}
	return false
}

// ---- per-chunk message accumulators of the writer (running earliest / latest log time and message count) ----

type fieldID struct{ t, f string }

type chunkAccRoles struct {
	start, end, count fieldID
	resolved          bool
}

var chunkAccMemo = map[*Program]*chunkAccRoles{}

// chunkAcc finds the accumulators by what WriteMessage (and its helpers) does to them: the field that is assigned the
// message's log time under `logTime < field` is the running start, under `logTime > field` the running end; the count is
// the field of the same owner that is incremented by one next to them. Owner types other than Statistics only.
func (p *Program) chunkAcc() *chunkAccRoles {
	if r, ok := chunkAccMemo[p]; ok {
		return r
	}
	r := &chunkAccRoles{start: fieldID{"Writer", "currentChunkStartTime"}, end: fieldID{"Writer", "currentChunkEndTime"}, count: fieldID{"Writer", "currentChunkMessageCount"}}
	chunkAccMemo[p] = r
	wm := p.lookupFunc(pkgMcap, "Writer.WriteMessage")
	if wm == nil {
		return r
	}
	isLogTime := func(v ssa.Value) bool {
		v = stripConv(v)
		if loadOfField(v, "Message", "LogTime") {
			return true
		}
		if prm, ok := v.(*ssa.Parameter); ok {
			if b, ok := prm.Type().Underlying().(*types.Basic); ok && b.Kind() == types.Uint64 {
				// a helper's parameter: every static caller passes a message's log time
				sites := p.staticCallers(prm.Parent())
				if len(sites) == 0 {
					return false
				}
				idx := -1
				for i, q := range prm.Parent().Params {
					if q == prm {
						idx = i
					}
				}
				for _, s := range sites {
					if idx < 0 || idx >= len(s.Common().Args) || !loadOfField(stripConv(s.Common().Args[idx]), "Message", "LogTime") {
						return false
					}
				}
				return true
			}
		}
		return false
	}
	starts, ends := map[fieldID]bool{}, map[fieldID]bool{}
	var fns []*ssa.Function
	for _, rf := range regionOf(p, wm, 3) {
		fns = append(fns, rf)
	}
	// helpers that are methods of an unexported state type are not "transparent" by name; include static callees that
	// receive the log time
	seen := map[*ssa.Function]bool{}
	for _, f := range fns {
		seen[f] = true
	}
	for _, f := range append([]*ssa.Function{}, fns...) {
		for _, ci := range callsIn(f, func(ssa.CallInstruction) bool { return true }) {
			g := ci.Common().StaticCallee()
			if g == nil || seen[g] || g.Blocks == nil || !p.isRepoFunc(g) || p.funcPkgPath(g) != pkgMcap {
				continue
			}
			for _, a := range ci.Common().Args {
				if loadOfField(stripConv(a), "Message", "LogTime") {
					seen[g] = true
					fns = append(fns, g)
				}
			}
		}
	}
	accFns := map[*ssa.Function]bool{}
	for _, f := range fns {
		for _, in := range instrsOf(f) {
			st, ok := in.(*ssa.Store)
			if !ok || !isLogTime(st.Val) {
				continue
			}
			tn, fl, _, ok := fieldRef(st.Addr)
			if !ok || tn == "Statistics" || tn == "" {
				continue
			}
			for d := st.Block(); d != nil; d = d.Idom() {
				if len(d.Preds) != 1 {
					continue
				}
				pr := d.Preds[0]
				iff, ok := pr.Instrs[len(pr.Instrs)-1].(*ssa.If)
				if !ok || pr.Succs[0] != d {
					continue
				}
				b, ok := iff.Cond.(*ssa.BinOp)
				if !ok {
					continue
				}
				op := b.Op
				var other ssa.Value
				switch {
				case isLogTime(b.X) && loadOfField(b.Y, tn, fl):
					other = b.Y
				case isLogTime(b.Y) && loadOfField(b.X, tn, fl):
					other = b.X
					op = map[token.Token]token.Token{token.LSS: token.GTR, token.GTR: token.LSS, token.LEQ: token.GEQ, token.GEQ: token.LEQ}[op]
				}
				if other == nil {
					continue
				}
				switch op {
				case token.LSS, token.LEQ:
					starts[fieldID{tn, fl}] = true
					accFns[f] = true
				case token.GTR, token.GEQ:
					ends[fieldID{tn, fl}] = true
					accFns[f] = true
				}
				break
			}
		}
	}
	if len(starts) != 1 || len(ends) != 1 {
		return r
	}
	for k := range starts {
		r.start = k
	}
	for k := range ends {
		r.end = k
	}
	counts := map[fieldID]bool{}
	for f := range accFns {
		for _, in := range instrsOf(f) {
			st, ok := in.(*ssa.Store)
			if !ok {
				continue
			}
			tn, fl, _, ok := fieldRef(st.Addr)
			if !ok || tn != r.start.t {
				continue
			}
			if b, ok := st.Val.(*ssa.BinOp); ok && b.Op == token.ADD && loadOfField(b.X, tn, fl) {
				if c, ok := b.Y.(*ssa.Const); ok && c.Value != nil && c.Value.String() == "1" {
					counts[fieldID{tn, fl}] = true
				}
			}
		}
	}
	if len(counts) == 1 {
		for k := range counts {
			r.count = k
		}
		r.resolved = true
	}
	return r
}

func (c *chunkAccRoles) isCountLoad(v ssa.Value) bool { return loadOfField(v, c.count.t, c.count.f) }

// isMessageLogTime: v is a message's log time - loaded from Message.LogTime, or a uint64 parameter of a helper that every
// static caller feeds with one.
func isMessageLogTime(p *Program, v ssa.Value) bool {
	v = stripConv(v)
	if loadOfField(v, "Message", "LogTime") {
		return true
	}
	prm, ok := v.(*ssa.Parameter)
	if !ok {
		return false
	}
	if b, ok := prm.Type().Underlying().(*types.Basic); !ok || b.Kind() != types.Uint64 {
		return false
	}
	sites := p.staticCallers(prm.Parent())
	if len(sites) == 0 {
		return false
	}
	idx := -1
	for i, q := range prm.Parent().Params {
		if q == prm {
			idx = i
		}
	}
	for _, s := range sites {
		if idx < 0 || idx >= len(s.Common().Args) || !loadOfField(stripConv(s.Common().Args[idx]), "Message", "LogTime") {
			return false
		}
	}
	return true
}

// iteratorAndQueueMethods: the methods of the index-based iterator and, when the pending queue has been given a type of
// its own (roles().qType), the methods of that type.
func iteratorAndQueueMethods(p *Program) []*ssa.Function {
	out := methodsOf(p, pkgMcap, "indexedMessageIterator")
	if qt := p.roles().qType; qt != "" && qt != "indexedMessageIterator" {
		out = append(out, methodsOf(p, pkgMcap, qt)...)
	}
	return out
}
