package main

import (
	"fmt"
	"strings"

	"golang.org/x/tools/go/ssa"
)

// C03.u / C12.u: the order in which chunks are loaded is a function of the chunk indexes, not of the sorting
// algorithm. A sort of it.chunkIndexes is either stable (ties keep the summary's order, which the writer emits by
// offset) or its comparator falls back on a second key when the first ties (more than one comparison returned) or
// compares the chunk offset, which no two chunks share. An unstable sort on one time key alone places chunks with
// equal start (end) times in an order that depends on how many chunks there are and how they were laid out, and
// with them the messages of equal log time they hold.
func checkChunkSortDeterministic(p *Program, r *Result, rule string) {
	oc := &originCtx{p: p}
	found := 0
	for _, m := range iteratorAndQueueMethods(p) {
		if m.Blocks == nil {
			continue
		}
		for _, ci := range callsIn(m, func(ci ssa.CallInstruction) bool {
			n := staticCalleeName(ci.Common())
			return stableSorts[n] || unstableSorts[n]
		}) {
			args := ci.Common().Args
			onChunks := false
			if len(args) > 0 {
				for _, o := range oc.originsUp(args[0]) {
					if o == "field:indexedMessageIterator.chunkIndexes" {
						onChunks = true
					}
				}
				if mi, ok := args[0].(*ssa.MakeInterface); ok {
					for _, o := range oc.originsUp(mi.X) {
						if o == "field:indexedMessageIterator.chunkIndexes" {
							onChunks = true
						}
					}
				}
			}
			if !onChunks || len(args) < 2 {
				continue
			}
			name := staticCalleeName(ci.Common())
			for _, cs := range comparatorCases(ci) {
				found++
				construct := fmt.Sprintf("chunk-index sort (order %d) is deterministic on ties", cs.order)
				if stableSorts[name] {
					r.held(rule, funcName(m), construct, p.pos(ci.Pos()), name+" is stable")
					continue
				}
				keys, ok := comparatorFields(cs.fn)
				if !ok {
					r.abstain(rule, funcName(m), construct, p.pos(ci.Pos()), "comparator is not a set of returned field comparisons: located, not judged")
					continue
				}
				uniq := false
				for _, k := range keys {
					if k == "ChunkStartOffset" {
						uniq = true
					}
				}
				if uniq || len(keys) > 1 {
					r.held(rule, funcName(m), construct, p.pos(ci.Pos()), name+" with keys "+strings.Join(keys, ", "))
				} else {
					r.violated(rule, funcName(m), construct, p.pos(ci.Pos()),
						name+" is not stable and its comparator looks at "+strings.Join(keys, ", ")+" only: chunks that tie on it are loaded in an order chosen by the sorting algorithm, so messages of equal log time come back in an order that depends on how the file was chunked")
				}
			}
		}
	}
	if found == 0 {
		r.note(rule, "mcap.indexedMessageIterator", "chunk-index sort", "", "no sort of it.chunkIndexes found: not judged")
	}
}

// comparatorFields: the distinct element fields compared by the comparisons a comparator returns.
func comparatorFields(fn *ssa.Function) ([]string, bool) {
	if fn == nil || fn.Blocks == nil {
		return nil, false
	}
	var keys []string
	seen := map[string]bool{}
	for _, in := range instrsOf(fn) {
		ret, ok := in.(*ssa.Return)
		if !ok || len(ret.Results) != 1 {
			continue
		}
		b, ok := ret.Results[0].(*ssa.BinOp)
		if !ok {
			return nil, false
		}
		fx, _ := elemField(b.X)
		fy, _ := elemField(b.Y)
		if fx == "" || fx != fy {
			return nil, false
		}
		if !seen[fx] {
			seen[fx] = true
			keys = append(keys, fx)
		}
	}
	return keys, len(keys) > 0
}
