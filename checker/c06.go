package main

import (
	"go/token"
	"go/types"
	"strings"

	"golang.org/x/tools/go/ssa"
)

func init() { register("C06", true, checkC06) }

// recvFieldOfCall: for a method call, the struct field the receiver was loaded from ("Writer.w") or "".
func recvFieldOfCall(ci ssa.CallInstruction) string {
	c := ci.Common()
	var recv ssa.Value
	if c.IsInvoke() {
		recv = c.Value
	} else if len(c.Args) > 0 && c.StaticCallee() != nil && c.StaticCallee().Signature.Recv() != nil {
		recv = c.Args[0]
	}
	if recv == nil {
		return ""
	}
	if mi, ok := recv.(*ssa.MakeInterface); ok {
		recv = mi.X
	}
	if u, ok := recv.(*ssa.UnOp); ok && u.Op == token.MUL {
		if tn, f, _, ok := fieldRef(u.X); ok {
			return tn + "." + f
		}
	}
	return ""
}

type orderedCall struct {
	in   ssa.CallInstruction
	name string // callee label
	recv string // receiver field or local label
}

func orderedCalls(p *Program, fn *ssa.Function) []orderedCall {
	var out []orderedCall
	for _, ci := range callsIn(fn, func(ssa.CallInstruction) bool { return true }) {
		name := calleeRepoName(ci)
		if name == "" {
			name = trimPkg(staticCalleeName(ci.Common()))
		}
		if name == "" && ci.Common().IsInvoke() {
			name = "invoke." + ci.Common().Method.Name()
		}
		out = append(out, orderedCall{ci, name, recvFieldOfCall(ci)})
	}
	return out
}

func checkC06(p *Program, r *Result) {
	r.Explanation = "Structural necessary conditions of 'emitted checksums cover exactly the bytes the spec says': " +
		"(C06.a) in Close the data-section checksum is read after the last chunk flush and immediately before the DataEnd record (no other sink write in between); " +
		"(C06.b) the running CRC is reset after DataEnd and before the first summary write; " +
		"(C06.c) in WriteFooter the checksum that becomes the summary CRC is read after the footer's opcode, length, summary_start and summary_offset_start were written and before the CRC bytes are written; " +
		"(C06.d) in WriteAttachment the 9-byte record prefix goes to the sink outside a CRC accumulator created fresh for this attachment, every later byte up to the data goes through it, and its checksum is read after the data copy and written last; " +
		"(C06.e) the chunk CRC writer hashes exactly the slice it forwards; (C06.f) the destination writer is owned by writeSizer/crcWriter only; (C06.g) every CRC is CRC-32/IEEE; " +
		"(C06.z) with checksums disabled the data/summary checksum is the constant 0."
	r.NotDecided = []string{"numeric CRC values", "third-party compressor output"}
	r.rule("C06.a", "data CRC read after the last data write and right before DataEnd", 1)
	r.rule("C06.b", "CRC reset between DataEnd and the summary", 1)
	r.rule("C06.c", "summary CRC read between the footer prefix write and the CRC write", 1)
	r.rule("C06.d", "attachment CRC scope", 3)
	r.rule("C06.e", "CRC wrappers hash exactly the bytes they forward", 2)
	r.rule("C06.f", "single owner of the destination writer", 1)
	r.rule("C06.g", "IEEE polynomial everywhere", 3)
	r.rule("C06.z", "checksum is 0 when CRCs are disabled", 1)
	r.rule("C06.p", "the CRC wrappers do what the ordering rules assume: Checksum returns, ResetCRC resets, the constructors install the CRC writer that IncludeCRC asks for", 5)
	checkCRCPrimitives(p, r, "C06.p")
	r.rule("C06.h", "chunk CRC and size are the running values of this chunk, read before they are reset (C05.d)", 4)
	importRule(p, r, "C06.h", func(sub *Result) { checkFlush(p, sub) }, func(o *Obligation) bool {
		return !strings.Contains(o.Key, "MessageStartTime") && !strings.Contains(o.Key, "MessageEndTime") && !strings.Contains(o.Key, "per-chunk accumulator")
	})

	spec := sinkSpec()
	R := p.reachSet(spec)
	isSink := p.scopeFn(spec, R)

	// ---- a, b: Close
	if fn := p.lookupFunc(pkgMcap, "Writer.Close"); fn != nil {
		fname := funcName(fn)
		calls := deepCalls(p, fn, 3)
		region := regionOf(p, fn, 3)
		idx := func(name string) int {
			for i, c := range calls {
				if c.name == name {
					return i
				}
			}
			return -1
		}
		iFlush, iSum, iEnd, iReset, iSummary := idx("mcap.Writer.flushActiveChunk"), idx("mcap.writeSizer.Checksum"), idx("mcap.Writer.WriteDataEnd"), idx("mcap.writeSizer.ResetCRC"), idx("mcap.Writer.writeSummarySection")
		if iSum < 0 && iEnd >= 0 {
			// the checksum may be taken inside WriteDataEnd instead: it must then be read before any byte of the DataEnd
			// record reaches the sink
			de := p.lookupFunc(pkgMcap, "Writer.WriteDataEnd")
			var sum ssa.CallInstruction
			if de != nil {
				for _, ci := range callsIn(de, func(ci ssa.CallInstruction) bool { return calleeRepoName(ci) == "mcap.writeSizer.Checksum" }) {
					sum = ci
				}
			}
			switch {
			case sum == nil:
				r.violated("C06.a", fname, "data CRC", p.pos(fn.Pos()), "no reading of the running checksum reaches the DataEnd record (neither in Close nor in WriteDataEnd)")
			default:
				early := ""
				for _, ci := range callsIn(de, func(ci ssa.CallInstruction) bool { ok, _ := isSink(ci); return ok }) {
					before := ci.Block() == sum.Block() && blockIndexOf(ci) < blockIndexOf(sum) || ci.Block() != sum.Block() && reachableFromSuccs(ci.Block())[sum.Block()]
					if before {
						early = p.pos(ci.Pos())
					}
				}
				if early != "" {
					r.violated("C06.a", funcName(de), "data CRC", p.pos(sum.Pos()), "the data checksum is read after part of the DataEnd record was already written (sink write at "+early+"); data_section_crc must cover the bytes up to, not including, the DataEnd record")
				} else if iFlush >= 0 && !(iFlush < iEnd) {
					r.violated("C06.a", fname, "data CRC", p.pos(sum.Pos()), "the data checksum is read before the last chunk is flushed")
				} else {
					r.held("C06.a", funcName(de), "data CRC", p.pos(sum.Pos()), "Checksum() read in WriteDataEnd before any byte of the record is written, after the last flush")
				}
			}
		} else if iSum < 0 || iEnd < 0 {
			r.undecided("C06.a", fname, "data CRC", p.pos(fn.Pos()), "Checksum()/WriteDataEnd calls not found in Close")
		} else {
			// the checksum value must be what is stored into DataEnd.DataSectionCRC
			sumCall, _ := calls[iSum].in.(*ssa.Call)
			flows := false
			for _, st := range regionStores(region, "DataEnd", "DataSectionCRC") {
				if st.Val == ssa.Value(sumCall) {
					flows = true
				}
			}
			between := false
			for i := iSum + 1; i < iEnd; i++ {
				if ok, _ := isSink(calls[i].in); ok {
					between = true
				}
			}
			switch {
			case !flows:
				r.violated("C06.a", fname, "data CRC", p.pos(calls[iSum].in.Pos()), "DataEnd.DataSectionCRC is not the running checksum read in Close")
			case iFlush >= 0 && !(iFlush < iSum):
				r.violated("C06.a", fname, "data CRC", p.pos(calls[iSum].in.Pos()), "the data checksum is read before the last chunk is flushed; the chunk's bytes would be missing from it")
			case between || !deepDominates(calls[iSum], calls[iEnd]):
				r.violated("C06.a", fname, "data CRC", p.pos(calls[iSum].in.Pos()), "a sink write lies between reading the data checksum and writing the DataEnd record")
			default:
				r.held("C06.a", fname, "data CRC", p.pos(calls[iSum].in.Pos()), "flush < Checksum() < WriteDataEnd with no sink write in between")
			}
		}
		if iReset < 0 || iEnd < 0 || iSummary < 0 {
			r.violated("C06.b", fname, "CRC reset", p.pos(fn.Pos()), "no ResetCRC between DataEnd and the summary section; the summary CRC would cover the data section as well")
		} else if iEnd < iReset && iReset < iSummary && deepDominates(calls[iReset], calls[iSummary]) && deepDominates(calls[iEnd], calls[iReset]) {
			r.held("C06.b", fname, "CRC reset", p.pos(calls[iReset].in.Pos()), "WriteDataEnd < ResetCRC < writeSummarySection")
		} else {
			r.violated("C06.b", fname, "CRC reset", p.pos(calls[iReset].in.Pos()), "ResetCRC must come after the DataEnd record and before the first summary write (found order: DataEnd at "+p.pos(calls[iEnd].in.Pos())+", reset at "+p.pos(calls[iReset].in.Pos())+")")
		}
	}

	// ---- c: WriteFooter
	if fn := p.lookupFunc(pkgMcap, "Writer.WriteFooter"); fn != nil {
		fname := funcName(fn)
		calls := deepCalls(p, fn, 3)
		var sinks []int
		iSum := -1
		for i, c := range calls {
			if c.name == "mcap.writeSizer.Checksum" {
				iSum = i
			} else if ok, _ := isSink(c.in); ok {
				sinks = append(sinks, i)
			}
		}
		switch {
		case iSum < 0:
			r.violated("C06.c", fname, "summary CRC", p.pos(fn.Pos()), "the footer's CRC field is not taken from the running checksum")
		case len(sinks) < 2 || !(sinks[0] < iSum && iSum < sinks[len(sinks)-1]) || !deepDominates(calls[sinks[0]], calls[iSum]):
			r.violated("C06.c", fname, "summary CRC", p.pos(calls[iSum].in.Pos()),
				"the summary CRC must cover the footer's opcode, length, summary_start and summary_offset_start: the checksum has to be read after those bytes were written to the sink and before the CRC bytes are written")
		default:
			r.held("C06.c", fname, "summary CRC", p.pos(calls[iSum].in.Pos()), "prefix write < Checksum() < CRC write")
		}
	}

	checkAttachmentCRC(p, r, isSink)
	checkCRCWrappers(p, r)
	checkSinkOwner(p, r)
	checkPolynomial(p, r)
	// ---- z
	if fn := p.lookupFunc(pkgMcap, "writeSizer.Checksum"); fn != nil {
		zero := false
		for _, in := range instrsOf(fn) {
			if ret, ok := in.(*ssa.Return); ok {
				if c, ok := ret.Results[0].(*ssa.Const); ok && c.Value != nil && c.Value.String() == "0" {
					zero = true
				}
			}
		}
		if zero {
			r.held("C06.z", funcName(fn), "disabled checksum", p.pos(fn.Pos()), "returns the constant 0 when no CRC writer is installed")
		} else {
			r.violated("C06.z", funcName(fn), "disabled checksum", p.pos(fn.Pos()), "no path returns the constant 0; with checksums disabled the CRC fields must read 'not available'")
		}
	}
}

func checkAttachmentCRC(p *Program, r *Result, isSink func(ssa.CallInstruction) (bool, string)) {
	fn := p.lookupFunc(pkgMcap, "Writer.WriteAttachment")
	if fn == nil {
		r.undecided("C06.d", "mcap.Writer.WriteAttachment", "anchor", "", "not found")
		return
	}
	fname := funcName(fn)
	// the CRC accumulator: receiver of the Checksum() call whose result is written last
	// (the operation may be split into unexported helpers: calls are taken in source order with helpers replaced by their
	// own calls)
	deep := deepCalls(p, fn, 3)
	var allCalls []ssa.CallInstruction
	for _, dc := range deep {
		allCalls = append(allCalls, dc.in)
	}
	deepFilter := func(pred func(ssa.CallInstruction) bool) []ssa.CallInstruction {
		var out []ssa.CallInstruction
		for _, ci := range allCalls {
			if pred(ci) {
				out = append(out, ci)
			}
		}
		return out
	}
	var sumCall *ssa.Call
	for _, ci := range deepFilter(func(ci ssa.CallInstruction) bool { return calleeRepoName(ci) == "mcap.crcWriter.Checksum" }) {
		sumCall, _ = ci.(*ssa.Call)
	}
	if sumCall == nil {
		r.violated("C06.d", fname, "attachment CRC accumulator", p.pos(fn.Pos()), "the attachment CRC is not taken from a crcWriter")
		return
	}
	acc := sumCall.Call.Args[0]
	// fresh per attachment: created by a call in this function (not loaded from a field of the writer)
	fresh := false
	if c, ok := acc.(*ssa.Call); ok && calleeRepoName(c) == "mcap.newCRCWriter" {
		fresh = true
	}
	if !fresh {
		// a reused accumulator is acceptable only if it is reset in this function before use
		for _, ci := range deepFilter(func(ci ssa.CallInstruction) bool { return calleeRepoName(ci) == "mcap.crcWriter.Reset" }) {
			if len(ci.Common().Args) > 0 && sameValue(ci.Common().Args[0], acc) && ci.Parent() == sumCall.Parent() && instrDominates(ci, sumCall) {
				fresh = true
			}
		}
	}
	if fresh {
		r.held("C06.d", fname, "attachment CRC accumulator is fresh", p.pos(sumCall.Pos()), "created (or reset) for this attachment")
	} else {
		r.violated("C06.d", fname, "attachment CRC accumulator is fresh", p.pos(sumCall.Pos()),
			"the CRC accumulator ("+valueLabel(acc)+") is neither created nor reset for this attachment; from the second attachment on the CRC covers earlier attachments too")
	}
	// order: direct 9-byte write; accumulator writes; copy; Checksum; direct write
	var seq []string
	var firstDirect, lastDirect, copyIdx, sumIdx = -1, -1, -1, -1
	i := 0
	for _, ci := range allCalls {
		if ci == ssa.CallInstruction(sumCall) {
			sumIdx = i
			seq = append(seq, "Checksum")
			i++
			continue
		}
		ok, _ := isSink(ci)
		if !ok {
			continue
		}
		args := ci.Common().Args
		through := false
		for _, a := range args {
			if sameValue(a, acc) {
				through = true
			}
			if mi, ok := a.(*ssa.MakeInterface); ok && sameValue(mi.X, acc) {
				through = true
			}
		}
		switch {
		case calleeIs(ci, "io.Copy", "io.CopyN", "io.CopyBuffer"):
			copyIdx = i
			if through {
				seq = append(seq, "copy-through-crc")
			} else {
				seq = append(seq, "copy-direct")
			}
		case through:
			seq = append(seq, "write-through-crc")
		default:
			if firstDirect < 0 {
				firstDirect = i
			}
			lastDirect = i
			seq = append(seq, "write-direct")
		}
		i++
	}
	want := "write-direct write-through-crc copy-through-crc Checksum write-direct"
	got := strings.Join(seq, " ")
	if got == want {
		r.held("C06.d", fname, "attachment CRC scope (order of writes)", p.pos(sumCall.Pos()), got)
	} else {
		r.violated("C06.d", fname, "attachment CRC scope (order of writes)", p.pos(sumCall.Pos()),
			"expected the record prefix written directly, then fields and data through the CRC accumulator, then Checksum(), then the CRC bytes written directly; found: "+got)
	}
	_, _, _, _ = firstDirect, lastDirect, copyIdx, sumIdx
	// the direct prefix write is exactly the first 9 bytes (opcode + length)
	for _, ci := range deepFilter(func(ci ssa.CallInstruction) bool { ok, _ := isSink(ci); return ok }) {
		args := ci.Common().Args
		if len(args) == 0 {
			continue
		}
		if sl, ok := args[len(args)-1].(*ssa.Slice); ok && sl.Low == nil {
			if c, ok := sl.High.(*ssa.Const); ok && c.Value != nil {
				if c.Int64() == 9 {
					r.held("C06.d", fname, "record prefix outside the CRC", p.pos(ci.Pos()), "first 9 bytes (opcode, record length) bypass the accumulator")
				} else if c.Int64() != 4 {
					r.violated("C06.d", fname, "record prefix outside the CRC", p.pos(ci.Pos()), "the directly written prefix is "+c.Value.String()+" bytes; the CRC covers everything after the 9-byte opcode+length prefix")
				}
			}
			break
		}
	}
	// and the through-crc write starts at byte 9
	for _, ci := range deepFilter(func(ci ssa.CallInstruction) bool { return calleeRepoName(ci) == "mcap.crcWriter.Write" }) {
		args := ci.Common().Args
		data := args[len(args)-1]
		// the covered bytes may be handed to a helper as a parameter: look at what its single caller passes
		if prm, ok := data.(*ssa.Parameter); ok {
			if sites := p.staticCallers(prm.Parent()); len(sites) == 1 {
				for i, q := range prm.Parent().Params {
					if q == prm && i < len(sites[0].Common().Args) {
						data = sites[0].Common().Args[i]
					}
				}
			}
		}
		if sl, ok := data.(*ssa.Slice); ok {
			if c, ok := sl.Low.(*ssa.Const); ok && c.Value != nil && c.Int64() == 9 {
				r.held("C06.d", fname, "CRC starts after the prefix", p.pos(ci.Pos()), "fields from byte 9 go through the accumulator")
			} else {
				r.violated("C06.d", fname, "CRC starts after the prefix", p.pos(ci.Pos()), "the bytes fed to the CRC accumulator do not start at offset 9 of the record")
			}
		}
	}
}

// checkCRCWrappers: Write methods that both hash and forward must hash exactly their argument slice.
func checkCRCWrappers(p *Program, r *Result) {
	for _, name := range []string{"crcWriter.Write", "countingCRCWriter.Write"} {
		fn := p.lookupFunc(pkgMcap, name)
		if fn == nil {
			r.undecided("C06.e", "mcap."+name, "anchor", "", "not found")
			continue
		}
		prm := ssa.Value(fn.Params[1])
		hashed, forwarded := false, false
		bad := ""
		for _, ci := range callsIn(fn, func(ssa.CallInstruction) bool { return true }) {
			c := ci.Common()
			// running CRC kept as a plain uint32: crc32.Update(crc, table, p)
			if calleeIs(ci, "hash/crc32.Update") && len(c.Args) == 3 {
				if c.Args[2] != prm {
					bad = "crc32.Update in " + name + " is given " + valueLabel(c.Args[2]) + " instead of the caller's slice"
				}
				hashed = true
				continue
			}
			if !c.IsInvoke() || c.Method.Name() != "Write" {
				continue
			}
			isHash := hasMethod(c.Value.Type(), "Sum32") || hasMethod(c.Value.Type(), "Sum")
			if c.Args[0] != prm {
				bad = "a Write inside " + name + " is given " + valueLabel(c.Args[0]) + " instead of the caller's slice"
			}
			if isHash {
				hashed = true
			} else {
				forwarded = true
			}
		}
		switch {
		case bad != "":
			r.violated("C06.e", funcName(fn), "hash == forward", p.pos(fn.Pos()), bad)
		case !hashed || !forwarded:
			r.violated("C06.e", funcName(fn), "hash == forward", p.pos(fn.Pos()), "the method must feed the same slice to the hash and to the wrapped writer")
		default:
			r.held("C06.e", funcName(fn), "hash == forward", p.pos(fn.Pos()), "p goes to the hash and to the wrapped writer unchanged")
		}
	}
}

// checkSinkOwner: Write is invoked on the destination io.Writer only inside writeSizer.Write / crcWriter.Write.
func checkSinkOwner(p *Program, r *Result) {
	bad := 0
	for _, fn := range sortedFuncs(writerScope(p)) {
		for _, ci := range callsIn(fn, func(ci ssa.CallInstruction) bool { return ci.Common().IsInvoke() && ci.Common().Method.Name() == "Write" }) {
			c := ci.Common()
			if hasMethod(c.Value.Type(), "Sum") {
				continue
			}
			rf := recvFieldOfCall(ci)
			switch rf {
			case "writeSizer.w", "crcWriter.w", "countingCRCWriter.w":
				continue
			}
			// whatever the wrapped-writer field is called: the forwarding Write of an accounting wrapper writes to its own field
			forwarding := false
			for _, wt := range []string{"writeSizer", "crcWriter", "countingCRCWriter"} {
				if strings.HasPrefix(rf, wt+".") && funcName(fn) == "mcap."+wt+".Write" {
					forwarding = true
				}
			}
			if forwarding {
				continue
			}
			// writeRecord(writer io.Writer, ...) parameter writes are routed by callers to w.w / compressedWriter
			if _, isParam := c.Value.(*ssa.Parameter); isParam {
				continue
			}
			if rf == "bufCloser.b" {
				continue
			}
			bad++
			r.violated("C06.f", funcName(fn), "Write on "+valueLabel(c.Value), p.pos(ci.Pos()), "bytes reach a writer without passing through the size/CRC accounting wrappers")
		}
	}
	// the NewWriter parameter flows only into newWriteSizer
	if nw := p.lookupFunc(pkgMcap, "NewWriter"); nw != nil {
		for _, ref := range *nw.Params[0].Referrers() {
			ci, ok := ref.(ssa.CallInstruction)
			if ok && calleeRepoName(ci) == "mcap.newWriteSizer" {
				continue
			}
			if _, isDbg := ref.(*ssa.DebugRef); isDbg {
				continue
			}
			bad++
			r.violated("C06.f", funcName(nw), "use of the destination writer", p.pos(ref.Pos()), "the destination io.Writer is used outside newWriteSizer; bytes written through it would bypass offset and CRC accounting")
		}
	}
	if bad == 0 {
		r.held("C06.f", "mcap (writer side)", "destination writer ownership", "", "Write on the destination is invoked only by writeSizer.Write and crcWriter.Write")
	}
}

func checkPolynomial(p *Program, r *Result) {
	for _, fn := range p.repoFunctions(pkgMcap) {
		for _, ci := range callsIn(fn, func(ci ssa.CallInstruction) bool {
			f := ci.Common().StaticCallee()
			return f != nil && f.Pkg != nil && strings.HasPrefix(f.Pkg.Pkg.Path(), "hash/")
		}) {
			n := staticCalleeName(ci.Common())
			switch n {
			case "hash/crc32.NewIEEE", "hash/crc32.ChecksumIEEE":
				r.held("C06.g", funcName(fn), "call "+trimPkg(n), p.pos(ci.Pos()), "CRC-32/IEEE")
			case "hash/crc32.Update", "hash/crc32.Checksum", "hash/crc32.New":
				ok := false
				for _, a := range ci.Common().Args {
					if g := globalLoad(a); g == "hash/crc32.IEEETable" {
						ok = true
					}
				}
				if ok {
					r.held("C06.g", funcName(fn), "call "+trimPkg(n), p.pos(ci.Pos()), "IEEE table")
				} else {
					r.violated("C06.g", funcName(fn), "call "+trimPkg(n), p.pos(ci.Pos()), "CRC computed with a table other than crc32.IEEETable")
				}
			default:
				r.violated("C06.g", funcName(fn), "call "+trimPkg(n), p.pos(ci.Pos()), "hash other than CRC-32/IEEE")
			}
		}
	}
}

var _ = types.Typ
