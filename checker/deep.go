package main

import (
	"go/ast"
	"strings"

	"golang.org/x/tools/go/ssa"
)

// Looking through helpers. Rules about the order of effects inside one operation (flush a chunk, close the file, write
// an attachment) must not depend on whether the operation is written as one function or split into unexported helper
// methods. A callee is "transparent" when it is an unexported function or method of go/mcap with a body that is not one
// of the named primitives the rules speak about; calls to transparent callees are replaced by the callee's own calls.

var opaqueHelpers = map[string]bool{
	"mcap.Writer.writeRecord": true, "mcap.Writer.writeSummarySection": true, "mcap.Writer.flushActiveChunk": true, "mcap.Writer.ensureSized": true,
	"mcap.makeSafe": true, "mcap.newCRCWriter": true, "mcap.newCountingCRCWriter": true, "mcap.newWriteSizer": true, "mcap.loadChunk": true, "mcap.Lexer.loadChunk": true,
}

func (p *Program) transparent(g *ssa.Function) bool {
	if g == nil || g.Blocks == nil || !p.isRepoFunc(g) || p.funcPkgPath(g) != pkgMcap || g.Synthetic != "" {
		return false
	}
	if ast.IsExported(g.Name()) {
		return false
	}
	name := funcName(g)
	if opaqueHelpers[name] {
		return false
	}
	// methods of the small writer/reader wrappers are the primitives themselves
	for _, pre := range []string{"mcap.writeSizer.", "mcap.crcWriter.", "mcap.countingCRCWriter.", "mcap.crcReader.", "mcap.bufCloser.", "mcap.slicemap"} {
		if strings.HasPrefix(name, pre) {
			return false
		}
	}
	if strings.HasPrefix(g.Name(), "put") || strings.HasPrefix(g.Name(), "get") {
		return false
	}
	return true
}

type deepCall struct {
	chain []ssa.CallInstruction // call sites leading to the call, outermost first (empty for a call in the root)
	in    ssa.CallInstruction
	name  string
	recv  string
}

// top: the instruction in the root function that stands for this call (the call itself or the outermost call site).
func (d deepCall) top() ssa.CallInstruction {
	if len(d.chain) > 0 {
		return d.chain[0]
	}
	return d.in
}

// deepCalls lists the calls of fn in source order, with calls to transparent helpers replaced by the helper's calls.
func deepCalls(p *Program, fn *ssa.Function, depth int) []deepCall {
	var out []deepCall
	var rec func(f *ssa.Function, chain []ssa.CallInstruction, d int, stack map[*ssa.Function]bool)
	rec = func(f *ssa.Function, chain []ssa.CallInstruction, d int, stack map[*ssa.Function]bool) {
		for _, ci := range callsIn(f, func(ssa.CallInstruction) bool { return true }) {
			g := ci.Common().StaticCallee()
			if _, isDefer := ci.(*ssa.Defer); !isDefer && d > 0 && g != nil && !stack[g] && p.transparent(g) {
				stack[g] = true
				rec(g, append(append([]ssa.CallInstruction{}, chain...), ci), d-1, stack)
				delete(stack, g)
				continue
			}
			name := calleeRepoName(ci)
			if name == "" {
				name = trimPkg(staticCalleeName(ci.Common()))
			}
			if name == "" && ci.Common().IsInvoke() {
				name = "invoke." + ci.Common().Method.Name()
			}
			out = append(out, deepCall{chain: append([]ssa.CallInstruction{}, chain...), in: ci, name: name, recv: recvFieldOfCall(ci)})
		}
	}
	rec(fn, nil, depth, map[*ssa.Function]bool{fn: true})
	return out
}

// deepDominates: a executes before b on every path that reaches b (compared at the first level where their call
// chains diverge).
func deepDominates(a, b deepCall) bool {
	ca := append(append([]ssa.CallInstruction{}, a.chain...), a.in)
	cb := append(append([]ssa.CallInstruction{}, b.chain...), b.in)
	for k := 0; k < len(ca) && k < len(cb); k++ {
		if ca[k] != cb[k] {
			return instrDominates(ca[k], cb[k])
		}
	}
	return false
}

// regionOf: fn and the transparent helpers it (transitively) calls.
func regionOf(p *Program, fn *ssa.Function, depth int) []*ssa.Function {
	out := []*ssa.Function{fn}
	seen := map[*ssa.Function]bool{fn: true}
	frontier := []*ssa.Function{fn}
	for d := 0; d < depth; d++ {
		var next []*ssa.Function
		for _, f := range frontier {
			for _, ci := range callsIn(f, func(ssa.CallInstruction) bool { return true }) {
				if g := ci.Common().StaticCallee(); g != nil && !seen[g] && p.transparent(g) {
					seen[g] = true
					out = append(out, g)
					next = append(next, g)
				}
			}
		}
		frontier = next
	}
	return out
}

func regionStores(fns []*ssa.Function, typeName, field string) []*ssa.Store {
	var out []*ssa.Store
	for _, f := range fns {
		out = append(out, fieldStores(f, typeName, field)...)
	}
	return out
}

// flowsFromCall: v is (a conversion of) the result of call, or one component of its result tuple.
func flowsFromCall(v ssa.Value, call *ssa.Call, _ []*ssa.Function) bool {
	v = stripConv(v)
	if ex, ok := v.(*ssa.Extract); ok {
		v = ex.Tuple
	}
	return v == ssa.Value(call)
}

// staticCallers: call sites, in repo functions of go/mcap, that statically call fn.
func (p *Program) staticCallers(fn *ssa.Function) []ssa.CallInstruction {
	if p.callerIdx == nil {
		p.callerIdx = map[*ssa.Function][]ssa.CallInstruction{}
		for _, f := range p.repoFunctions(pkgMcap) {
			for _, ci := range callsIn(f, func(ssa.CallInstruction) bool { return true }) {
				if g := ci.Common().StaticCallee(); g != nil {
					p.callerIdx[g] = append(p.callerIdx[g], ci)
				}
			}
		}
	}
	return p.callerIdx[fn]
}

// precededBy: on every path to `at`, a call satisfying pred has executed - in at's own function (possibly inside a
// transparent helper called before it), or, when that function is itself a transparent helper, before every one of its
// call sites.
func precededBy(p *Program, at ssa.Instruction, pred func(ssa.CallInstruction) bool, depth int) bool {
	fn := at.Parent()
	for _, dc := range deepCalls(p, fn, 3) {
		if pred(dc.in) {
			top := dc.top()
			if ssa.Instruction(top) != at && instrDominates(top, at) {
				return true
			}
		}
	}
	if depth <= 0 || !p.transparent(fn) {
		return false
	}
	sites := p.staticCallers(fn)
	if len(sites) == 0 {
		return false
	}
	for _, s := range sites {
		if !precededBy(p, s, pred, depth-1) {
			return false
		}
	}
	return true
}
