package main

import (
	"go/ast"
	"go/token"
	"go/types"
	"strings"
)

// C02.n: the channel filter over the chunk indexes can only drop a chunk on positive evidence. A chunk index that
// lists no message indexes (a writer that does not produce them) says nothing about the channels inside, so it must be
// kept whatever else is known: the condition under which the filter loop keeps a chunk index, evaluated under the
// assumption len(idx.MessageIndexOffsets) == 0 (loops over that map run zero times), must be valid. Otherwise the
// index-based read silently returns fewer messages than the scan.
func checkKeepWithoutMessageIndexes(p *Program, r *Result, rule string) {
	g := newGoLayouts(p, pkgMcap)
	aliases := selectionAliases(g)
	emptyMap := func(e ast.Expr) bool {
		fc := &formCtx{g: g}
		return strings.HasSuffix(fc.term(e), "ChunkIndex.MessageIndexOffsets")
	}
	found := 0
	for fnObj, fd := range g.decls {
		if fd.Recv == nil || fd.Body == nil {
			continue
		}
		if rt := declName(fd); !strings.HasPrefix(rt, "indexedMessageIterator.") {
			continue
		}
		_ = fnObj
		fname := "mcap." + declName(fd)
		ast.Inspect(fd.Body, func(n ast.Node) bool {
			if ce, ok := n.(*ast.CallExpr); ok {
				// second form: it.chunkIndexes = slices.DeleteFunc(it.chunkIndexes, func(idx *ChunkIndex) bool {...}):
				// the literal's result (true = drop) with the message-index map empty must be false
				if calleeQualifiedName(g, ce) == "slices.DeleteFunc" && len(ce.Args) == 2 {
					fc0 := &formCtx{g: g, alias: aliases}
					if fc0.term(ce.Args[0]) != "it.chunkIndexes" {
						return true
					}
					found++
					construct := "chunk index without message indexes is kept by the channel filter"
					fl, ok := ast.Unparen(ce.Args[1]).(*ast.FuncLit)
					if !ok {
						r.abstain(rule, fname, construct, p.pos(ce.Pos()), "the predicate handed to slices.DeleteFunc is not a function literal: located, not judged")
						return true
					}
					fc := &formCtx{g: g, alias: aliases, benv: map[types.Object]*bform{}, skipRange: emptyMap}
					drop := fc.bodyForm(fl.Body.List)
					if drop == nil {
						r.abstain(rule, fname, construct, p.pos(ce.Pos()), "the predicate handed to slices.DeleteFunc is not in a modelled form (guards and returns): located, not judged")
						return true
					}
					keep := simplifyForm(&bform{op: "not", kids: []*bform{drop}})
					st, en := "it.start", "it.end"
					cs, ce2 := "ChunkIndex.MessageStartTime", "ChunkIndex.MessageEndTime"
					overlap := and(or(atom(cs, "<", en), atom(en, "==", "MAX")), atom(st, "<=", ce2), atom(cs, "<=", ce2), atom(st, "<=", en))
					assume := and(atom("len(ChunkIndex.MessageIndexOffsets)", "==", "0"), overlap)
					if cx := counterexample(assume, keep, nil); cx != "" {
						r.violated(rule, fname, construct, p.pos(ce.Pos()),
							"a chunk index that lists no message indexes is deleted when "+cx+" (delete condition with the message-index map empty: "+drop.String()+"); nothing can be inferred about the channels of such a chunk, so the index-based read silently loses its messages")
					} else {
						r.held(rule, fname, construct, p.pos(ce.Pos()), "delete condition with the message-index map empty: "+drop.String())
					}
				}
				return true
			}
			rs, ok := n.(*ast.RangeStmt)
			if !ok || rs.Value == nil {
				return true
			}
			fc0 := &formCtx{g: g, alias: aliases}
			if fc0.term(rs.X) != "it.chunkIndexes" {
				return true
			}
			elem, ok := rs.Value.(*ast.Ident)
			if !ok {
				return true
			}
			elemObj := g.info.ObjectOf(elem)
			// symbolic walk of the loop body
			fc := &formCtx{g: g, alias: aliases, benv: map[types.Object]*bform{}, skipRange: emptyMap}
			var guards []*bform
			var keep *bform
			var pos token.Pos
			var walk func(stmts []ast.Stmt, conds []*bform) bool
			isKeepAppend := func(st ast.Stmt) bool {
				as, ok := st.(*ast.AssignStmt)
				if !ok || len(as.Rhs) != 1 {
					return false
				}
				ce, ok := as.Rhs[0].(*ast.CallExpr)
				if !ok || !g.isBuiltin(ce, "append") || len(ce.Args) < 2 {
					return false
				}
				for _, a := range ce.Args[1:] {
					if id, ok := a.(*ast.Ident); ok && g.info.ObjectOf(id) == elemObj {
						return true
					}
				}
				return false
			}
			walk = func(stmts []ast.Stmt, conds []*bform) bool {
				for _, st := range stmts {
					switch x := st.(type) {
					case *ast.AssignStmt:
						if isKeepAppend(x) {
							keep = and(append(append([]*bform{}, guards...), conds...)...)
							pos = x.Pos()
							return true
						}
						if len(x.Lhs) == 1 && len(x.Rhs) == 1 {
							if id, ok := x.Lhs[0].(*ast.Ident); ok {
								if b, ok := g.info.TypeOf(id).Underlying().(*types.Basic); ok && b.Kind() == types.Bool {
									fc.benv[g.info.ObjectOf(id)] = fc.form(x.Rhs[0])
								}
							}
						}
					case *ast.RangeStmt:
						if !emptyMap(x.X) {
							// another loop: give up on this body
							return false
						}
					case *ast.IfStmt:
						if x.Init != nil {
							return false
						}
						c := fc.form(x.Cond)
						if walk(x.Body.List, append(append([]*bform{}, conds...), c)) {
							return true
						}
						// early exit guard
						if n := len(x.Body.List); n > 0 && x.Else == nil {
							if br, ok := x.Body.List[n-1].(*ast.BranchStmt); ok && br.Tok == token.CONTINUE {
								guards = append(guards, &bform{op: "not", kids: []*bform{c}})
							}
						}
						if eb, ok := x.Else.(*ast.BlockStmt); ok {
							if walk(eb.List, append(append([]*bform{}, conds...), &bform{op: "not", kids: []*bform{c}})) {
								return true
							}
						}
					}
				}
				return false
			}
			if !walk(rs.Body.List, nil) || keep == nil {
				return true
			}
			found++
			// the chunk may legitimately be dropped for lying outside the time window: assume it overlaps the window
			// (or that no window is set)
			st, en := "it.start", "it.end"
			cs, ce2 := "ChunkIndex.MessageStartTime", "ChunkIndex.MessageEndTime"
			overlap := and(or(atom(cs, "<", en), atom(en, "==", "MAX")), atom(st, "<=", ce2), atom(cs, "<=", ce2), atom(st, "<=", en))
			assume := and(atom("len(ChunkIndex.MessageIndexOffsets)", "==", "0"), overlap)
			construct := "chunk index without message indexes is kept by the channel filter"
			if ce := counterexample(assume, keep, nil); ce != "" {
				r.violated(rule, fname, construct, p.pos(pos),
					"a chunk index that lists no message indexes is dropped when "+ce+" (keep condition with the message-index map empty: "+keep.String()+"); nothing can be inferred about the channels of such a chunk, so the index-based read silently loses its messages")
			} else {
				r.held(rule, fname, construct, p.pos(pos), "keep condition with the message-index map empty: "+keep.String())
			}
			return true
		})
	}
	if found == 0 {
		r.note(rule, "mcap.indexedMessageIterator", "channel filter over the chunk indexes", "", "no loop over it.chunkIndexes that appends the kept entries found: not judged")
	}
}

func calleeQualifiedName(g *goLayouts, ce *ast.CallExpr) string {
	fn := g.calleeOf(ce)
	if fn == nil || fn.Pkg() == nil {
		return ""
	}
	return fn.Pkg().Path() + "." + fn.Name()
}
