package main

import (
	"go/types"

	"golang.org/x/tools/go/ssa"
)

// C05.m: index records that the writer retains until Close (ChunkIndex, AttachmentIndex, MetadataIndex, Statistics
// handed to the summary) own their reference-typed fields: a map or slice stored into such a record is created in the
// same call (make / literal), never a container that the Writer keeps and reuses for the next record - otherwise every
// retained record ends up describing the last one.
func checkRetainedRecordsOwnContainers(p *Program, r *Result, rule string) {
	retained := map[string]bool{"ChunkIndex": true, "AttachmentIndex": true, "MetadataIndex": true}
	n := 0
	for _, fn := range sortedFuncs(writerScope(p)) {
		for _, in := range instrsOf(fn) {
			st, ok := in.(*ssa.Store)
			if !ok {
				continue
			}
			tn, f, _, ok := fieldRef(st.Addr)
			if !ok || !retained[tn] {
				continue
			}
			switch st.Val.Type().Underlying().(type) {
			case *types.Map, *types.Slice:
			default:
				continue
			}
			n++
			construct := "container stored into " + tn + "." + f
			src := containerSource(st.Val, 0)
			if src == "" {
				r.held(rule, funcName(fn), construct, p.pos(st.Pos()), "created in this call")
			} else {
				r.violated(rule, funcName(fn), construct, p.pos(st.Pos()),
					"the "+tn+" that is kept for the summary stores "+src+"; the same container is reused (cleared and refilled) for the next record, so at Close every retained "+tn+" carries the contents of the last one")
			}
		}
	}
	if n == 0 {
		r.note(rule, "mcap.Writer", "containers in retained index records", "", "no map/slice field of a retained index record is stored: not judged")
	}
}

// containerSource: "" if v is created in the current call; otherwise a description of where it comes from.
func containerSource(v ssa.Value, depth int) string {
	if depth > 4 {
		return "a value of unknown origin"
	}
	switch x := v.(type) {
	case *ssa.MakeMap, *ssa.MakeSlice:
		return ""
	case *ssa.Const:
		return ""
	case *ssa.Slice:
		return containerSource(x.X, depth+1)
	case *ssa.Alloc:
		return ""
	case *ssa.Phi:
		for _, e := range x.Edges {
			if s := containerSource(e, depth+1); s != "" {
				return s
			}
		}
		return ""
	case *ssa.UnOp:
		if tn, f, _, ok := fieldRef(x.X); ok {
			return "the container held in " + tn + "." + f
		}
		if al, ok := x.X.(*ssa.Alloc); ok {
			for _, ref := range *al.Referrers() {
				if st, ok := ref.(*ssa.Store); ok && st.Addr == ssa.Value(al) {
					if s := containerSource(st.Val, depth+1); s != "" {
						return s
					}
				}
			}
			return ""
		}
	case *ssa.Call:
		if b, ok := x.Call.Value.(*ssa.Builtin); ok && b.Name() == "append" {
			return containerSource(x.Call.Args[0], depth+1)
		}
		return "" // result of a call: treated as owned by the caller
	case *ssa.Parameter:
		return "" // handed in by the caller of the public API: the caller's responsibility
	}
	return ""
}
