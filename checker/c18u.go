package main

import (
	"golang.org/x/tools/go/ssa"
)

// C18.u: a map key that was deleted is not looked up afterwards. In the converters the connection header map is
// stripped of "type" and "message_definition" before it becomes channel metadata; a later lookup of such a key (directly
// or in a helper that receives the map) always yields "", so whatever is derived from it (the schema identity, the
// schema name) silently collapses. The rule is a contradiction check: delete(m, K) dominating m[K] with no store of
// K in between cannot be intended.

func constKey(v ssa.Value) (string, bool) {
	if mi, ok := v.(*ssa.MakeInterface); ok {
		v = mi.X
	}
	if c, ok := v.(*ssa.Const); ok && c.Value != nil {
		return c.Value.ExactString(), true
	}
	return "", false
}

// paramLookups: constant keys that fn looks up in its i-th parameter (a map).
func paramLookups(fn *ssa.Function, i int) map[string]bool {
	out := map[string]bool{}
	if fn == nil || fn.Blocks == nil || i >= len(fn.Params) {
		return out
	}
	for _, in := range instrsOf(fn) {
		if lk, ok := in.(*ssa.Lookup); ok && lk.X == ssa.Value(fn.Params[i]) {
			if k, ok := constKey(lk.Index); ok {
				out[k] = true
			}
		}
	}
	return out
}

func checkDeletedKeyLookups(p *Program, r *Result, rule string, fns []*ssa.Function) {
	ndel := 0
	for _, fn := range fns {
		for _, ci := range callsIn(fn, func(ci ssa.CallInstruction) bool {
			bi, ok := ci.Common().Value.(*ssa.Builtin)
			return ok && bi.Name() == "delete"
		}) {
			m := ci.Common().Args[0]
			key, ok := constKey(ci.Common().Args[1])
			if !ok {
				continue
			}
			ndel++
			construct := "lookups of " + key + " after delete(" + valueLabel(m) + ", " + key + ")"
			bad := ""
			badPos := p.pos(ci.Pos())
			restored := func(at ssa.Instruction) bool {
				for _, in := range instrsOf(fn) {
					if mu, ok := in.(*ssa.MapUpdate); ok && mu.Map == m {
						if k, ok := constKey(mu.Key); (!ok || k == key) && instrDominates(ci, mu) && !instrDominates(at, mu) {
							return true
						}
					}
				}
				return false
			}
			for _, in := range instrsOf(fn) {
				if !instrDominates(ci, in) {
					continue
				}
				switch x := in.(type) {
				case *ssa.Lookup:
					if x.X == m {
						if k, ok := constKey(x.Index); ok && k == key && !restored(in) {
							bad = "m[" + key + "] is read"
							badPos = p.pos(x.Pos())
						}
					}
				case ssa.CallInstruction:
					f := x.Common().StaticCallee()
					if f == nil || !p.isRepoFunc(f) {
						continue
					}
					for i, a := range x.Common().Args {
						if a == m && paramLookups(f, i)[key] && !restored(in) {
							bad = funcName(f) + " reads " + key + " from the map it is passed"
							badPos = p.pos(x.Pos())
						}
					}
				}
			}
			if bad == "" {
				r.held(rule, funcName(fn), construct, p.pos(ci.Pos()), "the deleted key is not looked up again")
			} else {
				r.violated(rule, funcName(fn), construct, badPos,
					"after the key was deleted "+bad+": the lookup always yields the empty string, so what is derived from it (schema identity, name) is the same for every connection")
			}
		}
	}
	if ndel == 0 {
		r.held(rule, "ros", "no constant-key delete", "", "no delete with a constant key in the converters")
	}
}
