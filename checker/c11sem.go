package main

import (
	"go/constant"
	"go/types"
	"sort"
	"strings"

	"golang.org/x/tools/go/ssa"
)

// C11.a, decided semantically: Lexer.Next is explored once per opcode value with every incomputable OpCode value bound to
// that constant (see consteval.go). Whatever form the dispatch takes - switch, if-chain, map or array table, a helper
// that consults one - the question is the same: with opcode K, can Next return (token, record, nil), which token, and can
// it go round to the next record without returning?
//
//	specified opcode K      returns Token<K> with a nil error, and never goes on to the next record instead
//	chunk / attachment      handled before the generic read (streamed); no wrong token
//	unknown opcode          never returns a record; reaches the next iteration; meets no error a specified opcode would not meet
//
// Returns false when the exploration cannot decide (a token value that is not a constant): the caller then falls back to
// the syntactic form-matching.
func checkLexerDispatchSemantic(p *Program, r *Result, fname string, opName map[int]string, specOps []int, specNames map[int]string) bool {
	next := p.lookupFunc(pkgMcap, "Lexer.Next")
	if next == nil {
		return false
	}
	tokName := map[string]string{}
	sc := p.Pkgs[pkgMcap].Types.Scope()
	for _, n := range sc.Names() {
		if k, ok := sc.Lookup(n).(*types.Const); ok {
			if nt, ok := k.Type().(*types.Named); ok && nt.Obj().Name() == "TokenType" {
				tokName[k.Val().ExactString()] = n
			}
		}
	}
	type summary struct {
		okTokens  map[string]bool
		unknownOK bool
		loops     bool
		errRets   map[*ssa.Return]bool
	}
	run := func(K int64) (*summary, bool) {
		steps := 0
		outs := exploreUnderKey(p, next, "OpCode", K, nil, 0, &steps)
		if steps > 400000 {
			return nil, false
		}
		s := &summary{okTokens: map[string]bool{}, errRets: map[*ssa.Return]bool{}}
		for _, o := range outs {
			if !o.depK {
				continue
			}
			if o.kind == "loop" {
				s.loops = true
				continue
			}
			if len(o.results) != 3 {
				continue
			}
			errv := o.results[2]
			if errv.known && errv.isNil {
				tv := o.results[0]
				if tv.known && tv.v != nil && tv.v.Kind() == constant.Int {
					s.okTokens[tokName[tv.v.ExactString()]] = true
				} else {
					s.unknownOK = true
				}
			} else {
				s.errRets[o.ret] = true
			}
		}
		return s, true
	}
	sums := map[int]*summary{}
	for _, op := range specOps {
		s, ok := run(int64(op))
		if !ok || s.unknownOK {
			return false
		}
		sums[op] = s
	}
	// two opcodes the specification does not define
	var unknowns []int
	used := map[int]bool{0: true}
	for _, op := range specOps {
		used[op] = true
	}
	for k := 1; k < 256 && len(unknowns) < 2; k++ {
		if !used[k] && k >= 0x10 {
			unknowns = append(unknowns, k)
		}
	}
	unknowns = append(unknowns, 0xff)
	var regular *summary
	for _, op := range specOps {
		name := opName[op]
		s := sums[op]
		construct := "token for opcode " + name
		want := "Token" + strings.TrimPrefix(name, "Op")
		var toks []string
		for t := range s.okTokens {
			toks = append(toks, t)
		}
		sort.Strings(toks)
		switch {
		case name == "":
			r.violated("C11.a", fname, "opcode constant for "+specNames[op], p.pos(next.Pos()), "no Op constant has the value of the specification's "+specNames[op]+" record")
		case name == "OpAttachment":
			if len(toks) > 0 {
				r.violated("C11.a", fname, construct, p.pos(next.Pos()), "an attachment record is returned as "+strings.Join(toks, ",")+" instead of being streamed to the callback and skipped")
			} else {
				r.held("C11.a", fname, construct, p.pos(next.Pos()), "handled (streamed) before the generic record read")
			}
		case name == "OpChunk":
			if len(toks) > 1 || (len(toks) == 1 && toks[0] != want) {
				r.violated("C11.a", fname, construct, p.pos(next.Pos()), "a chunk record can be returned as "+strings.Join(toks, ","))
			} else {
				r.held("C11.a", fname, construct, p.pos(next.Pos()), "handled (expanded or emitted) before the generic record read")
			}
		case len(toks) == 0:
			r.violated("C11.a", fname, construct, p.pos(next.Pos()), "with this opcode the lexer never returns the record with a nil error; the record would be skipped as unknown or rejected")
		case len(toks) > 1 || toks[0] != want:
			r.violated("C11.a", fname, construct, p.pos(next.Pos()), "with this opcode the lexer returns "+strings.Join(toks, ",")+", expected "+want)
		case s.loops:
			r.violated("C11.a", fname, construct, p.pos(next.Pos()), "with this opcode the lexer can go on to the next record without returning this one")
		default:
			r.held("C11.a", fname, construct, p.pos(next.Pos()), "returns "+want+" and the record")
			if regular == nil {
				regular = s
			}
		}
	}
	// unknown opcodes
	bad := ""
	for _, k := range unknowns {
		s, ok := run(int64(k))
		if !ok || s.unknownOK {
			return false
		}
		switch {
		case len(s.okTokens) > 0:
			var toks []string
			for t := range s.okTokens {
				toks = append(toks, t)
			}
			bad = "a record with the unspecified opcode 0x" + strings.ToUpper(strconvHex(k)) + " is returned as " + strings.Join(toks, ",")
		case !s.loops:
			bad = "with the unspecified opcode 0x" + strings.ToUpper(strconvHex(k)) + " the lexer never reaches the next record: unknown records are not skipped"
		case regular != nil:
			for ret := range s.errRets {
				if !regular.errRets[ret] {
					bad = "an unspecified opcode leads to an error return that a specified opcode does not reach (" + p.pos(ret.Pos()) + "): unknown records must be skipped, not rejected"
				}
			}
		}
	}
	if bad != "" {
		r.violated("C11.a", fname, "default arm of the opcode switch", p.pos(next.Pos()), bad)
	} else {
		r.held("C11.a", fname, "default arm of the opcode switch", p.pos(next.Pos()), "unknown opcodes reach the next record after their body was read, without a token and without an error of their own")
	}
	return true
}

func strconvHex(k int) string {
	const d = "0123456789abcdef"
	if k < 16 {
		return string(d[k])
	}
	return string(d[k>>4]) + string(d[k&15])
}
