package main

import (
	"fmt"
	"go/token"

	"golang.org/x/tools/go/ssa"
)

// C10.k: tightness of additive bounds. E2 decides that an input-derived value is bounded on every path, not that the bound
// leaves room for what is added to it afterwards: `for off < n { b[off : off+9] }` is "bounded" although off+9 may exceed n.
// For a slice high bound or index of the form v + c (c >= 1 a constant, v input-derived) this rule looks at the guards that
// mention v on the paths to the sink (comparisons v + c1 (op) T + c2 on their continuing side) and requires one whose
// slack c1 - c2 (+1 when strict) is at least c. A site where no guard mentions v additively (the bound comes from a
// validating callee or an equality) is not judged.
func checkAdditiveBounds(p *Program, r *Result, rule string, fns []*ssa.Function, raw func(fn *ssa.Function, v ssa.Value) bool) {
	// addChain: v = base + k through ADD/SUB of constants and integer conversions
	var addChain func(v ssa.Value, depth int) (ssa.Value, int64)
	addChain = func(v ssa.Value, depth int) (ssa.Value, int64) {
		if depth > 6 {
			return v, 0
		}
		switch x := v.(type) {
		case *ssa.Convert:
			return addChain(x.X, depth+1)
		case *ssa.BinOp:
			if x.Op == token.ADD || x.Op == token.SUB {
				if k, ok := x.Y.(*ssa.Const); ok && k.Value != nil {
					b, c := addChain(x.X, depth+1)
					if x.Op == token.ADD {
						return b, c + k.Int64()
					}
					return b, c - k.Int64()
				}
				if k, ok := x.X.(*ssa.Const); ok && k.Value != nil && x.Op == token.ADD {
					b, c := addChain(x.Y, depth+1)
					return b, c + k.Int64()
				}
			}
		}
		return v, 0
	}
	n := 0
	for _, fn := range fns {
		seen := map[string]int{}
		for _, in := range instrsOf(fn) {
			var operand ssa.Value
			kind, target := "", ""
			switch x := in.(type) {
			case *ssa.Slice:
				if x.High != nil && isByteSlice(x.X.Type()) {
					operand, kind, target = x.High, "slice-high", valueLabel(x.X)
				}
			}
			if operand == nil {
				continue
			}
			base, c := addChain(operand, 0)
			if c < 1 || base == operand {
				continue
			}
			if _, isConst := base.(*ssa.Const); isConst {
				continue
			}
			if raw != nil && !raw(fn, base) {
				continue
			}
			// guards on the dominating path that mention base additively
			best := int64(-1 << 62)
			found := false
			for d := in.Block(); d != nil; d = d.Idom() {
				if len(d.Preds) != 1 {
					continue
				}
				pr := d.Preds[0]
				iff, ok := pr.Instrs[len(pr.Instrs)-1].(*ssa.If)
				if !ok {
					continue
				}
				cmp, ok := iff.Cond.(*ssa.BinOp)
				if !ok {
					continue
				}
				onTrue := pr.Succs[0] == d
				// continuing side as f <= 0 / f < 0 with f linear over SSA values (subtraction forms included:
				// bufSize-offset < 9 failing means offset + 9 <= bufSize)
				var c1, c2 int64
				var strict, ok2 bool
				op := cmp.Op
				if !onTrue {
					op = map[token.Token]token.Token{token.LSS: token.GEQ, token.LEQ: token.GTR, token.GTR: token.LEQ, token.GEQ: token.LSS}[op]
				}
				f := newSumForm()
				switch op {
				case token.LSS, token.LEQ:
					linearize(cmp.X, 1, f, 0)
					linearize(cmp.Y, -1, f, 0)
					strict = op == token.LSS
				case token.GTR, token.GEQ:
					linearize(cmp.Y, 1, f, 0)
					linearize(cmp.X, -1, f, 0)
					strict = op == token.GTR
				default:
					continue
				}
				f.clean()
				if f.coef[fmtPtr(base)] == 1 && len(f.coef) >= 2 {
					c1, c2, ok2 = f.k, 0, true
				}
				if !ok2 {
					continue
				}
				found = true
				s := c1 - c2
				if strict {
					s++
				}
				if s > best {
					best = s
				}
			}
			if !found {
				continue
			}
			n++
			construct := kind + "(" + target + ") <- " + valueLabel(base) + "+" + itoa(int(c)) + " has room"
			seen[construct]++
			if k := seen[construct]; k > 1 {
				construct += " #" + itoa(k-1)
			}
			if best >= c {
				r.held(rule, funcName(fn), construct, p.pos(in.Pos()), "a guard on the path leaves at least "+itoa(int(c))+" bytes beyond the checked value")
			} else {
				r.violated(rule, funcName(fn), construct, p.pos(in.Pos()),
					"the input-derived value is checked against its bound, but the checks on the path leave room for at most "+itoa(int(best))+" more, while "+itoa(int(c))+" is added before it is used as a slice bound: a value close to the bound slices past the end of the buffer (panic)")
			}
		}
	}
	if n == 0 {
		r.note(rule, "mcap", "additive bounds", "", "no slice bound of the form checked value + constant found")
	}
}

// sumForm is a linear combination of opaque SSA values (and len(x) terms, identified by x) plus a constant.
type sumForm struct {
	coef map[string]int64
	vals map[string]ssa.Value
	k    int64
}

func (l *sumForm) atom(key string, v ssa.Value, sign int64) {
	l.coef[key] += sign
	l.vals[key] = v
}

func linearize(v ssa.Value, sign int64, out *sumForm, depth int) {
	if depth > 8 {
		out.atom(fmtPtr(v), v, sign)
		return
	}
	switch x := v.(type) {
	case *ssa.Const:
		if x.Value != nil && isIntegerType(x.Type()) {
			out.k += sign * x.Int64()
			return
		}
	case *ssa.Convert:
		if isIntegerType(x.X.Type()) {
			linearize(x.X, sign, out, depth+1)
			return
		}
	case *ssa.BinOp:
		if x.Op == token.ADD {
			linearize(x.X, sign, out, depth+1)
			linearize(x.Y, sign, out, depth+1)
			return
		}
		if x.Op == token.SUB {
			linearize(x.X, sign, out, depth+1)
			linearize(x.Y, -sign, out, depth+1)
			return
		}
	case *ssa.Call:
		if b, ok := x.Call.Value.(*ssa.Builtin); ok && b.Name() == "len" && len(x.Call.Args) == 1 {
			out.atom("len:"+fmtPtr(x.Call.Args[0]), x, sign)
			return
		}
	}
	out.atom(fmtPtr(v), v, sign)
}

func newSumForm() *sumForm {
	return &sumForm{coef: map[string]int64{}, vals: map[string]ssa.Value{}}
}

func (l *sumForm) clean() {
	for k, c := range l.coef {
		if c == 0 {
			delete(l.coef, k)
		}
	}
}

// checkSumBounds: C10.k for a slice x[lo : a + b] whose high bound is the sum of two non-constant values, one of them
// input-derived. Where a guard on the dominating path relates len(x) to b (or a), its continuing side must imply
// a + b <= len(x): `len(x) - a < b`, `a + b > len(x)`, `b > len(x) - a` (and their conversions) do; `len(x) + a < b` does not.
func checkSumBounds(p *Program, r *Result, rule string, fns []*ssa.Function) {
	n := 0
	for _, fn := range fns {
		seen := map[string]int{}
		for _, in := range instrsOf(fn) {
			sl, ok := in.(*ssa.Slice)
			if !ok || sl.High == nil || !isByteSlice(sl.X.Type()) {
				continue
			}
			hi := sl.High
			for {
				c, ok := hi.(*ssa.Convert)
				if !ok {
					break
				}
				hi = c.X
			}
			add, ok := hi.(*ssa.BinOp)
			if !ok || add.Op != token.ADD {
				continue
			}
			if _, c := add.X.(*ssa.Const); c {
				continue
			}
			if _, c := add.Y.(*ssa.Const); c {
				continue
			}
			target := newSumForm() // a + b - len(x)
			linearize(hi, 1, target, 0)
			lenKey := "len:" + fmtPtr(sl.X)
			target.coef[lenKey]--
			target.clean()
			if len(target.coef) != 3 {
				continue
			}
			found, proved := false, false
			for d := in.Block(); d != nil; d = d.Idom() {
				if len(d.Preds) != 1 {
					continue
				}
				pr := d.Preds[0]
				iff, ok := pr.Instrs[len(pr.Instrs)-1].(*ssa.If)
				if !ok {
					continue
				}
				cmp, ok := iff.Cond.(*ssa.BinOp)
				if !ok {
					continue
				}
				op := cmp.Op
				if pr.Succs[0] != d {
					op = map[token.Token]token.Token{token.LSS: token.GEQ, token.LEQ: token.GTR, token.GTR: token.LEQ, token.GEQ: token.LSS}[op]
				}
				e := newSumForm() // continuing side as e <= 0 (or e < 0)
				strict := false
				switch op {
				case token.LSS, token.LEQ:
					linearize(cmp.X, 1, e, 0)
					linearize(cmp.Y, -1, e, 0)
					strict = op == token.LSS
				case token.GTR, token.GEQ:
					linearize(cmp.Y, 1, e, 0)
					linearize(cmp.X, -1, e, 0)
					strict = op == token.GTR
				default:
					continue
				}
				e.clean()
				if _, hasLen := e.coef[lenKey]; !hasLen {
					continue
				}
				mentions := 0
				for k := range target.coef {
					if _, ok := e.coef[k]; ok {
						mentions++
					}
				}
				if mentions < 3 {
					continue
				}
				found = true
				same := len(e.coef) == len(target.coef)
				for k, c := range target.coef {
					if e.coef[k] != c {
						same = false
					}
				}
				if same && (e.k >= 0 || (strict && e.k >= -1)) {
					proved = true
				}
			}
			if !found {
				continue
			}
			n++
			construct := "slice-high(" + valueLabel(sl.X) + ") <- " + valueLabel(add.X) + " + " + valueLabel(add.Y) + " within len"
			seen[construct]++
			if k := seen[construct]; k > 1 {
				construct += " #" + itoa(k-1)
			}
			if proved {
				r.held(rule, funcName(fn), construct, p.pos(in.Pos()), "a guard on the path implies that the sum is at most the length of the sliced buffer")
			} else {
				r.violated(rule, funcName(fn), construct, p.pos(in.Pos()),
					"the guards on the path relate the two summands to the buffer length but do not imply that their sum stays within it: the slice may reach past the end of the buffer (panic)")
			}
		}
	}
	if n == 0 {
		r.note(rule, "mcap", "sum bounds", "", "no slice bound of the form a + b guarded against len found")
	}
}

func fmtPtr(v ssa.Value) string { return fmt.Sprintf("%p", v) }
