package main

// Positive controls: semantic one-construct breakages applied in memory (packages.Config.Overlay);
// nothing is written into /repo. Each runs in its own process. A control whose anchor text is no
// longer present is "stale" (skipped, recorded), one that applies but does not make its rule fire
// is "silent" (the check is then undecided).

import (
	"fmt"
	"os"
	"path/filepath"
	"strings"
)

type control struct {
	Prop   string
	Name   string
	Rule   string
	File   string // relative to repo root
	Old    string
	New    string
	Expect string // substring that must occur in the key of a violated obligation
}

var allControls []control

func addControl(c control) { allControls = append(allControls, c) }

func controlsFor(prop string) []control {
	var out []control
	for _, c := range allControls {
		if c.Prop == prop {
			out = append(out, c)
		}
	}
	return out
}

func runControlChild(def *propDef, name, repo string) int {
	var c *control
	for i := range allControls {
		if allControls[i].Prop == def.id && allControls[i].Name == name {
			c = &allControls[i]
		}
	}
	if c == nil {
		fmt.Println("CONTROL error: unknown control", name)
		return 2
	}
	path := filepath.Join(repo, c.File)
	src, err := os.ReadFile(path)
	if err != nil {
		fmt.Println("CONTROL stale: cannot read", c.File)
		return 0
	}
	if strings.Count(string(src), c.Old) != 1 {
		fmt.Printf("CONTROL stale: anchor text of %s occurs %d times in %s\n", c.Name, strings.Count(string(src), c.Old), c.File)
		return 0
	}
	mutated := strings.Replace(string(src), c.Old, c.New, 1)
	p, err := loadProgram(loadOpts{repo: repo, needSSA: true, overlay: map[string][]byte{path: []byte(mutated)}})
	if err != nil {
		fmt.Printf("CONTROL error: mutated program does not load: %v\n", strings.ReplaceAll(err.Error(), "\n", " "))
		return 2
	}
	r := newResult(def.id, "control")
	def.fn(p, r)
	for _, o := range r.Obls {
		if o.Status == Violated && o.Rule == c.Rule && strings.Contains(o.Key, c.Expect) {
			fmt.Printf("CONTROL fired: %s -> %s\n", c.Name, o.Key)
			return 0
		}
	}
	fmt.Printf("CONTROL silent: %s applied but no violated obligation of rule %s matching %q\n", c.Name, c.Rule, c.Expect)
	return 0
}
