package main

import (
	"fmt"
	"go/token"
	"go/types"
	"strings"

	"golang.org/x/tools/go/ssa"
)

func init() { register("C01", true, checkC01) }

func checkC01(p *Program, r *Result) {
	r.Explanation = "Structural necessary conditions of 'write then sequential read returns exactly what was written': " +
		"(C01.a) for each of the 15 record kinds the Go encoder layout and the Go decoder layout (extracted from typed ASTs, helpers summarised recursively) both equal the table in the specification — " +
		"so a symmetric mistake in writer and parser is still caught; the lexer's inline chunk-header decode has the specified widths; " +
		"(C01.b) the size reserved in the writer's reusable message buffer covers what is written into it; " +
		"(C01.c) values handed to the caller do not alias reusable read buffers: byte-slice fields of Parse* results are fresh copies (documented exceptions: ParseChunk, ParseMessage/PopulateFrom(copy=false)), " +
		"both iterators copy message data (PopulateFrom with constant true on the message they return), a chunk slot's buffer never aliases the iterator's read buffer, and the token bytes Lexer.Next returns are a slice of the caller's buffer or freshly allocated, never a lexer-owned reusable buffer; " +
		"(C01.d) each yielded message is bound to the channel looked up by its own ChannelID and the schema looked up by that channel's SchemaID, a missing schema being an error iff SchemaID != 0."
	r.NotDecided = []string{"equality of values for all inputs and configurations", "the lexer's de-chunking state machine", "interleavings and flag combinations"}
	r.rule("C01.a", "encoder and decoder layouts equal the spec table", 45)
	r.rule("C01.b", "reserved message-buffer size >= bytes written into it", 15)
	r.rule("C01.c", "returned values do not alias reusable read buffers", 5)
	r.rule("C01.d", "message -> channel -> schema binding keys", 4)
	lf, err := gatherLayouts(p)
	if err != nil {
		r.undecided("C01.a", "spec", "record tables", "", err.Error())
		return
	}
	lf.checkEncVsSpec(p, r, "C01.a")
	lf.checkDecVsSpec(p, r, "C01.a")
	lf.checkSizes(p, r, "C01.b")
	checkParseAliasing(p, r, "C01.c")
	checkPopulateCopies(p, r, "C01.c")
	checkSlotOwnership(p, r, "C01.c")
	checkLexerTokenOwnership(p, r, "C01.c")
	checkBindingKeys(p, r, "C01.d")
	checkDecoderLimits(p, r, "C01.z")
	r.rule("C01.t", "stream consumption per chunk depends on the data format, not on the decoder implementation", 1)
	checkTrailerDrain(p, r, "C01.t")
	r.rule("C01.r", "the chunk buffer read at flush is the buffer the compressor writes into", 1)
	checkChunkBufferIdentity(p, r, "C01.r")
	// what the reader decodes and validates a chunk with is what the writer put into the chunk header
	r.rule("C01.s", "the writer's scratch buffer holds one record at a time (no encoder call between fill and write)", 5)
	checkScratchExclusive(p, r, "C01.s")
	r.rule("C01.p", "a record filled in place has every field assigned on every successful path; fresh-record wrappers test the decode error", 6)
	checkPopulateComplete(p, r, "C01.p")
	r.rule("C01.n", "NextInto replaces a nil message before using it", 2)
	checkNextIntoNil(p, r, "C01.n")
	r.rule("C01.h", "chunk header size/CRC/times are those of this chunk: captured before reset, accumulators start fresh (C05.d)", 9)
	importRule(p, r, "C01.h", func(sub *Result) { checkFlush(p, sub) }, nil)
}

// checkDecoderLimits: the chunk decoders must accept everything the writer's own encoders can emit at any level;
// options that cap what a decoder accepts (window, memory) break the round trip for the stronger levels / large
// chunks only. The readers bound memory through MaxDecompressedChunkSize / makeSafe instead.
func checkDecoderLimits(p *Program, r *Result, rule string) {
	r.rule(rule, "chunk decoders are constructed without acceptance-limiting options", 1)
	n, bad := 0, 0
	for _, fn := range p.repoFunctions(pkgMcap) {
		for _, ci := range callsIn(fn, func(ssa.CallInstruction) bool { return true }) {
			name := staticCalleeName(ci.Common())
			if strings.HasSuffix(name, "zstd.NewReader") || strings.HasSuffix(name, "lz4/v4.NewReader") {
				n++
			}
			if strings.Contains(name, "compress/zstd.WithDecoderMaxWindow") || strings.Contains(name, "compress/zstd.WithDecoderMaxMemory") ||
				strings.Contains(name, "compress/zstd.WithDecoderLowmem") && false {
				bad++
				r.violated(rule, funcName(fn), "decoder option "+trimPkg(name), p.pos(ci.Pos()),
					"the chunk decoder is restricted below what the writer's encoder may announce (window/memory grow with the compression level and chunk size); files written at the stronger levels would not read back")
			}
		}
	}
	if bad == 0 {
		r.held(rule, "mcap (reader side)", "no acceptance-limiting decoder option", "", fmt.Sprintf("%d decoder constructions, none restricted", n))
	}
}

// checkParseAliasing: byte-slice fields of the structs returned by Parse* must be fresh.
func checkParseAliasing(p *Program, r *Result, rule string) {
	allowed := map[string]string{
		"ParseChunk":   "documented: Records aliases the record buffer (the chunk is decoded immediately)",
		"ParseMessage": "documented: PopulateFrom(copy=false) aliases the record buffer",
	}
	oc := &originCtx{p: p}
	sp := p.SSAPkgs[pkgMcap]
	var names []string
	for name := range sp.Members {
		if strings.HasPrefix(name, "Parse") {
			names = append(names, name)
		}
	}
	sortStrings(names)
	for _, name := range names {
		fn, ok := sp.Members[name].(*ssa.Function)
		if !ok || fn.Blocks == nil {
			continue
		}
		// the record type the parser returns; a local cursor that wraps the buffer is not handed to the caller
		resName := ""
		if res := fn.Signature.Results(); res.Len() > 0 {
			if nt, _ := structOf(res.At(0).Type()); nt != nil {
				resName = nt.Obj().Name()
			}
		}
		for _, in := range instrsOf(fn) {
			st, ok := in.(*ssa.Store)
			if !ok {
				continue
			}
			tn, f, _, ok := fieldRef(st.Addr)
			if !ok || !isByteSlice(st.Val.Type()) || (resName != "" && tn != resName) {
				continue
			}
			org := oc.origins(st.Val)
			construct := tn + "." + f + " of the result"
			aliasing := false
			for _, o := range org {
				if strings.HasPrefix(o, "param:") {
					aliasing = true
				}
			}
			switch {
			case !aliasing:
				r.held(rule, funcName(fn), construct, p.pos(st.Pos()), "origin: "+strings.Join(org, ", "))
			case allowed[name] != "":
				r.note(rule, funcName(fn), construct+" aliases its input", p.pos(st.Pos()), allowed[name])
			default:
				r.violated(rule, funcName(fn), construct, p.pos(st.Pos()),
					"the returned byte slice aliases the caller's record buffer ("+strings.Join(org, ", ")+"); the lexer reuses that buffer, so the value changes after the next read")
			}
		}
	}
}

// checkPopulateCopies: in the message iterators, PopulateFrom on the message that is returned copies the data.
func checkPopulateCopies(p *Program, r *Result, rule string) {
	for _, tn := range []string{"unindexedMessageIterator", "indexedMessageIterator"} {
		for _, fn := range methodsOf(p, pkgMcap, tn) {
			if fn.Blocks == nil {
				continue
			}
			returned := map[ssa.Value]bool{}
			for _, in := range instrsOf(fn) {
				if ret, ok := in.(*ssa.Return); ok {
					for _, rv := range ret.Results {
						returned[rv] = true
					}
				}
			}
			for _, ci := range callsIn(fn, func(ci ssa.CallInstruction) bool { return calleeRepoName(ci) == "mcap.Message.PopulateFrom" }) {
				args := ci.Common().Args
				recv, cp := args[0], args[2]
				isRet := returned[recv]
				if phi, ok := recv.(*ssa.Phi); ok {
					isRet = isRet || returned[phi]
				}
				c, isConst := cp.(*ssa.Const)
				construct := "PopulateFrom on " + valueLabel(recv)
				switch {
				case isConst && c.Value != nil && c.Value.String() == "true":
					r.held(rule, funcName(fn), construct, p.pos(ci.Pos()), "copyData is the constant true")
				case !isRet:
					r.held(rule, funcName(fn), construct+" (not returned)", p.pos(ci.Pos()), "aliasing message is a local that is never returned")
				default:
					r.violated(rule, funcName(fn), construct, p.pos(ci.Pos()),
						"the message handed to the caller is populated without an unconditional copy of its data (copyData is "+describeVal(cp)+"); its Data would alias a buffer that later reads overwrite")
				}
			}
		}
	}
}

// checkSlotOwnership: every value stored into chunkSlot.buf is fresh, derived from the slot itself, or a decoder's
// output appended to the slot — never a view of the iterator's reusable read buffer.
func checkSlotOwnership(p *Program, r *Result, rule string) {
	oc := &originCtx{p: p}
	n := 0
	for _, fn := range methodsOf(p, pkgMcap, "indexedMessageIterator") {
		if fn.Blocks == nil {
			continue
		}
		for _, st := range fieldStores(fn, "chunkSlot", "buf") {
			n++
			org := oc.origins(st.Val)
			bad := ""
			for _, o := range org {
				if o == "fresh" || o == "field:chunkSlot.buf" {
					continue
				}
				bad = o
			}
			construct := "store to chunkSlot.buf <- " + valueLabel(st.Val)
			if bad == "" {
				r.held(rule, funcName(fn), construct, p.pos(st.Pos()), "origin: "+strings.Join(org, ", "))
			} else {
				r.violated(rule, funcName(fn), construct, p.pos(st.Pos()),
					"a chunk slot's buffer must own its bytes; this value comes from "+bad+", which is reused for the next chunk while this slot still has unread messages")
			}
		}
	}
	if n == 0 {
		r.undecided(rule, "mcap.indexedMessageIterator", "stores to chunkSlot.buf", "", "no store to chunkSlot.buf found; slot ownership cannot be decided")
	}
}

// checkBindingKeys: in each NextInto, the (schema, channel, message) triple returned together is consistently keyed.
func checkBindingKeys(p *Program, r *Result, rule string) {
	for _, tn := range []string{"unindexedMessageIterator", "indexedMessageIterator"} {
		fn := p.lookupFunc(pkgMcap, tn+".NextInto")
		if fn == nil {
			r.undecided(rule, "mcap."+tn+".NextInto", "anchor", "", "function not found")
			continue
		}
		fname := funcName(fn)
		found := false
		for _, in := range instrsOf(fn) {
			ret, ok := in.(*ssa.Return)
			if !ok || len(ret.Results) != 4 || isNilConst(ret.Results[2]) {
				continue
			}
			found = true
			schema, channel, msg := ret.Results[0], ret.Results[1], ret.Results[2]
			pos := p.pos(ret.Pos())
			// the binding may be done by an unexported helper that is handed the message and returns schema and channel:
			// the three conditions are then judged at the helper's returns that deliver a channel
			if se, ok := schema.(*ssa.Extract); ok {
				if ce, ok := channel.(*ssa.Extract); ok && ce.Tuple == se.Tuple {
					if call, ok := ce.Tuple.(*ssa.Call); ok {
						if h := call.Call.StaticCallee(); h != nil && p.transparent(h) {
							var hmsg ssa.Value
							for i, a := range call.Call.Args {
								if sameOrPhi(a, msg) && i < len(h.Params) {
									hmsg = h.Params[i]
								}
							}
							// tail call: the message too is what the helper returns
							msgIdx := -1
							if me, ok := msg.(*ssa.Extract); ok && me.Tuple == ce.Tuple {
								msgIdx = me.Index
							}
							if hmsg != nil || msgIdx >= 0 {
								n := 0
								for _, hin := range instrsOf(h) {
									hret, ok := hin.(*ssa.Return)
									if !ok || ce.Index >= len(hret.Results) || isNilConst(hret.Results[ce.Index]) {
										continue
									}
									n++
									if msgIdx >= 0 {
										hmsg = hret.Results[msgIdx]
									}
									hs, hc := hret.Results[se.Index], hret.Results[ce.Index]
									hpos := p.pos(hret.Pos())
									if ok, why := isTableGet(hc, "channels", hmsg, "ChannelID"); ok {
										r.held(rule, fname, "channel of the yielded message", hpos, "looked up (in "+funcName(h)+") by the yielded message's ChannelID")
									} else {
										r.violated(rule, fname, "channel of the yielded message", hpos, "the returned channel is not the lookup of the returned message's ChannelID: "+why)
									}
									if ok, why := isTableGet(hs, "schemas", hc, "SchemaID"); ok {
										r.held(rule, fname, "schema of the yielded message", hpos, "looked up by the yielded channel's SchemaID")
									} else {
										r.violated(rule, fname, "schema of the yielded message", hpos, "the returned schema is not the lookup of the returned channel's SchemaID: "+why)
									}
									if !nilSchemaGuard(h, hret, hs, hc) {
										r.violated(rule, fname, "missing schema check", hpos, "no dominating test 'schema == nil && channel.SchemaID != 0' returning an error before the message is yielded")
									} else {
										r.held(rule, fname, "missing schema check", hpos, "nil schema with non-zero SchemaID returns an error")
									}
								}
								if n > 0 {
									continue
								}
							}
						}
					}
				}
			}
			// channel = <it>.channels.Get(msg.ChannelID)
			if ok, why := isTableGet(channel, "channels", msg, "ChannelID"); ok {
				r.held(rule, fname, "channel of the yielded message", pos, "looked up by the yielded message's ChannelID")
			} else {
				r.violated(rule, fname, "channel of the yielded message", pos, "the returned channel is not the lookup of the returned message's ChannelID: "+why)
			}
			if ok, why := isTableGet(schema, "schemas", channel, "SchemaID"); ok {
				r.held(rule, fname, "schema of the yielded message", pos, "looked up by the yielded channel's SchemaID")
			} else {
				r.violated(rule, fname, "schema of the yielded message", pos, "the returned schema is not the lookup of the returned channel's SchemaID: "+why)
			}
			// nil schema is an error iff SchemaID != 0: the return is dominated by a branch on (schema == nil && SchemaID != 0)
			if !nilSchemaGuard(fn, ret, schema, channel) {
				r.violated(rule, fname, "missing schema check", pos, "no dominating test 'schema == nil && channel.SchemaID != 0' returning an error before the message is yielded")
			} else {
				r.held(rule, fname, "missing schema check", pos, "nil schema with non-zero SchemaID returns an error")
			}
		}
		if !found {
			r.undecided(rule, fname, "yield", "", "no return of a non-nil message found")
		}
	}
}

// isTableGet: v = <recv>.<table>.Get(load(<of>.<keyField>)), of being the given value (phis resolved).
func isTableGet(v ssa.Value, table string, of ssa.Value, keyField string) (bool, string) {
	c, ok := v.(*ssa.Call)
	if !ok {
		return false, "not a table lookup (" + describeVal(v) + ")"
	}
	f := c.Call.StaticCallee()
	if f != nil && f.Origin() != nil {
		f = f.Origin()
	}
	if f == nil || f.Name() != "Get" || len(c.Call.Args) != 2 {
		return false, "not a slicemap Get"
	}
	if _, fname, _, ok := fieldRef(c.Call.Args[0]); !ok || fname != table {
		return false, "lookup is not in the " + table + " table"
	}
	key := stripConv(c.Call.Args[1])
	u, ok := key.(*ssa.UnOp)
	if !ok || u.Op != token.MUL {
		return false, "key is not a field load"
	}
	_, kf, base, ok := fieldRef(u.X)
	if !ok || kf != keyField {
		return false, "key field is " + kf + ", expected " + keyField
	}
	if !sameOrPhi(base, of) {
		return false, "key is read from a different value than the one returned"
	}
	return true, ""
}

func sameOrPhi(a, b ssa.Value) bool {
	if a == b {
		return true
	}
	if phi, ok := b.(*ssa.Phi); ok {
		for _, e := range phi.Edges {
			if e == a {
				return true
			}
		}
	}
	if phi, ok := a.(*ssa.Phi); ok {
		for _, e := range phi.Edges {
			if e == b {
				return true
			}
		}
	}
	return false
}

func nilSchemaGuard(fn *ssa.Function, ret *ssa.Return, schema, channel ssa.Value) bool {
	// two tests, nested in either order: schema == nil and channel.SchemaID != 0; where both hold every path returns a
	// non-nil error; the outer test dominates ret.
	isSchemaNil := func(v ssa.Value) bool {
		b, ok := v.(*ssa.BinOp)
		return ok && b.Op == token.EQL && ((b.X == schema && isNilConst(b.Y)) || (b.Y == schema && isNilConst(b.X)))
	}
	isIDNonZero := func(v ssa.Value) bool {
		c2, ok := v.(*ssa.BinOp)
		if !ok || c2.Op != token.NEQ {
			return false
		}
		var load ssa.Value
		if cz, ok := c2.Y.(*ssa.Const); ok && cz.Value != nil && cz.Value.String() == "0" {
			load = c2.X
		} else if cz, ok := c2.X.(*ssa.Const); ok && cz.Value != nil && cz.Value.String() == "0" {
			load = c2.Y
		}
		return load != nil && loadOfField(load, "Channel", "SchemaID")
	}
	for _, blk := range fn.Blocks {
		if len(blk.Instrs) == 0 {
			continue
		}
		iff, ok := blk.Instrs[len(blk.Instrs)-1].(*ssa.If)
		if !ok || !blk.Dominates(ret.Block()) {
			continue
		}
		a, b := isSchemaNil(iff.Cond), isIDNonZero(iff.Cond)
		if !a && !b {
			continue
		}
		t := blk.Succs[0]
		if len(t.Instrs) == 0 {
			continue
		}
		i2, ok := t.Instrs[len(t.Instrs)-1].(*ssa.If)
		if !ok {
			continue
		}
		if ((a && isIDNonZero(i2.Cond)) || (b && isSchemaNil(i2.Cond))) && returnsNonNilErrOnAllPaths(fn, t.Succs[0]) {
			return true
		}
	}
	return false
}

var _ = types.Typ

// checkLexerTokenOwnership: the bytes Lexer.Next hands out are a slice of the caller's buffer p or freshly allocated
// for this call - never a buffer the lexer keeps and reuses (callers that pass nil keep the slices, and ParseMessage
// results alias them).
func checkLexerTokenOwnership(p *Program, r *Result, rule string) {
	fn := p.lookupFunc(pkgMcap, "Lexer.Next")
	if fn == nil {
		r.undecided(rule, "mcap.Lexer.Next", "anchor", "", "not found")
		return
	}
	oc := &originCtx{p: p}
	all := map[string]bool{}
	bad := map[string]string{}
	n := 0
	for _, in := range instrsOf(fn) {
		ret, ok := in.(*ssa.Return)
		if !ok || len(ret.Results) != 3 || isNilConst(ret.Results[1]) {
			continue
		}
		n++
		for _, o := range oc.origins(ret.Results[1]) {
			all[o] = true
			if o == "fresh" || strings.HasPrefix(o, "param:") {
				continue
			}
			if _, had := bad[o]; !had {
				bad[o] = p.pos(ret.Pos())
			}
		}
	}
	var os []string
	for o := range all {
		os = append(os, o)
	}
	sortStrings(os)
	if n == 0 {
		r.undecided(rule, funcName(fn), "returned token bytes", p.pos(fn.Pos()), "no return with a non-nil byte slice found")
		return
	}
	if len(bad) == 0 {
		r.held(rule, funcName(fn), "returned token bytes", p.pos(fn.Pos()), "origin: "+strings.Join(os, ", "))
		return
	}
	var bs []string
	for o := range bad {
		bs = append(bs, o)
	}
	sortStrings(bs)
	for _, o := range bs {
		r.violated(rule, funcName(fn), "returned token bytes <- "+o, bad[o],
			"the byte slice handed to the caller comes from "+o+", which the lexer keeps and overwrites on a later call; callers that pass nil retain the slices (and ParseMessage results alias them), so earlier records change under them")
	}
}
