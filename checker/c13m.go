package main

import (
	"strings"

	"golang.org/x/tools/go/ssa"
)

// C13.m / C17.m: Writer methods treat the records they are handed as read-only. A method that stores into a field of
// its record argument, or reorders a slice that belongs to it (sort, reverse, copy into), makes the bytes written depend
// on what happened to that record value before (another writer, an earlier call) and changes the order in which the
// caller's data appears in the file.
func checkWriterDoesNotMutateInputs(p *Program, r *Result, rule string) {
	recordTypes := map[string]bool{"Header": true, "Footer": true, "Schema": true, "Channel": true, "Message": true, "Chunk": true, "MessageIndex": true,
		"ChunkIndex": true, "Attachment": true, "AttachmentIndex": true, "Statistics": true, "Metadata": true, "MetadataIndex": true, "SummaryOffset": true, "DataEnd": true}
	oc := &originCtx{p: p}
	n, bad := 0, 0
	for _, fn := range methodsOf(p, pkgMcap, "Writer") {
		if fn.Blocks == nil {
			continue
		}
		n++
		fname := funcName(fn)
		isRecordParam := func(v ssa.Value) (string, bool) {
			for i, prm := range fn.Params {
				if i == 0 || v != ssa.Value(prm) {
					continue
				}
				if nt, _ := structOf(prm.Type()); nt != nil && recordTypes[nt.Obj().Name()] {
					return nt.Obj().Name(), true
				}
			}
			return "", false
		}
		for _, in := range instrsOf(fn) {
			switch x := in.(type) {
			case *ssa.Store:
				if fa, ok := x.Addr.(*ssa.FieldAddr); ok {
					if tn, isP := isRecordParam(fa.X); isP {
						_, f, _, _ := fieldRef(fa)
						bad++
						r.violated(rule, fname, "store to "+tn+"."+f+" of the record argument", p.pos(x.Pos()),
							"the method modifies the record it was asked to write; a record value shared between writers (or written twice) then produces different bytes depending on what was done with it before")
					}
				}
			case ssa.CallInstruction:
				name := staticCalleeName(x.Common())
				if f := x.Common().StaticCallee(); f != nil && f.Origin() != nil {
					name = staticCalleeName2(f.Origin())
				}
				mut := stableSorts[name] || unstableSorts[name] || name == "slices.Reverse" || name == "sort.Strings" || name == "sort.Ints"
				if b, ok := x.Common().Value.(*ssa.Builtin); ok && b.Name() == "copy" {
					mut = true
				}
				if !mut || len(x.Common().Args) == 0 {
					continue
				}
				dst := x.Common().Args[0]
				if mi, ok := dst.(*ssa.MakeInterface); ok {
					dst = mi.X
				}
				for _, o := range oc.origins(dst) {
					owner := ""
					if strings.HasPrefix(o, "param:") && !strings.HasSuffix(o, "#0") {
						owner = "an argument (" + o + ")"
					}
					if strings.HasPrefix(o, "field:") {
						tn := strings.SplitN(strings.TrimPrefix(o, "field:"), ".", 2)[0]
						if recordTypes[tn] {
							owner = "a record (" + o + ")"
						}
					}
					if owner != "" {
						bad++
						r.violated(rule, fname, trimPkg(name)+" of data belonging to "+owner, p.pos(x.Pos()),
							"the writer reorders or overwrites, in place, data that belongs to the record it was handed; the order in which the caller recorded it is what has to reach the file")
					}
				}
			}
		}
	}
	if bad == 0 {
		r.held(rule, "mcap.Writer", "record arguments are read-only", "", itoa(n)+" Writer methods: no store into a record argument, no in-place reordering of its slices")
	}
}
