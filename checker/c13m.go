package main

import (
	"strings"

	"golang.org/x/tools/go/ssa"
)

// C13.m / C17.m: Writer methods treat the records they are handed as read-only. A method that stores into a field of
// its record argument, or reorders a slice that belongs to it (sort, reverse, copy into), makes the bytes written depend
// on what happened to that record value before (another writer, an earlier call) and changes the order in which the
// caller's data appears in the file.
func checkWriterDoesNotMutateInputs(p *Program, r *Result, rule string) {
	recordTypes := map[string]bool{"Header": true, "Footer": true, "Schema": true, "Channel": true, "Message": true, "Chunk": true, "MessageIndex": true,
		"ChunkIndex": true, "Attachment": true, "AttachmentIndex": true, "Statistics": true, "Metadata": true, "MetadataIndex": true, "SummaryOffset": true, "DataEnd": true}
	oc := &originCtx{p: p}
	n, bad := 0, 0
	for _, fn := range methodsOf(p, pkgMcap, "Writer") {
		if fn.Blocks == nil {
			continue
		}
		n++
		fname := funcName(fn)
		isRecordParam := func(v ssa.Value) (string, bool) {
			for i, prm := range fn.Params {
				if i == 0 || v != ssa.Value(prm) {
					continue
				}
				if nt, _ := structOf(prm.Type()); nt != nil && recordTypes[nt.Obj().Name()] {
					return nt.Obj().Name(), true
				}
			}
			return "", false
		}
		for _, in := range instrsOf(fn) {
			switch x := in.(type) {
			case *ssa.Store:
				if fa, ok := x.Addr.(*ssa.FieldAddr); ok {
					if tn, isP := isRecordParam(fa.X); isP {
						_, f, _, _ := fieldRef(fa)
						bad++
						r.violated(rule, fname, "store to "+tn+"."+f+" of the record argument", p.pos(x.Pos()),
							"the method modifies the record it was asked to write; a record value shared between writers (or written twice) then produces different bytes depending on what was done with it before")
					}
				}
			case ssa.CallInstruction:
				name := staticCalleeName(x.Common())
				if f := x.Common().StaticCallee(); f != nil && f.Origin() != nil {
					name = staticCalleeName2(f.Origin())
				}
				mut := isInPlaceReorder(x)
				// the record is handed on to a function of the package that modifies it
				if g := x.Common().StaticCallee(); g != nil && g.Blocks != nil && p.isRepoFunc(g) && p.funcPkgPath(g) == pkgMcap {
					for i, a := range x.Common().Args {
						if tn, isP := isRecordParam(a); isP {
							if what := mutatesParam(p, oc, g, i, 2); what != "" {
								bad++
								r.violated(rule, fname, "call of "+trimPkg(funcName(g))+" on the record argument", p.pos(x.Pos()),
									"the method hands the "+tn+" it was asked to write to "+funcName(g)+", which modifies it ("+what+"); the bytes written then depend on what was done with the record value before, and data the caller accumulated is reordered or overwritten in place")
							}
						}
					}
				}
				if !mut || len(x.Common().Args) == 0 {
					continue
				}
				dst := x.Common().Args[0]
				if mi, ok := dst.(*ssa.MakeInterface); ok {
					dst = mi.X
				}
				for _, o := range oc.origins(dst) {
					owner := ""
					if strings.HasPrefix(o, "param:") && !strings.HasSuffix(o, "#0") {
						owner = "an argument (" + o + ")"
					}
					if strings.HasPrefix(o, "field:") {
						tn := strings.SplitN(strings.TrimPrefix(o, "field:"), ".", 2)[0]
						if recordTypes[tn] {
							owner = "a record (" + o + ")"
						}
					}
					if owner != "" {
						bad++
						r.violated(rule, fname, trimPkg(name)+" of data belonging to "+owner, p.pos(x.Pos()),
							"the writer reorders or overwrites, in place, data that belongs to the record it was handed; the order in which the caller recorded it is what has to reach the file")
					}
				}
			}
		}
	}
	if bad == 0 {
		r.held(rule, "mcap.Writer", "record arguments are read-only", "", itoa(n)+" Writer methods: no store into a record argument, no in-place reordering of its slices")
	}
}

func isInPlaceReorder(x ssa.CallInstruction) bool {
	name := staticCalleeName(x.Common())
	if f := x.Common().StaticCallee(); f != nil && f.Origin() != nil {
		name = staticCalleeName2(f.Origin())
	}
	if stableSorts[name] || unstableSorts[name] || name == "slices.Reverse" || name == "sort.Strings" || name == "sort.Ints" {
		return true
	}
	if b, ok := x.Common().Value.(*ssa.Builtin); ok && b.Name() == "copy" {
		return true
	}
	return false
}

// mutatesParam: g stores into a field of its idx-th (pointer-to-struct) parameter, reorders / copies into a slice held
// in one of its fields, or hands it to a function that does. Returns a description, "" if it does not.
func mutatesParam(p *Program, oc *originCtx, g *ssa.Function, idx int, depth int) string {
	if g == nil || g.Blocks == nil || idx >= len(g.Params) {
		return ""
	}
	prm := ssa.Value(g.Params[idx])
	nt, _ := structOf(prm.Type())
	if nt == nil {
		return ""
	}
	tname := nt.Obj().Name()
	for _, in := range instrsOf(g) {
		switch x := in.(type) {
		case *ssa.Store:
			if fa, ok := x.Addr.(*ssa.FieldAddr); ok && fa.X == prm {
				_, f, _, _ := fieldRef(fa)
				return "stores to " + tname + "." + f + " at " + p.pos(x.Pos())
			}
			// element store into a slice held in a field of the parameter
			if ia, ok := x.Addr.(*ssa.IndexAddr); ok {
				if u, ok := ia.X.(*ssa.UnOp); ok {
					if fa, ok := u.X.(*ssa.FieldAddr); ok && fa.X == prm {
						_, f, _, _ := fieldRef(fa)
						return "overwrites an element of " + tname + "." + f + " at " + p.pos(x.Pos())
					}
				}
			}
		case ssa.CallInstruction:
			if isInPlaceReorder(x) && len(x.Common().Args) > 0 {
				dst := x.Common().Args[0]
				if mi, ok := dst.(*ssa.MakeInterface); ok {
					dst = mi.X
				}
				for _, o := range oc.origins(dst) {
					if strings.HasPrefix(o, "field:"+tname+".") {
						return "reorders " + strings.TrimPrefix(o, "field:") + " in place at " + p.pos(x.Pos())
					}
				}
			}
			if depth > 0 {
				if h := x.Common().StaticCallee(); h != nil && h != g && h.Blocks != nil && p.isRepoFunc(h) {
					for i, a := range x.Common().Args {
						if a == prm {
							if what := mutatesParam(p, oc, h, i, depth-1); what != "" {
								return what
							}
						}
					}
				}
			}
		}
	}
	return ""
}
