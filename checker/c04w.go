package main

import (
	"go/ast"
	"sort"
)

// Fallback form of C04.a, used when the path to the yield statement carries no condition on the log time (the window
// test lives behind an opaque helper result, e.g. `schema, channel, wanted, err := it.bind(msg, record)`), or when the yield
// statement itself is not found. The window tests are then looked for where they are: every `if` condition in the methods of
// the iterator type (and unexported package functions) reachable from root whose formula - helper predicates inlined -
// mentions the message log time. Restricted to its conjuncts / disjuncts on the log time, each must be the window predicate
// or its negation; tests that are only a part of it must together (as alternatives of a skip, or as nested conditions of a
// keep) make up the predicate. This decides the comparison operators, the 2^64-1 exception and the connectives, not which
// branch yields (the path form does that where it applies).
func windowTestsInRegion(p *Program, r *Result, g *goLayouts, fc *formCtx, root *ast.FuncDecl, fname string, ref *bform, t string) bool {
	region := []*ast.FuncDecl{root}
	seen := map[*ast.FuncDecl]bool{root: true}
	frontier := []*ast.FuncDecl{root}
	for depth := 0; depth < 3 && len(frontier) > 0; depth++ {
		var next []*ast.FuncDecl
		for _, d := range frontier {
			ast.Inspect(d.Body, func(n ast.Node) bool {
				if ce, ok := n.(*ast.CallExpr); ok {
					if fn := g.calleeOf(ce); fn != nil && !fn.Exported() {
						if hd := g.decls[fn]; hd != nil && hd.Body != nil && !seen[hd] {
							seen[hd] = true
							next = append(next, hd)
							region = append(region, hd)
						}
					}
				}
				return true
			})
		}
		frontier = next
	}
	notRef := &bform{op: "not", kids: []*bform{ref}}
	equiv := func(a, b *bform) bool {
		return counterexample(a, b, nil) == "" && counterexample(b, a, nil) == ""
	}
	type test struct {
		f   *bform
		pos ast.Node
		fn  string
	}
	var whole, parts []test
	for _, d := range region {
		ast.Inspect(d.Body, func(n ast.Node) bool {
			iff, ok := n.(*ast.IfStmt)
			if !ok {
				return true
			}
			f := pushNegations(fc.form(iff.Cond), false)
			onWindow := func(x *bform) bool { return x.mentions(t) && (x.mentions("it.start") || x.mentions("it.end")) }
			if !onWindow(f) {
				return true
			}
			cand := f
			if f.op == "and" || f.op == "or" {
				var kept []*bform
				for _, k := range f.kids {
					if onWindow(k) {
						kept = append(kept, k)
					}
				}
				if len(kept) == 1 {
					cand = kept[0]
				} else {
					cand = &bform{op: f.op, kids: kept}
				}
			}
			if equiv(cand, ref) || equiv(cand, notRef) {
				whole = append(whole, test{cand, iff, d.Name.Name})
			} else {
				parts = append(parts, test{cand, iff, d.Name.Name})
			}
			return true
		})
	}
	if len(whole) == 0 && len(parts) == 0 {
		return false
	}
	construct := "window predicate (tests on the log time in the read path)"
	if len(parts) > 0 {
		var fs []*bform
		for _, x := range parts {
			fs = append(fs, x.f)
		}
		if !(equiv(or(fs...), notRef) || equiv(and(fs...), ref) || equiv(or(fs...), ref) || equiv(and(fs...), notRef)) {
			var ss []string
			for _, x := range parts {
				ss = append(ss, x.fn+": "+x.f.String())
			}
			sort.Strings(ss)
			r.violated("C04.a", fname, construct, p.pos(parts[0].pos.Pos()),
				"the conditions on the message log time do not make up the window start <= t && (t < end || end == MAX): "+joinStrs(ss, "; "))
			return true
		}
	}
	pos := root.Pos()
	if len(whole) > 0 {
		pos = whole[0].pos.Pos()
	} else {
		pos = parts[0].pos.Pos()
	}
	r.held("C04.a", fname, construct, p.pos(pos), itoa(len(whole))+" test(s) equal the window predicate or its negation, "+itoa(len(parts))+" partial test(s) make it up together")
	return true
}

func joinStrs(ss []string, sep string) string {
	out := ""
	for i, s := range ss {
		if i > 0 {
			out += sep
		}
		out += s
	}
	return out
}
