package main

import (
	"go/token"
	"go/types"
	"strings"

	"golang.org/x/tools/go/ssa"
)

func init() { register("C18", true, checkC18) }

func rosScope(p *Program, pkg string, entries ...string) map[*ssa.Function]bool {
	var roots []*ssa.Function
	for _, e := range entries {
		if f := p.lookupFunc(pkg, e); f != nil {
			roots = append(roots, f)
		}
	}
	reach := p.reachableFrom(roots...)
	out := map[*ssa.Function]bool{}
	for f := range reach {
		if p.isRepoFunc(f) && p.funcPkgPath(f) == pkg && f.Blocks != nil && f.Synthetic == "" {
			out[f] = true
		}
	}
	return out
}

func checkC18(p *Program, r *Result) {
	r.Explanation = "Structural necessary conditions of 'ROS bag / db3 conversion keeps every message; invalid input yields an error, never a crash or exit', over go/ros functions reachable from Bag2MCAP and DB3ToMCAP: " +
		"(C18.a) no log.Fatal/os.Exit/panic call; (C18.b) every integer decoded from the bag (header length, field length, data length, connection id, time) is upper-bounded on every path before it " +
		"is used as a slice bound, index or allocation size, and fixed-offset reads of header values are preceded by a length test (bounded-input engine E2 + minimum-length rule); " +
		"(C18.c) errors of source reads, of MCAP writer calls (including the deferred Close that writes the summary), of callbacks and of database iteration (rows.Err after the rows.Next loop) are consulted and propagated (E3); " +
		"(C18.q) the package with which getSchemas qualifies an unqualified field type is data-dependent on the type name of the definition being scanned; " +
		"(C18.u) a key deleted from the connection header map is not looked up afterwards, directly or in a helper that receives the map (such a lookup is always empty); " +
		"(C18.d) each converter builds the Message with LogTime and PublishTime from the same converted time value and Data from the record payload."
	r.NotDecided = []string{"message-for-message fidelity, ordering and the text of assembled schemas (run-time)", "behaviour of go-sqlite3 and the lz4/bzip2 decoders"}
	r.rule("C18.a", "no process-exit / panic call reachable from the converters", 10)
	r.rule("C18.b", "bag-derived integers are bounded before slice bounds, indexes and allocation sizes", 3)
	r.rule("C18.c", "read, writer, callback and database-iteration errors are consulted and propagated", 30)
	r.rule("C18.d", "Message literal: LogTime and PublishTime from the same value", 2)
	r.rule("C18.m", "fixed-offset access to a header value is preceded by a minimum-length test", 4)

	scope := rosScope(p, pkgRos, "Bag2MCAP", "DB3ToMCAP")
	fns := sortedFuncs(scope)
	checkNoAbort(p, r, "C18.a", fns)

	ba := newBoundAnalysis(p, scope)
	ba.run()
	emitBoundReports(p, r, ba, "C18.b", nil)

	// C18.c: E3 with both sink and source effects, plus dynamic callbacks
	snk, src := sinkSpec(), sourceSpec()
	Rs, Rr := p.reachSet(snk), p.reachSet(src)
	sScope, rScope := p.scopeFn(snk, Rs), p.scopeFn(src, Rr)
	sqlErr := func(site ssa.CallInstruction) (bool, string) {
		n := staticCalleeName(site.Common())
		switch n {
		case "(*database/sql.Rows).Err", "(*database/sql.Rows).Scan", "(*database/sql.DB).Query", "(*database/sql.Row).Scan":
			return true, trimPkg(n)
		}
		return false, ""
	}
	both := func(site ssa.CallInstruction) (bool, string) {
		if ok, l := sScope(site); ok {
			return ok, l
		}
		if ok, l := rScope(site); ok {
			return ok, l
		}
		return sqlErr(site)
	}
	cfg := errFlowCfg{rule: "C18.c", inScope: both, allowClassify: true, forbidEOF: false}
	for _, fn := range fns {
		r.Funcs[funcName(fn)] = true
		runErrFlow(p, r, fn, cfg)
		checkRowsErr(p, r, fn)
		checkMinLen(p, r, fn, "C18.m")
	}
	// C18.d
	for _, fn := range fns {
		checkMessageLiteral(p, r, fn)
	}
	r.rule("C18.o", "records handed to the writer in a loop carry containers made in that iteration", 1)
	checkPerIterationContainers(p, r, "C18.o", fns)
	r.rule("C18.t", "constant-length tables have room for every id their index type admits", 1)
	checkConstTables(p, r, "C18.t", fns)
	r.rule("C18.q", "relative ROS 2 field types are qualified with the package of the definition they occur in", 1)
	checkRos2Qualification(p, r, "C18.q")
	r.rule("C18.u", "a deleted header key is not looked up afterwards", 1)
	checkDeletedKeyLookups(p, r, "C18.u", fns)
	// C18.k: header fields are "key=value" where the value may itself contain '=' (message definitions with
	// constants, caller ids): the separator is the FIRST '=' — never a split at every '='.
	r.rule("C18.k", "header key/value separation at the first '='", 2)
	for _, name := range []string{"headerToMap", "extractHeaderValue"} {
		fn := p.lookupFunc(pkgRos, name)
		if fn == nil {
			continue
		}
		first, split := false, ""
		// the scan may be shared by both functions through a helper: look at the function and the go/ros functions it calls
		var regionCalls []ssa.CallInstruction
		seenF := map[*ssa.Function]bool{fn: true}
		frontier := []*ssa.Function{fn}
		for depth := 0; depth < 3 && len(frontier) > 0; depth++ {
			var next []*ssa.Function
			for _, f := range frontier {
				for _, ci := range callsIn(f, func(ssa.CallInstruction) bool { return true }) {
					regionCalls = append(regionCalls, ci)
					if g := ci.Common().StaticCallee(); g != nil && g.Blocks != nil && !seenF[g] && p.isRepoFunc(g) && p.funcPkgPath(g) == pkgRos {
						seenF[g] = true
						next = append(next, g)
					}
				}
			}
			frontier = next
		}
		for _, ci := range regionCalls {
			switch n := staticCalleeName(ci.Common()); n {
			case "bytes.IndexByte", "bytes.Index", "strings.Index", "strings.IndexByte", "bytes.Cut", "strings.Cut":
				first = true
			case "strings.Split", "bytes.Split", "strings.Fields", "bytes.Fields", "strings.LastIndex", "bytes.LastIndex", "bytes.LastIndexByte", "strings.LastIndexByte":
				split = n
			case "strings.SplitN", "bytes.SplitN":
				if c, ok := ci.Common().Args[2].(*ssa.Const); ok && c.Value != nil && c.Value.String() == "2" {
					first = true
				} else {
					split = n
				}
			}
		}
		switch {
		case split != "":
			r.violated("C18.k", funcName(fn), "key/value separator", p.pos(fn.Pos()), "the field is separated with "+trimPkg(split)+"; a value containing '=' (e.g. a message definition declaring a constant) is truncated at its first '='")
		case first:
			r.held("C18.k", funcName(fn), "key/value separator", p.pos(fn.Pos()), "position of the first '='")
		default:
			r.undecided("C18.k", funcName(fn), "key/value separator", p.pos(fn.Pos()), "no separator search recognised")
		}
	}
}

// checkRowsErr: after a loop driven by (*sql.Rows).Next, rows.Err() must be called on the same rows value
// on the loop-exit path (its result is then subject to C18.c).
func checkRowsErr(p *Program, r *Result, fn *ssa.Function) {
	checkIterErr(p, r, fn, "C18.c", "(*database/sql.Rows).Next", "(*database/sql.Rows).Err", "rows.Next", "rows.Err", "a database error")
}

// checkIterErr: an iteration protocol whose Next/Scan method returns false both at the end and on failure: the
// failure is only visible through Err(), which must be consulted on every path that leaves the loop.
func checkIterErr(p *Program, r *Result, fn *ssa.Function, rule, nextFn, errFn, nextLabel, errLabel, cause string) {
	fname := funcName(fn)
	for _, ci := range callsIn(fn, func(ci ssa.CallInstruction) bool { return calleeIs(ci, nextFn) }) {
		call, ok := ci.(*ssa.Call)
		if !ok {
			continue
		}
		rows := call.Call.Args[0]
		// loop exit = false successor of the If on Next's result
		var exit *ssa.BasicBlock
		for _, ref := range *call.Referrers() {
			if iff, ok := ref.(*ssa.If); ok {
				exit = iff.Block().Succs[1]
			}
		}
		pos := p.pos(call.Pos())
		if exit == nil {
			r.undecided(rule, fname, nextLabel+" loop", pos, "result of "+nextLabel+" does not drive a branch")
			continue
		}
		// every path from exit to a return must pass a rows.Err() call on the same value
		ok2 := allPathsHit(exit, func(in ssa.Instruction) bool {
			c, ok := in.(*ssa.Call)
			return ok && calleeIs(c, errFn) && sameValue(c.Call.Args[0], rows)
		})
		if ok2 {
			r.held(rule, fname, errLabel+" after "+nextLabel+" loop", pos, "every loop-exit path consults "+errLabel+"()")
		} else {
			r.violated(rule, fname, errLabel+" after "+nextLabel+" loop", pos, "the loop over "+nextLabel+"() can end because of "+cause+", but "+errLabel+"() is not consulted on some path to return; the operation would end early with success")
		}
	}
}

func sameValue(a, b ssa.Value) bool {
	if a == b {
		return true
	}
	// loads of the same local cell
	ua, ok1 := a.(*ssa.UnOp)
	ub, ok2 := b.(*ssa.UnOp)
	if ok1 && ok2 && ua.Op == token.MUL && ub.Op == token.MUL && ua.X == ub.X {
		return true
	}
	// phis merging the same alternatives (rows assigned in two branches)
	return false
}

// allPathsHit: every path from b to a function exit executes an instruction satisfying pred.
func allPathsHit(b *ssa.BasicBlock, pred func(ssa.Instruction) bool) bool {
	seen := map[*ssa.BasicBlock]bool{}
	var walk func(b *ssa.BasicBlock) bool
	walk = func(b *ssa.BasicBlock) bool {
		if seen[b] {
			return true
		}
		seen[b] = true
		for _, in := range b.Instrs {
			if pred(in) {
				return true
			}
			if _, isRet := in.(*ssa.Return); isRet {
				return false
			}
		}
		if len(b.Succs) == 0 {
			return true // panic/exit
		}
		for _, s := range b.Succs {
			if !walk(s) {
				return false
			}
		}
		return true
	}
	return walk(b)
}

// checkMessageLiteral: &mcap.Message{...} built in the converters: LogTime and PublishTime are the same
// SSA value; Data is a parameter / scanned payload.
func checkMessageLiteral(p *Program, r *Result, fn *ssa.Function) {
	fname := funcName(fn)
	stores := map[ssa.Value]map[string]ssa.Value{}
	for _, in := range instrsOf(fn) {
		st, ok := in.(*ssa.Store)
		if !ok {
			continue
		}
		tn, f, base, ok := fieldRef(st.Addr)
		if !ok || tn != "Message" {
			continue
		}
		if nt, _ := structOf(base.Type()); nt == nil || nt.Obj().Pkg() == nil || nt.Obj().Pkg().Path() != pkgMcap {
			continue
		}
		if stores[base] == nil {
			stores[base] = map[string]ssa.Value{}
		}
		stores[base][f] = st.Val
	}
	for base, m := range stores {
		lt, pt := m["LogTime"], m["PublishTime"]
		pos := p.pos(base.Pos())
		if lt == nil || pt == nil {
			r.violated("C18.d", fname, "mcap.Message literal", pos, "LogTime or PublishTime is not set from the converted time")
			continue
		}
		if lt == pt || sameValue(stripConv(lt), stripConv(pt)) {
			r.held("C18.d", fname, "mcap.Message literal", pos, "LogTime and PublishTime are the same value; Data set: "+boolStr(m["Data"] != nil))
		} else {
			r.violated("C18.d", fname, "mcap.Message literal", pos, "LogTime and PublishTime are set from different values")
		}
		if m["Data"] == nil || m["ChannelID"] == nil {
			r.violated("C18.d", fname, "mcap.Message literal fields", pos, "Data or ChannelID missing from the message literal")
		}
	}
}

func boolStr(b bool) string {
	if b {
		return "yes"
	}
	return "no"
}

// checkMinLen (rule *.m): a []byte value that comes out of a header lookup (result of a repo function, not a
// freshly sized buffer) is read at a fixed offset — x[k], x[k:], binary.LittleEndian.UintN(x) — only after a
// dominating test of len(x) against a constant that covers the access.
func checkMinLen(p *Program, r *Result, fn *ssa.Function, rule string) {
	fname := funcName(fn)
	need := func(x ssa.Value, n int64, what string, at ssa.Instruction) {
		if !isByteSlice(x.Type()) {
			return
		}
		construct := what + " of " + valueLabel(x)
		if prm, ok := x.(*ssa.Parameter); ok {
			// unexported helper taking a header value: the test may be inside, or at every call site
			if fn.Object() == nil || fn.Object().Exported() || fn.Signature.Recv() != nil || fn.Parent() != nil {
				return
			}
			if lenGuarded(x, n, at) {
				r.held(rule, fname, construct, p.pos(at.Pos()), "dominated by a len() test covering the access")
				return
			}
			idx := -1
			for i, q := range fn.Params {
				if q == prm {
					idx = i
				}
			}
			node := p.CG.Nodes[fn]
			sites, bad := 0, ""
			if node != nil {
				for _, e := range node.In {
					if e.Site == nil || !p.isRepoFunc(e.Caller.Func) {
						continue
					}
					arg := e.Site.Common().Args[idx]
					sites++
					if fromRepoCallResult(p, arg) && !lenGuarded(arg, n, e.Site) {
						bad = funcName(e.Caller.Func)
					}
				}
			}
			if sites > 0 && bad == "" {
				r.held(rule, fname, construct, p.pos(at.Pos()), "every call site passes a value whose length was tested")
			} else {
				r.violated(rule, fname, construct, p.pos(at.Pos()),
					"value extracted from input may be shorter than the fixed-offset access requires (no len() test here nor at call site in "+bad+")")
			}
			return
		}
		if !fromRepoCallResult(p, x) {
			return
		}
		if lenGuarded(x, n, at) {
			r.held(rule, fname, construct, p.pos(at.Pos()), "dominated by a len() test covering the access")
		} else {
			r.violated(rule, fname, construct, p.pos(at.Pos()),
				"value extracted from input may be shorter than the fixed-offset access requires (no dominating len() test); a short value panics")
		}
	}
	for _, in := range instrsOf(fn) {
		switch x := in.(type) {
		case *ssa.IndexAddr:
			if c, ok := x.Index.(*ssa.Const); ok && c.Value != nil {
				need(x.X, c.Int64()+1, "index["+c.Value.ExactString()+"]", in)
			}
		case *ssa.Slice:
			if c, ok := x.Low.(*ssa.Const); ok && c.Value != nil && c.Int64() > 0 {
				need(x.X, c.Int64(), "slice["+c.Value.ExactString()+":]", in)
			}
		case *ssa.Call:
			if isDecodeCall(x) && len(x.Call.Args) >= 2 {
				w := int64(8)
				if strings.HasSuffix(staticCalleeName(x.Common()), "Uint32") {
					w = 4
				} else if strings.HasSuffix(staticCalleeName(x.Common()), "Uint16") {
					w = 2
				}
				need(x.Call.Args[1], w, trimPkg(staticCalleeName(x.Common())), in)
			}
		}
	}
}

func isByteSlice(t types.Type) bool {
	s, ok := t.Underlying().(*types.Slice)
	if !ok {
		return false
	}
	b, ok := s.Elem().Underlying().(*types.Basic)
	return ok && b.Kind() == types.Uint8
}

// fromRepoCallResult: x is (an extract of) the result of a call to a repo function or of a func-value call,
// or a parameter of a closure/callback that receives such values.
func fromRepoCallResult(p *Program, x ssa.Value) bool {
	switch v := x.(type) {
	case *ssa.Extract:
		if c, ok := v.Tuple.(*ssa.Call); ok {
			f := c.Call.StaticCallee()
			return f == nil || p.isRepoFunc(f)
		}
	case *ssa.Call:
		f := v.Call.StaticCallee()
		return f != nil && p.isRepoFunc(f)
	}
	return false
}

// lenGuarded: an If on len(x) <op> const (covering n) dominates `at` on the branch where len(x) >= n.
func lenGuarded(x ssa.Value, n int64, at ssa.Instruction) bool {
	refs := x.Referrers()
	if refs == nil {
		return false
	}
	for _, ref := range *refs {
		c, ok := ref.(*ssa.Call)
		if !ok {
			continue
		}
		b, isB := c.Call.Value.(*ssa.Builtin)
		if !isB || b.Name() != "len" {
			continue
		}
		for _, r2 := range *c.Referrers() {
			cmp, ok := r2.(*ssa.BinOp)
			if !ok {
				continue
			}
			for _, r3 := range *cmp.Referrers() {
				iff, ok := r3.(*ssa.If)
				if !ok {
					continue
				}
				for edge := 0; edge < 2; edge++ {
					if lenAtLeast(cmp, c, edge == 0) >= n {
						succ := iff.Block().Succs[edge]
						if len(succ.Preds) == 1 && (succ == at.Block() || succ.Dominates(at.Block())) {
							return true
						}
					}
				}
			}
		}
	}
	return false
}

// lenAtLeast returns the lower bound on len implied by cmp on the given edge (or -1).
func lenAtLeast(cmp *ssa.BinOp, lenCall ssa.Value, onTrue bool) int64 {
	var k int64
	lenLeft := false
	if cmp.X == lenCall {
		c, ok := cmp.Y.(*ssa.Const)
		if !ok || c.Value == nil {
			return -1
		}
		k, lenLeft = c.Int64(), true
	} else if cmp.Y == lenCall {
		c, ok := cmp.X.(*ssa.Const)
		if !ok || c.Value == nil {
			return -1
		}
		k = c.Int64()
	} else {
		return -1
	}
	op := cmp.Op
	if !lenLeft { // k op len  ==> len op' k
		switch op {
		case token.LSS:
			op = token.GTR
		case token.LEQ:
			op = token.GEQ
		case token.GTR:
			op = token.LSS
		case token.GEQ:
			op = token.LEQ
		}
	}
	if !onTrue { // negate
		switch op {
		case token.LSS:
			op = token.GEQ
		case token.LEQ:
			op = token.GTR
		case token.GTR:
			op = token.LEQ
		case token.GEQ:
			op = token.LSS
		case token.EQL:
			op = token.NEQ
		case token.NEQ:
			op = token.EQL
		}
	}
	switch op {
	case token.GEQ:
		return k
	case token.GTR:
		return k + 1
	case token.EQL:
		return k
	case token.NEQ:
		if k == 0 {
			return 1
		}
	}
	return -1
}
