package main

import (
	"go/token"
	"go/types"

	"golang.org/x/tools/go/ssa"
)

// C01.p: a decoder that fills a caller-supplied record (Message.PopulateFrom) assigns every field of the record on every
// path that returns success - in both arms of its copy/alias choice - so no field keeps the value of the message the
// struct held before; and a function that returns a fresh record filled by that decoder returns it only after the
// decoder's error was tested and found nil. (The layout rule C01.a reads the decoder's field assignments from the syntax
// tree without regard to paths.)
func checkPopulateComplete(p *Program, r *Result, rule string) {
	for _, k := range recordKinds {
		dec := p.lookupFunc(pkgMcap, k.GoType+"."+k.Decoder)
		if dec == nil || dec.Signature.Recv() == nil || len(dec.Params) == 0 || dec.Blocks == nil {
			continue
		}
		_, st := structOf(dec.Params[0].Type())
		if st == nil {
			continue
		}
		for i := 0; i < st.NumFields(); i++ {
			if !st.Field(i).Exported() {
				continue
			}
			construct := "field " + st.Field(i).Name() + " assigned on every successful path"
			if storesFieldOnSuccess(p, dec, dec.Params[0], i, 2) {
				r.held(rule, funcName(dec), construct, p.pos(dec.Pos()), "every path to a nil-error return stores the field")
			} else {
				r.violated(rule, funcName(dec), construct, p.pos(dec.Pos()),
					"a path returns success without assigning "+k.GoType+"."+st.Field(i).Name()+": a reused record keeps the value of the previous message")
			}
		}
		// fresh-record wrappers of the decoder
		recT := dec.Params[0].Type()
		for _, fn := range p.repoFunctions(pkgMcap) {
			if fn.Parent() != nil || fn.Blocks == nil || fn == dec {
				continue
			}
			res := fn.Signature.Results()
			if res.Len() != 2 || !types.Identical(res.At(0).Type(), recT) || !isErrorType(res.At(1).Type()) || fn.Signature.Recv() != nil {
				continue
			}
			hasBuf := false
			for _, prm := range fn.Params {
				if isByteSlice(prm.Type()) {
					hasBuf = true
				}
			}
			if !hasBuf {
				continue
			}
			for _, b := range fn.Blocks {
				ret, ok := b.Instrs[len(b.Instrs)-1].(*ssa.Return)
				if !ok || len(ret.Results) != 2 {
					continue
				}
				if !isNilConst(ret.Results[1]) {
					// `return msg, err` with err the decoder's own result: whatever the record holds, the caller is told
					if c, isCall := ret.Results[1].(*ssa.Call); isCall && c.Call.StaticCallee() == dec {
						r.held(rule, funcName(fn), "returned "+k.GoType+" was filled by "+k.Decoder+" without error", p.pos(ret.Pos()), "the decoder's own error is returned with the record")
					}
					continue
				}
				v := ret.Results[0]
				if isNilConst(v) {
					continue
				}
				construct := "returned " + k.GoType + " was filled by " + k.Decoder + " without error"
				good := false
				if c, ok := v.(*ssa.Extract); ok {
					// delegation to another wrapper
					if call, ok := c.Tuple.(*ssa.Call); ok && errSuccessDominates(call, ret) {
						good = true
					}
				}
				for _, ref := range refsOf(v) {
					call, ok := ref.(*ssa.Call)
					if !ok || call.Call.StaticCallee() != dec || len(call.Call.Args) == 0 || call.Call.Args[0] != v {
						continue
					}
					if errSuccessDominates(call, ret) {
						good = true
					}
				}
				if good {
					r.held(rule, funcName(fn), construct, p.pos(ret.Pos()), "the success return is dominated by the nil side of the decoder's error test")
				} else {
					r.violated(rule, funcName(fn), construct, p.pos(ret.Pos()),
						"the function returns a "+k.GoType+" with a nil error that was not filled by "+k.Decoder+", or whose decode error was not tested: the caller receives an empty or partial record")
				}
			}
		}
	}
}

func refsOf(v ssa.Value) []ssa.Instruction {
	if rr := v.Referrers(); rr != nil {
		return *rr
	}
	return nil
}

// storesFieldOnSuccess: every path of fn from entry to a nil-error return stores field i of the struct *recv (directly,
// by assigning the whole struct, or through a callee that does so on all its own successful paths).
func storesFieldOnSuccess(p *Program, fn *ssa.Function, recv ssa.Value, field int, depth int) bool {
	if fn.Blocks == nil || len(fn.Blocks[0].Instrs) == 0 {
		return false
	}
	pred := func(in ssa.Instruction) bool {
		switch x := in.(type) {
		case *ssa.Store:
			if x.Addr == recv {
				return true
			}
			if fa, ok := x.Addr.(*ssa.FieldAddr); ok && fa.X == recv && fa.Field == field {
				return true
			}
		case *ssa.Call:
			callee := x.Call.StaticCallee()
			if callee == nil || depth <= 0 || !p.isRepoFunc(callee) || callee.Blocks == nil {
				return false
			}
			for j, a := range x.Call.Args {
				if a == recv && j < len(callee.Params) && storesFieldOnSuccess(p, callee, callee.Params[j], field, depth-1) {
					return true
				}
			}
		}
		return false
	}
	first := fn.Blocks[0].Instrs[0]
	if pred(first) {
		return true
	}
	return pathsToSuccessHit(fn, first, pred)
}

// C01.n: MessageIterator.NextInto documents that a nil message makes it allocate one. Every implementation must therefore
// not touch its message parameter (field access, method call with it as receiver, dereference, or handing it to a callee that
// does) before a nil test has replaced it: a use of the raw parameter is allowed only where the non-nil side of a nil
// test of it dominates.
func checkNextIntoNil(p *Program, r *Result, rule string) {
	n := 0
	for _, fn := range p.repoFunctions(pkgMcap) {
		if fn.Name() != "NextInto" || fn.Signature.Recv() == nil || fn.Blocks == nil || len(fn.Params) != 2 {
			continue
		}
		prm := fn.Params[1]
		if _, ok := prm.Type().Underlying().(*types.Pointer); !ok {
			continue
		}
		n++
		bad := nilUnsafeUse(p, fn, prm, 3)
		construct := "a nil message is replaced before it is used"
		if bad == "" {
			r.held(rule, funcName(fn), construct, p.pos(fn.Pos()), "every use of the raw parameter is a nil test, a merge with a fresh message, or sits on the non-nil side of a test")
		} else {
			r.violated(rule, funcName(fn), construct, bad,
				"the message parameter is used without a nil test having replaced it: NextInto(nil), which is documented to allocate, and Next(...) through it, dereference nil")
		}
	}
	if n == 0 {
		r.undecided(rule, "mcap.*.NextInto", "anchor", "", "no NextInto implementation found")
	}
}

// nilUnsafeUse: position of a use of pointer parameter prm of fn that may dereference it while it is nil ("" if none).
// Handing the raw parameter to a package function is judged by that function's own treatment of the parameter.
func nilUnsafeUse(p *Program, fn *ssa.Function, prm *ssa.Parameter, depth int) string {
	nonNilDom := func(at ssa.Instruction) bool {
		for _, ref := range refsOf(prm) {
			b, ok := ref.(*ssa.BinOp)
			if !ok || !(isNilConst(b.X) || isNilConst(b.Y)) {
				continue
			}
			for _, r2 := range refsOf(b) {
				iff, ok := r2.(*ssa.If)
				if !ok {
					continue
				}
				succ := iff.Block().Succs[0] // msg != nil
				if b.Op == token.EQL {
					succ = iff.Block().Succs[1]
				}
				if len(succ.Preds) == 1 && succ.Dominates(at.Block()) {
					return true
				}
			}
		}
		return false
	}
	bad := ""
	for _, ref := range refsOf(prm) {
		switch x := ref.(type) {
		case *ssa.BinOp, *ssa.Return, *ssa.DebugRef:
			continue
		case *ssa.Phi:
			// the raw parameter may only flow into the merge from the non-nil side of its test
			for i, e := range x.Edges {
				if e != ssa.Value(prm) {
					continue
				}
				pred := x.Block().Preds[i]
				ok := false
				if len(pred.Instrs) > 0 {
					if iff, isIf := pred.Instrs[len(pred.Instrs)-1].(*ssa.If); isIf {
						if b, isCmp := iff.Cond.(*ssa.BinOp); isCmp && (b.X == ssa.Value(prm) || b.Y == ssa.Value(prm)) && (isNilConst(b.X) || isNilConst(b.Y)) {
							nonNil := pred.Succs[0]
							if b.Op == token.EQL {
								nonNil = pred.Succs[1]
							}
							ok = nonNil == x.Block()
						}
					}
				}
				if !ok && len(pred.Instrs) > 0 && nonNilDom(pred.Instrs[len(pred.Instrs)-1]) {
					ok = true
				}
				if !ok {
					bad = p.pos(fn.Pos())
				}
			}
		case *ssa.FieldAddr:
			if !nonNilDom(x) {
				bad = p.pos(x.Pos())
			}
		case *ssa.UnOp:
			if !nonNilDom(x) {
				bad = p.pos(x.Pos())
			}
		case *ssa.Store:
			if x.Addr == ssa.Value(prm) && !nonNilDom(x) {
				bad = p.pos(x.Pos())
			}
		case ssa.CallInstruction:
			if nonNilDom(x) {
				continue
			}
			callee := x.Common().StaticCallee()
			if callee == nil {
				if x.Common().IsInvoke() {
					continue // handed to an interface method as an argument: not a dereference here
				}
				bad = p.pos(x.Pos())
				continue
			}
			if !p.isRepoFunc(callee) {
				continue
			}
			if callee.Blocks == nil || depth <= 0 {
				bad = p.pos(x.Pos())
				continue
			}
			for j, a := range x.Common().Args {
				if a == ssa.Value(prm) && j < len(callee.Params) {
					if w := nilUnsafeUse(p, callee, callee.Params[j], depth-1); w != "" {
						bad = w
					}
				}
			}
		}
	}
	return bad
}
