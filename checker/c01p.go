package main

import (
	"go/types"

	"golang.org/x/tools/go/ssa"
)

// C01.p: a decoder that fills a caller-supplied record (Message.PopulateFrom) assigns every field of the record on every
// path that returns success - in both arms of its copy/alias choice - so no field keeps the value of the message the
// struct held before; and a function that returns a fresh record filled by that decoder returns it only after the
// decoder's error was tested and found nil. (The layout rule C01.a reads the decoder's field assignments from the syntax
// tree without regard to paths.)
func checkPopulateComplete(p *Program, r *Result, rule string) {
	for _, k := range recordKinds {
		dec := p.lookupFunc(pkgMcap, k.GoType+"."+k.Decoder)
		if dec == nil || dec.Signature.Recv() == nil || len(dec.Params) == 0 || dec.Blocks == nil {
			continue
		}
		_, st := structOf(dec.Params[0].Type())
		if st == nil {
			continue
		}
		for i := 0; i < st.NumFields(); i++ {
			if !st.Field(i).Exported() {
				continue
			}
			construct := "field " + st.Field(i).Name() + " assigned on every successful path"
			if storesFieldOnSuccess(p, dec, dec.Params[0], i, 2) {
				r.held(rule, funcName(dec), construct, p.pos(dec.Pos()), "every path to a nil-error return stores the field")
			} else {
				r.violated(rule, funcName(dec), construct, p.pos(dec.Pos()),
					"a path returns success without assigning "+k.GoType+"."+st.Field(i).Name()+": a reused record keeps the value of the previous message")
			}
		}
		// fresh-record wrappers of the decoder
		recT := dec.Params[0].Type()
		for _, fn := range p.repoFunctions(pkgMcap) {
			if fn.Parent() != nil || fn.Blocks == nil || fn == dec {
				continue
			}
			res := fn.Signature.Results()
			if res.Len() != 2 || !types.Identical(res.At(0).Type(), recT) || !isErrorType(res.At(1).Type()) || fn.Signature.Recv() != nil {
				continue
			}
			hasBuf := false
			for _, prm := range fn.Params {
				if isByteSlice(prm.Type()) {
					hasBuf = true
				}
			}
			if !hasBuf {
				continue
			}
			for _, b := range fn.Blocks {
				ret, ok := b.Instrs[len(b.Instrs)-1].(*ssa.Return)
				if !ok || len(ret.Results) != 2 || !isNilConst(ret.Results[1]) {
					continue
				}
				v := ret.Results[0]
				if isNilConst(v) {
					continue
				}
				construct := "returned " + k.GoType + " was filled by " + k.Decoder + " without error"
				good := false
				if c, ok := v.(*ssa.Extract); ok {
					// delegation to another wrapper
					if call, ok := c.Tuple.(*ssa.Call); ok && errSuccessDominates(call, ret) {
						good = true
					}
				}
				for _, ref := range refsOf(v) {
					call, ok := ref.(*ssa.Call)
					if !ok || call.Call.StaticCallee() != dec || len(call.Call.Args) == 0 || call.Call.Args[0] != v {
						continue
					}
					if errSuccessDominates(call, ret) {
						good = true
					}
				}
				if good {
					r.held(rule, funcName(fn), construct, p.pos(ret.Pos()), "the success return is dominated by the nil side of the decoder's error test")
				} else {
					r.violated(rule, funcName(fn), construct, p.pos(ret.Pos()),
						"the function returns a "+k.GoType+" with a nil error that was not filled by "+k.Decoder+", or whose decode error was not tested: the caller receives an empty or partial record")
				}
			}
		}
	}
}

func refsOf(v ssa.Value) []ssa.Instruction {
	if rr := v.Referrers(); rr != nil {
		return *rr
	}
	return nil
}

// storesFieldOnSuccess: every path of fn from entry to a nil-error return stores field i of the struct *recv (directly,
// by assigning the whole struct, or through a callee that does so on all its own successful paths).
func storesFieldOnSuccess(p *Program, fn *ssa.Function, recv ssa.Value, field int, depth int) bool {
	if fn.Blocks == nil || len(fn.Blocks[0].Instrs) == 0 {
		return false
	}
	pred := func(in ssa.Instruction) bool {
		switch x := in.(type) {
		case *ssa.Store:
			if x.Addr == recv {
				return true
			}
			if fa, ok := x.Addr.(*ssa.FieldAddr); ok && fa.X == recv && fa.Field == field {
				return true
			}
		case *ssa.Call:
			callee := x.Call.StaticCallee()
			if callee == nil || depth <= 0 || !p.isRepoFunc(callee) || callee.Blocks == nil {
				return false
			}
			for j, a := range x.Call.Args {
				if a == recv && j < len(callee.Params) && storesFieldOnSuccess(p, callee, callee.Params[j], field, depth-1) {
					return true
				}
			}
		}
		return false
	}
	first := fn.Blocks[0].Instrs[0]
	if pred(first) {
		return true
	}
	return pathsToSuccessHit(fn, first, pred)
}
