package main

// Buffer-origin analysis: where does the backing array of a []byte value come from?
// Roots:  fresh            newly allocated (make, makeSafe-like repo function, append to a fresh/nil slice, string conversion)
//         param:<fn>#<i>   a parameter of the analysed function
//         field:<T>.<f>    loaded from a struct field (field-based)
//         ext:<callee>     returned by a function outside the repo
// Call results of repo functions are resolved through the callee's returns (parameters mapped back to arguments);
// loads of fields of a struct returned by a repo function are resolved through the stores to that field inside it.

import (
	"go/ast"
	"go/token"
	"go/types"
	"sort"
	"strings"

	"golang.org/x/tools/go/ssa"
)

type originCtx struct {
	p     *Program
	depth int
}

func (oc *originCtx) origins(v ssa.Value) []string {
	set := map[string]bool{}
	oc.walk(v, set, map[ssa.Value]bool{}, 0)
	var out []string
	for k := range set {
		out = append(out, k)
	}
	sort.Strings(out)
	return out
}

func isSliceOrString(t types.Type) bool {
	switch u := t.Underlying().(type) {
	case *types.Slice:
		return true
	case *types.Basic:
		return u.Info()&types.IsString != 0
	case *types.Pointer:
		_, isArr := u.Elem().Underlying().(*types.Array)
		return isArr
	}
	return false
}

func (oc *originCtx) walk(v ssa.Value, set map[string]bool, seen map[ssa.Value]bool, depth int) {
	if v == nil || seen[v] {
		return
	}
	seen[v] = true
	if depth > 12 {
		set["unknown"] = true
		return
	}
	switch x := v.(type) {
	case *ssa.Const:
		set["fresh"] = true
	case *ssa.MakeSlice:
		set["fresh"] = true
	case *ssa.Alloc:
		set["fresh"] = true
	case *ssa.Slice:
		oc.walk(x.X, set, seen, depth)
	case *ssa.Convert:
		// string <-> []byte conversions copy
		set["fresh"] = true
	case *ssa.ChangeType:
		oc.walk(x.X, set, seen, depth)
	case *ssa.Phi:
		for _, e := range x.Edges {
			oc.walk(e, set, seen, depth)
		}
	case *ssa.Parameter:
		set["param:"+funcName(x.Parent())+"#"+x.Name()] = true
	case *ssa.FreeVar:
		set["freevar:"+x.Name()] = true
	case *ssa.Extract:
		if c, ok := x.Tuple.(*ssa.Call); ok {
			oc.callResult(c, x.Index, set, seen, depth)
		} else {
			set["unknown"] = true
		}
	case *ssa.Call:
		oc.callResult(x, 0, set, seen, depth)
	case *ssa.UnOp:
		if x.Op != token.MUL {
			set["unknown"] = true
			return
		}
		switch a := x.X.(type) {
		case *ssa.FieldAddr:
			oc.fieldLoad(a.X, a.Field, set, seen, depth)
		case *ssa.IndexAddr:
			// element of a slice of slices
			oc.walk(a.X, set, seen, depth)
		case *ssa.Alloc:
			// local cell: union of stored values
			for _, ref := range *a.Referrers() {
				if st, ok := ref.(*ssa.Store); ok && st.Addr == ssa.Value(a) {
					oc.walk(st.Val, set, seen, depth)
				}
			}
		case *ssa.Global:
			set["global:"+a.Name()] = true
		default:
			set["unknown"] = true
		}
	case *ssa.Field:
		oc.fieldLoad(x.X, x.Field, set, seen, depth)
	case *ssa.MakeInterface, *ssa.TypeAssert:
		set["unknown"] = true
	default:
		set["unknown"] = true
	}
}

func (oc *originCtx) fieldLoad(base ssa.Value, idx int, set map[string]bool, seen map[ssa.Value]bool, depth int) {
	nt, st := structOf(base.Type())
	if st == nil {
		set["unknown"] = true
		return
	}
	tn := ""
	if nt != nil {
		tn = nt.Obj().Name()
	}
	fname := st.Field(idx).Name()
	// base is the struct returned by a repo function: look at the stores to that field inside it
	var call *ssa.Call
	switch b := base.(type) {
	case *ssa.Call:
		call = b
	case *ssa.Extract:
		call, _ = b.Tuple.(*ssa.Call)
	}
	if call != nil {
		if f := call.Call.StaticCallee(); f != nil && oc.p.isRepoFunc(f) && f.Blocks != nil {
			found := false
			for _, in := range instrsOf(f) {
				if s, ok := in.(*ssa.Store); ok {
					if fa, ok := s.Addr.(*ssa.FieldAddr); ok && fa.Field == idx {
						if n2, _ := structOf(fa.X.Type()); n2 != nil && nt != nil && n2.Obj() == nt.Obj() {
							found = true
							inner := map[string]bool{}
							oc.walk(s.Val, inner, map[ssa.Value]bool{}, depth+1)
							oc.mapBack(f, call, inner, set, seen, depth)
						}
					}
				}
			}
			if found {
				return
			}
		}
	}
	set["field:"+tn+"."+fname] = true
}

// mapBack translates origins computed inside callee f into the caller's terms.
func (oc *originCtx) mapBack(f *ssa.Function, call *ssa.Call, inner, set map[string]bool, seen map[ssa.Value]bool, depth int) {
	for o := range inner {
		if strings.HasPrefix(o, "param:"+funcName(f)+"#") {
			pname := strings.TrimPrefix(o, "param:"+funcName(f)+"#")
			for i, prm := range f.Params {
				if prm.Name() == pname {
					args := call.Call.Args
					if i < len(args) {
						oc.walk(args[i], set, seen, depth+1)
					}
				}
			}
			continue
		}
		set[o] = true
	}
}

func (oc *originCtx) callResult(c *ssa.Call, idx int, set map[string]bool, seen map[ssa.Value]bool, depth int) {
	if b, ok := c.Call.Value.(*ssa.Builtin); ok {
		switch b.Name() {
		case "append":
			// append(a, b...) keeps a's backing array when it has room, else allocates: origin of a; the appended
			// bytes are copied. append to a nil/empty literal is fresh.
			oc.walk(c.Call.Args[0], set, seen, depth)
		default:
			set["fresh"] = true
		}
		return
	}
	f := c.Call.StaticCallee()
	if f == nil {
		set["ext:dynamic"] = true
		return
	}
	if !oc.p.isRepoFunc(f) || f.Blocks == nil {
		name := trimPkg(f.String())
		// stdlib copies
		switch staticCalleeName(c.Common()) {
		case "bytes.Clone", "slices.Clone", "io.ReadAll", "(*bytes.Buffer).Bytes":
			if staticCalleeName(c.Common()) == "(*bytes.Buffer).Bytes" {
				set["ext:bytes.Buffer"] = true
			} else {
				set["fresh"] = true
			}
			return
		}
		// decoders that append into the destination they are given: origin of that destination
		if strings.HasSuffix(name, ".DecodeAll") && len(c.Call.Args) >= 3 {
			oc.walk(c.Call.Args[2], set, seen, depth)
			return
		}
		set["ext:"+name] = true
		return
	}
	inner := map[string]bool{}
	for _, in := range instrsOf(f) {
		if ret, ok := in.(*ssa.Return); ok && idx < len(ret.Results) {
			oc.walk(ret.Results[idx], inner, map[ssa.Value]bool{}, depth+1)
		}
	}
	oc.mapBack(f, c, inner, set, seen, depth)
}

// originsUp: like origins, but a parameter of an unexported function is replaced by where its arguments come from at
// every static call site (two levels up), so that a helper that is handed a window of a field still counts as working
// on that field.
func (oc *originCtx) originsUp(v ssa.Value) []string {
	return oc.originsUpDepth(v, 2)
}

func (oc *originCtx) originsUpDepth(v ssa.Value, depth int) []string {
	set := map[string]bool{}
	var resolve func(v ssa.Value, depth int)
	resolve = func(v ssa.Value, depth int) {
		for _, o := range oc.origins(v) {
			if !strings.HasPrefix(o, "param:") || depth <= 0 {
				set[o] = true
				continue
			}
			// find the parameter among the values feeding v
			var prm *ssa.Parameter
			seen := map[ssa.Value]bool{}
			var find func(x ssa.Value, d int)
			find = func(x ssa.Value, d int) {
				if x == nil || seen[x] || d > 8 || prm != nil {
					return
				}
				seen[x] = true
				switch y := x.(type) {
				case *ssa.Parameter:
					if "param:"+funcName(y.Parent())+"#"+y.Name() == o {
						prm = y
					}
				case *ssa.Slice:
					find(y.X, d+1)
				case *ssa.ChangeType:
					find(y.X, d+1)
				case *ssa.MakeInterface:
					find(y.X, d+1)
				case *ssa.Phi:
					for _, e := range y.Edges {
						find(e, d+1)
					}
				case *ssa.UnOp:
					find(y.X, d+1)
				case *ssa.Alloc:
					for _, ref := range *y.Referrers() {
						if st, ok := ref.(*ssa.Store); ok && st.Addr == ssa.Value(y) {
							find(st.Val, d+1)
						}
					}
				}
			}
			find(v, 0)
			if prm == nil || ast.IsExported(prm.Parent().Name()) {
				set[o] = true
				continue
			}
			sites := oc.p.staticCallers(prm.Parent())
			if len(sites) == 0 {
				set[o] = true
				continue
			}
			idx := -1
			for i, q := range prm.Parent().Params {
				if q == prm {
					idx = i
				}
			}
			for _, s := range sites {
				if idx >= 0 && idx < len(s.Common().Args) {
					resolve(s.Common().Args[idx], depth-1)
				}
			}
		}
	}
	resolve(v, depth)
	var out []string
	for k := range set {
		out = append(out, k)
	}
	sort.Strings(out)
	return out
}
