package main

import (
	"go/token"
	"go/types"
	"strings"

	"golang.org/x/tools/go/ssa"
)

func init() { register("C14", true, checkC14) }

// sinkSpec: what counts as "writing to the destination" (or to the per-chunk compressor in front of it).
func sinkSpec() *effectSpec {
	return &effectSpec{
		name: "sink",
		stdFuncs: map[string]bool{
			"io.Copy": true, "io.CopyN": true, "io.CopyBuffer": true, "io.WriteString": true,
		},
		ifaceMeth: func(recv types.Type, m string) bool {
			// Write/Close on an io.Writer-like interface; hash.Hash (never fails, has Sum) is excluded.
			if m != "Write" && m != "Close" {
				return false
			}
			if !hasMethod(recv, "Write") || hasMethod(recv, "Sum") {
				return false
			}
			return true
		},
	}
}

// writerScope: functions of go/mcap reachable from NewWriter and the methods of the writer-side types.
func writerScope(p *Program) map[*ssa.Function]bool {
	var roots []*ssa.Function
	sp := p.SSAPkgs[pkgMcap]
	if f := p.lookupFunc(pkgMcap, "NewWriter"); f != nil {
		roots = append(roots, f)
	}
	for _, tn := range []string{"Writer", "writeSizer", "crcWriter", "countingCRCWriter", "bufCloser"} {
		tm, ok := sp.Members[tn].(*ssa.Type)
		if !ok {
			continue
		}
		for _, t := range []types.Type{tm.Type(), types.NewPointer(tm.Type())} {
			ms := p.SSA.MethodSets.MethodSet(t)
			for i := 0; i < ms.Len(); i++ {
				if f := p.SSA.MethodValue(ms.At(i)); f != nil {
					roots = append(roots, f)
				}
			}
		}
	}
	reach := p.reachableFrom(roots...)
	out := map[*ssa.Function]bool{}
	for f := range reach {
		if p.isRepoFunc(f) && p.funcPkgPath(f) == pkgMcap && f.Blocks != nil && f.Synthetic == "" {
			out[f] = true
		}
	}
	return out
}

func sortedFuncs(m map[*ssa.Function]bool) []*ssa.Function {
	var out []*ssa.Function
	for f := range m {
		out = append(out, f)
	}
	sortFuncs(out)
	return out
}

func sortFuncs(out []*ssa.Function) {
	for i := 1; i < len(out); i++ {
		for j := i; j > 0; j-- {
			a, b := funcName(out[j-1]), funcName(out[j])
			if a > b || (a == b && out[j-1].Pos() > out[j].Pos()) {
				out[j-1], out[j] = out[j], out[j-1]
			} else {
				break
			}
		}
	}
}

func checkC14(p *Program, r *Result) {
	r.Explanation = "Structural necessary conditions of 'a failing sink is reported by the call it hits': (C14.a) in every writer-side function of go/mcap, " +
		"each call that can reach a write on the destination (or on the chunk compressor in front of it) and returns an error has that error bound, " +
		"and on every CFG path the error is tested or returned before the next sink-reaching call, with the non-nil branch returning a non-nil error; " +
		"(C14.b) WriteAttachment compares the copied byte count with the declared DataSize and returns an error on mismatch before any index/statistics update; " +
		"(C14.c, note only) bookkeeping that describes a record happens after that record's writes succeeded. " +
		"Decided from go/ssa + VTA call graph; no code is executed."
	r.NotDecided = []string{
		"that the bytes accepted by the destination are a prefix of the fault-free output (run-time)",
		"absence of panics under faults",
		"assumes the io.Writer contract: a short write comes with a non-nil error",
	}
	r.rule("C14.a", "every sink-reaching call's error is bound, tested before the next sink-reaching call, and returned non-nil", 38)
	r.rule("C14.b", "attachment byte count is compared with DataSize; mismatch returns an error before index/statistics updates", 3)
	r.rule("C14.c", "(note) per-record bookkeeping follows the record's successful writes", 0)

	spec := sinkSpec()
	R := p.reachSet(spec)
	scope := p.scopeFn(spec, R)
	cfg := errFlowCfg{rule: "C14.a", inScope: scope}
	for _, fn := range sortedFuncs(writerScope(p)) {
		r.Funcs[funcName(fn)] = true
		runErrFlow(p, r, fn, cfg)
	}

	// C14.b
	wa := p.lookupFunc(pkgMcap, "Writer.WriteAttachment")
	if wa == nil {
		r.undecided("C14.b", "mcap.Writer.WriteAttachment", "anchor", "", "function not found")
		return
	}
	checkAttachmentSize(p, r, wa)
	checkBookkeepingOrder(p, r, scope)
}

func checkAttachmentSize(p *Program, r *Result, wa *ssa.Function) {
	fname := funcName(wa)
	// the copy may sit in an unexported helper of WriteAttachment: the comparison is then looked for in that helper, and
	// the bookkeeping in WriteAttachment must follow the success branch of the helper's error test
	root := wa
	var copies []ssa.CallInstruction
	tops := map[ssa.CallInstruction]ssa.CallInstruction{}
	for _, dc := range deepCalls(p, wa, 3) {
		if calleeIs(dc.in, "io.Copy", "io.CopyN", "io.CopyBuffer") {
			copies = append(copies, dc.in)
			tops[dc.in] = dc.top()
		}
	}
	if len(copies) == 0 {
		r.undecided("C14.b", fname, "copy of a.Data", p.pos(wa.Pos()), "no io.Copy of the attachment data found; streaming idiom not recognised")
		return
	}
	for _, cp := range copies {
		call, ok := cp.(*ssa.Call)
		if !ok {
			continue
		}
		wa := call.Parent()
		// the source operand must be the attachment's Data field
		var n ssa.Value
		for _, ref := range *call.Referrers() {
			if ex, ok := ref.(*ssa.Extract); ok && ex.Index == 0 {
				n = ex
			}
		}
		pos := p.pos(call.Pos())
		if n == nil {
			r.violated("C14.b", fname, "byte count of io.Copy(a.Data)", pos, "the number of bytes copied is discarded, so a short or long data source cannot be detected")
			continue
		}
		// find comparison n (converted) vs a.DataSize
		var cmp *ssa.BinOp
		for _, in := range instrsOf(wa) {
			b, ok := in.(*ssa.BinOp)
			if !ok || (b.Op != token.NEQ && b.Op != token.EQL) {
				continue
			}
			x, y := stripConv(b.X), stripConv(b.Y)
			if (x == n && loadOfField(b.Y, "Attachment", "DataSize")) || (y == n && loadOfField(b.X, "Attachment", "DataSize")) {
				cmp = b
			}
		}
		if cmp == nil {
			r.violated("C14.b", fname, "byte count of io.Copy(a.Data) vs a.DataSize", pos, "no ==/!= comparison between the copied byte count and Attachment.DataSize")
			continue
		}
		var iff *ssa.If
		for _, ref := range *cmp.Referrers() {
			if i, ok := ref.(*ssa.If); ok {
				iff = i
			}
		}
		if iff == nil {
			r.violated("C14.b", fname, "byte count of io.Copy(a.Data) vs a.DataSize", pos, "comparison result does not guard a branch")
			continue
		}
		mismatch, match := iff.Block().Succs[0], iff.Block().Succs[1]
		if cmp.Op == token.EQL {
			mismatch, match = match, mismatch
		}
		if !returnsNonNilErrOnAllPaths(wa, mismatch) {
			r.violated("C14.b", fname, "size mismatch branch", p.pos(iff.Pos()), "a byte-count mismatch does not return a non-nil error on every path")
		} else {
			r.held("C14.b", fname, "size mismatch branch", p.pos(iff.Pos()), "mismatch returns a non-nil error")
		}
		// bookkeeping must be dominated by the match successor
		for _, f := range []struct{ t, f string }{{"Writer", "AttachmentIndexes"}, {"Statistics", "AttachmentCount"}} {
			for _, st := range regionStores(regionOf(p, root, 3), f.t, f.f) {
				inHelperOK := false
				if st.Parent() != wa && st.Parent() == root {
					if top, ok := tops[cp].(*ssa.Call); ok && errSuccessDominates(top, st) {
						inHelperOK = true
					}
				}
				if inHelperOK {
					r.held("C14.b", fname, "update of "+f.t+"."+f.f+" after size check", p.pos(st.Pos()), "follows the success branch of the helper that copies and checks the size")
				} else if st.Parent() != wa && st.Parent() != root {
					r.note("C14.b", fname, "update of "+f.t+"."+f.f+" after size check", p.pos(st.Pos()), "bookkeeping and copy live in different helpers: order not judged")
				} else if st.Parent() == wa && match.Dominates(st.Block()) && len(match.Preds) == 1 {
					r.held("C14.b", fname, "update of "+f.t+"."+f.f+" after size check", p.pos(st.Pos()), "dominated by the size-match branch")
				} else {
					r.violated("C14.b", fname, "update of "+f.t+"."+f.f+" after size check", p.pos(st.Pos()), "index/statistics update is not dominated by the successful size comparison")
				}
			}
		}
	}
}

// checkBookkeepingOrder (notes): stores to Statistics counters / index appends that precede the record's sink write.
func checkBookkeepingOrder(p *Program, r *Result, scope func(ssa.CallInstruction) (bool, string)) {
	for _, name := range []string{"Writer.WriteMessage", "Writer.WriteMetadata", "Writer.WriteAttachment", "Writer.WriteChunkWithIndexes"} {
		fn := p.lookupFunc(pkgMcap, name)
		if fn == nil {
			continue
		}
		var sinkCalls []ssa.Instruction
		for _, in := range instrsOf(fn) {
			if ci, ok := in.(ssa.CallInstruction); ok {
				if ok, _ := scope(ci); ok {
					sinkCalls = append(sinkCalls, in)
				}
			}
		}
		for _, in := range instrsOf(fn) {
			st, ok := in.(*ssa.Store)
			if !ok {
				continue
			}
			tn, f, _, ok := fieldRef(st.Addr)
			if !ok || tn != "Statistics" || !strings.HasSuffix(f, "Count") {
				continue
			}
			before := false
			for _, sc := range sinkCalls {
				if instrDominates(in, sc) {
					before = true
				}
			}
			if before {
				r.note("C14.c", funcName(fn), "Statistics."+f+" updated before the record's sink write", p.pos(st.Pos()),
					"a failed call is still counted; the property does not constrain the summary of a failed run")
			}
		}
	}
}

// errSuccessDominates: at is only reached after the error result of call was tested and found nil.
func errSuccessDominates(call *ssa.Call, at ssa.Instruction) bool {
	var errv ssa.Value
	res := call.Call.Signature().Results()
	if res.Len() == 0 || !isErrorType(res.At(res.Len()-1).Type()) {
		return false
	}
	if res.Len() == 1 {
		errv = call
	} else {
		for _, ref := range *call.Referrers() {
			if ex, ok := ref.(*ssa.Extract); ok && ex.Index == res.Len()-1 {
				errv = ex
			}
		}
	}
	if errv == nil {
		return false
	}
	for _, ref := range *errv.Referrers() {
		b, ok := ref.(*ssa.BinOp)
		if !ok || !(isNilConst(b.X) || isNilConst(b.Y)) {
			continue
		}
		for _, r2 := range *b.Referrers() {
			iff, ok := r2.(*ssa.If)
			if !ok {
				continue
			}
			succ := iff.Block().Succs[1] // err != nil: false branch is success
			if b.Op == token.EQL {
				succ = iff.Block().Succs[0]
			}
			if len(succ.Preds) == 1 && succ.Dominates(at.Block()) {
				return true
			}
		}
	}
	return false
}
